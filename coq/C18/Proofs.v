(** C18 — proofs.  Part I: what [trace_ok] means (provider independent).
    Part II: every history of the file-system / HTTP-endpoint model yields a
    trace that is [trace_ok] (induction over histories with the invariant
    "stored hash = latest valid content seen").  Part III: world-level
    statements for the file system (fairness, stale and ignored notifications). *)
From HV Require Import Base.Prelude C18.Model C18.Spec.

Ltac splits := repeat match goal with |- _ /\ _ => split end.

(** * Basics *)

Lemma sid_eqb_eq a b : sid_eqb a b = true <-> a = b.
Proof.
  destruct a as [p n x], b as [q m y]; unfold sid_eqb; simpl. split.
  - intro H. apply andb_true_iff in H as [H H3]. apply andb_true_iff in H as [H1 H2].
    apply Bool.eqb_prop in H1. apply Nat.eqb_eq in H2. apply Nat.eqb_eq in H3. congruence.
  - intro H; inversion H; subst. rewrite Bool.eqb_reflx, !Nat.eqb_refl. reflexivity.
Qed.

Lemma sid_eqb_refl a : sid_eqb a a = true.
Proof. apply sid_eqb_eq. reflexivity. Qed.

Lemma sid_eqb_neq a b : sid_eqb a b = false <-> a <> b.
Proof.
  split.
  - intros H E. apply sid_eqb_eq in E. congruence.
  - intro H. destruct (sid_eqb a b) eqn:E; [apply sid_eqb_eq in E; contradiction | reflexivity].
Qed.

Lemma sid_eqb_sym a b : sid_eqb a b = sid_eqb b a.
Proof.
  destruct (sid_eqb a b) eqn:E.
  - apply sid_eqb_eq in E; subst. symmetry. apply sid_eqb_refl.
  - symmetry. apply sid_eqb_neq. apply sid_eqb_neq in E. congruence.
Qed.

Lemma sid_eqb_Sid f g : sid_eqb (Sid f) (Sid g) = Nat.eqb f g.
Proof. unfold sid_eqb, Sid; simpl. reflexivity. Qed.

Lemma sid_dec (a b : sid) : {a = b} + {a <> b}.
Proof. destruct (sid_eqb a b) eqn:E; [left; apply sid_eqb_eq; exact E | right; apply sid_eqb_neq; exact E]. Qed.

Lemma latest_valid_accepted acc l c : latest_valid acc l = Some c -> acc c = true.
Proof.
  induction l as [|o l IH]; simpl; [discriminate|].
  destruct o as [d| | |]; try assumption; try discriminate.
  destruct (acc d) eqn:E; [intro H; inversion H; subst; exact E | assumption].
Qed.

(** * Part I — the meaning of [trace_ok] *)

(** the accepted calls applied to one source's entry *)
Definition apply_kc (x : option cid) (kc : pkind * option cid) : option cid :=
  match fst kc with
  | KCreated | KUpdated => snd kc
  | KDeleted => None
  end.

Lemma apply_calls_on a ps s :
  apply_calls a ps s = fold_left apply_kc (calls_on s ps) (a s).
Proof.
  unfold apply_calls. revert a. induction ps as [|p ps IH]; intro a; simpl; [reflexivity|].
  rewrite IH. unfold calls_on; simpl. unfold apply_call.
  destruct (p_ok p) eqn:Eok; simpl.
  - destruct (sid_eqb (p_src p) s) eqn:Es; simpl.
    + apply sid_eqb_eq in Es. subst s.
      unfold apply_kc at 2; simpl. destruct (p_kind p); unfold a_set; rewrite sid_eqb_refl; reflexivity.
    + assert (sid_eqb s (p_src p) = false) as Es' by (rewrite sid_eqb_sym; exact Es).
      destruct (p_kind p); unfold a_set; rewrite Es'; reflexivity.
  - reflexivity.
Qed.

Lemma apply_expected x y (Hy : forall c, y = Some c -> True) :
  fold_left apply_kc (expected_calls x y) x = y.
Proof.
  destruct x as [a|], y as [b|]; simpl; try reflexivity.
  destruct (Nat.eqb a b) eqn:E; simpl; [apply Nat.eqb_eq in E; subst; reflexivity | reflexivity].
Qed.

Lemma seen_fold_notin (obs : list (sid * sobs)) m s :
  ~ In s (map fst obs) ->
  fold_left (fun m so => seen_add m (fst so) (snd so)) obs m s = m s.
Proof.
  revert m. induction obs as [|[t o] obs IH]; intros m H; simpl in *; [reflexivity|].
  rewrite IH by tauto. unfold seen_add. destruct (sid_eqb s t) eqn:E; [|reflexivity].
  apply sid_eqb_eq in E. subst. tauto.
Qed.

Lemma nodup_sidb_NoDup l : nodup_sidb l = true <-> NoDup l.
Proof.
  induction l as [|s l IH]; simpl.
  - split; [constructor | reflexivity].
  - rewrite andb_true_iff, negb_true_iff, IH. split.
    + intros [H1 H2]. constructor; [|assumption]. intro Hin.
      assert (existsb (sid_eqb s) l = true) as X
        by (apply existsb_exists; exists s; split; [assumption | apply sid_eqb_refl]).
      congruence.
    + intro H. inversion H; subst. split; [|assumption].
      destruct (existsb (sid_eqb s) l) eqn:E; [|reflexivity].
      apply existsb_exists in E as [t [Ht Et]]. apply sid_eqb_eq in Et. subst. contradiction.
Qed.

Lemma seen_fold_in (obs : list (sid * sobs)) m s o :
  NoDup (map fst obs) -> In (s, o) obs ->
  fold_left (fun m so => seen_add m (fst so) (snd so)) obs m s = o :: m s.
Proof.
  revert m. induction obs as [|[t o'] obs IH]; intros m Hnd Hin; simpl in *; [contradiction|].
  inversion Hnd as [|? ? Hnotin Hnd']; subst.
  destruct Hin as [E|Hin].
  - inversion E; subst. rewrite seen_fold_notin by assumption.
    unfold seen_add. rewrite sid_eqb_refl. reflexivity.
  - rewrite IH by assumption. unfold seen_add.
    destruct (sid_eqb s t) eqn:E; [|reflexivity].
    apply sid_eqb_eq in E. subst. exfalso. apply Hnotin. apply in_map_iff. exists (t, o). auto.
Qed.

(** [step_ok] spelled out *)
Lemma step_ok_iff acc m st :
  step_ok acc m st = true <->
  NoDup (map fst (t_obs st)) /\
  (forall p, In p (t_calls st) -> p_ok p = true -> In (p_src p) (map fst (t_obs st))) /\
  (forall s o, In (s, o) (t_obs st) ->
     calls_on s (t_calls st) = expected_calls (latest_valid acc (m s)) (latest_valid acc (o :: m s))).
Proof.
  unfold step_ok. rewrite !andb_true_iff, nodup_sidb_NoDup, !forallb_forall.
  assert (KC : forall x y, kc_eqb x y = true <-> x = y).
  { intros [k1 c1] [k2 c2]. unfold kc_eqb; simpl. rewrite andb_true_iff. split.
    - intros [H1 H2]. f_equal.
      + destruct k1, k2; simpl in H1; congruence.
      + destruct c1, c2; simpl in H2; try congruence. apply Nat.eqb_eq in H2. congruence.
    - intro H; inversion H; subst. split; [destruct k2; reflexivity|].
      destruct c2; simpl; [apply Nat.eqb_refl | reflexivity]. }
  split.
  - intros [[H1 H2] H3]. splits; [assumption| |].
    + intros p Hp Hok. specialize (H2 p Hp). rewrite Hok in H2. simpl in H2.
      apply existsb_exists in H2 as [[t o] [Hin Heq]]. simpl in Heq. apply sid_eqb_eq in Heq.
      rewrite Heq. apply in_map_iff. exists (t, o). auto.
    + intros s o Hin. specialize (H3 (s, o) Hin). simpl in H3.
      apply (list_eqb_spec kc_eqb KC) in H3. exact H3.
  - intros [H1 [H2 H3]]. splits; [assumption| |].
    + intros p Hp. destruct (p_ok p) eqn:Hok; [|reflexivity]. simpl.
      specialize (H2 p Hp Hok). apply in_map_iff in H2 as [[t o] [E Hin]]. simpl in E.
      apply existsb_exists. exists (t, o). split; [assumption|]. simpl. subst. apply sid_eqb_refl.
    + intros [s o] Hin. apply (list_eqb_spec kc_eqb KC). apply H3. exact Hin.
Qed.

Lemma calls_on_nil_notin s ps :
  (forall p, In p ps -> p_ok p = true -> p_src p <> s) -> calls_on s ps = [].
Proof.
  intro H. unfold calls_on. induction ps as [|p ps IH]; simpl; [reflexivity|].
  destruct (p_ok p) eqn:Eok; simpl.
  - destruct (sid_eqb (p_src p) s) eqn:Es; simpl.
    + apply sid_eqb_eq in Es. exfalso. apply (H p); [left; reflexivity | assumption | assumption].
    + apply IH. intros q Hq. apply H. right. assumption.
  - apply IH. intros q Hq. apply H. right. assumption.
Qed.

(** one step keeps "active = latest valid of what was seen" *)
Lemma step_ok_active acc m st a :
  step_ok acc m st = true ->
  (forall s, a s = latest_valid acc (m s)) ->
  forall s, apply_calls a (t_calls st) s = latest_valid acc (seen_step m st s).
Proof.
  intros Hok Ha s. apply step_ok_iff in Hok as [Hnd [Hframe Hexp]].
  rewrite apply_calls_on. unfold seen_step.
  destruct (in_dec sid_dec s (map fst (t_obs st))) as [Hin|Hnot].
  - apply in_map_iff in Hin as [[t o] [E Hin]]. simpl in E. subst t.
    rewrite (seen_fold_in _ _ _ _ Hnd Hin). rewrite (Hexp _ _ Hin). rewrite Ha.
    apply apply_expected. trivial.
  - rewrite seen_fold_notin by assumption.
    rewrite calls_on_nil_notin.
    + simpl. apply Ha.
    + intros p Hp Hpok E. apply Hnot. rewrite <- E. apply Hframe; assumption.
Qed.

Lemma trace_ok_from_active acc tr : forall m a,
  trace_ok_from acc m tr = true ->
  (forall s, a s = latest_valid acc (m s)) ->
  forall s, fold_left (fun a st => apply_calls a (t_calls st)) tr a s
            = latest_valid acc (fold_left seen_step tr m s).
Proof.
  induction tr as [|st tr IH]; intros m a Hok Ha s; simpl in *; [apply Ha|].
  apply andb_true_iff in Hok as [H1 H2].
  apply IH; [assumption|]. intro t. apply step_ok_active; assumption.
Qed.

(** MEANING 1 (converges): after a trace that is [trace_ok], what the accepted
    calls leave active for a source is the latest valid content seen of it. *)
Theorem trace_ok_active acc tr :
  trace_ok acc tr = true ->
  forall s, active_of tr s = latest_valid acc (seen_of tr s).
Proof.
  intros H s. unfold active_of, seen_of. apply trace_ok_from_active with (m := seen_empty); [exact H|].
  intro t. reflexivity.
Qed.

Lemma trace_ok_from_app acc tr1 : forall m tr2,
  trace_ok_from acc m (tr1 ++ tr2) = trace_ok_from acc m tr1 && trace_ok_from acc (fold_left seen_step tr1 m) tr2.
Proof.
  induction tr1 as [|st tr1 IH]; intros m tr2; simpl; [reflexivity|].
  rewrite IH. rewrite andb_assoc. reflexivity.
Qed.

(** the last step of a [trace_ok] trace, spelled out against the active map before it *)
Lemma trace_ok_last acc tr st :
  trace_ok acc (tr ++ [st]) = true ->
  trace_ok acc tr = true /\
  NoDup (map fst (t_obs st)) /\
  (forall p, In p (t_calls st) -> p_ok p = true -> In (p_src p) (map fst (t_obs st))) /\
  (forall s o, In (s, o) (t_obs st) ->
     calls_on s (t_calls st) =
     expected_calls (active_of tr s) (latest_valid acc (o :: seen_of tr s))).
Proof.
  unfold trace_ok. rewrite trace_ok_from_app. simpl. rewrite andb_true_r.
  intro H. apply andb_true_iff in H as [H1 H2]. split; [exact H1|].
  apply step_ok_iff in H2 as [Hnd [Hf He]]. splits; try assumption.
  intros s o Hin. rewrite (He s o Hin). fold (seen_of tr). rewrite (trace_ok_active acc tr H1 s).
  reflexivity.
Qed.

(** MEANING 2 (unchanged content triggers no reload) *)
Theorem trace_ok_unchanged_no_reload acc tr st s c :
  trace_ok acc (tr ++ [st]) = true ->
  In (s, SNew c) (t_obs st) -> active_of tr s = Some c ->
  calls_on s (t_calls st) = [] /\ active_of (tr ++ [st]) s = Some c.
Proof.
  intros H Hin Hact. pose proof (trace_ok_last _ _ _ H) as [Htr [Hnd [Hf He]]].
  assert (acc c = true) as Hacc.
  { rewrite (trace_ok_active acc tr Htr) in Hact. eapply latest_valid_accepted; eauto. }
  split.
  - rewrite (He _ _ Hin), Hact. simpl. rewrite Hacc, Nat.eqb_refl. reflexivity.
  - rewrite (trace_ok_active acc _ H). unfold seen_of. rewrite fold_left_app. simpl.
    unfold seen_step at 1. fold (seen_of tr). rewrite (seen_fold_in _ _ _ _ Hnd Hin). simpl. rewrite Hacc. reflexivity.
Qed.

(** MEANING 3 (each content change is applied exactly once): a new valid,
    accepted content is applied by exactly one accepted call — OnCreated when
    nothing was active, OnUpdated otherwise *)
Theorem trace_ok_change_applied_once acc tr st s c :
  trace_ok acc (tr ++ [st]) = true ->
  In (s, SNew c) (t_obs st) -> acc c = true -> active_of tr s <> Some c ->
  calls_on s (t_calls st) = [(match active_of tr s with None => KCreated | Some _ => KUpdated end, Some c)] /\
  active_of (tr ++ [st]) s = Some c.
Proof.
  intros H Hin Hacc Hact. pose proof (trace_ok_last _ _ _ H) as [Htr [Hnd [Hf He]]].
  split.
  - rewrite (He _ _ Hin). simpl. rewrite Hacc. destruct (active_of tr s) as [x|]; simpl; [|reflexivity].
    destruct (Nat.eqb x c) eqn:E; [|reflexivity]. apply Nat.eqb_eq in E. subst. congruence.
  - rewrite (trace_ok_active acc _ H). unfold seen_of. rewrite fold_left_app. simpl.
    unfold seen_step at 1. fold (seen_of tr). rewrite (seen_fold_in _ _ _ _ Hnd Hin). simpl. rewrite Hacc. reflexivity.
Qed.

(** MEANING 4 (removed or emptied sources are unloaded, by one OnDeleted if they were loaded) *)
Theorem trace_ok_removed_unloaded acc tr st s :
  trace_ok acc (tr ++ [st]) = true ->
  In (s, SGone) (t_obs st) ->
  active_of (tr ++ [st]) s = None /\
  calls_on s (t_calls st) = match active_of tr s with None => [] | Some _ => [(KDeleted, None)] end.
Proof.
  intros H Hin. pose proof (trace_ok_last _ _ _ H) as [Htr [Hnd [Hf He]]].
  split.
  - rewrite (trace_ok_active acc _ H). unfold seen_of. rewrite fold_left_app. simpl.
    unfold seen_step at 1. fold (seen_of tr). rewrite (seen_fold_in _ _ _ _ Hnd Hin). reflexivity.
  - rewrite (He _ _ Hin). simpl. destruct (active_of tr s); reflexivity.
Qed.

(** MEANING 5 (an invalid new version — or one the processor rejects — leaves
    the previously loaded version active, and nothing is applied) *)
Theorem trace_ok_invalid_keeps_previous acc tr st s o :
  trace_ok acc (tr ++ [st]) = true ->
  In (s, o) (t_obs st) ->
  (o = SBad \/ o = SNone \/ exists c, o = SNew c /\ acc c = false) ->
  active_of (tr ++ [st]) s = active_of tr s /\ calls_on s (t_calls st) = [].
Proof.
  intros H Hin Ho. pose proof (trace_ok_last _ _ _ H) as [Htr [Hnd [Hf He]]].
  assert (latest_valid acc (o :: seen_of tr s) = latest_valid acc (seen_of tr s)) as Hl.
  { destruct Ho as [->|[->|[c [-> Hc]]]]; simpl; try reflexivity. rewrite Hc. reflexivity. }
  split.
  - rewrite (trace_ok_active acc _ H). unfold seen_of. rewrite fold_left_app. simpl.
    unfold seen_step at 1. fold (seen_of tr). rewrite (seen_fold_in _ _ _ _ Hnd Hin).
    rewrite Hl. symmetry. apply trace_ok_active. exact Htr.
  - rewrite (He _ _ Hin), Hl, <- (trace_ok_active acc tr Htr s).
    destruct (active_of tr s) as [x|]; simpl; [rewrite Nat.eqb_refl|]; reflexivity.
Qed.

(** MEANING 6 (frame): a step applies nothing to a source it did not look at *)
Theorem trace_ok_frame acc tr st s :
  trace_ok acc (tr ++ [st]) = true ->
  ~ In s (map fst (t_obs st)) ->
  calls_on s (t_calls st) = [] /\ active_of (tr ++ [st]) s = active_of tr s.
Proof.
  intros H Hnot. pose proof (trace_ok_last _ _ _ H) as [Htr [Hnd [Hf He]]].
  split.
  - apply calls_on_nil_notin. intros p Hp Hok E. apply Hnot. rewrite <- E. apply Hf; assumption.
  - rewrite (trace_ok_active acc _ H), (trace_ok_active acc _ Htr). unfold seen_of. rewrite fold_left_app. simpl.
    unfold seen_step at 1. rewrite seen_fold_notin by assumption. reflexivity.
Qed.

(** * Part II — every history of the provider models is [trace_ok] *)

Section Providers.
Variable O : oracle.
Hypothesis Hdel : forall s, deletable O s = true.
Let acc := accepts O.

(** THE INVARIANT: the stored hash of a source is (the hash of) its latest valid content seen *)
Definition inv (k : states) (m : seen_map) : Prop := forall f, k f = latest_valid acc (m (Sid f)).

(** the decision both providers implement (each in its own way), as one function of
    the stored hash and of what is seen — used only to share the case analysis *)
Definition canon (k : states) (f : nat) (o : sobs) : hres :=
  let load (kind : pkind) (c : cid) :=
    let ok := accepts O c in
    {| h_st := if ok then st_set k f (Some c) else k;
       h_calls := [ {| p_kind := kind; p_src := Sid f; p_cid := Some c; p_ok := ok |} ];
       h_err := negb ok |} in
  match o with
  | SNew c => match k f with
              | None => load KCreated c
              | Some h => if Nat.eqb h c then hres_nop k false else load KUpdated c
              end
  | SGone => fs_deleted O k f
  | SBad => hres_nop k true
  | SNone => hres_nop k false
  end.

Lemma st_set_same k f v : st_set k f v f = v.
Proof. unfold st_set. rewrite Nat.eqb_refl. reflexivity. Qed.

Lemma st_set_other k f v g : g <> f -> st_set k f v g = k g.
Proof. intro H. unfold st_set. apply Nat.eqb_neq in H. rewrite H. reflexivity. Qed.

Lemma Sid_inj f g : Sid f = Sid g -> f = g.
Proof. intro H. inversion H. reflexivity. Qed.

Lemma calls_on_single s k c ok :
  calls_on s [ {| p_kind := k; p_src := s; p_cid := c; p_ok := ok |} ] = if ok then [(k, c)] else [].
Proof. unfold calls_on; simpl. rewrite sid_eqb_refl. destruct ok; reflexivity. Qed.

Lemma canon_facts k f o m :
  k f = latest_valid acc (m (Sid f)) ->
  let h := canon k f o in
  (forall p, In p (h_calls h) -> p_src p = Sid f) /\
  calls_on (Sid f) (h_calls h)
    = expected_calls (latest_valid acc (m (Sid f))) (latest_valid acc (o :: m (Sid f))) /\
  h_st h f = latest_valid acc (o :: m (Sid f)) /\
  (forall g, g <> f -> h_st h g = k g) /\
  h_err h = match o with SBad => true | SNew c => negb (acc c) | _ => false end.
Proof.
  intro Hk. subst acc. destruct o as [c| | |]; simpl.
  - destruct (k f) as [x|] eqn:Ekf.
    + destruct (Nat.eqb x c) eqn:Exc.
      * apply Nat.eqb_eq in Exc. subst x. simpl.
        assert (accepts O c = true) as Hc by (eapply latest_valid_accepted; symmetry; exact Hk).
        rewrite Hc, <- Hk. simpl. rewrite Nat.eqb_refl. splits; try tauto; try reflexivity; try exact Ekf.
      * simpl. rewrite calls_on_single. destruct (accepts O c) eqn:Hc; simpl; rewrite <- Hk; simpl;
          rewrite ?Exc, ?Nat.eqb_refl; splits;
          try reflexivity; try (intros p [<-|[]]; reflexivity); try apply st_set_same;
          try (intros g Hg; apply st_set_other; exact Hg); try exact Ekf.
    + simpl. rewrite calls_on_single. destruct (accepts O c) eqn:Hc; simpl; rewrite <- Hk; simpl; splits;
        try reflexivity; try (intros p [<-|[]]; reflexivity); try apply st_set_same;
        try (intros g Hg; apply st_set_other; exact Hg); try exact Ekf.
  - unfold fs_deleted. destruct (k f) as [x|] eqn:Ekf; simpl; rewrite <- Hk; simpl.
    + rewrite calls_on_single, Hdel. simpl. splits; try reflexivity;
        try (intros p [<-|[]]; reflexivity); try apply st_set_same.
      intros g Hg; apply st_set_other; exact Hg.
    + splits; try reflexivity; try tauto; try exact Ekf.
  - rewrite <- Hk. splits; try reflexivity; try tauto. destruct (k f); simpl; [rewrite Nat.eqb_refl|]; reflexivity.
  - rewrite <- Hk. splits; try reflexivity; try tauto. destruct (k f); simpl; [rewrite Nat.eqb_refl|]; reflexivity.
Qed.

(** a step that looks at one source and behaves like [canon] is right and keeps the invariant *)
Lemma canon_step_ok k m f o calls k' :
  inv k m -> calls = h_calls (canon k f o) -> k' = h_st (canon k f o) ->
  step_ok acc m {| t_obs := [(Sid f, o)]; t_calls := calls |} = true /\
  inv k' (seen_step m {| t_obs := [(Sid f, o)]; t_calls := calls |}).
Proof.
  intros Hinv -> ->. pose proof (canon_facts k f o m (Hinv f)) as [Hsrc [Hcalls [Hst [Hoth _]]]].
  split.
  - apply step_ok_iff; simpl. splits.
    + constructor; [intros []|constructor].
    + intros p Hp _. left. symmetry. apply Hsrc. exact Hp.
    + intros s o' [E|[]]. inversion E; subst. exact Hcalls.
  - intro g. unfold seen_step; simpl. unfold seen_add; simpl. rewrite sid_eqb_Sid.
    destruct (Nat.eqb g f) eqn:E.
    + apply Nat.eqb_eq in E. subst g. exact Hst.
    + apply Nat.eqb_neq in E. rewrite (Hoth g E). apply Hinv.
Qed.

(** a step that looks at nothing and calls nothing *)
Lemma idle_step_ok k m :
  inv k m ->
  step_ok acc m {| t_obs := []; t_calls := [] |} = true /\
  inv k (seen_step m {| t_obs := []; t_calls := [] |}).
Proof. intro H. split; [reflexivity | exact H]. Qed.

(** ** File system *)

Lemma content_absent_dec (w : content) : {w = CAbsent} + {w <> CAbsent}.
Proof. destruct w; [left; reflexivity | right; discriminate ..]. Qed.

Lemma fs_cou_canon k f w : fs_created_or_updated O k f w = canon k f (obs_of_content w).
Proof. destruct w; reflexivity. Qed.

Lemma has_nil o : has [] o = false.
Proof. reflexivity. Qed.

Lemma fs_dispatch_nil fixed : fs_dispatch fixed [] = DIgnore.
Proof. unfold fs_dispatch; simpl. rewrite andb_false_r. reflexivity. Qed.

Lemma fs_dispatch_fixed_cons o ops : fs_dispatch true (o :: ops) = DReread.
Proof.
  unfold fs_dispatch, has. destruct o; simpl;
    repeat match goal with |- context [existsb ?f ops] => destruct (existsb f ops) end; reflexivity.
Qed.

(** the guards of the two open findings, per event *)
Definition fs_ev_guard_F2 (e : fs_event) : bool :=
  match e with
  | FsNotify f ops => negb (is_nil ops) && match fs_dispatch false ops with DIgnore => true | _ => false end
  | _ => false
  end.

Definition fs_ev_guard_F4 (world : nat -> content) (e : fs_event) : bool :=
  match e with
  | FsNotify f ops =>
    match fs_dispatch false ops, world f with
    | DDelete, (CValid _ | CInvalid) => true
    | _, _ => false
    end
  | _ => false
  end.

(** C18-F2: the history contains a notification the provider ignores (Rename only) *)
Fixpoint fs_guard_F2_from (world : nat -> content) (h : list fs_event) : bool :=
  match h with
  | [] => false
  | e :: r => fs_ev_guard_F2 e || fs_guard_F2_from (world_step world e) r
  end.

(** C18-F4: the history contains a Remove notification processed while the file exists with content *)
Fixpoint fs_guard_F4_from (world : nat -> content) (h : list fs_event) : bool :=
  match h with
  | [] => false
  | e :: r => fs_ev_guard_F4 world e || fs_guard_F4_from (world_step world e) r
  end.

Definition fs_guard_F2 (h : list fs_event) := fs_guard_F2_from world0 h.
Definition fs_guard_F4 (h : list fs_event) := fs_guard_F4_from world0 h.

Lemma fs_notify_ok fixed k m f ops w :
  inv k m ->
  fixed = true \/ (fs_ev_guard_F2 (FsNotify f ops) = false /\ fs_ev_guard_F4 (fun _ => w) (FsNotify f ops) = false) ->
  let h := fs_changed O fixed k f ops w in
  let st := {| t_obs := if is_nil ops then [] else [(Sid f, obs_of_content w)]; t_calls := h_calls h |} in
  step_ok acc m st = true /\ inv (h_st h) (seen_step m st).
Proof.
  intros Hinv Hg. destruct ops as [|o ops].
  - unfold fs_changed. rewrite fs_dispatch_nil. simpl. apply idle_step_ok. exact Hinv.
  - cbn [is_nil]. unfold fs_changed.
    destruct fixed.
    + rewrite fs_dispatch_fixed_cons. rewrite fs_cou_canon. apply (canon_step_ok k m f (obs_of_content w)); auto.
    + destruct Hg as [Hg|[G2 G4]]; [discriminate|].
      simpl in G2, G4. destruct (fs_dispatch false (o :: ops)) eqn:Ed; try discriminate.
      * rewrite fs_cou_canon. apply (canon_step_ok k m f (obs_of_content w)); auto.
      * destruct w; try discriminate; apply (canon_step_ok k m f SGone); auto.
Qed.

(** the initial load *)
Lemma fs_scan_cons world k f r w :
  world f = w -> w <> CAbsent ->
  fs_scan_from O world k (f :: r) =
    (let h1 := canon k f (obs_of_content w) in
     if h_err h1 then h1
     else let h' := fs_scan_from O world (h_st h1) r in
          {| h_st := h_st h'; h_calls := h_calls h1 ++ h_calls h'; h_err := h_err h' |}) /\
  fs_scan_view acc world (f :: r) =
    (Sid f, obs_of_content w) :: (if fs_cannot_load acc w then [] else fs_scan_view acc world r).
Proof.
  intros Hw Hne. simpl. rewrite Hw. rewrite <- fs_cou_canon. destruct w; try contradiction; split; reflexivity.
Qed.

Lemma err_cannot_load w :
  match obs_of_content w with SBad => true | SNew c => negb (acc c) | _ => false end = fs_cannot_load acc w.
Proof. destruct w; reflexivity. Qed.

Lemma calls_on_app s a b : calls_on s (a ++ b) = calls_on s a ++ calls_on s b.
Proof. unfold calls_on. rewrite filter_app, map_app. reflexivity. Qed.

Lemma fs_scan_ok world m : forall fs k,
  NoDup fs -> (forall f, In f fs -> k f = latest_valid acc (m (Sid f))) ->
  let h := fs_scan_from O world k fs in
  let V := fs_scan_view acc world fs in
  (forall s o, In (s, o) V -> exists f, s = Sid f /\ In f fs) /\
  NoDup (map fst V) /\
  (forall p, In p (h_calls h) -> In (p_src p) (map fst V)) /\
  (forall s o, In (s, o) V ->
     calls_on s (h_calls h) = expected_calls (latest_valid acc (m s)) (latest_valid acc (o :: m s))) /\
  (forall f o, In (Sid f, o) V -> h_st h f = latest_valid acc (o :: m (Sid f))) /\
  (forall f, ~ In (Sid f) (map fst V) -> h_st h f = k f).
Proof.
  induction fs as [|f r IH]; intros k Hnd Hk.
  - simpl. splits; try tauto; try constructor.
  - inversion Hnd as [|? ? Hnotin Hnd']; subst.
    assert (Hr : forall k', (forall g, g <> f -> k' g = k g) ->
                 forall g, In g r -> k' g = latest_valid acc (m (Sid g))).
    { intros k' Hk' g Hg. rewrite Hk'; [apply Hk; right; exact Hg|]. intro E; subst; contradiction. }
    destruct (content_absent_dec (world f)) as [Ew|Ew].
    + (* not listed *)
      simpl fs_scan_from. simpl fs_scan_view. rewrite Ew.
      specialize (IH k Hnd' (Hr k (fun _ _ => eq_refl))). simpl in IH.
      destruct IH as [I1 [I2 [I3 [I4 [I5 I6]]]]]. cbv zeta. splits; try assumption.
      intros s o Hin. destruct (I1 s o Hin) as [g [-> Hg]]. exists g. split; [reflexivity | right; exact Hg].
    + destruct (fs_scan_cons world k f r (world f) eq_refl Ew) as [-> ->].
      set (o1 := obs_of_content (world f)).
      pose proof (canon_facts k f o1 m (Hk f (or_introl eq_refl))) as [C1 [C2 [C3 [C4 C5]]]].
      unfold o1 in C5. rewrite err_cannot_load in C5. fold o1 in C5.
      set (h1 := canon k f o1) in *. cbv zeta. rewrite C5.
      destruct (fs_cannot_load acc (world f)).
      * (* the load stops here *)
        simpl. splits.
        -- intros s o [E|[]]. inversion E. exists f; auto.
        -- constructor; [intros []|constructor].
        -- intros p Hp. left. symmetry. apply C1. exact Hp.
        -- intros s o [E|[]]. inversion E; subst. exact C2.
        -- intros g o [E|[]]. inversion E; subst. exact C3.
        -- intros g Hg. apply C4. intro E; subst; apply Hg; left; reflexivity.
      * specialize (IH (h_st h1) Hnd' (Hr (h_st h1) C4)). simpl in IH.
        destruct IH as [I1 [I2 [I3 [I4 [I5 I6]]]]].
        assert (Hf : ~ In (Sid f) (map fst (fs_scan_view acc world r))).
        { intro X. apply in_map_iff in X as [[s o] [E Hin]]. simpl in E. subst s.
          destruct (I1 _ _ Hin) as [g [E Hg]]. apply Sid_inj in E. subst. contradiction. }
        simpl. splits.
        -- intros s o [E|Hin]; [inversion E; exists f; auto|]. destruct (I1 s o Hin) as [g [-> Hg]]. exists g; auto.
        -- constructor; assumption.
        -- intros p Hp. apply in_app_or in Hp as [Hp|Hp]; [left; symmetry; apply C1; exact Hp | right; apply I3; exact Hp].
        -- intros s o [E|Hin].
           ++ inversion E; subst. rewrite calls_on_app, C2.
              rewrite (calls_on_nil_notin (Sid f) (h_calls (fs_scan_from O world (h_st h1) r))).
              ** apply app_nil_r.
              ** intros p Hp _ E'. apply Hf. rewrite <- E'. apply I3. exact Hp.
           ++ rewrite calls_on_app. rewrite (calls_on_nil_notin s (h_calls h1)).
              ** simpl. apply I4. exact Hin.
              ** intros p Hp _ E'. rewrite (C1 p Hp) in E'. subst s. apply Hf. apply in_map_iff. exists (Sid f, o). auto.
        -- intros g o [E|Hin].
           ++ inversion E; subst. rewrite (I6 g Hf). exact C3.
           ++ apply I5. exact Hin.
        -- intros g Hg. assert (g <> f) as Hgf by (intro E; subst; apply Hg; left; reflexivity).
           rewrite I6; [apply C4; exact Hgf | tauto].
Qed.

Lemma fs_scan_step_ok world k m n :
  inv k m ->
  let h := fs_scan_from O world k (seq 0 n) in
  let st := {| t_obs := fs_scan_view acc world (seq 0 n); t_calls := h_calls h |} in
  step_ok acc m st = true /\ inv (h_st h) (seen_step m st).
Proof.
  intro Hinv.
  pose proof (fs_scan_ok world m (seq 0 n) k (seq_NoDup n 0) (fun f _ => Hinv f)) as [S1 [S2 [S3 [S4 [S5 S6]]]]].
  cbv zeta. split.
  - apply step_ok_iff; simpl. splits; [assumption | | assumption].
    intros p Hp _. apply S3. exact Hp.
  - intro f. unfold seen_step; simpl.
    destruct (in_dec sid_dec (Sid f) (map fst (fs_scan_view acc world (seq 0 n)))) as [Hin|Hnot].
    + apply in_map_iff in Hin as [[s o] [E Hin]]. simpl in E. subst s.
      rewrite (seen_fold_in _ _ _ _ S2 Hin). apply S5. exact Hin.
    + rewrite seen_fold_notin by assumption. rewrite S6 by assumption. apply Hinv.
Qed.

(** one event of the file-system model *)
Lemma fs_event_ok fixed s m e :
  inv (fs_known s) m ->
  fixed = true \/ (fs_ev_guard_F2 e = false /\ fs_ev_guard_F4 (fs_world s) e = false) ->
  let x := fs_handle O fixed s e in
  let st := {| t_obs := fs_view acc (fs_world s) e; t_calls := h_calls x |} in
  step_ok acc m st = true /\ inv (h_st x) (seen_step m st).
Proof.
  intros Hinv Hg. destruct e as [f w|f ops|n]; simpl fs_handle; simpl fs_view.
  - apply idle_step_ok. exact Hinv.
  - apply fs_notify_ok; [exact Hinv|]. destruct Hg as [Hg|Hg]; [left; exact Hg | right; exact Hg].
  - apply fs_scan_step_ok. exact Hinv.
Qed.

Definition fs_trace_from (fixed : bool) (s : fs_state) (h : list fs_event) : list tstep :=
  mk_trace (fs_views_from acc (fs_world s) h) (map h_calls (snd (fs_run_from O fixed s h))).

Lemma fs_trace_from_cons fixed s e r :
  fs_trace_from fixed s (e :: r) =
  {| t_obs := fs_view acc (fs_world s) e; t_calls := h_calls (fs_handle O fixed s e) |}
    :: fs_trace_from fixed (fst (fs_step O fixed s e)) r.
Proof.
  unfold fs_trace_from. reflexivity.
Qed.

Lemma fs_final_cons fixed s e r :
  fst (fs_run_from O fixed s (e :: r)) = fst (fs_run_from O fixed (fst (fs_step O fixed s e)) r).
Proof. reflexivity. Qed.

Lemma fs_trace_ok_from fixed : forall h s m,
  inv (fs_known s) m ->
  fixed = true \/ (fs_guard_F2_from (fs_world s) h = false /\ fs_guard_F4_from (fs_world s) h = false) ->
  trace_ok_from acc m (fs_trace_from fixed s h) = true /\
  inv (fs_known (fst (fs_run_from O fixed s h))) (fold_left seen_step (fs_trace_from fixed s h) m).
Proof.
  induction h as [|e r IH]; intros s m Hinv Hg.
  - split; [reflexivity | exact Hinv].
  - rewrite fs_trace_from_cons, fs_final_cons. simpl trace_ok_from. simpl fold_left.
    assert (G : fixed = true \/ (fs_ev_guard_F2 e = false /\ fs_ev_guard_F4 (fs_world s) e = false)).
    { destruct Hg as [Hg|[G2 G4]]; [left; exact Hg | right]. simpl in G2, G4.
      apply orb_false_iff in G2 as [G2 _]. apply orb_false_iff in G4 as [G4 _]. split; assumption. }
    destruct (fs_event_ok fixed s m e Hinv G) as [Hok Hinv'].
    rewrite Hok. simpl.
    apply IH.
    + exact Hinv'.
    + destruct Hg as [Hg|[G2 G4]]; [left; exact Hg | right]. simpl in G2, G4.
      apply orb_false_iff in G2 as [_ G2]. apply orb_false_iff in G4 as [_ G4]. split; assumption.
Qed.

Definition fs_trace (fixed : bool) (h : list fs_event) : list tstep := fs_trace_from fixed fs_init h.

(** T_main (file system): every history outside the guards of C18-F2 / C18-F4
    (every history at all, for the repaired dispatch) yields a right trace *)
Theorem fs_trace_ok fixed h :
  fixed = true \/ (fs_guard_F2 h = false /\ fs_guard_F4 h = false) ->
  trace_ok acc (fs_trace fixed h) = true.
Proof.
  intro Hg. apply (fs_trace_ok_from fixed h fs_init seen_empty); [intro f; reflexivity | exact Hg].
Qed.

(** the invariant itself, for the record: stored hash = latest valid content seen *)
Theorem fs_known_latest_valid fixed h f :
  fixed = true \/ (fs_guard_F2 h = false /\ fs_guard_F4 h = false) ->
  fs_known (fst (fs_run O fixed h)) f = latest_valid acc (seen_of (fs_trace fixed h) (Sid f)).
Proof.
  intro Hg. apply (fs_trace_ok_from fixed h fs_init seen_empty); [intro g; reflexivity | exact Hg].
Qed.

(** ** HTTP endpoint *)

Lemma http_watch_canon k e r :
  let o := obs_of_outcome (outcome_of r) in
  h_st (http_watch O k e r) = h_st (canon k e o) /\ h_calls (http_watch O k e r) = h_calls (canon k e o).
Proof.
  destruct r as [status ct body| | |]; simpl; unfold http_watch; simpl.
  - destruct (Z.eqb status 200) eqn:E200; simpl.
    + destruct ct, body; simpl; unfold http_updated, fs_deleted; destruct (k e) as [x|]; simpl;
        try (split; reflexivity); destruct (Nat.eqb x c); split; reflexivity.
    + destruct (Z.eqb status 404); simpl; unfold http_updated, fs_deleted; destruct (k e); split; reflexivity.
  - unfold http_updated, fs_deleted; destruct (k e); split; reflexivity.
  - unfold http_updated, fs_deleted; destruct (k e); split; reflexivity.
  - split; reflexivity.
Qed.

Definition http_trace_from (k : states) (h : list http_event) : list tstep :=
  mk_trace (http_views h) (map h_calls (snd (http_run_from O k h))).

Lemma http_trace_from_cons k e r rest :
  http_trace_from k ((e, r) :: rest) =
  {| t_obs := http_view (e, r); t_calls := h_calls (http_watch O k e r) |}
    :: http_trace_from (h_st (http_watch O k e r)) rest.
Proof.
  unfold http_trace_from. reflexivity.
Qed.

Lemma http_trace_ok_from : forall h k m,
  inv k m ->
  trace_ok_from acc m (http_trace_from k h) = true /\
  inv (fst (http_run_from O k h)) (fold_left seen_step (http_trace_from k h) m).
Proof.
  induction h as [|[e r] rest IH]; intros k m Hinv.
  - split; [reflexivity | exact Hinv].
  - rewrite http_trace_from_cons. simpl trace_ok_from. simpl fold_left.
    destruct (http_watch_canon k e r) as [Hst Hcalls]. cbv zeta in Hst, Hcalls.
    destruct (canon_step_ok k m e _ _ _ Hinv Hcalls Hst) as [Hok Hinv'].
    unfold http_view; simpl fst; simpl snd. rewrite Hok. simpl.
    replace (fst (http_run_from O k ((e, r) :: rest))) with (fst (http_run_from O (h_st (http_watch O k e r)) rest))
      by reflexivity.
    apply IH. exact Hinv'.
Qed.

Definition http_trace (h : list http_event) : list tstep := http_trace_from st_empty h.

(** T_main (HTTP endpoint): every sequence of polls and fetch outcomes yields a right trace *)
Theorem http_trace_ok h : trace_ok acc (http_trace h) = true.
Proof. apply (http_trace_ok_from h st_empty seen_empty). intro f; reflexivity. Qed.

Theorem http_known_latest_valid h e :
  fst (http_run O h) e = latest_valid acc (seen_of (http_trace h) (Sid e)).
Proof. apply (http_trace_ok_from h st_empty seen_empty). intro f; reflexivity. Qed.

End Providers.

(** * Part III — the file system at world level: fairness, stale and ignored notifications *)

Section FsWorld.
Variable O : oracle.
Hypothesis Hdel : forall s, deletable O s = true.
Let acc := accepts O.

(** what a look that sees [o] makes of the loaded version [prev] *)
Definition target_st (prev : option cid) (o : sobs) : option cid :=
  match o with
  | SNew c => if acc c then Some c else prev
  | SGone => None
  | SBad | SNone => prev
  end.

(** the latest valid content of a file that now holds [w], when [prev] was loaded before the change *)
Definition target (w : content) (prev : option cid) : option cid := target_st prev (obs_of_content w).

Lemma target_st_idem p o : target_st (target_st p o) o = target_st p o.
Proof. destruct o as [c| | |]; simpl; try reflexivity. destruct (acc c) eqn:E; simpl; rewrite ?E; reflexivity. Qed.

Lemma latest_valid_cons o l : latest_valid acc (o :: l) = target_st (latest_valid acc l) o.
Proof. destruct o; reflexivity. Qed.

(** the effect of the shared decision on its own source and on the others — no invariant needed *)
Lemma canon_effect k f o :
  let h := canon O k f o in
  h_st h f = target_st (k f) o /\
  calls_on (Sid f) (h_calls h) = expected_calls (k f) (target_st (k f) o) /\
  (forall g, g <> f -> h_st h g = k g /\ calls_on (Sid g) (h_calls h) = []).
Proof.
  assert (Hne : forall g, g <> f -> sid_eqb (Sid f) (Sid g) = false).
  { intros g Hg. rewrite sid_eqb_Sid. apply Nat.eqb_neq. congruence. }
  unfold target_st, acc. destruct o as [c| | |]; simpl.
  - destruct (k f) as [x|] eqn:Ekf.
    + destruct (Nat.eqb x c) eqn:Exc; simpl.
      * apply Nat.eqb_eq in Exc. subst x. rewrite Ekf. splits.
        -- destruct (accepts O c); reflexivity.
        -- destruct (accepts O c); simpl; rewrite Nat.eqb_refl; reflexivity.
        -- intros g Hg. split; reflexivity.
      * rewrite calls_on_single. destruct (accepts O c) eqn:Hc; simpl; rewrite ?Exc, ?Nat.eqb_refl; splits;
          try reflexivity; try apply st_set_same; try exact Ekf;
          intros g Hg; (split; [try apply st_set_other; auto | unfold calls_on; simpl; rewrite ?(Hne g Hg), ?andb_false_r; reflexivity]).
    + simpl. rewrite calls_on_single. destruct (accepts O c) eqn:Hc; simpl; splits;
        try reflexivity; try apply st_set_same; try exact Ekf;
        intros g Hg; (split; [try apply st_set_other; auto | unfold calls_on; simpl; rewrite ?(Hne g Hg), ?andb_false_r; reflexivity]).
  - unfold fs_deleted. destruct (k f) as [x|] eqn:Ekf; simpl.
    + rewrite calls_on_single, Hdel. simpl. splits; try reflexivity; try apply st_set_same.
      intros g Hg. split; [apply st_set_other; auto | unfold calls_on; simpl; rewrite (Hne g Hg); reflexivity].
    + splits; try reflexivity; try exact Ekf. intros g Hg. split; reflexivity.
  - splits; try reflexivity.
    + destruct (k f); simpl; [rewrite Nat.eqb_refl|]; reflexivity.
    + intros g Hg. split; reflexivity.
  - splits; try reflexivity.
    + destruct (k f); simpl; [rewrite Nat.eqb_refl|]; reflexivity.
    + intros g Hg. split; reflexivity.
Qed.

(** the initial load does nothing to a file that is not in its list *)
Lemma fs_scan_notin world f : forall fs k,
  ~ In f fs ->
  h_st (fs_scan_from O world k fs) f = k f /\ calls_on (Sid f) (h_calls (fs_scan_from O world k fs)) = [].
Proof.
  induction fs as [|g r IHr]; intros k Hnotin; [split; reflexivity|].
  assert (f <> g) as Hfg by (intro E; subst; apply Hnotin; left; reflexivity).
  assert (~ In f r) as Hr by (intro X; apply Hnotin; right; exact X).
  destruct (content_absent_dec (world g)) as [Ew|Ew].
  - simpl fs_scan_from. rewrite Ew. apply IHr; assumption.
  - destruct (fs_scan_cons O world k g r (world g) eq_refl Ew) as [-> _]. cbv zeta.
    pose proof (canon_effect k g (obs_of_content (world g))) as [_ [_ D3]].
    destruct (D3 f Hfg) as [D4 D5].
    destruct (h_err (canon O k g (obs_of_content (world g)))).
    + split; assumption.
    + simpl. destruct (IHr (h_st (canon O k g (obs_of_content (world g)))) Hr) as [E1 E2].
      split; [rewrite E1; exact D4 | rewrite calls_on_app, D5, E2; reflexivity].
Qed.

(** the effect of the initial load on one file: nothing, or one look at it *)
Lemma fs_scan_effect world f : forall fs k,
  NoDup fs ->
  let h := fs_scan_from O world k fs in
  (h_st h f = k f /\ calls_on (Sid f) (h_calls h) = []) \/
  (h_st h f = target_st (k f) (obs_of_content (world f)) /\
   calls_on (Sid f) (h_calls h) = expected_calls (k f) (target_st (k f) (obs_of_content (world f)))).
Proof.
  induction fs as [|g r IH]; intros k Hnd; [left; split; reflexivity|].
  inversion Hnd as [|? ? Hnotin Hnd']; subst.
  destruct (content_absent_dec (world g)) as [Ew|Ew].
  - simpl fs_scan_from. rewrite Ew. apply IH. exact Hnd'.
  - destruct (fs_scan_cons O world k g r (world g) eq_refl Ew) as [-> _].
    pose proof (canon_effect k g (obs_of_content (world g))) as [C1 [C2 C3]].
    set (h1 := canon O k g (obs_of_content (world g))) in *. cbv zeta.
    destruct (Nat.eq_dec g f) as [->|Hgf].
    + (* this is the file: the rest of the load does not come back to it *)
      pose proof (fun k' => fs_scan_notin world f r k' Hnotin) as Hrest.
      right. destruct (h_err h1).
      * split; assumption.
      * simpl. destruct (Hrest (h_st h1)) as [E1 E2].
        split; [rewrite E1; exact C1 | rewrite calls_on_app, C2, E2; apply app_nil_r].
    + assert (f <> g) as Hfg by congruence. destruct (C3 f Hfg) as [C4 C5].
      destruct (h_err h1).
      * left. split; assumption.
      * simpl. destruct (IH (h_st h1) Hnd') as [[E1 E2]|[E1 E2]]; [left|right];
          rewrite calls_on_app, C5, E1, E2, C4; split; reflexivity.
Qed.

(** the effect of one event on file [f], which holds [w] and is not changed by the event *)
Definition is_set (f : nat) (e : fs_event) : bool :=
  match e with FsSet g _ => Nat.eqb g f | _ => false end.

(** a Remove-dispatched notification for [f] while it holds content (what C18-F4 is about) *)
Definition stale_remove (f : nat) (w : content) (e : fs_event) : bool :=
  match e with
  | FsNotify g ops => Nat.eqb g f &&
                      match fs_dispatch false ops, w with DDelete, (CValid _ | CInvalid) => true | _, _ => false end
  | _ => false
  end.

(** a notification for [f] that makes the provider look at the file *)
Definition rereads (fixed : bool) (f : nat) (e : fs_event) : bool :=
  match e with
  | FsNotify g ops => Nat.eqb g f && match fs_dispatch fixed ops with DReread => true | _ => false end
  | _ => false
  end.

Lemma fs_dispatch_fixed_not_delete ops : fs_dispatch true ops <> DDelete.
Proof. destruct ops as [|o ops]; [rewrite fs_dispatch_nil | rewrite fs_dispatch_fixed_cons]; discriminate. Qed.

Lemma fs_event_effect fixed s e f :
  is_set f e = false ->
  fixed = true \/ stale_remove f (fs_world s f) e = false ->
  let x := fs_handle O fixed s e in
  let o := obs_of_content (fs_world s f) in
  ((h_st x f = fs_known s f /\ calls_on (Sid f) (h_calls x) = []) \/
   (h_st x f = target_st (fs_known s f) o /\
    calls_on (Sid f) (h_calls x) = expected_calls (fs_known s f) (target_st (fs_known s f) o))) /\
  (rereads fixed f e = true ->
   h_st x f = target_st (fs_known s f) o /\
   calls_on (Sid f) (h_calls x) = expected_calls (fs_known s f) (target_st (fs_known s f) o)).
Proof.
  intros Hset Hst. destruct e as [g w|g ops|n]; simpl fs_handle; cbv zeta.
  - split; [left; split; reflexivity | discriminate].
  - simpl rereads. unfold fs_changed. destruct (Nat.eqb g f) eqn:Egf.
    + apply Nat.eqb_eq in Egf. subst g. simpl andb.
      destruct (fs_dispatch fixed ops) eqn:Ed.
      * rewrite fs_cou_canon. pose proof (canon_effect (fs_known s) f (obs_of_content (fs_world s f))) as [C1 [C2 _]].
        split; [right|intros _]; split; assumption.
      * split; [|discriminate].
        destruct fixed; [exfalso; eapply fs_dispatch_fixed_not_delete; exact Ed|].
        destruct Hst as [Hst|Hst]; [discriminate|]. simpl in Hst. rewrite Nat.eqb_refl, Ed in Hst. simpl in Hst.
        pose proof (canon_effect (fs_known s) f SGone) as [C1 [C2 _]]. simpl canon in C1, C2.
        right. destruct (fs_world s f); try discriminate; simpl; split; assumption.
      * split; [left; split; reflexivity | discriminate].
    + split; [|discriminate]. left. apply Nat.eqb_neq in Egf. assert (f <> g) as Hfg by congruence.
      destruct (fs_dispatch fixed ops).
      * rewrite fs_cou_canon. apply (canon_effect (fs_known s) g (obs_of_content (fs_world s g))). exact Hfg.
      * apply (canon_effect (fs_known s) g SGone). exact Hfg.
      * split; reflexivity.
  - split; [|discriminate]. apply fs_scan_effect. apply seq_NoDup.
Qed.

(** file [f] holds [w] throughout [h]; [h] does not change it *)
Lemma world_step_other world e f : is_set f e = false -> world_step world e f = world f.
Proof.
  destruct e as [g w| |]; simpl; try reflexivity. intro H. rewrite Nat.eqb_sym, H. reflexivity.
Qed.

(** W1 — the fairness theorem at the level of stored hashes: after the last
    change of [f] (it now holds [w]), if at least one notification that makes the
    provider look at [f] is processed, and (unrepaired dispatch) no stale Remove
    for [f], then the stored hash is the one of the latest valid content *)
Lemma fs_settles fixed f : forall h2 s,
  forallb (fun e => negb (is_set f e)) h2 = true ->
  fixed = true \/ forallb (fun e => negb (stale_remove f (fs_world s f) e)) h2 = true ->
  let p := fs_known s f in
  let t := target (fs_world s f) p in
  let k' := fs_known (fst (fs_run_from O fixed s h2)) f in
  (k' = p \/ k' = t) /\ (existsb (rereads fixed f) h2 = true -> k' = t).
Proof.
  induction h2 as [|e r IH]; intros s Hns Hst; cbv zeta.
  - simpl. split; [left; reflexivity | discriminate].
  - simpl in Hns. apply andb_true_iff in Hns as [Hne Hns]. apply negb_true_iff in Hne.
    assert (Hst1 : fixed = true \/ stale_remove f (fs_world s f) e = false).
    { destruct Hst as [Hst|Hst]; [left; exact Hst | right]. simpl in Hst.
      apply andb_true_iff in Hst as [Hst _]. apply negb_true_iff in Hst. exact Hst. }
    pose proof (fs_event_effect fixed s e f Hne Hst1) as [Heff Hre]. cbv zeta in Heff, Hre.
    change (fst (fs_run_from O fixed s (e :: r))) with (fst (fs_run_from O fixed (fst (fs_step O fixed s e)) r)).
    set (s1 := fst (fs_step O fixed s e)).
    assert (Hw : fs_world s1 f = fs_world s f) by (apply world_step_other; exact Hne).
    assert (Hk : fs_known s1 f = h_st (fs_handle O fixed s e) f) by reflexivity.
    assert (Hst2 : fixed = true \/ forallb (fun e => negb (stale_remove f (fs_world s1 f) e)) r = true).
    { destruct Hst as [Hst|Hst]; [left; exact Hst | right]. simpl in Hst.
      apply andb_true_iff in Hst as [_ Hst]. rewrite Hw. exact Hst. }
    destruct (IH s1 Hns Hst2) as [IH1 IH2]. cbv zeta in IH1, IH2. rewrite Hw, Hk in IH1, IH2.
    unfold target in *.
    set (o := obs_of_content (fs_world s f)) in *.
    split.
    + destruct Heff as [[E _]|[E _]]; rewrite E in IH1.
      * exact IH1.
      * rewrite target_st_idem in IH1. right. destruct IH1; assumption.
    + simpl existsb. intro Hex. apply orb_true_iff in Hex as [Hex|Hex].
      * destruct (Hre Hex) as [E _]. rewrite E, target_st_idem in IH1. destruct IH1; assumption.
      * specialize (IH2 Hex). destruct Heff as [[E _]|[E _]]; rewrite E in IH2; [exact IH2|].
        rewrite target_st_idem in IH2. exact IH2.
Qed.

Lemma fs_run_from_app fixed h1 : forall s h2,
  fst (fs_run_from O fixed s (h1 ++ h2)) = fst (fs_run_from O fixed (fst (fs_run_from O fixed s h1)) h2).
Proof. induction h1 as [|e r IH]; intros s h2; [reflexivity|]. simpl. apply IH. Qed.

Lemma fs_world_set fixed s f w : fs_world (fst (fs_step O fixed s (FsSet f w))) f = w.
Proof. simpl. rewrite Nat.eqb_refl. reflexivity. Qed.

Theorem fs_converges_known fixed h1 f w h2 :
  forallb (fun e => negb (is_set f e)) h2 = true ->
  existsb (rereads fixed f) h2 = true ->
  fixed = true \/ forallb (fun e => negb (stale_remove f w e)) h2 = true ->
  fs_known (fst (fs_run O fixed (h1 ++ FsSet f w :: h2))) f
  = target w (fs_known (fst (fs_run O fixed h1)) f).
Proof.
  intros Hns Hex Hst. unfold fs_run. rewrite fs_run_from_app.
  set (s1 := fst (fs_run_from O fixed fs_init h1)).
  change (fst (fs_run_from O fixed s1 (FsSet f w :: h2)))
    with (fst (fs_run_from O fixed (fst (fs_step O fixed s1 (FsSet f w))) h2)).
  set (s2 := fst (fs_step O fixed s1 (FsSet f w))).
  assert (Hw : fs_world s2 f = w) by apply fs_world_set.
  assert (Hk : fs_known s2 f = fs_known s1 f) by reflexivity.
  assert (Hst' : fixed = true \/ forallb (fun e => negb (stale_remove f (fs_world s2 f) e)) h2 = true)
    by (rewrite Hw; exact Hst).
  destruct (fs_settles fixed f h2 s2 Hns Hst') as [_ H]. cbv zeta in H. rewrite Hw, Hk in H. apply H. exact Hex.
Qed.

End FsWorld.

(** W2 — "stored hash = hash of the content last applied": what the accepted calls
    leave active is what the provider remembers, for every history, both dispatch
    variants and any processor (also one that refuses deletions) *)
Section StoredHash.
Variable O : oracle.

Definition agrees (a : amap) (k : states) : Prop := forall f, a (Sid f) = k f.

Lemma apply_calls_app a p q : apply_calls a (p ++ q) = apply_calls (apply_calls a p) q.
Proof. unfold apply_calls. apply fold_left_app. Qed.

Lemma canon_agrees a k f o :
  agrees a k -> agrees (apply_calls a (h_calls (canon O k f o))) (h_st (canon O k f o)).
Proof.
  intros H g.
  assert (Hset : forall kind c, agrees (apply_calls a [ {| p_kind := kind; p_src := Sid f; p_cid := c; p_ok := true |} ])
                                       (st_set k f (match kind with KDeleted => None | _ => c end))).
  { intros kind c g'. unfold apply_calls; simpl. unfold apply_call; simpl. unfold st_set.
    destruct kind; unfold a_set; rewrite sid_eqb_Sid; destruct (Nat.eqb g' f); try reflexivity; apply H. }
  destruct o as [c| | |]; simpl.
  - destruct (k f) as [x|].
    + destruct (Nat.eqb x c); simpl; [apply H|].
      destruct (accepts O c); [apply (Hset KUpdated (Some c)) | apply H].
    + destruct (accepts O c); [apply (Hset KCreated (Some c)) | apply H].
  - unfold fs_deleted. destruct (k f); simpl; [|apply H].
    destruct (deletable O (Sid f)); [apply (Hset KDeleted None) | apply H].
  - apply H.
  - apply H.
Qed.

Lemma fs_scan_agrees world : forall fs a k,
  agrees a k ->
  agrees (apply_calls a (h_calls (fs_scan_from O world k fs))) (h_st (fs_scan_from O world k fs)).
Proof.
  induction fs as [|g r IH]; intros a k H; [exact H|].
  destruct (content_absent_dec (world g)) as [Ew|Ew].
  - simpl fs_scan_from. rewrite Ew. apply IH. exact H.
  - destruct (fs_scan_cons O world k g r (world g) eq_refl Ew) as [-> _]. cbv zeta.
    pose proof (canon_agrees a k g (obs_of_content (world g)) H) as H1.
    destruct (h_err (canon O k g (obs_of_content (world g)))); [exact H1|].
    simpl. rewrite apply_calls_app. apply IH. exact H1.
Qed.

Lemma fs_handle_agrees fixed s e a :
  agrees a (fs_known s) ->
  agrees (apply_calls a (h_calls (fs_handle O fixed s e))) (h_st (fs_handle O fixed s e)).
Proof.
  intro H. destruct e as [g w|g ops|n]; simpl fs_handle.
  - exact H.
  - unfold fs_changed. destruct (fs_dispatch fixed ops).
    + rewrite fs_cou_canon. apply canon_agrees. exact H.
    + apply (canon_agrees a (fs_known s) g SGone). exact H.
    + exact H.
  - apply fs_scan_agrees. exact H.
Qed.

Lemma fs_active_known_from fixed : forall h s a,
  agrees a (fs_known s) ->
  agrees (fold_left (fun a st => apply_calls a (t_calls st)) (fs_trace_from O fixed s h) a)
         (fs_known (fst (fs_run_from O fixed s h))).
Proof.
  induction h as [|e r IH]; intros s a H; [exact H|].
  rewrite fs_trace_from_cons. simpl fold_left. apply IH. simpl. apply fs_handle_agrees. exact H.
Qed.

Theorem fs_active_is_known fixed h f :
  active_of (fs_trace O fixed h) (Sid f) = fs_known (fst (fs_run O fixed h)) f.
Proof. apply (fs_active_known_from fixed h fs_init a_empty). intro g. reflexivity. Qed.

Lemma http_active_known_from : forall h k a,
  agrees a k ->
  agrees (fold_left (fun a st => apply_calls a (t_calls st)) (http_trace_from O k h) a)
         (fst (http_run_from O k h)).
Proof.
  induction h as [|[e r] rest IH]; intros k a H; [exact H|].
  rewrite http_trace_from_cons. simpl fold_left.
  change (fst (http_run_from O k ((e, r) :: rest))) with (fst (http_run_from O (h_st (http_watch O k e r)) rest)).
  apply IH. destruct (http_watch_canon O k e r) as [-> ->]. apply canon_agrees. exact H.
Qed.

Theorem http_active_is_known h e :
  active_of (http_trace O h) (Sid e) = fst (http_run O h) e.
Proof. apply (http_active_known_from h st_empty a_empty). intro g. reflexivity. Qed.

End StoredHash.

(** * Part IV — world-level convergence in terms of what is loaded; the findings' witnesses *)

(** W1 + W2: after the last change of file [f] (it now holds [w]), if at least
    one notification that makes the provider look at [f] is processed (and, for
    the unrepaired dispatch, no stale Remove for [f]), what is loaded from [f] is
    its latest valid content: [w] if it is a valid rule set the processor accepts,
    nothing if [f] is gone or empty, the previously loaded version otherwise. *)
Theorem fs_converges_world O fixed h1 f w h2 :
  (forall s, deletable O s = true) ->
  forallb (fun e => negb (is_set f e)) h2 = true ->
  existsb (rereads fixed f) h2 = true ->
  fixed = true \/ forallb (fun e => negb (stale_remove f w e)) h2 = true ->
  active_of (fs_trace O fixed (h1 ++ FsSet f w :: h2)) (Sid f)
  = target O w (active_of (fs_trace O fixed h1) (Sid f)).
Proof.
  intros Hdel Hns Hex Hst. rewrite !fs_active_is_known. apply fs_converges_known; assumption.
Qed.

Definition O_all : oracle := {| accepts := fun _ => true; deletable := fun _ => true |}.

(** C18-F2: a rule file that was moved away (Rename is the only event inotify delivers) stays loaded *)
Definition h_F2 : list fs_event :=
  [FsSet 0 (CValid 1); FsNotify 0 [OpCreate]; FsSet 0 CAbsent; FsNotify 0 [OpRename]].

Theorem fs_F2_refuted :
  exists h, fs_guard_F2 h = true /\ fs_guard_F4 h = false /\
            trace_ok (accepts O_all) (fs_trace O_all false h) <> true /\
            trace_ok (accepts O_all) (fs_trace O_all true h) = true /\
            world_step (world_step (world_step world0 (FsSet 0 (CValid 1))) (FsNotify 0 [OpCreate])) (FsSet 0 CAbsent) 0 = CAbsent /\
            active_of (fs_trace O_all false h) (Sid 0) = Some 1.
Proof. exists h_F2. vm_compute. splits; try reflexivity. discriminate. Qed.

(** C18-F4: a stale Remove processed after the file was re-created unloads an existing rule file *)
Definition h_F4 : list fs_event :=
  [FsSet 0 (CValid 1); FsNotify 0 [OpCreate]; FsSet 0 CAbsent; FsSet 0 (CValid 1); FsNotify 0 [OpCreate]; FsNotify 0 [OpRemove]].

Theorem fs_F4_refuted :
  exists h, fs_guard_F4 h = true /\ fs_guard_F2 h = false /\
            trace_ok (accepts O_all) (fs_trace O_all false h) <> true /\
            trace_ok (accepts O_all) (fs_trace O_all true h) = true /\
            active_of (fs_trace O_all false h) (Sid 0) = None /\
            active_of (fs_trace O_all true h) (Sid 0) = Some 1.
Proof. exists h_F4. vm_compute. splits; try reflexivity. discriminate. Qed.

(** non-vacuity: a history outside both guards with a creation, an update, a kept
    invalid version, a rejected version, an unload and an initial load *)
Definition O_rej3 : oracle := {| accepts := fun c => negb (Nat.eqb c 3); deletable := fun _ => true |}.
Definition h_nonvacuous : list fs_event :=
  [FsSet 0 (CValid 1); FsNotify 0 [OpCreate]; FsSet 0 (CValid 2); FsNotify 0 [OpWrite]; FsNotify 0 [OpChmod];
   FsSet 1 (CValid 4); FsScan 2; FsSet 0 CInvalid; FsNotify 0 [OpWrite]; FsSet 0 (CValid 3); FsNotify 0 [OpWrite];
   FsSet 0 CEmpty; FsNotify 0 [OpWrite; OpRemove]; FsSet 1 CAbsent; FsNotify 1 [OpRemove]].

Example fs_nonvacuous :
  fs_guard_F2 h_nonvacuous = false /\ fs_guard_F4 h_nonvacuous = false /\
  flat_map (fun st => filter p_ok (t_calls st)) (fs_trace O_rej3 true h_nonvacuous) =
  [ {| p_kind := KCreated; p_src := Sid 0; p_cid := Some 1; p_ok := true |};
    {| p_kind := KUpdated; p_src := Sid 0; p_cid := Some 2; p_ok := true |};
    {| p_kind := KCreated; p_src := Sid 1; p_cid := Some 4; p_ok := true |};
    {| p_kind := KDeleted; p_src := Sid 0; p_cid := None; p_ok := true |};
    {| p_kind := KDeleted; p_src := Sid 1; p_cid := None; p_ok := true |} ].
Proof. vm_compute. splits; reflexivity. Qed.

Definition hh_nonvacuous : list http_event :=
  [(0, RHttp 200 CtYaml (CValid 1)); (0, RHttp 200 CtYaml (CValid 1)); (0, RHttp 200 CtJson (CValid 2));
   (0, RHttp 200 CtYaml CInvalid); (0, RHttp 200 CtYaml (CValid 3)); (0, RCanceled); (0, RHttp 503 CtYaml (CValid 2));
   (0, RHttp 200 CtOther (CValid 2)); (0, RHttp 200 CtYaml (CValid 2)); (0, RHttp 200 CtYaml CEmpty)].

Example http_nonvacuous :
  flat_map (fun st => filter p_ok (t_calls st)) (http_trace O_rej3 hh_nonvacuous) =
  [ {| p_kind := KCreated; p_src := Sid 0; p_cid := Some 1; p_ok := true |};
    {| p_kind := KUpdated; p_src := Sid 0; p_cid := Some 2; p_ok := true |};
    {| p_kind := KDeleted; p_src := Sid 0; p_cid := None; p_ok := true |};
    {| p_kind := KCreated; p_src := Sid 0; p_cid := Some 2; p_ok := true |};
    {| p_kind := KDeleted; p_src := Sid 0; p_cid := None; p_ok := true |} ].
Proof. vm_compute. reflexivity. Qed.

(** * Part V — the file-system provider as it is now (after the fix: commit for C18-F2 / C18-F4) *)

Lemma fs_dispatch_fixed_reread ops : ops <> [] -> fs_dispatch true ops = DReread.
Proof. destruct ops as [|o r]; [intro H; contradiction | intros _; apply fs_dispatch_fixed_cons]. Qed.

(** every notification of any kind makes the repaired provider look at the file:
    the fairness hypothesis is literally "after the last change of [f] at least
    one notification for [f] is processed" *)
Theorem fs_converges_world_fixed O h1 f w h2 :
  (forall s, deletable O s = true) ->
  (forall g w', In (FsSet g w') h2 -> g <> f) ->
  (exists ops, ops <> [] /\ In (FsNotify f ops) h2) ->
  active_of (fs_trace O true (h1 ++ FsSet f w :: h2)) (Sid f)
  = target O w (active_of (fs_trace O true h1) (Sid f)).
Proof.
  intros Hdel Hns [ops [Hops Hin]]. apply fs_converges_world; [exact Hdel| | |left; reflexivity].
  - apply forallb_forall. intros e He. destruct e as [g w'| |]; simpl; try reflexivity.
    apply negb_true_iff. apply Nat.eqb_neq. eapply Hns; eauto.
  - apply existsb_exists. exists (FsNotify f ops). split; [exact Hin|]. simpl.
    rewrite Nat.eqb_refl, (fs_dispatch_fixed_reread ops Hops). reflexivity.
Qed.

(** * Part VI — the HTTP endpoint in terms of the fetch outcomes alone *)

(** what the polls of endpoint [e] showed, oldest first *)
Definition http_outcomes (e : nat) (h : list http_event) : list sobs :=
  map (fun er => obs_of_outcome (outcome_of (snd er))) (filter (fun er => Nat.eqb (fst er) e) h).

Lemma http_seen_from O : forall h k m e,
  fold_left seen_step (http_trace_from O k h) m (Sid e) = rev (http_outcomes e h) ++ m (Sid e).
Proof.
  induction h as [|[e' r] rest IH]; intros k m e; [reflexivity|].
  rewrite http_trace_from_cons. simpl fold_left. rewrite IH.
  unfold seen_step; simpl. unfold seen_add. rewrite sid_eqb_Sid.
  unfold http_outcomes; simpl. rewrite (Nat.eqb_sym e' e).
  destruct (Nat.eqb e e'); simpl; [rewrite <- app_assoc; reflexivity | reflexivity].
Qed.

(** for ALL sequences of polls and fetch outcomes: what is loaded from endpoint [e]
    is the latest valid content among the outcomes of its polls *)
Theorem http_latest_valid O h e :
  (forall s, deletable O s = true) ->
  active_of (http_trace O h) (Sid e) = latest_valid (accepts O) (rev (http_outcomes e h)).
Proof.
  intro Hdel. rewrite (trace_ok_active (accepts O) _ (http_trace_ok O Hdel h)).
  unfold seen_of, http_trace. rewrite http_seen_from. rewrite app_nil_r. reflexivity.
Qed.

(** * Part VII — no reload without a change, counted over the whole history *)

Section FsCount.
Variable O : oracle.
Hypothesis Hdel : forall s, deletable O s = true.

Definition settledb (k : option cid) (w : content) : bool :=
  option_eqb Nat.eqb (target_st O k (obs_of_content w)) k.

Lemma option_eqb_eq (a b : option cid) : option_eqb Nat.eqb a b = true <-> a = b.
Proof.
  destruct a as [x|], b as [y|]; simpl; split; intro H; try discriminate; try reflexivity.
  - apply Nat.eqb_eq in H. congruence.
  - inversion H. apply Nat.eqb_refl.
Qed.

Lemma expected_len a b : length (expected_calls a b) <= 1.
Proof. destruct a as [x|], b as [y|]; simpl; try lia. destruct (Nat.eqb x y); simpl; lia. Qed.

Lemma fs_count_from f : forall h s,
  length (calls_on (Sid f) (flat_map h_calls (snd (fs_run_from O true s h))))
  <= length (filter (is_set f) h) + (if settledb (fs_known s f) (fs_world s f) then 0 else 1).
Proof.
  induction h as [|e r IH]; intro s; [simpl; lia|].
  change (snd (fs_run_from O true s (e :: r)))
    with (fs_handle O true s e :: snd (fs_run_from O true (fst (fs_step O true s e)) r)).
  simpl flat_map. rewrite calls_on_app, app_length. simpl filter.
  set (s1 := fst (fs_step O true s e)). specialize (IH s1).
  destruct (is_set f e) eqn:Eset.
  - (* the file changes: no call, one more change *)
    destruct e as [g w| |]; simpl in Eset; try discriminate. unfold s1 in *. simpl in IH |- *.
    repeat match goal with
           | H : context [if ?b then _ else _] |- _ => destruct b
           | |- context [if ?b then _ else _] => destruct b
           end; simpl in *; lia.
  - pose proof (fs_event_effect O Hdel true s e f Eset (or_introl eq_refl)) as [Heff _]. cbv zeta in Heff.
    assert (Hw : fs_world s1 f = fs_world s f) by (apply world_step_other; exact Eset).
    assert (Hk : fs_known s1 f = h_st (fs_handle O true s e) f) by reflexivity.
    rewrite Hw, Hk in IH.
    set (o := obs_of_content (fs_world s f)) in *. set (k := fs_known s f) in *.
    destruct Heff as [[E1 E2]|[E1 E2]]; rewrite E2.
    + rewrite E1 in IH. unfold s1 in IH. simpl in IH |- *. exact IH.
    + rewrite E1 in IH.
      assert (Hs' : settledb (target_st O k o) (fs_world s f) = true).
      { unfold settledb. fold o. apply option_eqb_eq. apply target_st_idem. }
      rewrite Hs' in IH.
      destruct (settledb k (fs_world s f)) eqn:Es.
      * unfold settledb in Es. fold o in Es. apply option_eqb_eq in Es. rewrite Es.
        assert (expected_calls k k = []) as -> by (destruct k; simpl; [rewrite Nat.eqb_refl|]; reflexivity).
        unfold s1 in IH. simpl in IH |- *. lia.
      * pose proof (expected_len k (target_st O k o)) as Hl. unfold s1 in IH.
        change (fst (fs_step O true s e)) with {| fs_world := world_step (fs_world s) e; fs_known := h_st (fs_handle O true s e) |} in IH.
        lia.
Qed.

(** W3: over any history — repeated, stale, out-of-order notifications, initial
    loads — the accepted processor calls concerning a file are at most as many as
    the file's changes: nothing is ever applied twice *)
Theorem fs_applied_at_most_once h f :
  length (calls_on (Sid f) (flat_map t_calls (fs_trace O true h))) <= length (filter (is_set f) h).
Proof.
  assert (E : flat_map t_calls (fs_trace O true h) = flat_map h_calls (snd (fs_run O true h))).
  { unfold fs_trace, fs_trace_from, fs_run. generalize fs_init. induction h as [|e r IH]; intro s; [reflexivity|].
    simpl. f_equal. exact (IH (fst (fs_step O true s e))). }
  rewrite E. pose proof (fs_count_from f h fs_init) as H. simpl in H. unfold fs_run. lia.
Qed.

End FsCount.

(** * Part VIII — the interpretive choice made explicit *)

(** under the other reading of "the endpoint cannot be reached" (the failed poll
    says nothing, the loaded rule set is kept) the HTTP provider is NOT right: it
    unloads the rule set at the first failed poll and creates it again afterwards *)
Definition hh_reading : list http_event := [(0, RHttp 200 CtYaml (CValid 1)); (0, RConnErr); (0, RHttp 200 CtYaml (CValid 1))].

Theorem http_reading_keep_refuted :
  exists h, trace_ok (accepts O_all) (mk_trace (http_views_r false h) (map h_calls (snd (http_run O_all h)))) <> true /\
            trace_ok (accepts O_all) (mk_trace (http_views_r true h) (map h_calls (snd (http_run O_all h)))) = true /\
            flat_map (fun x => map p_kind (h_calls x)) (snd (http_run O_all h)) = [KCreated; KDeleted; KCreated].
Proof. exists hh_reading. vm_compute. splits; try reflexivity. discriminate. Qed.
