(** C18 — state-dependent acceptance: the file-system provider model (per event).

    The model of Model.v ([fs_changed] for a notification, [fs_scan_from] for the
    initial load) run against the state-dependent processor of Accept.v, frozen at
    the moment each FILE is looked at (the initial load looks at several files in one
    event, so the oracle is re-frozen per file: [fs_scan_gen], which is [fs_scan_from]
    when the oracle does not depend on the repository — [fs_scan_gen_static]).
    For ALL histories (file changes, notifications of any kind in any order, initial
    loads) and ALL [ok0], [clash], [srcs]: calls and repository of every event are the
    reference run's ([offer]: a valid content that is not the loaded one is offered at
    EVERY notification for the file) on what the event looks at. *)
From HV Require Import Base.Prelude C18.Model C18.Spec C18.Proofs C18.Accept C18.AcceptProviders.

(** [fs_scan_from] with the oracle chosen per file from the repository as it is then *)
Fixpoint fs_scan_gen (oc : amap -> sid -> oracle) (world : nat -> content) (k : states) (A : amap) (fs : list nat)
  : hres * amap :=
  match fs with
  | [] => (hres_nop k false, A)
  | f :: r =>
    match world f with
    | CAbsent => fs_scan_gen oc world k A r
    | w =>
      let h := fs_created_or_updated (oc A (Sid f)) k f w in
      let A1 := apply_calls A (h_calls h) in
      if h_err h then (h, A1)
      else let x := fs_scan_gen oc world (h_st h) A1 r in
           ({| h_st := h_st (fst x); h_calls := h_calls h ++ h_calls (fst x); h_err := h_err (fst x) |}, snd x)
    end
  end.

Definition fs_handle_gen (oc : amap -> sid -> oracle) (fixed : bool) (world : nat -> content) (k : states) (A : amap)
           (e : fs_event) : hres * amap :=
  match e with
  | FsSet _ _ => (hres_nop k false, A)
  | FsNotify f ops => let h := fs_changed (oc A (Sid f)) fixed k f ops (world f) in (h, apply_calls A (h_calls h))
  | FsScan n => fs_scan_gen oc world k A (seq 0 n)
  end.

(** tie to Model.v: with an oracle that does not depend on the repository this IS the model *)
Lemma fs_scan_gen_static O world fs : forall k A,
  fst (fs_scan_gen (fun _ _ => O) world k A fs) = fs_scan_from O world k fs.
Proof.
  induction fs as [|f r IH]; intros k A; [reflexivity|]. cbn [fs_scan_gen fs_scan_from].
  destruct (world f) eqn:Ew; try apply IH;
    match goal with |- context [h_err ?h] => destruct (h_err h) end; try reflexivity;
    cbn [fst snd]; rewrite IH; reflexivity.
Qed.

Lemma fs_handle_gen_static O fixed s A e :
  fst (fs_handle_gen (fun _ _ => O) fixed (fs_world s) (fs_known s) A e) = fs_handle O fixed s e.
Proof. destruct e; simpl; try reflexivity. apply fs_scan_gen_static. Qed.

Section Fs.
Variable ok0 : cid -> bool.
Variable clash : cid -> cid -> bool.
Variable srcs : list sid.

Notation dynO := (dyn_oracle ok0 clash srcs).
Notation Offer := (offer ok0 clash srcs).
Notation Dacc := (dacc ok0 clash srcs).
Notation RefView := (ref_view ok0 clash srcs).

(** ** What an event looks at (specification side) *)

(** the initial load gives up at the first file whose content is not loaded after the look *)
Definition fs_not_loaded (A1 : amap) (f : nat) (w : content) : bool :=
  match w with
  | CInvalid => true
  | CValid c => negb (option_eqb Nat.eqb (A1 (Sid f)) (Some c))
  | _ => false
  end.

Fixpoint fs_scan_view_dyn (world : nat -> content) (A : amap) (fs : list nat) : list (sid * sobs) :=
  match fs with
  | [] => []
  | f :: r =>
    match world f with
    | CAbsent => fs_scan_view_dyn world A r
    | w => let o := obs_of_content w in
           let A1 := apply_calls A (Offer A (Sid f) o) in
           (Sid f, o) :: (if fs_not_loaded A1 f w then [] else fs_scan_view_dyn world A1 r)
    end
  end.

Definition fs_view_dyn (A : amap) (world : nat -> content) (e : fs_event) : list (sid * sobs) :=
  match e with
  | FsSet _ _ => []
  | FsNotify f ops => if is_nil ops then [] else [(Sid f, obs_of_content (world f))]
  | FsScan n => fs_scan_view_dyn world A (seq 0 n)
  end.

(** the reference run over a history: per event the calls and the repository *)
Fixpoint fs_ref_steps (A : amap) (world : nat -> content) (h : list fs_event) : list (list pcall * list (option cid)) :=
  match h with
  | [] => []
  | e :: r => let x := RefView A (fs_view_dyn A world e) in
              (snd x, map (fst x) srcs) :: fs_ref_steps (fst x) (world_step world e) r
  end.

(** ** The model's run *)

Fixpoint fs_dyn_steps (world : nat -> content) (k : states) (A : amap) (h : list fs_event) : list (list pcall * list (option cid)) :=
  match h with
  | [] => []
  | e :: r => let x := fs_handle_gen dynO true world k A e in
              (h_calls (fst x), map (snd x) srcs) :: fs_dyn_steps (world_step world e) (h_st (fst x)) (snd x) r
  end.

Fixpoint fs_dyn_state (world : nat -> content) (k : states) (A : amap) (h : list fs_event) : (nat -> content) * states * amap :=
  match h with
  | [] => (world, k, A)
  | e :: r => let x := fs_handle_gen dynO true world k A e in
              fs_dyn_state (world_step world e) (h_st (fst x)) (snd x) r
  end.

(** the error of the shared decision: the content shown is not loaded afterwards *)
Lemma canon_err k A f w :
  k f = A (Sid f) ->
  h_err (canon (dynO A (Sid f)) k f (obs_of_content w))
  = fs_not_loaded (apply_calls A (Offer A (Sid f) (obs_of_content w))) f w.
Proof.
  intro Hk. unfold canon, offer, fs_deleted, mk_call, fs_not_loaded.
  destruct w as [| | |c]; simpl.
  - destruct (k f); reflexivity.
  - destruct (k f); reflexivity.
  - reflexivity.
  - destruct (k f) as [h|] eqn:Ek; rewrite <- Hk; simpl.
    + destruct (Nat.eqb h c) eqn:Ehc; simpl.
      * unfold apply_calls; simpl. rewrite <- Hk. simpl. rewrite Ehc. reflexivity.
      * unfold apply_calls, apply_call; simpl. destruct (Dacc A (Sid f) c); simpl.
        -- rewrite a_set_same. simpl. rewrite Nat.eqb_refl. reflexivity.
        -- rewrite <- Hk. simpl. rewrite Ehc. reflexivity.
    + unfold apply_calls, apply_call; simpl. destruct (Dacc A (Sid f) c); simpl.
      * rewrite a_set_same. simpl. rewrite Nat.eqb_refl. reflexivity.
      * rewrite <- Hk. reflexivity.
Qed.

(** the initial load *)
Lemma fs_scan_dyn_ok world fs : forall k A,
  hagrees A k ->
  let x := fs_scan_gen dynO world k A fs in
  let v := fs_scan_view_dyn world A fs in
  h_calls (fst x) = snd (RefView A v) /\ snd x = fst (RefView A v) /\ hagrees (snd x) (h_st (fst x)).
Proof.
  induction fs as [|f r IH]; intros k A Hag; cbv zeta.
  - simpl. split; [reflexivity|]. split; [reflexivity | exact Hag].
  - simpl fs_scan_gen. simpl fs_scan_view_dyn.
    destruct (content_absent_dec (world f)) as [Ew|Ew].
    + rewrite Ew. apply IH. exact Hag.
    + assert (Hgen : forall w, w = world f -> w <> CAbsent ->
        let h := canon (dynO A (Sid f)) k f (obs_of_content w) in
        let o := obs_of_content w in
        let A1 := apply_calls A (Offer A (Sid f) o) in
        let x := (if h_err h then (h, apply_calls A (h_calls h))
                  else let y := fs_scan_gen dynO world (h_st h) (apply_calls A (h_calls h)) r in
                       ({| h_st := h_st (fst y); h_calls := h_calls h ++ h_calls (fst y); h_err := h_err (fst y) |}, snd y)) in
        let v := (Sid f, o) :: (if fs_not_loaded A1 f w then [] else fs_scan_view_dyn world A1 r) in
        h_calls (fst x) = snd (RefView A v) /\ snd x = fst (RefView A v) /\ hagrees (snd x) (h_st (fst x))).
      { intros w _ _. cbv zeta.
        destruct (canon_offer ok0 clash srcs k A f (obs_of_content w) (eq_sym (Hag f))) as [C1 [C2 C3]]. cbv zeta in C1, C2, C3.
        rewrite (canon_err k A f w (eq_sym (Hag f))). rewrite C1.
        assert (Hag1 : hagrees (apply_calls A (Offer A (Sid f) (obs_of_content w)))
                               (h_st (canon (dynO A (Sid f)) k f (obs_of_content w)))).
        { intro g. destruct (Nat.eq_dec g f) as [->|Hne].
          - rewrite C2, C1. reflexivity.
          - rewrite C3 by exact Hne. rewrite offer_frame; [apply Hag | apply Sid_neq; exact Hne]. }
        destruct (fs_not_loaded _ f w).
        - simpl. rewrite app_nil_r, C1. split; [reflexivity|]. split; [reflexivity | exact Hag1].
        - destruct (IH _ _ Hag1) as [I1 [I2 I3]]. cbv zeta in I1, I2, I3. simpl.
          split; [rewrite I1; reflexivity|]. split; [exact I2 | exact I3]. }
      specialize (Hgen (world f) eq_refl Ew). cbv zeta in Hgen.
      rewrite <- fs_cou_canon in Hgen.
      destruct (world f) eqn:Ew'; try contradiction; exact Hgen.
Qed.

(** one event *)
Lemma fs_dyn_event_ok world k A e :
  hagrees A k ->
  let x := fs_handle_gen dynO true world k A e in
  let v := fs_view_dyn A world e in
  h_calls (fst x) = snd (RefView A v) /\ snd x = fst (RefView A v) /\ hagrees (snd x) (h_st (fst x)).
Proof.
  intro Hag. cbv zeta. destruct e as [f w|f ops|n]; simpl fs_handle_gen; simpl fs_view_dyn.
  - simpl. split; [reflexivity|]. split; [reflexivity | exact Hag].
  - destruct ops as [|o ops].
    + unfold fs_changed. rewrite fs_dispatch_nil. simpl. split; [reflexivity|]. split; [reflexivity | exact Hag].
    + cbn [is_nil]. unfold fs_changed. rewrite fs_dispatch_fixed_cons, fs_cou_canon.
      destruct (canon_offer ok0 clash srcs k A f (obs_of_content (world f)) (eq_sym (Hag f))) as [C1 [C2 C3]].
      cbv zeta in C1, C2, C3. rewrite ref_view_single. simpl fst. simpl snd. rewrite C1.
      split; [reflexivity|]. split; [reflexivity|].
      intro g. destruct (Nat.eq_dec g f) as [->|Hne].
      * rewrite C2, C1. reflexivity.
      * rewrite C3 by exact Hne. rewrite offer_frame; [apply Hag | apply Sid_neq; exact Hne].
  - apply fs_scan_dyn_ok. exact Hag.
Qed.

(** THE THEOREM (file system): calls and repository of every event are the reference run's *)
Theorem fs_dyn_ref h : forall world k A,
  hagrees A k -> fs_dyn_steps world k A h = fs_ref_steps A world h.
Proof.
  induction h as [|e r IH]; intros world k A Hag; [reflexivity|]. simpl.
  destruct (fs_dyn_event_ok world k A e Hag) as [E1 [E2 E3]]. cbv zeta in E1, E2, E3.
  rewrite E1, E2 at 1. f_equal. rewrite <- E2. apply IH. exact E3.
Qed.

Lemma fs_dyn_state_agrees h : forall world k A,
  hagrees A k -> hagrees (snd (fs_dyn_state world k A h)) (snd (fst (fs_dyn_state world k A h))).
Proof.
  induction h as [|e r IH]; intros world k A Hag; [exact Hag|]. simpl. apply IH.
  apply (fs_dyn_event_ok world k A e Hag).
Qed.

(** RETRY / NO RELOAD / CONVERGENCE (file system): after ANY history, a processed
    notification (of whatever kind) for a file that holds valid content [c]: nothing
    is called if [c] is loaded; otherwise [c] is offered — however often it was
    refused — and loaded iff the processor accepts it now; if [c] is acceptable in
    itself and no other source holds a competing content, it is loaded after this one
    notification *)
Theorem fs_dyn_notify h f ops c :
  let st := fs_dyn_state world0 st_empty a_empty h in
  let world := fst (fst st) in let k := snd (fst st) in let A := snd st in
  ops <> [] -> world f = CValid c ->
  let x := fs_handle_gen dynO true world k A (FsNotify f ops) in
  (A (Sid f) = Some c -> h_calls (fst x) = []) /\
  (A (Sid f) <> Some c ->
     h_calls (fst x) = [mk_call (match A (Sid f) with None => KCreated | Some _ => KUpdated end) (Sid f) (Some c) (Dacc A (Sid f) c)] /\
     snd x (Sid f) = (if Dacc A (Sid f) c then Some c else A (Sid f)) /\
     h_st (fst x) f = (if Dacc A (Sid f) c then Some c else k f)) /\
  (ok0 c = true -> (forall t d, In t srcs -> t <> Sid f -> A t = Some d -> clash c d = false) -> snd x (Sid f) = Some c).
Proof.
  intros st world k A Hops Hw.
  pose proof (fs_dyn_state_agrees h world0 st_empty a_empty hagrees_init) as Hag. fold st in Hag. fold k A in Hag.
  destruct ops as [|o ops]; [contradiction|].
  assert (Hv : fs_view_dyn A world (FsNotify f (o :: ops)) = [(Sid f, SNew c)]) by (simpl; rewrite Hw; reflexivity).
  destruct (fs_dyn_event_ok world k A (FsNotify f (o :: ops)) Hag) as [E1 [E2 E3]]. cbv zeta in E1, E2, E3.
  rewrite Hv, ref_view_single in E1, E2.
  set (x := fs_handle_gen dynO true world k A (FsNotify f (o :: ops))) in *. cbv zeta.
  change (h_calls (fst x) = Offer A (Sid f) (SNew c)) in E1.
  change (snd x = apply_calls A (Offer A (Sid f) (SNew c))) in E2.
  split; [|split].
  - intro HA. rewrite E1. apply offer_unchanged. exact HA.
  - intro Hne. destruct (offer_retry ok0 clash srcs A (Sid f) c Hne) as [R1 R2].
    split; [rewrite E1; exact R1|]. split; [rewrite E2; exact R2|].
    rewrite <- (E3 f), E2, R2, (Hag f). reflexivity.
  - intros H0 Hfree. rewrite E2. rewrite (offer_achieves_spec ok0 clash srcs A (Sid f) (SNew c) (Sid f)).
    apply spec_converges_one_look; assumption.
Qed.

End Fs.

(** the seeded defect for the file system (mutation M1): hash stored before the answer *)
Definition fs_cou_eager (O : oracle) (k : states) (f : nat) (w : content) : hres :=
  match w with
  | CValid c =>
    let load (kind : pkind) :=
      let ok := accepts O c in
      {| h_st := st_set k f (Some c);
         h_calls := [ {| p_kind := kind; p_src := Sid f; p_cid := Some c; p_ok := ok |} ];
         h_err := negb ok |} in
    match k f with
    | None => load KCreated
    | Some h => if Nat.eqb h c then hres_nop k false else load KUpdated
    end
  | _ => fs_created_or_updated O k f w
  end.

(** notifications only, the eager provider against the same processor *)
Fixpoint fs_eager_steps (ok0 : cid -> bool) (clash : cid -> cid -> bool) (srcs : list sid)
         (world : nat -> content) (k : states) (A : amap) (h : list fs_event) : list (list pcall * list (option cid)) :=
  match h with
  | [] => []
  | e :: r =>
    let x := match e with
             | FsNotify f (_ :: _) => fs_cou_eager (dyn_oracle ok0 clash srcs A (Sid f)) k f (world f)
             | _ => hres_nop k false
             end in
    let A' := apply_calls A (h_calls x) in
    (h_calls x, map A' srcs) :: fs_eager_steps ok0 clash srcs (world_step world e) (h_st x) A' r
  end.

Definition hf_eager : list fs_event :=
  [FsSet 0 (CValid 1); FsNotify 0 [OpCreate]; FsSet 1 (CValid 5); FsNotify 1 [OpCreate];
   FsSet 0 CAbsent; FsNotify 0 [OpRemove]; FsNotify 1 [OpWrite]; FsNotify 1 [OpChmod]].

Theorem fs_eager_refuted :
  let ok := fun _ : cid => true in
  last (map snd (fs_dyn_steps ok pclash srcs2 world0 st_empty a_empty hf_eager)) [] = [None; Some 5] /\
  last (map snd (fs_ref_steps ok pclash srcs2 a_empty world0 hf_eager)) [] = [None; Some 5] /\
  last (map snd (fs_eager_steps ok pclash srcs2 world0 st_empty a_empty hf_eager)) [] = [None; None] /\
  flat_map fst (skipn 6 (fs_eager_steps ok pclash srcs2 world0 st_empty a_empty hf_eager)) = [].
Proof. cbv zeta. repeat split; vm_compute; reflexivity. Qed.
