(** C18 — model of the cloud-blob provider, faithful to the code as it is.

    internal/rules/provider/cloudblob/provider.go          (watchChanges, ruleSetsUpdated, BucketState)
    internal/rules/provider/cloudblob/ruleset_endpoint.go  (FetchRuleSets, readAllBlobs, readSingleBlob, readRuleSet, mapError)

    A bucket endpoint is polled; the poll either lists the blobs under the
    prefix (key order) and reads each, or — when the URL names one blob — reads
    that blob, or fails.  The hash of a rule set is the blob's MD5 (modelled by the
    content identity), its source is ["<key>@<endpoint id>"] — bucket [b], key [k]
    are [s_ns], [s_n] of the [sid].  [BucketState] (a Go map key -> hash per
    endpoint) is a function; the removed ids, which Go enumerates in map order,
    are enumerated in key order over the key universe [0..nk-1] (the driver sorts
    the observed deletions accordingly). *)
From HV Require Import Base.Prelude C18.Model.

Definition bsid (pfx : bool) (b k : nat) : sid := {| s_blobpfx := pfx; s_ns := b; s_n := k |}.

(** error classes after [mapError] / OpenBucket, as [watchChanges] distinguishes them *)
Inductive berr :=
| BComm        (* gcerrors.Unknown / Canceled -> ErrCommunication *)
| BTimeout     (* gcerrors.DeadlineExceeded -> ErrCommunicationTimeout *)
| BInternal    (* any other code, OpenBucket failure -> ErrInternal *)
| BCanceled.   (* the error chain contains context.Canceled *)

Inductive bpoll :=
| BList (l : list (nat * content))   (* all-blobs mode: the blobs under the prefix in key order and what they hold *)
| BSingle (k : nat) (w : content)    (* the URL names blob [k]; [CAbsent]: no such blob *)
| BFail (e : berr).                  (* opening / listing / reading fails *)

Inductive bfetched := BOk (rs : list (nat * cid)) | BErr (e : berr).

(** [readAllBlobs]: empty blobs are skipped, any other unreadable blob fails the whole fetch *)
Fixpoint read_all (l : list (nat * content)) : bfetched :=
  match l with
  | [] => BOk []
  | (k, w) :: r =>
    match w with
    | CEmpty => read_all r
    | CInvalid | CAbsent => BErr BInternal       (* parse error / NotFound between list and read *)
    | CValid c => match read_all r with
                  | BOk rs => BOk ((k, c) :: rs)
                  | e => e
                  end
    end
  end.

Definition blob_fetch (p : bpoll) : bfetched :=
  match p with
  | BList l => read_all l
  | BSingle k w =>
    match w with
    | CAbsent => BErr BInternal                   (* gcerrors.NotFound maps to ErrInternal *)
    | CEmpty => BOk []
    | CInvalid => BErr BInternal
    | CValid c => BOk [(k, c)]
    end
  | BFail e => BErr e
  end.

Section WithOracle.
Variable O : oracle.
(** [fixed = true]: candidate repair fixes/C18-F1.diff (deletions reported under the source they were created with) *)
Variable fixed : bool.
Variable nk : nat.      (* keys are [0..nk-1] *)
Variable b : nat.       (* the bucket polled *)

(** first loop of [ruleSetsUpdated]: the removed ids; stops at the first error *)
Fixpoint blob_remove (st : states) (ks : list nat) : hres :=
  match ks with
  | [] => hres_nop st false
  | k :: r =>
    let ok := deletable O (bsid (negb fixed) b k) in
    let call := {| p_kind := KDeleted; p_src := bsid (negb fixed) b k; p_cid := None; p_ok := ok |} in
    if ok then
      let h := blob_remove (st_set st k None) r in
      {| h_st := h_st h; h_calls := call :: h_calls h; h_err := h_err h |}
    else {| h_st := st; h_calls := [call]; h_err := true |}
  end.

(** second loop: new and changed rule sets in listing order; stops at the first error.
    [isNew] is decided against the ids known when the poll started — the same as
    "no entry now", because removed ids are not listed. *)
Fixpoint blob_load (st : states) (rs : list (nat * cid)) : hres :=
  match rs with
  | [] => hres_nop st false
  | (k, c) :: r =>
    let go (kind : pkind) :=
      let ok := accepts O c in
      let call := {| p_kind := kind; p_src := bsid false b k; p_cid := Some c; p_ok := ok |} in
      if ok then
        let h := blob_load (st_set st k (Some c)) r in
        {| h_st := h_st h; h_calls := call :: h_calls h; h_err := h_err h |}
      else {| h_st := st; h_calls := [call]; h_err := true |} in
    match st k with
    | None => go KCreated
    | Some h => if Nat.eqb h c then blob_load st r else go KUpdated
    end
  end.

Definition is_some {A} (o : option A) : bool := match o with Some _ => true | None => false end.

Definition blob_removed (st : states) (rs : list (nat * cid)) : list nat :=
  filter (fun k => is_some (st k) && negb (existsb (Nat.eqb k) (map fst rs))) (seq 0 nk).

Definition blob_updated (st : states) (rs : list (nat * cid)) : hres :=
  let h1 := blob_remove st (blob_removed st rs) in
  if h_err h1 then h1
  else let h2 := blob_load (h_st h1) rs in
       {| h_st := h_st h2; h_calls := h_calls h1 ++ h_calls h2; h_err := h_err h2 |}.

(** [watchChanges]; [h_err] is the error *returned* (the error of ruleSetsUpdated is only logged) *)
Definition blob_watch (st : states) (p : bpoll) : hres :=
  match blob_fetch p with
  | BErr BCanceled => hres_nop st false
  | BErr BInternal => hres_nop st true
  | BErr (BComm | BTimeout) =>
    let h := blob_updated st [] in {| h_st := h_st h; h_calls := h_calls h; h_err := false |}
  | BOk rs =>
    let h := blob_updated st rs in {| h_st := h_st h; h_calls := h_calls h; h_err := false |}
  end.

End WithOracle.

(** one event = one poll of bucket [b] *)
Definition blob_event := (nat * bpoll)%type.

(** [provider.states]: endpoint -> BucketState *)
Definition bstates := nat -> states.
Definition bst_empty : bstates := fun _ => st_empty.
Definition bst_set (s : bstates) (b : nat) (v : states) : bstates := fun c => if Nat.eqb c b then v else s c.

Fixpoint blob_run_from (O : oracle) (fixed : bool) (nk : nat) (s : bstates) (h : list blob_event) : bstates * list hres :=
  match h with
  | [] => (s, [])
  | bp :: rest => let x := blob_watch O fixed nk (fst bp) (s (fst bp)) (snd bp) in
                  let rr := blob_run_from O fixed nk (bst_set s (fst bp) (h_st x)) rest in (fst rr, x :: snd rr)
  end.

Definition blob_run O fixed nk h := blob_run_from O fixed nk bst_empty h.
