(** C18 — Kubernetes: well-formed watch histories yield a right trace (modulo idempotent calls). *)
From HV Require Import Base.Prelude C18.Model C18.ModelK8s C18.Spec C18.Proofs.

(** What the API server guarantees about the events of one object, relative to
    what the informer's store holds of it:
    - a Deleted event carries the last state of the object (same auth class as stored);
    - for an object that stays in the provider's auth class, the generation changes
      exactly when the rules change (metadata.generation counts spec changes). *)
Definition k8s_ev_wf (s : kstore) (e : k8s_event) : bool :=
  let o := snd e in
  match s (k_uid o), fst e with
  | None, _ => true
  | Some old, WDeleted => Bool.eqb (k_cls o) (k_cls old)
  | Some old, _ =>
    if k_cls o && k_cls old
    then Bool.eqb (Nat.eqb (k_gen o) (k_gen old)) (Nat.eqb (k_cid o) (k_cid old))
    else true
  end.

Definition ks_step (s : kstore) (e : k8s_event) : kstore :=
  let o := snd e in
  match fst e with
  | WAdded | WModified => ks_set s (k_uid o) (Some o)
  | WDeleted => match s (k_uid o) with Some _ => ks_set s (k_uid o) None | None => s end
  end.

Fixpoint k8s_wf_from (s : kstore) (h : list k8s_event) : bool :=
  match h with
  | [] => true
  | e :: r => k8s_ev_wf s e && k8s_wf_from (ks_step s e) r
  end.

Definition k8s_wf (h : list k8s_event) : bool := k8s_wf_from ks_empty h.

Section K8s.
Variable O : oracle.
Hypothesis Hdel : forall s, deletable O s = true.
Let acc := accepts O.

(** invariants: the store is keyed by UID; what is loaded is the latest valid
    content seen; only objects of the provider's class that the store knows are
    loaded; a stored object of the class whose rules the processor accepts is loaded *)
Definition K0 (s : kstore) : Prop := forall u old, s u = Some old -> k_uid old = u.
Definition K1 (a : amap) (m : seen_map) : Prop := forall u, a (Sid u) = latest_valid acc (m (Sid u)).
Definition K2 (s : kstore) (a : amap) : Prop :=
  forall u, a (Sid u) <> None -> exists old, s u = Some old /\ k_cls old = true.
Definition K3 (s : kstore) (a : amap) : Prop :=
  forall u old, s u = Some old -> k_cls old = true -> acc (k_cid old) = true -> a (Sid u) = Some (k_cid old).

Lemma single_step_ok m (a : amap) u ov calls :
  a (Sid u) = latest_valid acc (m (Sid u)) ->
  (forall p, In p calls -> p_src p = Sid u) ->
  calls_on (Sid u) calls = expected_calls (a (Sid u)) (latest_valid acc (ov :: m (Sid u))) ->
  step_ok acc m {| t_obs := [(Sid u, ov)]; t_calls := calls |} = true.
Proof.
  intros Ha Hsrc Hcalls. apply step_ok_iff; cbn [t_obs t_calls]. splits.
  - constructor; [intros []|constructor].
  - intros p Hp _. left. symmetry. apply Hsrc. exact Hp.
  - intros s o [E|[]]. inversion E; subst. rewrite Hcalls, Ha. reflexivity.
Qed.

Lemma norm_call_src a p q : In q (norm_call a p) -> p_src q = p_src p.
Proof.
  unfold norm_call. destruct (p_ok p); [|intros [<-|[]]; reflexivity].
  destruct (p_kind p); destruct (a (p_src p)) as [x|]; try destruct (p_cid p) as [c|];
    try destruct (Nat.eqb x c); simpl; intro H; try contradiction; destruct H as [<-|[]]; reflexivity.
Qed.

(** the three shapes of what the provider does on one event *)
Lemma norm_load (a : amap) kind (o : kobj) :
  kind <> KDeleted ->
  let raw := [k_call O kind o] in
  calls_on (Sid (k_uid o)) (norm_calls a raw)
    = (if acc (k_cid o) then expected_calls (a (Sid (k_uid o))) (Some (k_cid o)) else []) /\
  apply_calls a raw (Sid (k_uid o)) = (if acc (k_cid o) then Some (k_cid o) else a (Sid (k_uid o))) /\
  (forall t, t <> Sid (k_uid o) -> apply_calls a raw t = a t) /\
  (forall p, In p (norm_calls a raw) -> p_src p = Sid (k_uid o)).
Proof.
  intro Hk. cbv zeta. unfold acc.
  assert (Hsrc : forall p, In p (norm_calls a [k_call O kind o]) -> p_src p = Sid (k_uid o)).
  { intros p Hp. simpl in Hp. rewrite app_nil_r in Hp. apply norm_call_src in Hp. exact Hp. }
  splits; [| | |exact Hsrc].
  - simpl. rewrite app_nil_r. unfold norm_call, k_call; simpl.
    destruct kind; try contradiction; simpl; destruct (accepts O (k_cid o)); simpl;
      try (unfold calls_on; simpl; reflexivity);
      destruct (a (Sid (k_uid o))) as [x|]; simpl;
      try (destruct (Nat.eqb x (k_cid o)); simpl); unfold calls_on; simpl; rewrite ?sid_eqb_refl; reflexivity.
  - unfold apply_calls; simpl. unfold apply_call, k_call; simpl.
    destruct kind; try contradiction; destruct (accepts O (k_cid o)); try reflexivity;
      unfold a_set; rewrite sid_eqb_refl; reflexivity.
  - intros t Ht. unfold apply_calls; simpl. unfold apply_call, k_call; simpl.
    destruct kind; try contradiction; destruct (accepts O (k_cid o)); try reflexivity;
      unfold a_set; apply sid_eqb_neq in Ht; rewrite Ht; reflexivity.
Qed.

Lemma norm_delete (a : amap) (o : kobj) :
  let raw := [k_call O KDeleted o] in
  calls_on (Sid (k_uid o)) (norm_calls a raw) = expected_calls (a (Sid (k_uid o))) None /\
  apply_calls a raw (Sid (k_uid o)) = None /\
  (forall t, t <> Sid (k_uid o) -> apply_calls a raw t = a t) /\
  (forall p, In p (norm_calls a raw) -> p_src p = Sid (k_uid o)).
Proof.
  cbv zeta. splits.
  - simpl. rewrite app_nil_r. unfold norm_call, k_call; simpl. rewrite Hdel.
    destruct (a (Sid (k_uid o))); simpl; unfold calls_on; simpl; rewrite ?sid_eqb_refl, ?Hdel; reflexivity.
  - unfold apply_calls; simpl. unfold apply_call, k_call; simpl. rewrite Hdel. unfold a_set. rewrite sid_eqb_refl. reflexivity.
  - intros t Ht. unfold apply_calls; simpl. unfold apply_call, k_call; simpl. rewrite Hdel.
    unfold a_set. apply sid_eqb_neq in Ht. rewrite Ht. reflexivity.
  - intros p Hp. simpl in Hp. rewrite app_nil_r in Hp. apply norm_call_src in Hp. exact Hp.
Qed.

Lemma ks_set_same s u v : ks_set s u v u = v.
Proof. unfold ks_set. rewrite Nat.eqb_refl. reflexivity. Qed.

Lemma ks_set_other s u v w : w <> u -> ks_set s u v w = s w.
Proof. intro H. unfold ks_set. apply Nat.eqb_neq in H. rewrite H. reflexivity. Qed.

(** one watch event.  [t] is the latest valid content after the event. *)
Lemma k8s_event_ok s m a e :
  K0 s -> K1 a m -> K2 s a -> K3 s a -> k8s_ev_wf s e = true ->
  let s' := fst (k8s_step O s e) in
  let raw := snd (k8s_step O s e) in
  let st := {| t_obs := k8s_view e; t_calls := norm_calls a raw |} in
  step_ok acc m st = true /\ K0 s' /\ K1 (apply_calls a raw) (seen_step m st) /\
  K2 s' (apply_calls a raw) /\ K3 s' (apply_calls a raw).
Proof.
  intros H0 H1 H2 H3 Hwf. destruct e as [ty o]. cbv zeta.
  set (u := k_uid o). set (c := k_cid o).
  (* a generic closing argument: given what the event does to source u *)
  assert (Close : forall s' raw ov t,
            (ov = SGone \/ ov = SNew c) ->
            latest_valid acc (ov :: m (Sid u)) = t ->
            calls_on (Sid u) (norm_calls a raw) = expected_calls (a (Sid u)) t ->
            apply_calls a raw (Sid u) = t ->
            (forall x, x <> Sid u -> apply_calls a raw x = a x) ->
            (forall p, In p (norm_calls a raw) -> p_src p = Sid u) ->
            (forall w, w <> u -> s' w = s w) ->
            (forall old, s' u = Some old -> k_uid old = u) ->
            (t <> None -> exists old, s' u = Some old /\ k_cls old = true) ->
            (forall old, s' u = Some old -> k_cls old = true -> acc (k_cid old) = true -> t = Some (k_cid old)) ->
            let st := {| t_obs := [(Sid u, ov)]; t_calls := norm_calls a raw |} in
            step_ok acc m st = true /\ K0 s' /\ K1 (apply_calls a raw) (seen_step m st) /\
            K2 s' (apply_calls a raw) /\ K3 s' (apply_calls a raw)).
  { intros s' raw ov t Hov Ht Hcalls Hau Hax Hsrc Hs' Hk0 Hk2 Hk3. cbv zeta. splits.
    - apply (single_step_ok m a u ov); [apply H1 | exact Hsrc | rewrite Ht; exact Hcalls].
    - intros w old Hw. destruct (Nat.eq_dec w u) as [->|Hwu]; [apply Hk0; exact Hw|].
      rewrite Hs' in Hw by exact Hwu. apply H0. exact Hw.
    - intro w. unfold seen_step; simpl. unfold seen_add. rewrite sid_eqb_Sid.
      destruct (Nat.eqb w u) eqn:E.
      + apply Nat.eqb_eq in E. subst w. rewrite Hau. symmetry. exact Ht.
      + apply Nat.eqb_neq in E. rewrite Hax; [apply H1|]. intro X. apply Sid_inj in X. contradiction.
    - intros w Hw. destruct (Nat.eq_dec w u) as [->|Hwu].
      + rewrite Hau in Hw. apply Hk2. exact Hw.
      + rewrite Hax in Hw by (intro X; apply Sid_inj in X; contradiction).
        rewrite Hs' by exact Hwu. apply H2. exact Hw.
    - intros w old Hw Hc Ha. destruct (Nat.eq_dec w u) as [->|Hwu].
      + rewrite Hau. apply Hk3; assumption.
      + rewrite Hax by (intro X; apply Sid_inj in X; contradiction).
        rewrite Hs' in Hw by exact Hwu. apply H3; assumption. }
  assert (Hnone : s u = None -> a (Sid u) = None).
  { intro Hs. destruct (a (Sid u)) eqn:Ea; [|reflexivity]. exfalso.
    destruct (H2 u) as [old [Hold _]]; [congruence|]. congruence. }
  assert (Hother : forall old, s u = Some old -> k_cls old = false -> a (Sid u) = None).
  { intros old Hs Hc. destruct (a (Sid u)) eqn:Ea; [|reflexivity]. exfalso.
    destruct (H2 u) as [old' [Hold' Hc']]; [congruence|]. congruence. }
  assert (Hlv : latest_valid acc (m (Sid u)) = a (Sid u)) by (symmetry; apply H1).
  unfold k8s_ev_wf in Hwf. cbn [fst snd] in Hwf. fold u in Hwf.
  unfold k8s_step, k8s_view. cbn [fst snd]. fold u. fold c.
  assert (Hexp_same : forall x, expected_calls x x = []).
  { intros [x|]; simpl; [rewrite Nat.eqb_refl|]; reflexivity. }
  assert (Hnil : calls_on (Sid u) (norm_calls a []) = []) by reflexivity.
  (* Added and Modified are handled alike by the informer *)
  assert (Upsert :
    (match s u with
     | Some old => if k_cls o && k_cls old
                   then Bool.eqb (Nat.eqb (k_gen o) (k_gen old)) (Nat.eqb (k_cid o) (k_cid old)) else true
     | None => true
     end = true) ->
    let s' := ks_set s u (Some o) in
    let raw := match s u with Some old => f_update O old o | None => f_add O o end in
    let st := {| t_obs := [(Sid u, if k_cls o then SNew c else SGone)]; t_calls := norm_calls a raw |} in
    step_ok acc m st = true /\ K0 s' /\ K1 (apply_calls a raw) (seen_step m st) /\
    K2 s' (apply_calls a raw) /\ K3 s' (apply_calls a raw)).
  { intro Hw. cbv zeta.
    assert (Hs'o : forall w, w <> u -> ks_set s u (Some o) w = s w) by (intros; apply ks_set_other; assumption).
    assert (Hs'u : forall old, ks_set s u (Some o) u = Some old -> k_uid old = u)
      by (intros old E; rewrite ks_set_same in E; injection E as <-; reflexivity).
    destruct (k_cls o) eqn:Eco.
    - (* of the provider's class *)
      set (t := if acc c then Some c else a (Sid u)).
      assert (Ht : latest_valid acc (SNew c :: m (Sid u)) = t) by (simpl; rewrite Hlv; reflexivity).
      assert (Hk2 : t <> None -> exists old, ks_set s u (Some o) u = Some old /\ k_cls old = true)
        by (intros _; exists o; rewrite ks_set_same; auto).
      assert (Hk3 : forall old, ks_set s u (Some o) u = Some old -> k_cls old = true -> acc (k_cid old) = true ->
                    t = Some (k_cid old)).
      { intros old E _ Ha. rewrite ks_set_same in E. injection E as <-. unfold t. fold c in Ha. rewrite Ha. reflexivity. }
      assert (Hload : forall kind, kind <> KDeleted ->
                let raw := [k_call O kind o] in
                step_ok acc m {| t_obs := [(Sid u, SNew c)]; t_calls := norm_calls a raw |} = true /\
                K0 (ks_set s u (Some o)) /\
                K1 (apply_calls a raw) (seen_step m {| t_obs := [(Sid u, SNew c)]; t_calls := norm_calls a raw |}) /\
                K2 (ks_set s u (Some o)) (apply_calls a raw) /\ K3 (ks_set s u (Some o)) (apply_calls a raw)).
      { intros kind Hkind. destruct (norm_load a kind o Hkind) as [N1 [N2 [N3 N4]]]. fold u in N1, N2, N3, N4. fold c in N1, N2.
        apply (Close (ks_set s u (Some o)) [k_call O kind o] (SNew c) t); try assumption; try (right; reflexivity).
        rewrite N1. unfold t. destruct (acc c); [reflexivity | symmetry; apply Hexp_same]. }
      destruct (s u) as [old|] eqn:Esu.
      + unfold f_update. rewrite Eco. destruct (k_cls old) eqn:Ecold.
        * unfold k_update. simpl in Hw. apply Bool.eqb_prop in Hw.
          destruct (Nat.eqb (k_gen old) (k_gen o)) eqn:Eg.
          -- (* same generation: nothing is done, and nothing had to be *)
             rewrite Nat.eqb_sym in Eg. rewrite Eg in Hw. symmetry in Hw. apply Nat.eqb_eq in Hw. fold c in Hw.
             assert (Hin : t = a (Sid u)).
             { unfold t. destruct (acc c) eqn:Ea; [|reflexivity]. symmetry. rewrite Hw.
               apply (H3 u old Esu Ecold). rewrite <- Hw. exact Ea. }
             apply (Close (ks_set s u (Some o)) [] (SNew c) t); try assumption; try (right; reflexivity).
             ++ rewrite Hnil, Hin. symmetry. apply Hexp_same.
             ++ rewrite Hin. reflexivity.
             ++ intros; reflexivity.
             ++ intros p [].
          -- apply (Hload KUpdated). discriminate.
        * apply (Hload KCreated). discriminate.
      + unfold f_add. rewrite Eco. apply (Hload KCreated). discriminate.
    - (* of another class: not a source of this instance *)
      assert (Ht : latest_valid acc (SGone :: m (Sid u)) = None) by reflexivity.
      assert (Hk2 : @None cid <> None -> exists old, ks_set s u (Some o) u = Some old /\ k_cls old = true)
        by (intro X; contradiction).
      assert (Hk3 : forall old, ks_set s u (Some o) u = Some old -> k_cls old = true -> acc (k_cid old) = true ->
                    @None cid = Some (k_cid old)).
      { intros old E Hc _. rewrite ks_set_same in E. injection E as <-. congruence. }
      assert (Hidle : a (Sid u) = None ->
                step_ok acc m {| t_obs := [(Sid u, SGone)]; t_calls := norm_calls a [] |} = true /\
                K0 (ks_set s u (Some o)) /\
                K1 (apply_calls a []) (seen_step m {| t_obs := [(Sid u, SGone)]; t_calls := norm_calls a [] |}) /\
                K2 (ks_set s u (Some o)) (apply_calls a []) /\ K3 (ks_set s u (Some o)) (apply_calls a [])).
      { intro Ha. apply (Close (ks_set s u (Some o)) [] SGone None); try assumption; try (left; reflexivity).
        - rewrite Hnil, Ha. reflexivity.
        - intros; reflexivity.
        - intros p []. }
      destruct (s u) as [old|] eqn:Esu.
      + unfold f_update. rewrite Eco. destruct (k_cls old) eqn:Ecold.
        * unfold k_delete. destruct (norm_delete a old) as [N1 [N2 [N3 N4]]].
          rewrite (H0 u old Esu) in N1, N2, N3, N4.
          apply (Close (ks_set s u (Some o)) [k_call O KDeleted old] SGone None); try assumption. left; reflexivity.
        * apply Hidle. apply (Hother old); [reflexivity | exact Ecold].
      + unfold f_add. rewrite Eco. apply Hidle. apply Hnone. reflexivity. }
  destruct ty.
  - (* Added *)
    apply Upsert. destruct (s u); exact Hwf.
  - (* Modified *)
    apply Upsert. destruct (s u); exact Hwf.
  - (* Deleted *)
    assert (Ht : latest_valid acc (SGone :: m (Sid u)) = None) by reflexivity.
    destruct (s u) as [old|] eqn:Esu.
    + cbn [fst snd].
      assert (Hs'o : forall w, w <> u -> ks_set s u None w = s w) by (intros; apply ks_set_other; assumption).
      assert (Hs'u : forall old, ks_set s u None u = Some old -> k_uid old = u)
        by (intros x E; rewrite ks_set_same in E; discriminate).
      assert (Hk2 : @None cid <> None -> exists old, ks_set s u None u = Some old /\ k_cls old = true)
        by (intro X; contradiction).
      assert (Hk3 : forall old, ks_set s u None u = Some old -> k_cls old = true -> acc (k_cid old) = true ->
                    @None cid = Some (k_cid old)) by (intros x E; rewrite ks_set_same in E; discriminate).
      apply Bool.eqb_prop in Hwf. unfold f_delete. destruct (k_cls o) eqn:Eco.
      * unfold k_delete. destruct (norm_delete a o) as [N1 [N2 [N3 N4]]]. fold u in N1, N2, N3, N4.
        apply (Close (ks_set s u None) [k_call O KDeleted o] SGone None); try assumption. left; reflexivity.
      * apply (Close (ks_set s u None) [] SGone None); try assumption; try (left; reflexivity).
        -- rewrite Hnil, (Hother old); [reflexivity | reflexivity | congruence].
        -- apply (Hother old); [reflexivity | congruence].
        -- intros; reflexivity.
        -- intros p [].
    + cbn [fst snd].
      apply (Close s [] SGone None); try assumption; try (left; reflexivity).
      * rewrite Hnil, (Hnone eq_refl). reflexivity.
      * apply Hnone. reflexivity.
      * intros; reflexivity.
      * intros p [].
      * intros; reflexivity.
      * intros x E. rewrite Esu in E. discriminate.
      * intro X; contradiction.
      * intros x E. rewrite Esu in E. discriminate.
Qed.


Definition k8s_raw_trace_from (s : kstore) (h : list k8s_event) : list tstep :=
  mk_trace (k8s_views h) (snd (k8s_run_from O s h)).

Lemma k8s_raw_trace_from_cons s e r :
  k8s_raw_trace_from s (e :: r) =
  {| t_obs := k8s_view e; t_calls := snd (k8s_step O s e) |} :: k8s_raw_trace_from (fst (k8s_step O s e)) r.
Proof. reflexivity. Qed.

Lemma k8s_trace_ok_from : forall h s m a,
  K0 s -> K1 a m -> K2 s a -> K3 s a -> k8s_wf_from s h = true ->
  trace_ok_from acc m (norm_trace_from a (k8s_raw_trace_from s h)) = true /\
  K1 (fold_left (fun a st => apply_calls a (t_calls st)) (k8s_raw_trace_from s h) a)
     (fold_left seen_step (k8s_raw_trace_from s h) m).
Proof.
  induction h as [|e r IH]; intros s m a H0 H1 H2 H3 Hwf.
  - split; [reflexivity | exact H1].
  - rewrite k8s_raw_trace_from_cons. simpl norm_trace_from. simpl trace_ok_from. simpl fold_left.
    simpl in Hwf. apply andb_true_iff in Hwf as [Hw1 Hw2].
    destruct (k8s_event_ok s m a e H0 H1 H2 H3 Hw1) as [E1 [E0 [E1' [E2 E3]]]]. cbv zeta in E1, E0, E1', E2, E3.
    rewrite E1. simpl.
    assert (Hst : ks_step s e = fst (k8s_step O s e)).
    { destruct e as [[| |] o]; unfold ks_step, k8s_step; cbn [fst snd]; try reflexivity. destruct (s (k_uid o)); reflexivity. }
    rewrite Hst in Hw2.
    (* the seen map of a step does not depend on its calls *)
    change (seen_step m {| t_obs := k8s_view e; t_calls := snd (k8s_step O s e) |})
      with (seen_step m {| t_obs := k8s_view e; t_calls := norm_calls a (snd (k8s_step O s e)) |}).
    apply IH; assumption.
Qed.

Definition k8s_raw_trace (h : list k8s_event) : list tstep := k8s_raw_trace_from ks_empty h.

(** T_main (Kubernetes): every well-formed watch history yields a right trace, read modulo idempotent calls *)
Theorem k8s_trace_ok h :
  k8s_wf h = true -> trace_ok acc (norm_trace (k8s_raw_trace h)) = true.
Proof.
  intro Hwf. apply (k8s_trace_ok_from h ks_empty seen_empty a_empty); try assumption.
  - intros u old E. discriminate.
  - intro u. reflexivity.
  - intros u E. exfalso. apply E. reflexivity.
  - intros u old E. discriminate.
Qed.

(** and what the provider's actual calls leave loaded is the latest valid content seen *)
Theorem k8s_converges h u :
  k8s_wf h = true ->
  active_of (k8s_raw_trace h) (Sid u) = latest_valid acc (seen_of (k8s_raw_trace h) (Sid u)).
Proof.
  intro Hwf. apply (k8s_trace_ok_from h ks_empty seen_empty a_empty); try assumption.
  - intros w old E. discriminate.
  - intro w. reflexivity.
  - intros w E. exfalso. apply E. reflexivity.
  - intros w old E. discriminate.
Qed.

End K8s.

Definition kh_nonvacuous : list k8s_event :=
  let o u cls gen c := {| k_uid := u; k_cls := cls; k_gen := gen; k_cid := c |} in
  [(WAdded, o 0 true 1 1); (WModified, o 0 true 1 1); (WModified, o 0 true 2 2); (WModified, o 0 true 3 3);
   (WModified, o 0 false 4 3); (WModified, o 0 true 5 2); (WAdded, o 0 true 5 2); (WDeleted, o 0 true 5 2);
   (WDeleted, o 0 true 5 2); (WAdded, o 1 true 1 3); (WModified, o 1 true 2 4); (WDeleted, o 1 true 2 4)].

Example k8s_nonvacuous :
  k8s_wf kh_nonvacuous = true /\
  flat_map (fun st => filter p_ok (t_calls st)) (norm_trace (k8s_raw_trace O_rej3 kh_nonvacuous)) =
  [ {| p_kind := KCreated; p_src := Sid 0; p_cid := Some 1; p_ok := true |};
    {| p_kind := KUpdated; p_src := Sid 0; p_cid := Some 2; p_ok := true |};
    {| p_kind := KDeleted; p_src := Sid 0; p_cid := None; p_ok := true |};
    {| p_kind := KCreated; p_src := Sid 0; p_cid := Some 2; p_ok := true |};
    {| p_kind := KDeleted; p_src := Sid 0; p_cid := None; p_ok := true |};
    {| p_kind := KCreated; p_src := Sid 1; p_cid := Some 4; p_ok := true |};
    {| p_kind := KDeleted; p_src := Sid 1; p_cid := None; p_ok := true |} ].
Proof. vm_compute. split; reflexivity. Qed.
