(** C18 — Kubernetes: well-formed histories of watch events and relists yield a right trace (modulo idempotent calls). *)
From HV Require Import Base.Prelude C18.Model C18.ModelK8s C18.Spec C18.Proofs.

(** ** Guards and well-formedness *)

(** no other name than [n] holds an object with UID [u] *)
Definition uid_free (nn : nat) (s : kstore) (n u : nat) : bool :=
  forallb (fun n' => Nat.eqb n' n || match s n' with Some x => negb (Nat.eqb (k_uid x) u) | None => true end) (seq 0 nn).

(** C18-F7: a relist finds a stored object missing (tombstone): the unrepaired provider panics *)
Definition k8s_atom_guard_F7 (s : kstore) (a : katom) : bool :=
  match a with ATomb n => match s n with Some _ => true | None => false end | _ => false end.

(** C18-F8: an object arrives under a name whose stored object has another UID
    (deleted and re-created while the watch was broken) *)
Definition k8s_atom_guard_F8 (s : kstore) (a : katom) : bool :=
  match a with
  | AUpsert o | ADelete o => match s (k_name o) with Some old => negb (Nat.eqb (k_uid old) (k_uid o)) | None => false end
  | ATomb _ => false
  end.

(** What the API server guarantees about what it delivers, relative to what was last told about the name:
    names are within the universe, UIDs are unique across names; a Deleted event carries the object's last
    auth class; for an object that stays in the provider's class the generation changes exactly when the rules change. *)
Definition k8s_atom_wf (nn : nat) (s : kstore) (a : katom) : bool :=
  match a with
  | AUpsert o =>
    Nat.ltb (k_name o) nn && uid_free nn s (k_name o) (k_uid o) &&
    match s (k_name o) with
    | None => true
    | Some old => if Nat.eqb (k_uid old) (k_uid o) && k_cls o && k_cls old
                  then Bool.eqb (Nat.eqb (k_gen o) (k_gen old)) (Nat.eqb (k_cid o) (k_cid old)) else true
    end
  | ADelete o =>
    uid_free nn s (k_name o) (k_uid o) &&
    match s (k_name o) with None => true | Some old => Bool.eqb (k_cls o) (k_cls old) end
  | ATomb _ => true
  end.

Fixpoint k8s_atoms_pred (p : kstore -> katom -> bool) (s : kstore) (atoms : list katom) : bool * kstore :=
  match atoms with
  | [] => (true, s)
  | a :: r => let rr := k8s_atoms_pred p (ks_atom s a) r in (p s a && fst rr, snd rr)
  end.

Fixpoint k8s_all_from (p : kstore -> katom -> bool) (nn : nat) (s : kstore) (h : list k8s_event) : bool :=
  match h with
  | [] => true
  | e :: r => let x := k8s_atoms_pred p s (atoms_of nn s e) in fst x && k8s_all_from p nn (snd x) r
  end.

Definition k8s_wf (nn : nat) (h : list k8s_event) : bool := k8s_all_from (k8s_atom_wf nn) nn ks_empty h.
Definition k8s_guard_F7 (nn : nat) (h : list k8s_event) : bool :=
  negb (k8s_all_from (fun s a => negb (k8s_atom_guard_F7 s a)) nn ks_empty h).
Definition k8s_guard_F8 (nn : nat) (h : list k8s_event) : bool :=
  negb (k8s_all_from (fun s a => negb (k8s_atom_guard_F8 s a)) nn ks_empty h).

(** all atoms of a history, in order *)
Fixpoint k8s_atoms_from (nn : nat) (s : kstore) (h : list k8s_event) : list katom :=
  match h with
  | [] => []
  | e :: r => atoms_of nn s e ++ k8s_atoms_from nn (fold_left ks_atom (atoms_of nn s e) s) r
  end.

Section K8s.
Variable O : oracle.
Hypothesis Hdel : forall s, deletable O s = true.
Variable f7 f8 : bool.
Variable nn : nat.
Let acc := accepts O.

(** invariants: the store is keyed by name, within the universe, UIDs unique; what is
    loaded is the latest valid content seen; only stored objects of the provider's
    class are loaded; a stored object of the class whose rules the processor accepts is loaded *)
Definition K0 (s : kstore) : Prop :=
  (forall n old, s n = Some old -> k_name old = n /\ n < nn) /\
  (forall n n' x y, s n = Some x -> s n' = Some y -> k_uid x = k_uid y -> n = n').
Definition K1 (a : amap) (m : seen_map) : Prop := forall u, a (Sid u) = latest_valid acc (m (Sid u)).
Definition K2 (s : kstore) (a : amap) : Prop :=
  forall u, a (Sid u) <> None -> exists n old, s n = Some old /\ k_uid old = u /\ k_cls old = true.
Definition K3 (s : kstore) (a : amap) : Prop :=
  forall n old, s n = Some old -> k_cls old = true -> acc (k_cid old) = true -> a (Sid (k_uid old)) = Some (k_cid old).

Lemma single_step_ok m (a : amap) u ov calls :
  a (Sid u) = latest_valid acc (m (Sid u)) ->
  (forall p, In p calls -> p_src p = Sid u) ->
  calls_on (Sid u) calls = expected_calls (a (Sid u)) (latest_valid acc (ov :: m (Sid u))) ->
  step_ok acc m {| t_obs := [(Sid u, ov)]; t_calls := calls |} = true.
Proof.
  intros Ha Hsrc Hcalls. apply step_ok_iff; cbn [t_obs t_calls]. splits.
  - constructor; [intros []|constructor].
  - intros p Hp _. left. symmetry. apply Hsrc. exact Hp.
  - intros s o [E|[]]. inversion E; subst. rewrite Hcalls, Ha. reflexivity.
Qed.

Lemma norm_call_src a p q : In q (norm_call a p) -> p_src q = p_src p.
Proof.
  unfold norm_call. destruct (p_ok p); [|intros [<-|[]]; reflexivity].
  destruct (p_kind p); destruct (a (p_src p)) as [x|]; try destruct (p_cid p) as [c|];
    try destruct (Nat.eqb x c); simpl; intro H; try contradiction; destruct H as [<-|[]]; reflexivity.
Qed.

(** the shapes of what the provider does with one object *)
Lemma norm_load (a : amap) kind (o : kobj) :
  kind <> KDeleted ->
  let raw := [k_call O kind o] in
  calls_on (Sid (k_uid o)) (norm_calls a raw)
    = (if acc (k_cid o) then expected_calls (a (Sid (k_uid o))) (Some (k_cid o)) else []) /\
  apply_calls a raw (Sid (k_uid o)) = (if acc (k_cid o) then Some (k_cid o) else a (Sid (k_uid o))) /\
  (forall t, t <> Sid (k_uid o) -> apply_calls a raw t = a t) /\
  (forall p, In p (norm_calls a raw) -> p_src p = Sid (k_uid o)).
Proof.
  intro Hk. cbv zeta. unfold acc.
  assert (Hsrc : forall p, In p (norm_calls a [k_call O kind o]) -> p_src p = Sid (k_uid o)).
  { intros p Hp. simpl in Hp. rewrite app_nil_r in Hp. apply norm_call_src in Hp. exact Hp. }
  splits; [| | |exact Hsrc].
  - simpl. rewrite app_nil_r. unfold norm_call, k_call; simpl.
    destruct kind; try contradiction; simpl; destruct (accepts O (k_cid o)); simpl;
      try (unfold calls_on; simpl; reflexivity);
      destruct (a (Sid (k_uid o))) as [x|]; simpl;
      try (destruct (Nat.eqb x (k_cid o)); simpl); unfold calls_on; simpl; rewrite ?sid_eqb_refl; reflexivity.
  - unfold apply_calls; simpl. unfold apply_call, k_call; simpl.
    destruct kind; try contradiction; destruct (accepts O (k_cid o)); try reflexivity;
      unfold a_set; rewrite sid_eqb_refl; reflexivity.
  - intros t Ht. unfold apply_calls; simpl. unfold apply_call, k_call; simpl.
    destruct kind; try contradiction; destruct (accepts O (k_cid o)); try reflexivity;
      unfold a_set; apply sid_eqb_neq in Ht; rewrite Ht; reflexivity.
Qed.

Lemma norm_delete (a : amap) (o : kobj) :
  let raw := [k_call O KDeleted o] in
  calls_on (Sid (k_uid o)) (norm_calls a raw) = expected_calls (a (Sid (k_uid o))) None /\
  apply_calls a raw (Sid (k_uid o)) = None /\
  (forall t, t <> Sid (k_uid o) -> apply_calls a raw t = a t) /\
  (forall p, In p (norm_calls a raw) -> p_src p = Sid (k_uid o)).
Proof.
  cbv zeta. splits.
  - simpl. rewrite app_nil_r. unfold norm_call, k_call; simpl. rewrite Hdel.
    destruct (a (Sid (k_uid o))); simpl; unfold calls_on; simpl; rewrite ?sid_eqb_refl, ?Hdel; reflexivity.
  - unfold apply_calls; simpl. unfold apply_call, k_call; simpl. rewrite Hdel. unfold a_set. rewrite sid_eqb_refl. reflexivity.
  - intros t Ht. unfold apply_calls; simpl. unfold apply_call, k_call; simpl. rewrite Hdel.
    unfold a_set. apply sid_eqb_neq in Ht. rewrite Ht. reflexivity.
  - intros p Hp. simpl in Hp. rewrite app_nil_r in Hp. apply norm_call_src in Hp. exact Hp.
Qed.

Lemma ks_set_same s u v : ks_set s u v u = v.
Proof. unfold ks_set. rewrite Nat.eqb_refl. reflexivity. Qed.

Lemma ks_set_other s u v w : w <> u -> ks_set s u v w = s w.
Proof. intro H. unfold ks_set. apply Nat.eqb_neq in H. rewrite H. reflexivity. Qed.

Lemma uid_free_spec s n u :
  K0 s -> uid_free nn s n u = true -> forall n' x, n' <> n -> s n' = Some x -> k_uid x <> u.
Proof.
  intros [H0 _] Hf n' x Hn Hs. unfold uid_free in Hf. rewrite forallb_forall in Hf.
  destruct (H0 n' x Hs) as [_ Hlt]. specialize (Hf n' (proj2 (in_seq nn 0 n') (conj (Nat.le_0_l _) Hlt))).
  rewrite Hs in Hf. apply Nat.eqb_neq in Hn. rewrite Hn in Hf. simpl in Hf.
  apply negb_true_iff in Hf. apply Nat.eqb_neq in Hf. exact Hf.
Qed.

(** the closing argument: what an atom that concerns name [n] / source [u] has to establish *)
Lemma k8s_close s m a n u s' raw ov t :
  K0 s -> K1 a m -> K2 s a -> K3 s a ->
  (forall n' x, n' <> n -> s n' = Some x -> k_uid x <> u) ->
  (forall old, s n = Some old -> k_uid old = u) ->
  latest_valid acc (ov :: m (Sid u)) = t ->
  calls_on (Sid u) (norm_calls a raw) = expected_calls (a (Sid u)) t ->
  apply_calls a raw (Sid u) = t ->
  (forall x, x <> Sid u -> apply_calls a raw x = a x) ->
  (forall p, In p (norm_calls a raw) -> p_src p = Sid u) ->
  (forall w, w <> n -> s' w = s w) ->
  (forall old, s' n = Some old -> k_name old = n /\ n < nn /\ k_uid old = u) ->
  (t <> None -> exists old, s' n = Some old /\ k_cls old = true) ->
  (forall old, s' n = Some old -> k_cls old = true -> acc (k_cid old) = true -> t = Some (k_cid old)) ->
  let st := {| t_obs := [(Sid u, ov)]; t_calls := norm_calls a raw |} in
  step_ok acc m st = true /\ K0 s' /\ K1 (apply_calls a raw) (seen_step m st) /\
  K2 s' (apply_calls a raw) /\ K3 s' (apply_calls a raw).
Proof.
  intros [H0 H0u] H1 H2 H3 Hfree Hstored Ht Hcalls Hau Hax Hsrc Hs' Hk0 Hk2 Hk3. cbv zeta. splits.
  - apply (single_step_ok m a u ov); [apply H1 | exact Hsrc | rewrite Ht; exact Hcalls].
  - split.
    + intros w old Hw. destruct (Nat.eq_dec w n) as [->|Hwn]; [destruct (Hk0 old Hw); tauto|].
      rewrite Hs' in Hw by exact Hwn. apply H0. exact Hw.
    + intros w w' x y Hx Hy Hu.
      destruct (Nat.eq_dec w n) as [->|Hwn]; destruct (Nat.eq_dec w' n) as [->|Hwn']; try reflexivity.
      * rewrite Hs' in Hy by exact Hwn'. destruct (Hk0 x Hx) as [_ [_ Ex]]. exfalso.
        apply (Hfree w' y Hwn' Hy). congruence.
      * rewrite Hs' in Hx by exact Hwn. destruct (Hk0 y Hy) as [_ [_ Ey]]. exfalso.
        apply (Hfree w x Hwn Hx). congruence.
      * rewrite Hs' in Hx by exact Hwn. rewrite Hs' in Hy by exact Hwn'. eapply H0u; eauto.
  - intro w. unfold seen_step; simpl. unfold seen_add. rewrite sid_eqb_Sid.
    destruct (Nat.eqb w u) eqn:E.
    + apply Nat.eqb_eq in E. subst w. rewrite Hau. symmetry. exact Ht.
    + apply Nat.eqb_neq in E. rewrite Hax; [apply H1|]. intro X. apply Sid_inj in X. contradiction.
  - intros w Hw. destruct (Nat.eq_dec w u) as [->|Hwu].
    + rewrite Hau in Hw. destruct (Hk2 Hw) as [old [E C]]. exists n, old. destruct (Hk0 old E) as [_ [_ Eu]]. auto.
    + rewrite Hax in Hw by (intro X; apply Sid_inj in X; contradiction).
      destruct (H2 w Hw) as [n' [old [E [Eu C]]]]. exists n', old. splits; try assumption.
      rewrite Hs'; [exact E|]. intro X. subst n'. apply Hwu. rewrite <- Eu. apply Hstored. exact E.
  - intros w old Hw Hc Ha. destruct (Nat.eq_dec w n) as [->|Hwn].
    + destruct (Hk0 old Hw) as [_ [_ Eu]]. rewrite Eu, Hau. apply Hk3; assumption.
    + rewrite Hs' in Hw by exact Hwn. rewrite Hax; [apply (H3 w); assumption|].
      intro X. apply Sid_inj in X. apply (Hfree w old Hwn Hw). exact X.
Qed.

Lemma expected_same a : expected_calls a a = [].
Proof. destruct a; simpl; [rewrite Nat.eqb_refl|]; reflexivity. Qed.

(** one object handed to the handlers, outside the guards *)
Lemma k8s_atom_ok s m a at_ :
  K0 s -> K1 a m -> K2 s a -> K3 s a ->
  k8s_atom_wf nn s at_ = true ->
  f7 = true \/ k8s_atom_guard_F7 s at_ = false ->
  k8s_atom_guard_F8 s at_ = false ->
  exists raw, snd (k8s_atom O f7 f8 s at_) = Some raw /\
  fst (k8s_atom O f7 f8 s at_) = ks_atom s at_ /\
  let s' := ks_atom s at_ in
  let st := {| t_obs := k8s_atom_view s at_; t_calls := norm_calls a raw |} in
  step_ok acc m st = true /\ K0 s' /\ K1 (apply_calls a raw) (seen_step m st) /\
  K2 s' (apply_calls a raw) /\ K3 s' (apply_calls a raw).
Proof.
  intros H0 H1 H2 H3 Hwf Hg7 Hg8.
  assert (Hnil : forall u, calls_on (Sid u) (norm_calls a []) = []) by reflexivity.
  assert (Hnone : forall u, (forall n old, s n = Some old -> k_uid old <> u) -> a (Sid u) = None).
  { intros u Hu. destruct (a (Sid u)) eqn:Ea; [|reflexivity]. exfalso.
    destruct (H2 u) as [n [old [E [Eu _]]]]; [congruence|]. apply (Hu n old E Eu). }
  assert (Hother : forall n old, s n = Some old -> k_cls old = false -> a (Sid (k_uid old)) = None).
  { intros n old Hs Hc. destruct (a (Sid (k_uid old))) eqn:Ea; [|reflexivity]. exfalso.
    destruct (H2 (k_uid old)) as [n' [old' [E' [Eu' C']]]]; [congruence|].
    destruct H0 as [_ H0u]. assert (n' = n) by (eapply H0u; eauto). subst n'. congruence. }
  (* a delete of a stored object [old] of name [n], however it is delivered *)
  assert (Del : forall n old (dobj : kobj),
            s n = Some old -> k_uid dobj = k_uid old -> k_cls dobj = k_cls old ->
            (forall n' x, n' <> n -> s n' = Some x -> k_uid x <> k_uid old) ->
            let raw := f_delete O dobj in
            let st := {| t_obs := [(Sid (k_uid old), SGone)]; t_calls := norm_calls a raw |} in
            step_ok acc m st = true /\ K0 (ks_set s n None) /\ K1 (apply_calls a raw) (seen_step m st) /\
            K2 (ks_set s n None) (apply_calls a raw) /\ K3 (ks_set s n None) (apply_calls a raw)).
  { intros n old dobj Hs Hu Hc Hfree. cbv zeta. unfold f_delete.
    assert (Hstored : forall x, s n = Some x -> k_uid x = k_uid old) by (intros x E; congruence).
    assert (Hs'o : forall w, w <> n -> ks_set s n None w = s w) by (intros; apply ks_set_other; assumption).
    assert (Hs'u : forall x, ks_set s n None n = Some x -> k_name x = n /\ n < nn /\ k_uid x = k_uid old)
      by (intros x E; rewrite ks_set_same in E; discriminate).
    assert (Hk2 : @None cid <> None -> exists x, ks_set s n None n = Some x /\ k_cls x = true) by (intro X; contradiction).
    assert (Hk3 : forall x, ks_set s n None n = Some x -> k_cls x = true -> acc (k_cid x) = true -> @None cid = Some (k_cid x))
      by (intros x E; rewrite ks_set_same in E; discriminate).
    destruct (k_cls dobj) eqn:Ecd.
    - unfold k_delete. destruct (norm_delete a dobj) as [N1 [N2 [N3 N4]]]. rewrite Hu in N1, N2, N3, N4.
      apply (k8s_close s m a n (k_uid old) (ks_set s n None) [k_call O KDeleted dobj] SGone None); try assumption. reflexivity.
    - assert (Ha : a (Sid (k_uid old)) = None) by (apply (Hother n old Hs); congruence).
      apply (k8s_close s m a n (k_uid old) (ks_set s n None) [] SGone None); try assumption; try reflexivity.
      + rewrite Hnil, Ha. reflexivity.
      + intros p []. }
  destruct at_ as [o|o|n].
  - (* upsert *)
    set (n := k_name o). set (u := k_uid o). set (c := k_cid o).
    simpl in Hwf. fold n u in Hwf. apply andb_true_iff in Hwf as [Hwf Hwg]. apply andb_true_iff in Hwf as [Hlt Hfree].
    apply Nat.ltb_lt in Hlt. pose proof (uid_free_spec s n u H0 Hfree) as Hfr.
    simpl in Hg8. fold n u in Hg8.
    assert (Hstored : forall old, s n = Some old -> k_uid old = u).
    { intros old E. rewrite E in Hg8. apply negb_false_iff in Hg8. apply Nat.eqb_eq in Hg8. exact Hg8. }
    assert (Hlv : latest_valid acc (m (Sid u)) = a (Sid u)) by (symmetry; apply H1).
    assert (Hs'o : forall w, w <> n -> ks_set s n (Some o) w = s w) by (intros; apply ks_set_other; assumption).
    assert (Hs'u : forall old, ks_set s n (Some o) n = Some old -> k_name old = n /\ n < nn /\ k_uid old = u)
      by (intros old E; rewrite ks_set_same in E; injection E as <-; auto).
    assert (Hview : k8s_atom_view s (AUpsert o) = [(Sid u, kobj_obs o)]).
    { simpl. fold n u. destruct (s n) as [old|] eqn:E; [|reflexivity]. rewrite (Hstored old eq_refl), Nat.eqb_refl. reflexivity. }
    assert (Hraw : snd (k8s_atom O f7 f8 s (AUpsert o)) =
                   Some match s n with Some old => f_update O f8 old o | None => f_add O o end) by reflexivity.
    eexists. split; [exact Hraw|]. split; [reflexivity|]. cbv zeta. rewrite Hview. simpl ks_atom. fold n.
    unfold kobj_obs.
    destruct (k_cls o) eqn:Eco.
    + set (t := if acc c then Some c else a (Sid u)).
      assert (Ht : latest_valid acc (SNew c :: m (Sid u)) = t) by (simpl; rewrite Hlv; reflexivity).
      assert (Hk2 : t <> None -> exists old, ks_set s n (Some o) n = Some old /\ k_cls old = true)
        by (intros _; exists o; rewrite ks_set_same; auto).
      assert (Hk3 : forall old, ks_set s n (Some o) n = Some old -> k_cls old = true -> acc (k_cid old) = true ->
                    t = Some (k_cid old)).
      { intros old E _ Ha. rewrite ks_set_same in E. injection E as <-. unfold t. fold c in Ha. rewrite Ha. reflexivity. }
      assert (Hload : forall kind, kind <> KDeleted ->
                let raw := [k_call O kind o] in
                let st := {| t_obs := [(Sid u, SNew c)]; t_calls := norm_calls a raw |} in
                step_ok acc m st = true /\ K0 (ks_set s n (Some o)) /\ K1 (apply_calls a raw) (seen_step m st) /\
                K2 (ks_set s n (Some o)) (apply_calls a raw) /\ K3 (ks_set s n (Some o)) (apply_calls a raw)).
      { intros kind Hkind. destruct (norm_load a kind o Hkind) as [N1 [N2 [N3 N4]]]. fold u in N1, N2, N3, N4. fold c in N1, N2.
        apply (k8s_close s m a n u (ks_set s n (Some o)) [k_call O kind o] (SNew c) t); try assumption.
        rewrite N1. unfold t. destruct (acc c); [reflexivity | symmetry; apply expected_same]. }
      destruct (s n) as [old|] eqn:Esu.
      * unfold f_update. rewrite Eco. destruct (k_cls old) eqn:Ecold.
        -- unfold k_update. rewrite (Hstored old eq_refl). fold u. rewrite Nat.eqb_refl, andb_false_r.
           rewrite (Hstored old eq_refl) in Hwg. fold u in Hwg. rewrite Nat.eqb_refl in Hwg.
           simpl in Hwg. apply Bool.eqb_prop in Hwg.
           destruct (Nat.eqb (k_gen old) (k_gen o)) eqn:Eg.
           ++ rewrite Nat.eqb_sym in Eg. rewrite Eg in Hwg. symmetry in Hwg. apply Nat.eqb_eq in Hwg. fold c in Hwg.
              assert (Hin : t = a (Sid u)).
              { unfold t. destruct (acc c) eqn:Ea; [|reflexivity]. symmetry. rewrite Hwg.
                rewrite <- (Hstored old eq_refl). apply (H3 n old Esu Ecold). rewrite <- Hwg. exact Ea. }
              apply (k8s_close s m a n u (ks_set s n (Some o)) [] (SNew c) t); try assumption.
              ** rewrite Esu. exact Hstored.
              ** rewrite Hnil, Hin. symmetry. apply expected_same.
              ** rewrite Hin. reflexivity.
              ** intros; reflexivity.
              ** intros p [].
           ++ rewrite <- Esu in Hstored. apply (Hload KUpdated). discriminate.
        -- rewrite <- Esu in Hstored. apply (Hload KCreated). discriminate.
      * unfold f_add. rewrite Eco. rewrite <- Esu in Hstored. apply (Hload KCreated). discriminate.
    + assert (Ht : latest_valid acc (SGone :: m (Sid u)) = None) by reflexivity.
      assert (Hk2 : @None cid <> None -> exists old, ks_set s n (Some o) n = Some old /\ k_cls old = true)
        by (intro X; contradiction).
      assert (Hk3 : forall old, ks_set s n (Some o) n = Some old -> k_cls old = true -> acc (k_cid old) = true ->
                    @None cid = Some (k_cid old)).
      { intros old E Hc _. rewrite ks_set_same in E. injection E as <-. congruence. }
      assert (Hidle : a (Sid u) = None ->
                let st := {| t_obs := [(Sid u, SGone)]; t_calls := norm_calls a [] |} in
                step_ok acc m st = true /\ K0 (ks_set s n (Some o)) /\ K1 (apply_calls a []) (seen_step m st) /\
                K2 (ks_set s n (Some o)) (apply_calls a []) /\ K3 (ks_set s n (Some o)) (apply_calls a [])).
      { intro Ha. apply (k8s_close s m a n u (ks_set s n (Some o)) [] SGone None); try assumption.
        - rewrite Hnil, Ha. reflexivity.
        - intros; reflexivity.
        - intros p []. }
      destruct (s n) as [old|] eqn:Esu.
      * unfold f_update. rewrite Eco. destruct (k_cls old) eqn:Ecold.
        -- unfold k_delete. destruct (norm_delete a old) as [N1 [N2 [N3 N4]]].
           rewrite (Hstored old eq_refl) in N1, N2, N3, N4. rewrite <- Esu in Hstored.
           apply (k8s_close s m a n u (ks_set s n (Some o)) [k_call O KDeleted old] SGone None); assumption.
        -- pose proof (Hother n old Esu Ecold) as Ha. rewrite (Hstored old eq_refl) in Ha.
           rewrite <- Esu in Hstored. apply Hidle. exact Ha.
      * unfold f_add. rewrite Eco. rewrite <- Esu in Hstored. apply Hidle. apply Hnone.
        intros n' x E Eu. destruct (Nat.eq_dec n' n) as [->|Hn]; [congruence|]. apply (Hfr n' x Hn E Eu).
  - (* Deleted event *)
    set (n := k_name o). set (u := k_uid o).
    simpl in Hwf. fold n u in Hwf. apply andb_true_iff in Hwf as [Hfree Hwg].
    pose proof (uid_free_spec s n u H0 Hfree) as Hfr.
    simpl in Hg8. fold n u in Hg8.
    simpl k8s_atom. simpl k8s_atom_view. simpl ks_atom. fold n u.
    destruct (s n) as [old|] eqn:Esu.
    + apply negb_false_iff in Hg8. apply Nat.eqb_eq in Hg8. apply Bool.eqb_prop in Hwg.
      eexists. split; [reflexivity|]. split; [reflexivity|]. cbv zeta. rewrite <- Hg8.
      apply (Del n old o Esu); [symmetry; exact Hg8 | exact Hwg | rewrite Hg8; exact Hfr].
    + eexists. split; [reflexivity|]. split; [reflexivity|]. cbv zeta.
      assert (Ha : a (Sid u) = None).
      { apply Hnone. intros n' x E Eu. destruct (Nat.eq_dec n' n) as [->|Hn]; [congruence|]. apply (Hfr n' x Hn E Eu). }
      apply (k8s_close s m a n u s [] SGone None); try assumption; try reflexivity.
      * intros old E. congruence.
      * rewrite Hnil, Ha. reflexivity.
      * intros p [].
      * intros old E. congruence.
      * intro X; contradiction.
      * intros old E. congruence.
  - (* tombstone *)
    simpl k8s_atom. simpl k8s_atom_view. simpl ks_atom. simpl in Hg7.
    destruct (s n) as [old|] eqn:Esu.
    + destruct Hg7 as [->|Hg7]; [|discriminate].
      eexists. split; [reflexivity|]. split; [reflexivity|]. cbv zeta.
      apply (Del n old old Esu); try reflexivity.
      intros n' x Hn E Eu. destruct H0 as [_ H0u]. apply Hn. eapply H0u; eauto.
    + eexists. split; [destruct f7; reflexivity|]. split; [reflexivity|]. cbv zeta.
      splits; try assumption; try reflexivity.
Qed.

End K8s.

(** ** Histories *)

Definition calls_of (x : katom * option (list pcall)) : list pcall :=
  match snd x with Some c => c | None => [] end.

(** the trace of a run: one step per object handed to the handlers — what the
    specification says the step looked at, and the calls made *)
Definition k8s_raw_trace (O : oracle) (f7 f8 : bool) (nn : nat) (h : list k8s_event) : list tstep :=
  mk_trace (k8s_atom_views ks_empty (k8s_atoms_from nn ks_empty h)) (map calls_of (snd (k8s_run O f7 f8 nn h))).

Section K8sRun.
Variable O : oracle.
Hypothesis Hdel : forall s, deletable O s = true.
Variable f7 f8 : bool.
Variable nn : nat.
Let acc := accepts O.

Definition KI (s : kstore) (m : seen_map) (a : amap) : Prop :=
  K0 nn s /\ K1 O a m /\ K2 s a /\ K3 O s a.

Definition tr_seen (tr : list tstep) (m : seen_map) : seen_map := fold_left seen_step tr m.
Definition tr_active (tr : list tstep) (a : amap) : amap := fold_left (fun a st => apply_calls a (t_calls st)) tr a.

Lemma k8s_atom_views_app s l1 l2 :
  k8s_atom_views s (l1 ++ l2) = k8s_atom_views s l1 ++ k8s_atom_views (fold_left ks_atom l1 s) l2.
Proof. revert s. induction l1 as [|a r IH]; intro s; simpl; [reflexivity|]. rewrite IH. reflexivity. Qed.

(** the atoms of one event *)
Lemma k8s_atoms_ok : forall atoms s m a,
  KI s m a ->
  fst (k8s_atoms_pred (k8s_atom_wf nn) s atoms) = true ->
  f7 = true \/ fst (k8s_atoms_pred (fun s a => negb (k8s_atom_guard_F7 s a)) s atoms) = true ->
  fst (k8s_atoms_pred (fun s a => negb (k8s_atom_guard_F8 s a)) s atoms) = true ->
  let r := k8s_atoms_run O f7 f8 s atoms in
  panicked (snd r) = false /\ fst r = fold_left ks_atom atoms s /\
  exists m' a', KI (fold_left ks_atom atoms s) m' a' /\
    forall restv restc,
      let tr := mk_trace (k8s_atom_views s atoms ++ restv) (map calls_of (snd r) ++ restc) in
      let tr' := mk_trace restv restc in
      trace_ok_from acc m (norm_trace_from a tr) = trace_ok_from acc m' (norm_trace_from a' tr') /\
      tr_seen tr m = tr_seen tr' m' /\ tr_active tr a = tr_active tr' a'.
Proof.
  induction atoms as [|at_ r IH]; intros s m a HI Hwf Hg7 Hg8.
  - simpl. splits; try reflexivity. exists m, a. split; [exact HI|]. intros; splits; reflexivity.
  - simpl in Hwf, Hg8. apply andb_true_iff in Hwf as [Hw1 Hw2]. apply andb_true_iff in Hg8 as [Hg8a Hg8b].
    apply negb_true_iff in Hg8a.
    assert (Hg7a : f7 = true \/ k8s_atom_guard_F7 s at_ = false).
    { destruct Hg7 as [H|H]; [left; exact H | right]. simpl in H. apply andb_true_iff in H as [H _]. apply negb_true_iff in H. exact H. }
    assert (Hg7b : f7 = true \/ fst (k8s_atoms_pred (fun s a => negb (k8s_atom_guard_F7 s a)) (ks_atom s at_) r) = true).
    { destruct Hg7 as [H|H]; [left; exact H | right]. simpl in H. apply andb_true_iff in H as [_ H]. exact H. }
    destruct HI as [H0 [H1 [H2 H3]]].
    destruct (k8s_atom_ok O Hdel f7 f8 nn s m a at_ H0 H1 H2 H3 Hw1 Hg7a Hg8a) as [raw [Eraw [Est [S1 [S0 [S1' [S2 S3]]]]]]].
    cbv zeta in S1, S0, S1', S2, S3.
    simpl k8s_atoms_run. rewrite Eraw, Est.
    set (st := {| t_obs := k8s_atom_view s at_; t_calls := norm_calls a raw |}) in *.
    specialize (IH (ks_atom s at_) (seen_step m st) (apply_calls a raw) (conj S0 (conj S1' (conj S2 S3))) Hw2 Hg7b Hg8b).
    cbv zeta in IH. destruct IH as [I1 [I2 [m' [a' [I3 I4]]]]].
    cbv zeta. simpl snd. simpl fst. splits.
    + simpl. exact I1.
    + simpl. exact I2.
    + exists m', a'. split; [exact I3|]. intros restv restc. cbv zeta.
      simpl k8s_atom_views. simpl map. unfold calls_of at 1. simpl snd.
      simpl app. simpl mk_trace. simpl norm_trace_from. simpl trace_ok_from.
      unfold acc. unfold st in S1. rewrite S1. simpl andb. fold acc.
      destruct (I4 restv restc) as [J1 [J2 J3]]. splits.
      * exact J1.
      * unfold tr_seen. simpl fold_left. exact J2.
      * unfold tr_active. simpl fold_left. exact J3.
Qed.

Lemma k8s_run_ok : forall h s m a,
  KI s m a ->
  k8s_all_from (k8s_atom_wf nn) nn s h = true ->
  f7 = true \/ k8s_all_from (fun s a => negb (k8s_atom_guard_F7 s a)) nn s h = true ->
  k8s_all_from (fun s a => negb (k8s_atom_guard_F8 s a)) nn s h = true ->
  let r := k8s_run_from O f7 f8 nn s h in
  let tr := mk_trace (k8s_atom_views s (k8s_atoms_from nn s h)) (map calls_of (snd r)) in
  panicked (snd r) = false /\
  trace_ok_from acc m (norm_trace_from a tr) = true /\
  K1 O (tr_active tr a) (tr_seen tr m).
Proof.
  induction h as [|e r IH]; intros s m a HI Hwf Hg7 Hg8.
  - simpl. splits; try reflexivity. apply HI.
  - simpl in Hwf, Hg8. apply andb_true_iff in Hwf as [Hw1 Hw2]. apply andb_true_iff in Hg8 as [Hg8a Hg8b].
    assert (Hsnd : forall p, snd (k8s_atoms_pred p s (atoms_of nn s e)) = fold_left ks_atom (atoms_of nn s e) s).
    { intro p. generalize (atoms_of nn s e) as l. generalize s as s0. intros s0 l. revert s0. induction l as [|x l IHl]; intro s0; [reflexivity|]. simpl. apply IHl. }
    assert (Hg7a : f7 = true \/ fst (k8s_atoms_pred (fun s a => negb (k8s_atom_guard_F7 s a)) s (atoms_of nn s e)) = true).
    { destruct Hg7 as [H|H]; [left; exact H | right]. simpl in H. apply andb_true_iff in H as [H _]. exact H. }
    destruct (k8s_atoms_ok (atoms_of nn s e) s m a HI Hw1 Hg7a Hg8a) as [A1 [A2 [m' [a' [A3 A4]]]]].
    cbv zeta in A1, A2, A4.
    rewrite Hsnd in Hw2, Hg8b.
    assert (Hg7b : f7 = true \/ k8s_all_from (fun s a => negb (k8s_atom_guard_F7 s a)) nn
                                   (fold_left ks_atom (atoms_of nn s e) s) r = true).
    { destruct Hg7 as [H|H]; [left; exact H | right]. simpl in H. apply andb_true_iff in H as [_ H]. rewrite Hsnd in H. exact H. }
    specialize (IH _ m' a' A3 Hw2 Hg7b Hg8b). cbv zeta in IH. destruct IH as [I1 [I2 I3]].
    cbv zeta. simpl k8s_run_from. rewrite A1. simpl k8s_atoms_from. rewrite k8s_atom_views_app.
    simpl snd. rewrite map_app. rewrite A2.
    destruct (A4 (k8s_atom_views (fold_left ks_atom (atoms_of nn s e) s)
                    (k8s_atoms_from nn (fold_left ks_atom (atoms_of nn s e) s) r))
                 (map calls_of (snd (k8s_run_from O f7 f8 nn (fold_left ks_atom (atoms_of nn s e) s) r)))) as [J1 [J2 J3]].
    splits.
    + unfold panicked. rewrite existsb_app. fold (panicked (snd (k8s_atoms_run O f7 f8 s (atoms_of nn s e)))).
      rewrite A1. exact I1.
    + rewrite J1. exact I2.
    + rewrite J2, J3. exact I3.
Qed.

(** T_main (Kubernetes): every well-formed history of watch events and relists,
    outside the guards of the open findings, makes no handler panic and yields a
    right trace, read modulo idempotent calls *)
Theorem k8s_trace_ok h :
  k8s_wf nn h = true ->
  f7 = true \/ k8s_guard_F7 nn h = false ->
  k8s_guard_F8 nn h = false ->
  panicked (snd (k8s_run O f7 f8 nn h)) = false /\
  trace_ok acc (norm_trace (k8s_raw_trace O f7 f8 nn h)) = true.
Proof.
  intros Hwf H7 H8.
  assert (KI ks_empty seen_empty a_empty) as HI.
  { unfold KI, K0, K1, K2, K3. splits; try (intros; discriminate); try reflexivity.
    intros u E. exfalso. apply E. reflexivity. }
  assert (H7' : f7 = true \/ k8s_all_from (fun s a => negb (k8s_atom_guard_F7 s a)) nn ks_empty h = true).
  { destruct H7 as [H|H]; [left; exact H | right]. unfold k8s_guard_F7 in H. apply negb_false_iff in H. exact H. }
  unfold k8s_guard_F8 in H8. apply negb_false_iff in H8.
  destruct (k8s_run_ok h ks_empty seen_empty a_empty HI Hwf H7' H8) as [R1 [R2 _]].
  split; [exact R1 | exact R2].
Qed.

(** and what the provider's actual calls leave loaded is the latest valid content seen *)
Theorem k8s_converges h u :
  k8s_wf nn h = true ->
  f7 = true \/ k8s_guard_F7 nn h = false ->
  k8s_guard_F8 nn h = false ->
  active_of (k8s_raw_trace O f7 f8 nn h) (Sid u)
  = latest_valid acc (seen_of (k8s_raw_trace O f7 f8 nn h) (Sid u)).
Proof.
  intros Hwf H7 H8.
  assert (KI ks_empty seen_empty a_empty) as HI.
  { unfold KI, K0, K1, K2, K3. splits; try (intros; discriminate); try reflexivity.
    intros w E. exfalso. apply E. reflexivity. }
  assert (H7' : f7 = true \/ k8s_all_from (fun s a => negb (k8s_atom_guard_F7 s a)) nn ks_empty h = true).
  { destruct H7 as [H|H]; [left; exact H | right]. unfold k8s_guard_F7 in H. apply negb_false_iff in H. exact H. }
  unfold k8s_guard_F8 in H8. apply negb_false_iff in H8.
  destruct (k8s_run_ok h ks_empty seen_empty a_empty HI Hwf H7' H8) as [_ [_ R3]].
  apply R3.
Qed.

End K8sRun.

(** ** The findings' witnesses *)

Definition mko n u cls gen c := {| k_name := n; k_uid := u; k_cls := cls; k_gen := gen; k_cid := c |}.

(** C18-F7: the RuleSet is deleted while the watch is broken; the new list does not contain it *)
Definition kh_F7 : list k8s_event := [KWatch WAdded (mko 0 0 true 1 1); KRelist []].

Theorem k8s_F7_refuted :
  exists h, k8s_wf 1 h = true /\ k8s_guard_F7 1 h = true /\ k8s_guard_F8 1 h = false /\
            panicked (snd (k8s_run O_all false false 1 h)) = true /\
            panicked (snd (k8s_run O_all true false 1 h)) = false /\
            trace_ok (accepts O_all) (norm_trace (k8s_raw_trace O_all true false 1 h)) = true /\
            active_of (k8s_raw_trace O_all false false 1 h) (Sid 0) = Some 1 /\
            active_of (k8s_raw_trace O_all true false 1 h) (Sid 0) = None.
Proof. exists kh_F7. vm_compute. splits; reflexivity. Qed.

(** C18-F8: the RuleSet is deleted and re-created under the same name (new UID) while the watch is broken *)
Definition kh_F8 : list k8s_event := [KWatch WAdded (mko 0 0 true 1 1); KRelist [mko 0 1 true 1 2]].

Theorem k8s_F8_refuted :
  exists h, k8s_wf 1 h = true /\ k8s_guard_F8 1 h = true /\ k8s_guard_F7 1 h = false /\
            trace_ok (accepts O_all) (norm_trace (k8s_raw_trace O_all true false 1 h)) <> true /\
            active_of (k8s_raw_trace O_all true false 1 h) (Sid 0) = Some 1 /\
            active_of (k8s_raw_trace O_all true false 1 h) (Sid 1) = None /\
            trace_ok (accepts O_all) (norm_trace (k8s_raw_trace O_all true true 1 h)) = true /\
            active_of (k8s_raw_trace O_all true true 1 h) (Sid 0) = None /\
            active_of (k8s_raw_trace O_all true true 1 h) (Sid 1) = Some 2.
Proof. exists kh_F8. vm_compute. splits; try reflexivity. discriminate. Qed.

Definition kh_nonvacuous : list k8s_event :=
  [KWatch WAdded (mko 0 0 true 1 1); KWatch WModified (mko 0 0 true 1 1); KWatch WModified (mko 0 0 true 2 2);
   KWatch WModified (mko 0 0 true 3 3); KWatch WModified (mko 0 0 false 4 3); KWatch WModified (mko 0 0 true 5 2);
   KWatch WAdded (mko 1 1 true 1 4);
   KRelist [mko 0 0 true 6 5; mko 2 2 true 1 6];          (* name 1 was deleted while the watch was broken *)
   KWatch WDeleted (mko 0 0 true 6 5)].

Example k8s_nonvacuous :
  k8s_wf 3 kh_nonvacuous = true /\ k8s_guard_F8 3 kh_nonvacuous = false /\
  flat_map (fun st => filter p_ok (t_calls st)) (norm_trace (k8s_raw_trace O_rej3 true false 3 kh_nonvacuous)) =
  [ {| p_kind := KCreated; p_src := Sid 0; p_cid := Some 1; p_ok := true |};
    {| p_kind := KUpdated; p_src := Sid 0; p_cid := Some 2; p_ok := true |};
    {| p_kind := KDeleted; p_src := Sid 0; p_cid := None; p_ok := true |};
    {| p_kind := KCreated; p_src := Sid 0; p_cid := Some 2; p_ok := true |};
    {| p_kind := KCreated; p_src := Sid 1; p_cid := Some 4; p_ok := true |};
    {| p_kind := KUpdated; p_src := Sid 0; p_cid := Some 5; p_ok := true |};
    {| p_kind := KCreated; p_src := Sid 2; p_cid := Some 6; p_ok := true |};
    {| p_kind := KDeleted; p_src := Sid 1; p_cid := None; p_ok := true |};
    {| p_kind := KDeleted; p_src := Sid 0; p_cid := None; p_ok := true |} ].
Proof. vm_compute. splits; reflexivity. Qed.
