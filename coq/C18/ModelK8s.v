(** C18 — model of the Kubernetes provider, faithful to the code as it is.

    internal/rules/provider/kubernetes/provider.go
      newController (informer + cache.FilteringResourceEventHandler{FilterFunc: filter, Handler: add/update/delete}),
      filter, addRuleSet, updateRuleSet, deleteRuleSet, toRuleSetConfiguration

    The provider keeps no hashes: it relies on the client-go informer, whose
    store decides between Add and Update, on the filter wrapper, and on the
    object's generation.  The informer's dispatch (client-go tools/cache:
    DeltaFIFO + processDeltas) and the filter wrapper are library code; they are
    transcribed here as observed (DESIGN §7) because the decisions of the
    provider are only reachable through them.  An event is what the API server's
    watch delivers.  The rule set's source is "kubernetes:<namespace>:<UID>";
    objects are identified by their UID (the driver uses one name per UID). *)
From HV Require Import Base.Prelude C18.Model.

Record kobj := {
  k_uid : nat;
  k_cls : bool;      (* spec.authClassName = the provider's auth class *)
  k_gen : nat;       (* metadata.generation *)
  k_cid : cid }.     (* spec.rules *)

Inductive wtype := WAdded | WModified | WDeleted.

Definition k8s_event := (wtype * kobj)%type.

(** the informer's store *)
Definition kstore := nat -> option kobj.
Definition ks_empty : kstore := fun _ => None.
Definition ks_set (s : kstore) (u : nat) (v : option kobj) : kstore := fun w => if Nat.eqb w u then v else s w.

Section WithOracle.
Variable O : oracle.

Definition k_call (kind : pkind) (o : kobj) : pcall :=
  {| p_kind := kind; p_src := Sid (k_uid o);
     p_cid := match kind with KDeleted => None | _ => Some (k_cid o) end;
     p_ok := match kind with KDeleted => deletable O (Sid (k_uid o)) | _ => accepts O (k_cid o) end |}.

(** [addRuleSet], [updateRuleSet], [deleteRuleSet] (the status update that follows is not modelled) *)
Definition k_add (o : kobj) : list pcall := [k_call KCreated o].
Definition k_update (old o : kobj) : list pcall :=
  if Nat.eqb (k_gen old) (k_gen o) then [] else [k_call KUpdated o].
Definition k_delete (o : kobj) : list pcall := [k_call KDeleted o].

(** cache.FilteringResourceEventHandler *)
Definition f_add (o : kobj) : list pcall := if k_cls o then k_add o else [].
Definition f_update (old o : kobj) : list pcall :=
  match k_cls o, k_cls old with
  | true, true => k_update old o
  | true, false => k_add o
  | false, true => k_delete old
  | false, false => []
  end.
Definition f_delete (o : kobj) : list pcall := if k_cls o then k_delete o else [].

(** the informer: Added/Modified of a known object is an update, of an unknown
    one an add; Deleted of an unknown object is dropped, else the handler gets
    the object of the event *)
Definition k8s_step (s : kstore) (e : k8s_event) : kstore * list pcall :=
  let o := snd e in
  match fst e with
  | WAdded | WModified =>
    (ks_set s (k_uid o) (Some o),
     match s (k_uid o) with Some old => f_update old o | None => f_add o end)
  | WDeleted =>
    match s (k_uid o) with
    | Some _ => (ks_set s (k_uid o) None, f_delete o)
    | None => (s, [])
    end
  end.

Fixpoint k8s_run_from (s : kstore) (h : list k8s_event) : kstore * list (list pcall) :=
  match h with
  | [] => (s, [])
  | e :: r => let sx := k8s_step s e in
              let rr := k8s_run_from (fst sx) r in (fst rr, snd sx :: snd rr)
  end.

Definition k8s_run (h : list k8s_event) := k8s_run_from ks_empty h.

End WithOracle.
