(** C18 — model of the Kubernetes provider, faithful to the code as it is.

    internal/rules/provider/kubernetes/provider.go
      newController (informer + cache.FilteringResourceEventHandler{FilterFunc: filter, Handler: add/update/delete}),
      filter, addRuleSet, updateRuleSet, deleteRuleSet, toRuleSetConfiguration

    The provider keeps no hashes: it relies on the client-go informer, whose
    store (keyed by namespace/name) decides between Add and Update, on the filter
    wrapper, and on the object's generation.  The informer's dispatch (client-go
    tools/cache: Reflector, DeltaFIFO.Replace, processDeltas) and the filter wrapper
    are library code; they are transcribed here as observed (DESIGN §7) because the
    decisions of the provider are only reachable through them.  An event is what
    the API server delivers: a watch event, or — after the watch broke — a new
    list ("relist"), which the informer turns into updates/adds of the listed
    objects followed by deletions of the stored objects that are not listed any
    more; such a deletion hands the handlers a [cache.DeletedFinalStateUnknown]
    tombstone instead of the object.  The rule set's source is
    "kubernetes:<namespace>:<UID>": [Sid (k_uid o)].  Go panics are explicit. *)
From HV Require Import Base.Prelude C18.Model.

Record kobj := {
  k_name : nat;      (* namespace/name: the informer's key *)
  k_uid : nat;       (* metadata.uid: the source id *)
  k_cls : bool;      (* spec.authClassName = the provider's auth class *)
  k_gen : nat;       (* metadata.generation *)
  k_cid : cid }.     (* spec.rules *)

Inductive wtype := WAdded | WModified | WDeleted.

Inductive k8s_event :=
| KWatch (t : wtype) (o : kobj)      (* a watch event *)
| KRelist (l : list kobj).           (* the watch broke; this is what the new list returns *)

(** what the informer hands to the handlers, one object at a time *)
Inductive katom :=
| AUpsert (o : kobj)                 (* Added / Modified / listed (Sync, Replaced) *)
| ADelete (o : kobj)                 (* Deleted, with the object of the event *)
| ATomb (name : nat).                (* stored object [name] is not listed any more: DeletedFinalStateUnknown *)

(** the informer's store *)
Definition kstore := nat -> option kobj.
Definition ks_empty : kstore := fun _ => None.
Definition ks_set (s : kstore) (n : nat) (v : option kobj) : kstore := fun w => if Nat.eqb w n then v else s w.

(** DeltaFIFO.Replace: the listed objects in list order, then the stored keys that are
    not listed (client-go enumerates them in Go map order; here in key order over the
    name universe [0..nn-1], the driver sorts the observed deletions accordingly) *)
Definition relist_atoms (nn : nat) (s : kstore) (l : list kobj) : list katom :=
  map AUpsert l ++
  map ATomb (filter (fun n => match s n with Some _ => negb (existsb (fun o => Nat.eqb (k_name o) n) l) | None => false end)
                    (seq 0 nn)).

Definition atoms_of (nn : nat) (s : kstore) (e : k8s_event) : list katom :=
  match e with
  | KWatch (WAdded | WModified) o => [AUpsert o]
  | KWatch WDeleted o => [ADelete o]
  | KRelist l => relist_atoms nn s l
  end.

Section WithOracle.
Variable O : oracle.
(** candidate repairs: fixes/C18-F7.diff (filter / deleteRuleSet unwrap the tombstone),
    fixes/C18-F8.diff (an update whose old and new object differ in UID unloads the old and loads the new) *)
Variable fixed_F7 fixed_F8 : bool.

Definition k_call (kind : pkind) (o : kobj) : pcall :=
  {| p_kind := kind; p_src := Sid (k_uid o);
     p_cid := match kind with KDeleted => None | _ => Some (k_cid o) end;
     p_ok := match kind with KDeleted => deletable O (Sid (k_uid o)) | _ => accepts O (k_cid o) end |}.

(** [addRuleSet], [updateRuleSet], [deleteRuleSet] (the status update that follows is not modelled) *)
Definition k_add (o : kobj) : list pcall := [k_call KCreated o].
Definition k_delete (o : kobj) : list pcall := [k_call KDeleted o].
Definition k_update (old o : kobj) : list pcall :=
  if fixed_F8 && negb (Nat.eqb (k_uid old) (k_uid o)) then k_delete old ++ k_add o
  else if Nat.eqb (k_gen old) (k_gen o) then [] else [k_call KUpdated o].

(** cache.FilteringResourceEventHandler *)
Definition f_add (o : kobj) : list pcall := if k_cls o then k_add o else [].
Definition f_update (old o : kobj) : list pcall :=
  match k_cls o, k_cls old with
  | true, true => k_update old o
  | true, false => k_add o
  | false, true => k_delete old
  | false, false => []
  end.
Definition f_delete (o : kobj) : list pcall := if k_cls o then k_delete o else [].

(** one object handed to the handlers; [None] = the handler goroutine panics
    ([filter]'s unchecked type assertion on the tombstone; client-go re-panics: the process dies) *)
Definition k8s_atom (s : kstore) (a : katom) : kstore * option (list pcall) :=
  match a with
  | AUpsert o =>
    (ks_set s (k_name o) (Some o),
     Some match s (k_name o) with Some old => f_update old o | None => f_add o end)
  | ADelete o =>
    match s (k_name o) with
    | Some _ => (ks_set s (k_name o) None, Some (f_delete o))
    | None => (s, Some [])
    end
  | ATomb n =>
    match s n with
    | Some old => (ks_set s n None, if fixed_F7 then Some (f_delete old) else None)
    | None => (s, Some [])
    end
  end.

(** the atoms of the whole history, in order (each event's atoms are computed
    against the store as it is when the event arrives) and what each did; the run
    ends at the first panic *)
Fixpoint k8s_atoms_run (s : kstore) (atoms : list katom) : kstore * list (katom * option (list pcall)) :=
  match atoms with
  | [] => (s, [])
  | a :: r => let sx := k8s_atom s a in
              match snd sx with
              | None => (fst sx, [(a, None)])
              | Some _ => let rr := k8s_atoms_run (fst sx) r in (fst rr, (a, snd sx) :: snd rr)
              end
  end.

Definition panicked (xs : list (katom * option (list pcall))) : bool :=
  existsb (fun x => match snd x with None => true | Some _ => false end) xs.

Fixpoint k8s_run_from (nn : nat) (s : kstore) (h : list k8s_event) : kstore * list (katom * option (list pcall)) :=
  match h with
  | [] => (s, [])
  | e :: r => let sx := k8s_atoms_run s (atoms_of nn s e) in
              if panicked (snd sx) then sx
              else let rr := k8s_run_from nn (fst sx) r in (fst rr, snd sx ++ snd rr)
  end.

Definition k8s_run (nn : nat) (h : list k8s_event) := k8s_run_from nn ks_empty h.

End WithOracle.
