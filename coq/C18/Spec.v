(** C18 — specification vocabulary, written from the property text and
    independently of the provider models (no stored hashes here).

    "For every rule provider and every history of its sources the set of active
    rule sets converges to the latest valid content of the sources that still
    exist.  Each content change is applied exactly once, unchanged content
    triggers no reload, removed or emptied sources are unloaded, and a
    syntactically invalid new version leaves the previously loaded version
    active." *)
From HV Require Import Base.Prelude C18.Model.

(** What one look at a source tells (a fetch outcome, a file re-read, a listed /
    unlisted blob, an informer notification). *)
Inductive sobs :=
| SNew (c : cid)   (* the source exists and holds the parseable rule set [c] *)
| SGone            (* the source does not exist (any more), is empty or (HTTP, blob) unreachable *)
| SBad             (* the source exists but its content is not a valid rule set *)
| SNone.           (* the look was aborted (shutdown); it says nothing *)

Definition obs_of_content (w : content) : sobs :=
  match w with
  | CAbsent | CEmpty => SGone
  | CInvalid => SBad
  | CValid c => SNew c
  end.

(** The latest valid content of a source, given everything that was seen of it
    so far, MOST RECENT FIRST: a gone/emptied source has none; an invalid version
    or one the processor rejects leaves the previous one. *)
Fixpoint latest_valid (acc : cid -> bool) (seen : list sobs) : option cid :=
  match seen with
  | [] => None
  | SNew c :: older => if acc c then Some c else latest_valid acc older
  | SGone :: _ => None
  | (SBad | SNone) :: older => latest_valid acc older
  end.

(** the ideal repository keyed by source id: what the accepted processor calls leave active *)
Definition amap := sid -> option cid.
Definition a_empty : amap := fun _ => None.
Definition a_set (a : amap) (s : sid) (v : option cid) : amap :=
  fun t => if sid_eqb t s then v else a t.

Definition apply_call (a : amap) (p : pcall) : amap :=
  if p_ok p then
    match p_kind p with
    | KCreated | KUpdated => a_set a (p_src p) (p_cid p)
    | KDeleted => a_set a (p_src p) None
    end
  else a.

Definition apply_calls (a : amap) (ps : list pcall) : amap := fold_left apply_call ps a.

(** "Each content change is applied exactly once, unchanged content triggers no
    reload": when the latest valid content of a source goes from [a] to [a'],
    the accepted processor calls concerning that source are exactly these. *)
Definition expected_calls (a a' : option cid) : list (pkind * option cid) :=
  match a, a' with
  | None, None => []
  | None, Some c => [(KCreated, Some c)]
  | Some x, Some c => if Nat.eqb x c then [] else [(KUpdated, Some c)]
  | Some _, None => [(KDeleted, None)]
  end.

(** One step of a trace: what the step looked at (each source at most once) and
    the processor calls it made. *)
Record tstep := { t_obs : list (sid * sobs); t_calls : list pcall }.

Definition seen_map := sid -> list sobs.
Definition seen_empty : seen_map := fun _ => [].
Definition seen_add (m : seen_map) (s : sid) (o : sobs) : seen_map :=
  fun t => if sid_eqb t s then o :: m t else m t.

Definition calls_on (s : sid) (ps : list pcall) : list (pkind * option cid) :=
  map (fun p => (p_kind p, p_cid p)) (filter (fun p => p_ok p && sid_eqb (p_src p) s) ps).

Definition kc_eqb (a b : pkind * option cid) : bool :=
  pkind_eqb (fst a) (fst b) && option_eqb Nat.eqb (snd a) (snd b).

Fixpoint nodup_sidb (l : list sid) : bool :=
  match l with
  | [] => true
  | s :: r => negb (existsb (sid_eqb s) r) && nodup_sidb r
  end.

(** the step is right: every accepted call concerns a source the step looked at,
    and for each such source the accepted calls are exactly those of the change of
    its latest valid content *)
Definition step_ok (acc : cid -> bool) (m : seen_map) (st : tstep) : bool :=
  nodup_sidb (map fst (t_obs st)) &&
  forallb (fun p => negb (p_ok p) || existsb (fun so => sid_eqb (p_src p) (fst so)) (t_obs st)) (t_calls st) &&
  forallb (fun so => let '(s, o) := so in
             list_eqb kc_eqb (calls_on s (t_calls st))
                      (expected_calls (latest_valid acc (m s)) (latest_valid acc (o :: m s))))
          (t_obs st).

Definition seen_step (m : seen_map) (st : tstep) : seen_map :=
  fold_left (fun m so => seen_add m (fst so) (snd so)) (t_obs st) m.

Fixpoint trace_ok_from (acc : cid -> bool) (m : seen_map) (tr : list tstep) : bool :=
  match tr with
  | [] => true
  | st :: r => step_ok acc m st && trace_ok_from acc (seen_step m st) r
  end.

(** THE executable property predicate: used on the model's trace in the theorems
    and on the implementation's observed trace in the correspondence run. *)
Definition trace_ok (acc : cid -> bool) (tr : list tstep) : bool := trace_ok_from acc seen_empty tr.

Definition seen_of (tr : list tstep) : seen_map := fold_left seen_step tr seen_empty.
Definition active_of (tr : list tstep) : amap := fold_left (fun a st => apply_calls a (t_calls st)) tr a_empty.

(** ** How an event of each provider is read (from the property text, not from the code) *)

(** File system: every processed notification for a file — whatever its kind —
    means "look at the file now"; the initial load looks at the existing files in
    name order and gives up at the first one it cannot load. *)
Definition fs_cannot_load (acc : cid -> bool) (w : content) : bool :=
  match w with
  | CInvalid => true
  | CValid c => negb (acc c)
  | _ => false
  end.

Fixpoint fs_scan_view (acc : cid -> bool) (world : nat -> content) (fs : list nat) : list (sid * sobs) :=
  match fs with
  | [] => []
  | f :: r =>
    match world f with
    | CAbsent => fs_scan_view acc world r
    | w => (Sid f, obs_of_content w) :: (if fs_cannot_load acc w then [] else fs_scan_view acc world r)
    end
  end.

Definition fs_view (acc : cid -> bool) (world : nat -> content) (e : fs_event) : list (sid * sobs) :=
  match e with
  | FsSet _ _ => []
  | FsNotify f ops => if is_nil ops then [] else [(Sid f, obs_of_content (world f))]
  | FsScan n => fs_scan_view acc world (seq 0 n)
  end.

Fixpoint fs_views_from (acc : cid -> bool) (world : nat -> content) (h : list fs_event) : list (list (sid * sobs)) :=
  match h with
  | [] => []
  | e :: r => fs_view acc world e :: fs_views_from acc (world_step world e) r
  end.

Definition fs_views (acc : cid -> bool) (h : list fs_event) := fs_views_from acc world0 h.

(** a trace = what each step looked at, paired with the processor calls it made *)
Fixpoint mk_trace (views : list (list (sid * sobs))) (calls : list (list pcall)) : list tstep :=
  match views, calls with
  | v :: vs, c :: cs => {| t_obs := v; t_calls := c |} :: mk_trace vs cs
  | _, _ => []
  end.

(** HTTP endpoint: the outcomes named by the property's quantifier *)
Inductive outcome := OValid (c : cid) | OEmpty | OInvalid | ONotFound | OCommError | OAborted.

Definition outcome_of (r : response) : outcome :=
  match r with
  | RConnErr | RTimeout => OCommError
  | RCanceled => OAborted
  | RHttp status ct body =>
    if Z.eqb status 200 then
      match body with
      | CEmpty | CAbsent => OEmpty
      | CInvalid => OInvalid
      | CValid c => match ct with CtOther => OInvalid | _ => OValid c end
      end
    else if Z.eqb status 404 then ONotFound
    else OCommError
  end.

(** THE INTERPRETIVE CHOICE of this specification.  The statement says "endpoints
    failing" is part of the histories and that the active rule sets converge to the
    content "of the sources that still exist"; it does not say whether an endpoint
    (or bucket) that cannot be reached right now still exists.  [gone = true]: it
    counts as a source that does not exist (any more) — its rule set is unloaded
    until it answers again; this is what heimdall implements (DESIGN §6 C18) and
    what the provider theorems are stated for.  [gone = false]: the failed poll says
    nothing and the loaded rule set is kept.  A 404 is "not found" under both. *)
Definition obs_of_outcome_r (gone : bool) (o : outcome) : sobs :=
  match o with
  | OValid c => SNew c
  | OEmpty | ONotFound => SGone
  | OCommError => if gone then SGone else SNone
  | OInvalid => SBad
  | OAborted => SNone
  end.

Definition obs_of_outcome (o : outcome) : sobs := obs_of_outcome_r true o.

Definition http_view_r (gone : bool) (e : http_event) : list (sid * sobs) :=
  [(Sid (fst e), obs_of_outcome_r gone (outcome_of (snd e)))].

Definition http_view (e : http_event) : list (sid * sobs) :=
  [(Sid (fst e), obs_of_outcome (outcome_of (snd e)))].

Definition http_views (h : list http_event) : list (list (sid * sobs)) := map http_view h.
Definition http_views_r (gone : bool) (h : list http_event) : list (list (sid * sobs)) := map (http_view_r gone) h.

(** ** Cloud blob (reading of a poll, from the property text) *)
From HV Require Import C18.ModelBlob.

Fixpoint lookup_content (k : nat) (l : list (nat * content)) : option content :=
  match l with
  | [] => None
  | (j, w) :: r => if Nat.eqb j k then Some w else lookup_content k r
  end.

(** a poll of a bucket looks at every key of the bucket: a listed blob shows its
    content, a blob that is not listed does not exist (any more); a bucket that
    cannot be reached counts as gone (as for HTTP endpoints); other failures and
    aborted polls say nothing.  An endpoint whose URL names one blob looks at that blob. *)
Definition blob_view_r (gone : bool) (nk : nat) (e : blob_event) : list (sid * sobs) :=
  let b := fst e in
  match snd e with
  | BList l => map (fun k => (bsid false b k,
                              match lookup_content k l with Some w => obs_of_content w | None => SGone end)) (seq 0 nk)
  | BSingle k w => [(bsid false b k, obs_of_content w)]
  | BFail (BComm | BTimeout) => if gone then map (fun k => (bsid false b k, SGone)) (seq 0 nk) else []
  | BFail _ => []
  end.

Definition blob_view (nk : nat) (e : blob_event) : list (sid * sobs) := blob_view_r true nk e.

Definition blob_views (nk : nat) (h : list blob_event) : list (list (sid * sobs)) := map (blob_view nk) h.
Definition blob_views_r (gone : bool) (nk : nat) (h : list blob_event) : list (list (sid * sobs)) := map (blob_view_r gone nk) h.

(** ** Kubernetes (reading of a watch event, from the property text) *)
From HV Require Import C18.ModelK8s.

(** a RuleSet object of the provider's auth class shows its rules; an object of
    another class, or a deleted one, is not (any more) a source of this instance.
    [s] is what the API server last told about each name: when the object now
    delivered under a name has another UID than the one last seen there, the
    previous object is gone. *)
Definition kobj_obs (o : kobj) : sobs := if k_cls o then SNew (k_cid o) else SGone.

Definition k8s_atom_view (s : kstore) (a : katom) : list (sid * sobs) :=
  match a with
  | AUpsert o =>
    match s (k_name o) with
    | Some old => if Nat.eqb (k_uid old) (k_uid o) then [(Sid (k_uid o), kobj_obs o)]
                  else [(Sid (k_uid old), SGone); (Sid (k_uid o), kobj_obs o)]
    | None => [(Sid (k_uid o), kobj_obs o)]
    end
  | ADelete o => [(Sid (k_uid o), SGone)]
  | ATomb n => match s n with Some old => [(Sid (k_uid old), SGone)] | None => [] end
  end.

(** what was last told about each name *)
Definition ks_atom (s : kstore) (a : katom) : kstore :=
  match a with
  | AUpsert o => ks_set s (k_name o) (Some o)
  | ADelete o => match s (k_name o) with Some _ => ks_set s (k_name o) None | None => s end
  | ATomb n => match s n with Some _ => ks_set s n None | None => s end
  end.

Fixpoint k8s_atom_views (s : kstore) (atoms : list katom) : list (list (sid * sobs)) :=
  match atoms with
  | [] => []
  | a :: r => k8s_atom_view s a :: k8s_atom_views (ks_atom s a) r
  end.

(** The Kubernetes provider keeps no record of what it applied; it hands every
    change to the processor, whose operations are idempotent (updating a rule set
    that is not loaded loads it, deleting one that is not loaded does nothing,
    updating to the loaded content changes nothing).  Its traces are therefore read
    modulo such calls: [norm_trace] drops the accepted calls that do not change
    what is loaded and names a load of a source that has nothing loaded OnCreated. *)
Definition norm_call (a : amap) (p : pcall) : list pcall :=
  if p_ok p then
    match p_kind p with
    | KDeleted => match a (p_src p) with None => [] | Some _ => [p] end
    | KCreated | KUpdated =>
      match a (p_src p), p_cid p with
      | None, _ => [ {| p_kind := KCreated; p_src := p_src p; p_cid := p_cid p; p_ok := true |} ]
      | Some x, Some c => if Nat.eqb x c then []
                          else [ {| p_kind := KUpdated; p_src := p_src p; p_cid := p_cid p; p_ok := true |} ]
      | Some _, None => [p]
      end
    end
  else [p].

Fixpoint norm_calls (a : amap) (ps : list pcall) : list pcall :=
  match ps with
  | [] => []
  | p :: r => norm_call a p ++ norm_calls (apply_call a p) r
  end.

Fixpoint norm_trace_from (a : amap) (tr : list tstep) : list tstep :=
  match tr with
  | [] => []
  | st :: r => {| t_obs := t_obs st; t_calls := norm_calls a (t_calls st) |}
               :: norm_trace_from (apply_calls a (t_calls st)) r
  end.

Definition norm_trace (tr : list tstep) : list tstep := norm_trace_from a_empty tr.
