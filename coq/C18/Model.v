(** C18 — models of the rule providers' change handling, faithful to the code as it is.

    File system   internal/rules/provider/filesystem/provider.go
                  (ruleSetsChanged, ruleSetCreatedOrUpdated, ruleSetDeleted, loadRuleSet, loadInitialRuleSet)
    HTTP endpoint internal/rules/provider/httpendpoint/provider.go (watchChanges, ruleSetsUpdated)
                  internal/rules/provider/httpendpoint/ruleset_endpoint.go (FetchRuleSet)
    (cloud blob and Kubernetes: ModelBlob.v, ModelK8s.v)

    Conventions.  A content hash (SHA-256 of the bytes read / MD5 of the blob) is
    modelled by the identity of the content it was computed from ([cid]): the
    providers only ever compare two hashes for equality.  What a source holds is
    a [content] class, decided by the real parser in the correspondence run
    (the driver writes real YAML of that class).  The rule-set processor is an
    oracle: [accepts c] for OnCreated/OnUpdated of content [c], [deletable s] for
    OnDeleted of source [s].  Mutation of [Provider.states] becomes a returned
    map. *)
From HV Require Import Base.Prelude.

(** ** Sources, contents, processor calls *)

(** the [Source] string handed to the processor: ["<provider>:" ++ name of (ns, n)];
    [s_blobpfx] marks the extra ["blob:"] prefix used by the cloud-blob provider
    when it reports a deletion *)
Record sid := { s_blobpfx : bool; s_ns : nat; s_n : nat }.
Definition Sid (n : nat) : sid := {| s_blobpfx := false; s_ns := 0; s_n := n |}.

Definition sid_eqb (a b : sid) : bool :=
  Bool.eqb (s_blobpfx a) (s_blobpfx b) && Nat.eqb (s_ns a) (s_ns b) && Nat.eqb (s_n a) (s_n b).

Definition cid := nat.

(** what a source (file, response body, blob) holds *)
Inductive content :=
| CAbsent            (* no such file / object *)
| CEmpty             (* no YAML document: zero bytes, white space, comments only *)
| CInvalid           (* does not parse or does not validate as a rule set *)
| CValid (c : cid).  (* a valid rule set; [c] identifies the bytes *)

Inductive pkind := KCreated | KUpdated | KDeleted.

Definition pkind_eqb (a b : pkind) : bool :=
  match a, b with
  | KCreated, KCreated | KUpdated, KUpdated | KDeleted, KDeleted => true
  | _, _ => false
  end.

(** one call to the rule.SetProcessor and whether it returned nil *)
Record pcall := { p_kind : pkind; p_src : sid; p_cid : option cid; p_ok : bool }.

Definition pcall_eqb (a b : pcall) : bool :=
  pkind_eqb (p_kind a) (p_kind b) && sid_eqb (p_src a) (p_src b) &&
  option_eqb Nat.eqb (p_cid a) (p_cid b) && Bool.eqb (p_ok a) (p_ok b).

(** the processor as an oracle *)
Record oracle := { accepts : cid -> bool; deletable : sid -> bool }.

(** [Provider.states]: source index -> stored hash *)
Definition states := nat -> option cid.
Definition st_empty : states := fun _ => None.
Definition st_set (k : states) (f : nat) (v : option cid) : states :=
  fun g => if Nat.eqb g f then v else k g.

(** result of one handler run: new states, processor calls in order, returned error? *)
Record hres := { h_st : states; h_calls : list pcall; h_err : bool }.
Definition hres_nop (k : states) (err : bool) : hres := {| h_st := k; h_calls := []; h_err := err |}.

Section WithOracle.
Variable O : oracle.

(** ** The decision shared by [ruleSetCreatedOrUpdated] (file system) and
    [ruleSetsUpdated] (HTTP endpoint) is *not* shared in the Go code; both are
    transcribed separately below. *)

(** *** File system *)

(** [ruleSetDeleted]: unknown file -> nothing; else OnDeleted, and on success forget the hash *)
Definition fs_deleted (k : states) (f : nat) : hres :=
  match k f with
  | None => hres_nop k false
  | Some _ =>
    let ok := deletable O (Sid f) in
    {| h_st := if ok then st_set k f None else k;
       h_calls := [ {| p_kind := KDeleted; p_src := Sid f; p_cid := None; p_ok := ok |} ];
       h_err := negb ok |}
  end.

(** [ruleSetCreatedOrUpdated] with [loadRuleSet] inlined: [w] is what the file holds now *)
Definition fs_created_or_updated (k : states) (f : nat) (w : content) : hres :=
  match w with
  | CAbsent | CEmpty => fs_deleted k f          (* os.ErrNotExist / ErrEmptyRuleSet *)
  | CInvalid => hres_nop k true                   (* parse error is returned, nothing else happens *)
  | CValid c =>
    let load (kind : pkind) :=
      let ok := accepts O c in
      {| h_st := if ok then st_set k f (Some c) else k;
         h_calls := [ {| p_kind := kind; p_src := Sid f; p_cid := Some c; p_ok := ok |} ];
         h_err := negb ok |} in
    match k f with
    | None => load KCreated                        (* len(hash) == 0 *)
    | Some h => if Nat.eqb h c then hres_nop k false else load KUpdated
    end
  end.

(** fsnotify.Op is a bit mask; [evt.Has] tests one bit *)
Inductive fsop := OpCreate | OpWrite | OpRemove | OpRename | OpChmod.

Definition fsop_eqb (a b : fsop) : bool :=
  match a, b with
  | OpCreate, OpCreate | OpWrite, OpWrite | OpRemove, OpRemove | OpRename, OpRename | OpChmod, OpChmod => true
  | _, _ => false
  end.

Definition has (ops : list fsop) (o : fsop) : bool := existsb (fsop_eqb o) ops.

Inductive dispatch := DReread | DDelete | DIgnore.

(** the [switch] of [ruleSetsChanged].  [fixed = true] is the candidate repair
    fixes/C18-F2.diff: every event re-reads the file. *)
Definition fs_dispatch (fixed : bool) (ops : list fsop) : dispatch :=
  if has ops OpCreate || has ops OpWrite || has ops OpChmod then DReread
  else if has ops OpRemove then (if fixed then DReread else DDelete)
  else if fixed && has ops OpRename then DReread
  else DIgnore.

Definition fs_changed (fixed : bool) (k : states) (f : nat) (ops : list fsop) (w : content) : hres :=
  match fs_dispatch fixed ops with
  | DReread => fs_created_or_updated k f w
  | DDelete => fs_deleted k f
  | DIgnore => hres_nop k false
  end.

(** [loadInitialRuleSet]: the directory entries in name order (files [0..n-1]
    that exist), [ruleSetCreatedOrUpdated] on each, stop at the first error *)
Fixpoint fs_scan_from (world : nat -> content) (k : states) (fs : list nat) : hres :=
  match fs with
  | [] => hres_nop k false
  | f :: r =>
    match world f with
    | CAbsent => fs_scan_from world k r         (* not listed by os.ReadDir *)
    | w =>
      let h := fs_created_or_updated k f w in
      if h_err h then h
      else let h' := fs_scan_from world (h_st h) r in
           {| h_st := h_st h'; h_calls := h_calls h ++ h_calls h'; h_err := h_err h' |}
    end
  end.

Inductive fs_event :=
| FsSet (f : nat) (w : content)          (* the world changes: file [f] now holds [w] *)
| FsNotify (f : nat) (ops : list fsop)   (* ruleSetsChanged(Event{Name: f, Op: ops}) is processed *)
| FsScan (n : nat).                      (* loadInitialRuleSet over the files 0..n-1 *)

Record fs_state := { fs_world : nat -> content; fs_known : states }.

Definition world0 : nat -> content := fun _ => CAbsent.
Definition fs_init : fs_state := {| fs_world := world0; fs_known := st_empty |}.

(** how an event changes what the files hold (only [FsSet] does) *)
Definition world_step (world : nat -> content) (e : fs_event) : nat -> content :=
  match e with
  | FsSet f w => fun g => if Nat.eqb g f then w else world g
  | _ => world
  end.

Definition fs_handle (fixed : bool) (s : fs_state) (e : fs_event) : hres :=
  match e with
  | FsSet f w => hres_nop (fs_known s) false
  | FsNotify f ops => fs_changed fixed (fs_known s) f ops (fs_world s f)
  | FsScan n => fs_scan_from (fs_world s) (fs_known s) (seq 0 n)
  end.

Definition fs_step (fixed : bool) (s : fs_state) (e : fs_event) : fs_state * hres :=
  let h := fs_handle fixed s e in
  ({| fs_world := world_step (fs_world s) e; fs_known := h_st h |}, h).

(** the whole history: final state and, per event, what the handler did *)
Fixpoint fs_run_from (fixed : bool) (s : fs_state) (h : list fs_event) : fs_state * list hres :=
  match h with
  | [] => (s, [])
  | e :: r => let sx := fs_step fixed s e in
              let rr := fs_run_from fixed (fst sx) r in (fst rr, snd sx :: snd rr)
  end.

Definition fs_run (fixed : bool) (h : list fs_event) := fs_run_from fixed fs_init h.

(** *** HTTP endpoint *)

Inductive ctype := CtYaml | CtJson | CtOther.   (* Content-Type of the response *)

(** what the endpoint answers to one poll *)
Inductive response :=
| RHttp (status : Z) (ct : ctype) (body : content)   (* [body] is never [CAbsent] *)
| RConnErr                                           (* transport error *)
| RTimeout                                           (* deadline exceeded *)
| RCanceled.                                         (* context canceled (shutdown) *)

(** error kinds [watchChanges] distinguishes with errors.Is *)
Inductive ferr := EEmpty | EInternal | EComm | ECommTimeout | ECanceled.

Inductive fetched := FOk (c : cid) | FErr (e : ferr).

(** [ruleSetEndpoint.FetchRuleSet] + [config.ParseRules] *)
Definition http_fetch (r : response) : fetched :=
  match r with
  | RConnErr => FErr EComm
  | RTimeout => FErr ECommTimeout
  | RCanceled => FErr ECanceled
  | RHttp status ct body =>
    if negb (Z.eqb status 200) then FErr EComm else
    match ct, body with
    | (CtYaml | CtJson), CValid c => FOk c
    | (CtYaml | CtJson), (CEmpty | CAbsent) => FErr EEmpty   (* ErrInternal wrapping ErrEmptyRuleSet *)
    | (CtYaml | CtJson), CInvalid => FErr EInternal
    | CtOther, (CEmpty | CAbsent) => FErr EEmpty
    | CtOther, _ => FErr EInternal                             (* unsupported content type *)
    end
  end.

(** [ruleSetsUpdated]: [rs = None] is a rule set without rules *)
Definition http_updated (k : states) (e : nat) (rs : option cid) : hres :=
  match k e, rs with
  | Some _, None =>
    let ok := deletable O (Sid e) in
    {| h_st := if ok then st_set k e None else k;
       h_calls := [ {| p_kind := KDeleted; p_src := Sid e; p_cid := None; p_ok := ok |} ];
       h_err := negb ok |}
  | Some h, Some c =>
    if Nat.eqb h c then hres_nop k false else
    let ok := accepts O c in
    {| h_st := if ok then st_set k e (Some c) else k;
       h_calls := [ {| p_kind := KUpdated; p_src := Sid e; p_cid := Some c; p_ok := ok |} ];
       h_err := negb ok |}
  | None, Some c =>
    let ok := accepts O c in
    {| h_st := if ok then st_set k e (Some c) else k;
       h_calls := [ {| p_kind := KCreated; p_src := Sid e; p_cid := Some c; p_ok := ok |} ];
       h_err := negb ok |}
  | None, None => hres_nop k false
  end.

(** [watchChanges]; [h_err] is the error *returned* (the error of ruleSetsUpdated is only logged) *)
Definition http_watch (k : states) (e : nat) (r : response) : hres :=
  match http_fetch r with
  | FOk c => let h := http_updated k e (Some c) in {| h_st := h_st h; h_calls := h_calls h; h_err := false |}
  | FErr ECanceled => hres_nop k false
  | FErr EInternal => hres_nop k true
  | FErr (EEmpty | EComm | ECommTimeout) =>
    let h := http_updated k e None in {| h_st := h_st h; h_calls := h_calls h; h_err := false |}
  end.

(** one event = one poll of endpoint [e] that is answered by [r] *)
Definition http_event := (nat * response)%type.

Fixpoint http_run_from (k : states) (h : list http_event) : states * list hres :=
  match h with
  | [] => (k, [])
  | er :: rest => let x := http_watch k (fst er) (snd er) in
                  let rr := http_run_from (h_st x) rest in (fst rr, x :: snd rr)
  end.

Definition http_run (h : list http_event) := http_run_from st_empty h.

End WithOracle.
