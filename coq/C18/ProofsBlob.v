(** C18 — cloud blob: guards of the open findings and the proof that every
    history of polls outside them yields a right trace. *)
From HV Require Import Base.Prelude C18.Model C18.ModelBlob C18.Spec C18.Proofs.

(** ** Guards *)

(** a blob that cannot be loaded: unreadable / invalid, or rejected by the processor *)
Definition unloadable (acc : cid -> bool) (w : content) : bool :=
  match w with
  | CInvalid | CAbsent => true
  | CValid c => negb (acc c)
  | CEmpty => false
  end.

(** The guards of the open findings are decided per poll against what the
    specification knows at that moment ([m]: everything seen so far, from the history alone). *)

(** the specification asks for at least one accepted call in a step that looks at [obs] *)
Definition demands (acc : cid -> bool) (m : seen_map) (obs : list (sid * sobs)) : bool :=
  existsb (fun so => negb (is_nil (expected_calls (latest_valid acc (m (fst so)))
                                                  (latest_valid acc (snd so :: m (fst so)))))) obs.

(** C18-F5: a listing contains a blob that cannot be loaded (the whole poll is
    abandoned: nothing else of the bucket is updated or unloaded) while something of
    the bucket has to be loaded, updated or unloaded *)
Definition blob_ev_guard_F5 (acc : cid -> bool) (nk : nat) (m : seen_map) (e : blob_event) : bool :=
  match snd e with
  | BList l => existsb (fun kw => unloadable acc (snd kw)) l && demands acc m (blob_view nk e)
  | _ => false
  end.

(** C18-F6: the endpoint names one blob, that blob does not exist (any more) and its rule set is loaded *)
Definition blob_ev_guard_F6 (acc : cid -> bool) (m : seen_map) (e : blob_event) : bool :=
  match snd e with
  | BSingle k CAbsent => is_some (latest_valid acc (m (bsid false (fst e) k)))
  | _ => false
  end.

Fixpoint blob_guards_from (g : seen_map -> blob_event -> bool) (nk : nat) (m : seen_map) (h : list blob_event) : bool :=
  match h with
  | [] => false
  | e :: r => g m e || blob_guards_from g nk (seen_step m {| t_obs := blob_view nk e; t_calls := [] |}) r
  end.

Definition blob_guard_F5 (acc : cid -> bool) (nk : nat) (h : list blob_event) : bool :=
  blob_guards_from (blob_ev_guard_F5 acc nk) nk seen_empty h.
Definition blob_guard_F6 (acc : cid -> bool) (nk : nat) (h : list blob_event) : bool :=
  blob_guards_from (blob_ev_guard_F6 acc) nk seen_empty h.

(** C18-F1: some poll reports a blob as removed that an earlier poll saw valid
    (only then is OnDeleted called, with the wrong source id) *)
Definition valid_in (k : nat) (p : bpoll) : bool :=
  match p with
  | BList l => match lookup_content k l with Some (CValid _) => true | _ => false end
  | BSingle j (CValid _) => Nat.eqb j k
  | _ => false
  end.

Definition gone_in (k : nat) (p : bpoll) : bool :=
  match p with
  | BList l => match lookup_content k l with None | Some CEmpty => true | _ => false end
  | BSingle j w => if Nat.eqb j k then match w with CEmpty => true | _ => false end else true
  | BFail (BComm | BTimeout) => true
  | BFail _ => false
  end.

Definition maybe_known := nat -> nat -> bool.

Definition mk_step (v : maybe_known) (e : blob_event) : maybe_known :=
  fun b k => if Nat.eqb b (fst e)
             then (if valid_in k (snd e) then true else if gone_in k (snd e) then false else v b k)
             else v b k.

Fixpoint blob_guard_F1_from (nk : nat) (v : maybe_known) (h : list blob_event) : bool :=
  match h with
  | [] => false
  | e :: r => existsb (fun k => v (fst e) k && gone_in k (snd e)) (seq 0 nk) || blob_guard_F1_from nk (mk_step v e) r
  end.

Definition blob_guard_F1 (nk : nat) (h : list blob_event) : bool := blob_guard_F1_from nk (fun _ _ => false) h.

(** ** Every history of polls outside the guards yields a right trace *)

Section Blob.
Variable O : oracle.
Hypothesis Hdel : forall s, deletable O s = true.
Variable nk : nat.
Let acc := accepts O.

Definition bkey (b k : nat) : sid := bsid false b k.

Fixpoint lookup_cid (k : nat) (rs : list (nat * cid)) : option cid :=
  match rs with
  | [] => None
  | (j, c) :: r => if Nat.eqb j k then Some c else lookup_cid k r
  end.

Lemma lookup_cid_notin k rs : ~ In k (map fst rs) -> lookup_cid k rs = None.
Proof.
  induction rs as [|[j c] r IH]; simpl; intro H; [reflexivity|].
  destruct (Nat.eqb j k) eqn:E; [apply Nat.eqb_eq in E; subst; tauto | apply IH; tauto].
Qed.

Lemma lookup_cid_in k c rs : NoDup (map fst rs) -> In (k, c) rs -> lookup_cid k rs = Some c.
Proof.
  induction rs as [|[j d] r IH]; simpl; intros Hnd Hin; [contradiction|].
  inversion Hnd as [|? ? Hnotin Hnd']; subst.
  destruct Hin as [E|Hin].
  - inversion E; subst. rewrite Nat.eqb_refl. reflexivity.
  - destruct (Nat.eqb j k) eqn:E.
    + apply Nat.eqb_eq in E. subst. exfalso. apply Hnotin. apply in_map_iff. exists (k, c). auto.
    + apply IH; assumption.
Qed.

Lemma lookup_cid_some k c rs : lookup_cid k rs = Some c -> In (k, c) rs.
Proof.
  induction rs as [|[j d] r IH]; simpl; [discriminate|].
  destruct (Nat.eqb j k) eqn:E.
  - apply Nat.eqb_eq in E. subst. intro H; inversion H; subst. left; reflexivity.
  - intro H. right. apply IH. exact H.
Qed.

(** *** the two loops of ruleSetsUpdated when nothing fails *)

Definition dcall (fixed : bool) (b k : nat) : pcall :=
  {| p_kind := KDeleted; p_src := bsid (negb fixed) b k; p_cid := None; p_ok := true |}.

Lemma blob_remove_ok fixed b : forall ks st,
  let h := blob_remove O fixed b st ks in
  h_err h = false /\
  (forall k, h_st h k = if existsb (Nat.eqb k) ks then None else st k) /\
  h_calls h = map (dcall fixed b) ks.
Proof.
  induction ks as [|k r IH]; intro st; simpl.
  - splits; reflexivity.
  - rewrite Hdel. destruct (IH (st_set st k None)) as [I1 [I2 I3]]. simpl. splits.
    + exact I1.
    + intro j. rewrite I2. unfold st_set. destruct (Nat.eqb j k); simpl; [destruct (existsb _ r)|]; reflexivity.
    + rewrite I3. reflexivity.
Qed.

Definition lcalls (b : nat) (st : states) (kc : nat * cid) : list pcall :=
  match st (fst kc) with
  | None => [ {| p_kind := KCreated; p_src := bkey b (fst kc); p_cid := Some (snd kc); p_ok := true |} ]
  | Some x => if Nat.eqb x (snd kc) then []
              else [ {| p_kind := KUpdated; p_src := bkey b (fst kc); p_cid := Some (snd kc); p_ok := true |} ]
  end.

Lemma flat_map_ext_in {A B} (f g : A -> list B) l :
  (forall x, In x l -> f x = g x) -> flat_map f l = flat_map g l.
Proof.
  induction l as [|x r IH]; simpl; intro H; [reflexivity|].
  rewrite (H x (or_introl eq_refl)), IH; [reflexivity|]. intros y Hy. apply H. right. exact Hy.
Qed.

Lemma blob_load_ok b : forall rs st,
  NoDup (map fst rs) -> (forall k c, In (k, c) rs -> acc c = true) ->
  let h := blob_load O b st rs in
  h_err h = false /\
  (forall k, h_st h k = match lookup_cid k rs with Some c => Some c | None => st k end) /\
  h_calls h = flat_map (lcalls b st) rs.
Proof.
  induction rs as [|[k c] r IH]; intros st Hnd Hacc; simpl.
  - splits; reflexivity.
  - inversion Hnd as [|? ? Hnotin Hnd']; subst.
    assert (Hc : accepts O c = true) by (apply (Hacc k c); left; reflexivity).
    assert (Hacc' : forall k c, In (k, c) r -> acc c = true) by (intros; eapply Hacc; right; eauto).
    assert (Hext : forall st', (forall j, j <> k -> st' j = st j) ->
                   flat_map (lcalls b st') r = flat_map (lcalls b st) r).
    { intros st' H. apply flat_map_ext_in. intros [j d] Hin. unfold lcalls; simpl.
      rewrite H; [reflexivity|]. intro E; subst. apply Hnotin. apply in_map_iff. exists (k, d). auto. }
    unfold lcalls at 1; simpl.
    destruct (st k) as [x|] eqn:Ek.
    + destruct (Nat.eqb x c) eqn:Exc.
      * destruct (IH st Hnd' Hacc') as [I1 [I2 I3]]. splits; [exact I1| |exact I3].
        intro j. rewrite I2. destruct (Nat.eqb k j) eqn:E; [|reflexivity].
        apply Nat.eqb_eq in E. subst j. rewrite lookup_cid_notin by assumption.
        apply Nat.eqb_eq in Exc. subst. exact Ek.
      * rewrite Hc. destruct (IH (st_set st k (Some c)) Hnd' Hacc') as [I1 [I2 I3]]. simpl. splits; [exact I1| |].
        -- intro j. rewrite I2. destruct (Nat.eqb k j) eqn:E.
           ++ apply Nat.eqb_eq in E. subst j. rewrite lookup_cid_notin by assumption. apply st_set_same.
           ++ destruct (lookup_cid j r); [reflexivity|]. apply st_set_other. apply Nat.eqb_neq in E. congruence.
        -- rewrite I3, Hext; [reflexivity|]. intros j Hj. apply st_set_other. exact Hj.
    + rewrite Hc. destruct (IH (st_set st k (Some c)) Hnd' Hacc') as [I1 [I2 I3]]. simpl. splits; [exact I1| |].
      * intro j. rewrite I2. destruct (Nat.eqb k j) eqn:E.
        -- apply Nat.eqb_eq in E. subst j. rewrite lookup_cid_notin by assumption. apply st_set_same.
        -- destruct (lookup_cid j r); [reflexivity|]. apply st_set_other. apply Nat.eqb_neq in E. congruence.
      * rewrite I3, Hext; [reflexivity|]. intros j Hj. apply st_set_other. exact Hj.
Qed.

(** *** the accepted calls on one source, out of a list built item by item *)

Lemma calls_on_flat_map {X} (f : X -> list pcall) (g : X -> sid) items s :
  (forall x p, In p (f x) -> p_src p = g x) ->
  calls_on s (flat_map f items) = flat_map (fun x => if sid_eqb (g x) s then calls_on s (f x) else []) items.
Proof.
  intro H. induction items as [|x r IH]; simpl; [reflexivity|].
  rewrite calls_on_app, IH. f_equal.
  destruct (sid_eqb (g x) s) eqn:E; [reflexivity|].
  apply calls_on_nil_notin. intros p Hp _ Es. rewrite (H x p Hp) in Es. subst. rewrite sid_eqb_refl in E. discriminate.
Qed.

Lemma flat_map_pick_none {X Y} (g : X -> sid) (F : X -> list Y) items s :
  (forall x, In x items -> g x <> s) ->
  flat_map (fun x => if sid_eqb (g x) s then F x else []) items = [].
Proof.
  induction items as [|x r IH]; simpl; intro H; [reflexivity|].
  assert (sid_eqb (g x) s = false) as -> by (apply sid_eqb_neq; apply H; left; reflexivity).
  apply IH. intros y Hy. apply H. right. exact Hy.
Qed.

Lemma flat_map_pick_one {X Y} (g : X -> sid) (F : X -> list Y) items s x0 :
  NoDup (map g items) -> In x0 items -> g x0 = s ->
  flat_map (fun x => if sid_eqb (g x) s then F x else []) items = F x0.
Proof.
  induction items as [|x r IH]; simpl; intros Hnd Hin Hg; [contradiction|].
  inversion Hnd as [|? ? Hnotin Hnd']; subst.
  destruct Hin as [->|Hin].
  - rewrite sid_eqb_refl. rewrite flat_map_pick_none; [apply app_nil_r|].
    intros y Hy E. apply Hnotin. rewrite <- E. apply in_map. exact Hy.
  - assert (sid_eqb (g x) (g x0) = false) as ->.
    { apply sid_eqb_neq. intro E. apply Hnotin. rewrite E. apply in_map. exact Hin. }
    simpl. apply IH; auto.
Qed.

Lemma map_as_flat_map {A B} (f : A -> B) l : map f l = flat_map (fun x => [f x]) l.
Proof. induction l; simpl; [reflexivity | f_equal; assumption]. Qed.

Lemma bsid_inj p b k q c j : bsid p b k = bsid q c j -> p = q /\ b = c /\ k = j.
Proof. intro H. inversion H. auto. Qed.

Lemma NoDup_map_inj {A B} (f : A -> B) l : (forall x y, f x = f y -> x = y) -> NoDup l -> NoDup (map f l).
Proof.
  intros Hinj Hnd. induction Hnd as [|x l Hnotin Hnd IH]; simpl; constructor; [|exact IH].
  intro X. apply in_map_iff in X as [y [E Hy]]. apply Hinj in E. subst. contradiction.
Qed.

(** *** [ruleSetsUpdated] when nothing fails: the new state is the listing, the
    accepted calls on each key are those of the change *)
Lemma blob_updated_ok fixed b st rs :
  NoDup (map fst rs) -> (forall k, In k (map fst rs) -> k < nk) -> (forall k c, In (k, c) rs -> acc c = true) ->
  (forall k, nk <= k -> st k = None) ->
  fixed = true \/ blob_removed nk st rs = [] ->
  let h := blob_updated O fixed nk b st rs in
  (forall k, h_st h k = lookup_cid k rs) /\
  (forall p, In p (h_calls h) -> exists k, k < nk /\ p_src p = bkey b k) /\
  (forall k, k < nk -> calls_on (bkey b k) (h_calls h) = expected_calls (st k) (lookup_cid k rs)).
Proof.
  intros Hnd Hlt Hacc Hsmall Hfix. unfold blob_updated.
  set (ks := blob_removed nk st rs).
  destruct (blob_remove_ok fixed b ks st) as [R1 [R2 R3]]. cbv zeta in R1, R2, R3. rewrite R1.
  set (st1 := h_st (blob_remove O fixed b st ks)) in *.
  destruct (blob_load_ok b rs st1 Hnd Hacc) as [L1 [L2 L3]]. cbv zeta in L1, L2, L3. cbv zeta. simpl.
  assert (Hks : forall k, existsb (Nat.eqb k) ks = true <->
                          (k < nk /\ st k <> None /\ ~ In k (map fst rs))).
  { intro k. unfold ks, blob_removed. rewrite existsb_exists. split.
    - intros [j [Hj E]]. apply Nat.eqb_eq in E. subst j. apply filter_In in Hj as [Hseq Hc].
      apply in_seq in Hseq. apply andb_true_iff in Hc as [C1 C2]. splits; [lia| |].
      + destruct (st k); [discriminate | discriminate].
      + apply negb_true_iff in C2. intro X. assert (existsb (Nat.eqb k) (map fst rs) = true); [|congruence].
        apply existsb_exists. exists k. split; [exact X | apply Nat.eqb_refl].
    - intros [H1 [H2 H3]]. exists k. split; [|apply Nat.eqb_refl]. apply filter_In. split; [apply in_seq; lia|].
      apply andb_true_iff. split; [destruct (st k); [reflexivity | contradiction]|].
      apply negb_true_iff. destruct (existsb (Nat.eqb k) (map fst rs)) eqn:E; [|reflexivity].
      apply existsb_exists in E as [j [Hj E]]. apply Nat.eqb_eq in E. subst. contradiction. }
  assert (Hndks : NoDup ks) by (apply NoDup_filter; apply seq_NoDup).
  splits.
  - (* state *)
    intro k. rewrite L2. destruct (lookup_cid k rs) eqn:El; [reflexivity|].
    unfold st1. rewrite R2. destruct (existsb (Nat.eqb k) ks) eqn:E; [reflexivity|].
    destruct (st k) eqn:Es; [|reflexivity].
    destruct (Nat.lt_ge_cases k nk) as [Hk|Hk]; [|rewrite Hsmall in Es by assumption; discriminate].
    exfalso. assert (existsb (Nat.eqb k) ks = true); [|congruence]. apply Hks. splits; [assumption|congruence|].
    intro X. apply in_map_iff in X as [[j d] [E1 Hin]]. simpl in E1. subst j.
    rewrite (lookup_cid_in k d rs Hnd Hin) in El. discriminate.
  - (* frame *)
    intros p Hp. apply in_app_or in Hp as [Hp|Hp].
    + rewrite R3 in Hp. apply in_map_iff in Hp as [k [<- Hk]].
      destruct Hfix as [Hf|Hnil]; [|fold ks in Hnil; rewrite Hnil in Hk; contradiction].
      exists k. split; [|unfold dcall; simpl; rewrite Hf; reflexivity].
      assert (existsb (Nat.eqb k) ks = true) as X by (apply existsb_exists; exists k; split; [assumption | apply Nat.eqb_refl]).
      apply Hks in X. tauto.
    + rewrite L3 in Hp. apply in_flat_map in Hp as [[k c] [Hin Hp]].
      exists k. split; [apply Hlt; apply in_map_iff; exists (k, c); auto|].
      unfold lcalls in Hp; simpl in Hp. destruct (st1 k) as [x|]; [destruct (Nat.eqb x c)|];
        simpl in Hp; try contradiction; destruct Hp as [<-|[]]; reflexivity.
  - (* the accepted calls on key k *)
    intros k Hk. rewrite calls_on_app, R3, L3.
    assert (Hst1 : forall j, In j (map fst rs) -> st1 j = st j).
    { intros j Hj. unfold st1. rewrite R2. destruct (existsb (Nat.eqb j) ks) eqn:E; [|reflexivity].
      apply Hks in E. tauto. }
    (* deletions *)
    assert (HD : calls_on (bkey b k) (map (dcall fixed b) ks)
                 = if fixed && existsb (Nat.eqb k) ks then [(KDeleted, None)] else []).
    { rewrite (map_as_flat_map (dcall fixed b) ks).
      rewrite (calls_on_flat_map (fun j => [dcall fixed b j]) (fun j => bsid (negb fixed) b j)).
      2:{ intros j p [<-|[]]. reflexivity. }
      destruct fixed; simpl negb; simpl andb.
      - destruct (existsb (Nat.eqb k) ks) eqn:E.
        + rewrite (flat_map_pick_one (fun j => bsid false b j) _ ks (bkey b k) k).
          * unfold calls_on; simpl. rewrite sid_eqb_refl. reflexivity.
          * apply NoDup_map_inj; [intros x y H; apply bsid_inj in H; tauto | exact Hndks].
          * apply existsb_exists in E as [j [Hj E]]. apply Nat.eqb_eq in E. subst. exact Hj.
          * reflexivity.
        + apply flat_map_pick_none. intros j Hj Ej. apply bsid_inj in Ej as [_ [_ Ej]]. subst j.
          assert (existsb (Nat.eqb k) ks = true); [|congruence].
          apply existsb_exists. exists k. split; [assumption | apply Nat.eqb_refl].
      - apply flat_map_pick_none. intros j Hj Ej. apply bsid_inj in Ej as [Ej _]. discriminate. }
    rewrite HD.
    (* loads *)
    rewrite (calls_on_flat_map (lcalls b st1) (fun kc => bkey b (fst kc))).
    2:{ intros [j d] p Hp. unfold lcalls in Hp; simpl in Hp. destruct (st1 j) as [x|]; [destruct (Nat.eqb x d)|];
          simpl in Hp; try contradiction; destruct Hp as [<-|[]]; reflexivity. }
    destruct (lookup_cid k rs) as [c|] eqn:El.
    + (* listed: not removed, one load if changed *)
      pose proof (lookup_cid_some k c rs El) as Hin.
      assert (In k (map fst rs)) as Hkin by (apply in_map_iff; exists (k, c); auto).
      assert (existsb (Nat.eqb k) ks = false) as ->.
      { destruct (existsb (Nat.eqb k) ks) eqn:E; [|reflexivity]. apply Hks in E. tauto. }
      rewrite andb_false_r. simpl.
      rewrite (flat_map_pick_one (fun kc => bkey b (fst kc)) _ rs (bkey b k) (k, c)); [| |exact Hin|reflexivity].
      * unfold lcalls; simpl. rewrite (Hst1 k Hkin).
        destruct (st k) as [x|]; simpl.
        -- destruct (Nat.eqb x c); [reflexivity|]. unfold calls_on; simpl. rewrite sid_eqb_refl. reflexivity.
        -- unfold calls_on; simpl. rewrite sid_eqb_refl. reflexivity.
      * rewrite <- (map_map fst (bkey b)). apply NoDup_map_inj; [intros x y H; apply bsid_inj in H; tauto | exact Hnd].
    + (* not listed *)
      rewrite flat_map_pick_none.
      2:{ intros [j d] Hin Ej. apply bsid_inj in Ej as [_ [_ Ej]]. simpl in Ej. subst j.
          rewrite (lookup_cid_in k d rs Hnd Hin) in El. discriminate. }
      rewrite app_nil_r.
      destruct (st k) as [x|] eqn:Es; simpl.
      * assert (existsb (Nat.eqb k) ks = true) as Hin.
        { apply Hks. splits; [assumption | congruence|]. intro X. apply in_map_iff in X as [[j d] [E1 Hin]].
          simpl in E1. subst j. rewrite (lookup_cid_in k d rs Hnd Hin) in El. discriminate. }
        rewrite Hin. destruct Hfix as [->|Hnil]; [reflexivity|].
        fold ks in Hnil. rewrite Hnil in Hin. discriminate.
      * assert (existsb (Nat.eqb k) ks = false) as ->.
        { destruct (existsb (Nat.eqb k) ks) eqn:E; [|reflexivity]. apply Hks in E. tauto. }
        rewrite andb_false_r. reflexivity.
Qed.


(** *** reading a listing *)

Definition valid_entries (l : list (nat * content)) : list (nat * cid) :=
  flat_map (fun kw => match snd kw with CValid c => [(fst kw, c)] | _ => [] end) l.

Definition unreadable (w : content) : bool := match w with CInvalid | CAbsent => true | _ => false end.

Lemma read_all_readable l :
  existsb (fun kw => unreadable (snd kw)) l = false -> read_all l = BOk (valid_entries l).
Proof.
  induction l as [|[k w] r IH]; simpl; intro H; [reflexivity|].
  apply orb_false_iff in H as [H1 H2]. destruct w; simpl in H1; try discriminate.
  - apply IH. exact H2.
  - rewrite (IH H2). reflexivity.
Qed.

Lemma read_all_unreadable l :
  existsb (fun kw => unreadable (snd kw)) l = true -> read_all l = BErr BInternal.
Proof.
  induction l as [|[k w] r IH]; simpl; intro H; [discriminate|].
  destruct w; simpl in H; try reflexivity.
  - apply IH. exact H.
  - rewrite (IH H). reflexivity.
Qed.

Lemma read_all_ok l :
  existsb (fun kw => unloadable acc (snd kw)) l = false -> read_all l = BOk (valid_entries l).
Proof.
  intro H. apply read_all_readable. destruct (existsb (fun kw => unreadable (snd kw)) l) eqn:E; [|reflexivity].
  apply existsb_exists in E as [[k w] [Hin Hw]].
  assert (existsb (fun kw => unloadable acc (snd kw)) l = true); [|congruence].
  apply existsb_exists. exists (k, w). split; [exact Hin|]. simpl in *. destruct w; try discriminate; reflexivity.
Qed.

(** a listing whose only unloadable blobs are rejected ones, processed when nothing has to change *)
Lemma blob_load_quiet b : forall rs st,
  (forall k c, In (k, c) rs -> st k = Some c \/ accepts O c = false) ->
  let h := blob_load O b st rs in
  h_st h = st /\ (forall p, In p (h_calls h) -> p_ok p = false).
Proof.
  induction rs as [|[k c] r IH]; intros st H; simpl; [split; [reflexivity | intros p []]|].
  assert (Hr : forall k c, In (k, c) r -> st k = Some c \/ accepts O c = false) by (intros; apply H; right; assumption).
  destruct (H k c (or_introl eq_refl)) as [Hk|Hc].
  - rewrite Hk, Nat.eqb_refl. apply IH. exact Hr.
  - destruct (st k) as [x|]; [destruct (Nat.eqb x c); [apply IH; exact Hr|]|]; rewrite Hc; simpl;
      (split; [reflexivity | intros p [<-|[]]; reflexivity]).
Qed.

Lemma calls_on_rejected s ps : (forall p, In p ps -> p_ok p = false) -> calls_on s ps = [].
Proof.
  intro H. apply calls_on_nil_notin. intros p Hp Hok. rewrite (H p Hp) in Hok. discriminate.
Qed.

Lemma expected_nil_eq a b : expected_calls a b = [] -> a = b.
Proof.
  destruct a as [x|], b as [y|]; simpl; try discriminate; try reflexivity.
  destruct (Nat.eqb x y) eqn:E; [|discriminate]. apply Nat.eqb_eq in E. congruence.
Qed.

Lemma valid_entries_in k c l : In (k, c) (valid_entries l) <-> In (k, CValid c) l.
Proof.
  unfold valid_entries. rewrite in_flat_map. split.
  - intros [[j w] [Hin H]]. simpl in H. destruct w; simpl in H; try contradiction.
    destruct H as [E|[]]. inversion E; subst. exact Hin.
  - intro Hin. exists (k, CValid c). split; [exact Hin | left; reflexivity].
Qed.

Lemma valid_entries_keys l k : In k (map fst (valid_entries l)) -> In k (map fst l).
Proof.
  intro H. apply in_map_iff in H as [[j c] [E Hin]]. simpl in E. subst j.
  apply valid_entries_in in Hin. apply in_map_iff. exists (k, CValid c). auto.
Qed.

Lemma valid_entries_nodup l : NoDup (map fst l) -> NoDup (map fst (valid_entries l)).
Proof.
  induction l as [|[k w] r IH]; simpl; intro H; [constructor|].
  inversion H as [|? ? Hnotin Hnd]; subst.
  destruct w; simpl; try (apply IH; exact Hnd).
  constructor; [|apply IH; exact Hnd]. intro X. apply Hnotin. apply valid_entries_keys. exact X.
Qed.

Lemma lookup_content_notin k l : ~ In k (map fst l) -> lookup_content k l = None.
Proof.
  induction l as [|[j w] r IH]; simpl; intro H; [reflexivity|].
  destruct (Nat.eqb j k) eqn:E; [apply Nat.eqb_eq in E; subst; tauto | apply IH; tauto].
Qed.

Lemma lookup_valid_entries k l :
  NoDup (map fst l) ->
  lookup_cid k (valid_entries l) = match lookup_content k l with Some (CValid c) => Some c | _ => None end.
Proof.
  induction l as [|[j w] r IH]; simpl; intro H; [reflexivity|].
  inversion H as [|? ? Hnotin Hnd]; subst.
  destruct (Nat.eqb j k) eqn:E.
  - apply Nat.eqb_eq in E. subst j.
    assert (lookup_cid k (valid_entries r) = None) as Hn.
    { apply lookup_cid_notin. intro X. apply Hnotin. apply valid_entries_keys. exact X. }
    destruct w; simpl; rewrite ?Nat.eqb_refl; try exact Hn. reflexivity.
  - destruct w; simpl; rewrite ?E; apply IH; exact Hnd.
Qed.

(** *** invariants of a run *)

Definition inv2 (S : bstates) (m : seen_map) : Prop := forall b k, S b k = latest_valid acc (m (bkey b k)).
Definition small (S : bstates) : Prop := forall b k, nk <= k -> S b k = None.

(** the configuration of the endpoints: [None] = all blobs under the prefix, [Some k] = the URL names blob [k] *)
Definition modes := nat -> option nat.

Fixpoint nodup_natb (l : list nat) : bool :=
  match l with
  | [] => true
  | x :: r => negb (existsb (Nat.eqb x) r) && nodup_natb r
  end.

Lemma nodup_natb_NoDup l : nodup_natb l = true -> NoDup l.
Proof.
  induction l as [|x r IH]; simpl; intro H; [constructor|].
  apply andb_true_iff in H as [H1 H2]. apply negb_true_iff in H1. constructor; [|apply IH; exact H2].
  intro X. assert (existsb (Nat.eqb x) r = true); [|congruence].
  apply existsb_exists. exists x. split; [exact X | apply Nat.eqb_refl].
Qed.

(** a poll conforms to the configuration; listed keys are distinct and within the universe *)
Definition conforms (md : modes) (e : blob_event) : bool :=
  match snd e with
  | BList l => match md (fst e) with None => true | Some _ => false end &&
               nodup_natb (map fst l) && forallb (fun k => Nat.ltb k nk) (map fst l)
  | BSingle k _ => match md (fst e) with Some j => Nat.eqb j k | None => false end && Nat.ltb k nk
  | BFail _ => true
  end.

Definition single_inv (md : modes) (S : bstates) : Prop :=
  forall b k j, md b = Some k -> j <> k -> S b j = None.

Definition vinv (v : maybe_known) (S : bstates) : Prop := forall b k, S b k <> None -> v b k = true.

Lemma bst_set_same S b v : bst_set S b v b = v.
Proof. unfold bst_set. rewrite Nat.eqb_refl. reflexivity. Qed.

Lemma bst_set_other S b v c : c <> b -> bst_set S b v c = S c.
Proof. intro H. unfold bst_set. apply Nat.eqb_neq in H. rewrite H. reflexivity. Qed.

Lemma expected_same a : expected_calls a a = [].
Proof. destruct a; simpl; [rewrite Nat.eqb_refl|]; reflexivity. Qed.

Lemma calls_on_in p ps : In p ps -> p_ok p = true -> calls_on (p_src p) ps <> [].
Proof.
  intros Hin Hok. unfold calls_on. induction ps as [|q r IH]; simpl; [contradiction|].
  destruct Hin as [->|Hin].
  - rewrite Hok, sid_eqb_refl. simpl. discriminate.
  - destruct (p_ok q && sid_eqb (p_src q) (p_src p)); simpl; [discriminate | apply IH; exact Hin].
Qed.

(** a poll that looks at every key of bucket [b] and leaves it holding exactly [rs] *)
Lemma blob_poll_all_ok b S m rs (o : nat -> sobs) calls st' :
  inv2 S m -> small S ->
  (forall k, st' k = lookup_cid k rs) ->
  (forall p, In p calls -> exists k, k < nk /\ p_src p = bkey b k) ->
  (forall k, k < nk -> calls_on (bkey b k) calls = expected_calls (S b k) (lookup_cid k rs)) ->
  (forall k, k < nk -> latest_valid acc (o k :: m (bkey b k)) = lookup_cid k rs) ->
  (forall k, nk <= k -> lookup_cid k rs = None) ->
  let st := {| t_obs := map (fun k => (bkey b k, o k)) (seq 0 nk); t_calls := calls |} in
  step_ok acc m st = true /\ inv2 (bst_set S b st') (seen_step m st).
Proof.
  intros Hinv Hsmall Hst Hframe Hcalls Hlv Hbig. cbv zeta.
  assert (Hnd : NoDup (map fst (map (fun k => (bkey b k, o k)) (seq 0 nk)))).
  { rewrite map_map. simpl. apply NoDup_map_inj; [intros x y H; apply bsid_inj in H; tauto | apply seq_NoDup]. }
  split.
  - apply step_ok_iff; cbn [t_obs t_calls]. splits; [exact Hnd| |].
    + intros p Hp _. destruct (Hframe p Hp) as [k [Hk ->]]. rewrite map_map. cbn [fst].
      apply in_map_iff. exists k. split; [reflexivity | apply in_seq; lia].
    + intros s o' Hin. apply in_map_iff in Hin as [k [E Hk]]. inversion E; subst. apply in_seq in Hk.
      rewrite Hcalls by lia. rewrite Hlv by lia. rewrite (Hinv b k). reflexivity.
  - intros b' k. unfold seen_step; simpl.
    destruct (Nat.eq_dec b' b) as [->|Hb].
    + rewrite bst_set_same, Hst.
      destruct (Nat.lt_ge_cases k nk) as [Hk|Hk].
      * rewrite (seen_fold_in _ _ (bkey b k) (o k) Hnd).
        -- symmetry. apply Hlv. exact Hk.
        -- apply in_map_iff. exists k. split; [reflexivity | apply in_seq; lia].
      * rewrite seen_fold_notin.
        -- rewrite <- (Hinv b k), (Hsmall b k Hk). apply Hbig. exact Hk.
        -- rewrite map_map. simpl. intro X. apply in_map_iff in X as [j [E Hj]].
           apply bsid_inj in E as [_ [_ E]]. subst j. apply in_seq in Hj. lia.
    + rewrite bst_set_other by exact Hb. rewrite seen_fold_notin; [apply Hinv|].
      rewrite map_map. simpl. intro X. apply in_map_iff in X as [j [E Hj]].
      apply bsid_inj in E as [_ [E _]]. congruence.
Qed.


Lemma filter_nil {A} (f : A -> bool) l : (forall x, In x l -> f x = false) -> filter f l = [].
Proof.
  induction l as [|x r IH]; simpl; intro H; [reflexivity|].
  rewrite (H x (or_introl eq_refl)). apply IH. intros y Hy. apply H. right. exact Hy.
Qed.

Lemma lookup_content_in k w l : lookup_content k l = Some w -> In (k, w) l.
Proof.
  induction l as [|[j u] r IH]; simpl; [discriminate|].
  destruct (Nat.eqb j k) eqn:E.
  - apply Nat.eqb_eq in E. subst. intro H; inversion H; subst. left; reflexivity.
  - intro H. right. apply IH. exact H.
Qed.

Lemma lookup_content_nodup k w l : NoDup (map fst l) -> In (k, w) l -> lookup_content k l = Some w.
Proof.
  induction l as [|[j u] r IH]; simpl; intros Hnd Hin; [contradiction|].
  inversion Hnd as [|? ? Hnotin Hnd']; subst.
  destruct Hin as [E|Hin].
  - inversion E; subst. rewrite Nat.eqb_refl. reflexivity.
  - destruct (Nat.eqb j k) eqn:E.
    + apply Nat.eqb_eq in E. subst. exfalso. apply Hnotin. apply in_map_iff. exists (k, w). auto.
    + apply IH; assumption.
Qed.

(** the effect of a poll on the stored hashes of the other buckets: none *)
Lemma inv2_same_bucket S m b :
  inv2 S m -> inv2 (bst_set S b (S b)) m.
Proof.
  intros H b' k. destruct (Nat.eq_dec b' b) as [->|Hb]; [rewrite bst_set_same | rewrite bst_set_other by exact Hb]; apply H.
Qed.

(** a single-blob endpoint whose blob holds a version the processor rejects *)
Lemma blob_updated_rejected fixed b st k c :
  acc c = false -> blob_removed nk st [(k, c)] = [] ->
  let h := blob_updated O fixed nk b st [(k, c)] in
  h_st h = st /\ (forall s, calls_on s (h_calls h) = []).
Proof.
  intros Hc Hrem. unfold blob_updated. rewrite Hrem. simpl.
  destruct (st k) as [x|]; [destruct (Nat.eqb x c)|]; simpl; fold acc; rewrite ?Hc; simpl;
    (split; [reflexivity | intro s; unfold calls_on; simpl; reflexivity]).
Qed.

(** one poll *)
Lemma blob_event_ok fixed md S m v e :
  inv2 S m -> small S -> single_inv md S -> (fixed = true \/ vinv v S) ->
  conforms md e = true ->
  (fixed = true \/ existsb (fun k => v (fst e) k && gone_in k (snd e)) (seq 0 nk) = false) ->
  blob_ev_guard_F5 acc nk m e = false -> blob_ev_guard_F6 acc m e = false ->
  let x := blob_watch O fixed nk (fst e) (S (fst e)) (snd e) in
  let S' := bst_set S (fst e) (h_st x) in
  let st := {| t_obs := blob_view nk e; t_calls := h_calls x |} in
  step_ok acc m st = true /\ inv2 S' (seen_step m st) /\ small S' /\ single_inv md S' /\
  (fixed = true \/ vinv (mk_step v e) S').
Proof.
  intros Hinv Hsmall Hsingle Hv Hconf Hg1 Hg5 Hg6. destruct e as [b p]. cbn [fst snd] in *. cbv zeta.
  (* no removal is attempted by the unrepaired provider outside the guard of F1 *)
  assert (Hnorem : forall rs, (forall k, k < nk -> ~ In k (map fst rs) -> gone_in k p = true) ->
                   fixed = true \/ blob_removed nk (S b) rs = []).
  { intros rs Hgone. destruct Hg1 as [Hf|Hg1]; [left; exact Hf|].
    destruct Hv as [Hf|Hv]; [left; exact Hf|]. right.
    apply filter_nil. intros k Hk. apply in_seq in Hk. apply andb_false_iff.
    destruct (S b k) eqn:Es; [|left; reflexivity]. right. apply negb_false_iff.
    destruct (existsb (Nat.eqb k) (map fst rs)) eqn:E; [reflexivity|]. exfalso.
    assert (v b k = true) as Hvk by (apply Hv; congruence).
    assert (gone_in k p = true) as Hgk.
    { apply Hgone; [lia|]. intro X. assert (existsb (Nat.eqb k) (map fst rs) = true); [|congruence].
      apply existsb_exists. exists k. split; [exact X | apply Nat.eqb_refl]. }
    assert (existsb (fun k => v b k && gone_in k p) (seq 0 nk) = true); [|congruence].
    apply existsb_exists. exists k. split; [apply in_seq; lia | rewrite Hvk, Hgk; reflexivity]. }
  (* the poll changes nothing *)
  assert (Hnop : forall err,
            (forall k, valid_in k p = false) ->
            (forall k, S b k <> None -> gone_in k p = false) ->
            forall obs, (obs = [] \/ exists k o, obs = [(bkey b k, o)] /\
                                   latest_valid acc (o :: m (bkey b k)) = latest_valid acc (m (bkey b k))) ->
            let st := {| t_obs := obs; t_calls := h_calls (hres_nop (S b) err) |} in
            step_ok acc m st = true /\ inv2 (bst_set S b (S b)) (seen_step m st) /\
            small (bst_set S b (S b)) /\ single_inv md (bst_set S b (S b)) /\
            (fixed = true \/ vinv (mk_step v (b, p)) (bst_set S b (S b)))).
  { intros err Hval Hgone obs Hobs. cbv zeta. simpl h_calls.
    assert (Hsame : forall b' k, bst_set S b (S b) b' k = S b' k).
    { intros b' k. destruct (Nat.eq_dec b' b) as [->|Hb]; [rewrite bst_set_same | rewrite bst_set_other by exact Hb]; reflexivity. }
    splits.
    - destruct Hobs as [->|[k [o [-> Hlv]]]]; [reflexivity|].
      apply step_ok_iff; cbn [t_obs t_calls]. splits.
      + constructor; [intros []|constructor].
      + intros q [].
      + intros s o' [E|[]]. inversion E; subst. rewrite Hlv, expected_same. reflexivity.
    - intros b' k. rewrite Hsame. destruct Hobs as [->|[k0 [o [-> Hlv]]]]; [apply Hinv|].
      unfold seen_step; simpl. unfold seen_add.
      destruct (sid_eqb (bkey b' k) (bkey b k0)) eqn:E; [|apply Hinv].
      apply sid_eqb_eq in E. rewrite E, Hlv. rewrite <- E. apply Hinv.
    - intros b' k Hk. rewrite Hsame. apply Hsmall. exact Hk.
    - intros b' k j Hm Hj. rewrite Hsame. eapply Hsingle; eauto.
    - destruct Hv as [Hf|Hv]; [left; exact Hf | right].
      intros b' k Hs. rewrite Hsame in Hs. unfold mk_step; cbn [fst snd].
      destruct (Nat.eqb b' b) eqn:Eb; [|apply Hv; exact Hs].
      apply Nat.eqb_eq in Eb. subst b'. rewrite Hval, (Hgone k Hs). apply Hv. exact Hs. }
  (* the poll looks at every key and leaves the bucket holding exactly [rs] *)
  assert (Hall : forall rs (o : nat -> sobs),
            NoDup (map fst rs) -> (forall k, In k (map fst rs) -> k < nk) -> (forall k c, In (k, c) rs -> acc c = true) ->
            (forall k, k < nk -> ~ In k (map fst rs) -> gone_in k p = true) ->
            (forall k c, In (k, c) rs -> valid_in k p = true) ->
            (forall k, k < nk -> latest_valid acc (o k :: m (bkey b k)) = lookup_cid k rs) ->
            (forall k j, md b = Some k -> j <> k -> ~ In j (map fst rs)) ->
            let h := blob_updated O fixed nk b (S b) rs in
            let st := {| t_obs := map (fun k => (bkey b k, o k)) (seq 0 nk); t_calls := h_calls h |} in
            step_ok acc m st = true /\ inv2 (bst_set S b (h_st h)) (seen_step m st) /\
            small (bst_set S b (h_st h)) /\ single_inv md (bst_set S b (h_st h)) /\
            (fixed = true \/ vinv (mk_step v (b, p)) (bst_set S b (h_st h)))).
  { intros rs o Hnd Hlt Hacc Hgone Hvalid Hlv Hmd. cbv zeta.
    pose proof (blob_updated_ok fixed b (S b) rs Hnd Hlt Hacc (Hsmall b) (Hnorem rs Hgone)) as [U1 [U2 U3]].
    cbv zeta in U1, U2, U3.
    assert (Hbig : forall k, nk <= k -> lookup_cid k rs = None).
    { intros k Hk. apply lookup_cid_notin. intro X. apply Hlt in X. lia. }
    destruct (blob_poll_all_ok b S m rs o _ _ Hinv Hsmall U1 U2 U3 Hlv Hbig) as [P1 P2].
    splits; [exact P1 | exact P2 | | |].
    - intros b' k Hk. destruct (Nat.eq_dec b' b) as [->|Hb].
      + rewrite bst_set_same, U1. apply Hbig. exact Hk.
      + rewrite bst_set_other by exact Hb. apply Hsmall. exact Hk.
    - intros b' k j Hm Hj. destruct (Nat.eq_dec b' b) as [->|Hb].
      + rewrite bst_set_same, U1. apply lookup_cid_notin. eapply Hmd; eauto.
      + rewrite bst_set_other by exact Hb. eapply Hsingle; eauto.
    - destruct Hv as [Hf|Hv]; [left; exact Hf | right].
      intros b' k Hs. unfold mk_step; cbn [fst snd]. destruct (Nat.eqb b' b) eqn:Eb.
      + apply Nat.eqb_eq in Eb. subst b'. rewrite bst_set_same, U1 in Hs.
        destruct (lookup_cid k rs) as [c|] eqn:El; [|contradiction].
        rewrite (Hvalid k c (lookup_cid_some k c rs El)). reflexivity.
      + apply Nat.eqb_neq in Eb. rewrite bst_set_other in Hs by exact Eb. apply Hv. exact Hs. }
  destruct p as [l|k w|err].
  - (* all blobs *)
    unfold conforms in Hconf; cbn [fst snd] in Hconf. apply andb_true_iff in Hconf as [Hconf Hlt]. apply andb_true_iff in Hconf as [Hmd Hnd].
    apply nodup_natb_NoDup in Hnd. rewrite forallb_forall in Hlt.
    destruct (md b) as [?|] eqn:Emd; [discriminate|]. unfold blob_ev_guard_F5 in Hg5; cbn [snd] in Hg5.
    set (o := fun k => match lookup_content k l with Some w => obs_of_content w | None => SGone end).
    change (blob_view nk (b, BList l)) with (map (fun k => (bkey b k, o k)) (seq 0 nk)) in Hg5 |- *.
    destruct (existsb (fun kw => unloadable acc (snd kw)) l) eqn:Eun.
    2:{ (* every listed blob can be loaded *)
    rename Eun into Hg5'. clear Hg5. rename Hg5' into Hg5.
    assert (Hload : forall k w, In (k, w) l -> unloadable acc w = false).
    { intros k w Hin. destruct (unloadable acc w) eqn:E; [|reflexivity].
      assert (existsb (fun kw => unloadable acc (snd kw)) l = true); [|congruence].
      apply existsb_exists. exists (k, w). auto. }
    unfold blob_watch. simpl blob_fetch. rewrite (read_all_ok l Hg5).
    set (rs := valid_entries l).
    assert (Hlook : forall k, lookup_cid k rs = match lookup_content k l with Some (CValid c) => Some c | _ => None end)
      by (intro k; apply lookup_valid_entries; exact Hnd).
    apply (Hall rs o).
    + apply valid_entries_nodup. exact Hnd.
    + intros k Hk. apply valid_entries_keys in Hk. apply Nat.ltb_lt. apply Hlt. exact Hk.
    + intros k c Hin. apply valid_entries_in in Hin. apply Hload in Hin. simpl in Hin.
      apply negb_false_iff in Hin. exact Hin.
    + intros k Hk Hnotin. simpl. destruct (lookup_content k l) as [w|] eqn:El; [|reflexivity].
      pose proof (lookup_content_in k w l El) as Hin. pose proof (Hload k w Hin) as Hu.
      destruct w; simpl in Hu; try discriminate; [reflexivity|].
      exfalso. apply Hnotin. apply in_map_iff. exists (k, c). split; [reflexivity|]. apply valid_entries_in. exact Hin.
    + intros k c Hin. apply valid_entries_in in Hin. simpl. rewrite (lookup_content_nodup k (CValid c) l Hnd Hin). reflexivity.
    + intros k Hk. rewrite Hlook. unfold o. destruct (lookup_content k l) as [w|] eqn:El; [|reflexivity].
      pose proof (Hload k w (lookup_content_in k w l El)) as Hu.
      destruct w; simpl in Hu; try discriminate; simpl; [reflexivity|].
      apply negb_false_iff in Hu. rewrite Hu. reflexivity.
    + intros k j Hm. congruence. }
    (* a blob cannot be loaded, but nothing of the bucket has to change: the abandoned poll is right *)
    simpl andb in Hg5.
    assert (Hsame : forall k, k < nk -> latest_valid acc (o k :: m (bkey b k)) = latest_valid acc (m (bkey b k))).
    { intros k Hk. symmetry. apply expected_nil_eq.
      destruct (expected_calls (latest_valid acc (m (bkey b k))) (latest_valid acc (o k :: m (bkey b k)))) eqn:E; [reflexivity|].
      exfalso. assert (demands acc m (map (fun k => (bkey b k, o k)) (seq 0 nk)) = true); [|congruence].
      unfold demands. apply existsb_exists. exists (bkey b k, o k). split.
      - apply in_map_iff. exists k. split; [reflexivity | apply in_seq; lia].
      - cbn [fst snd]. rewrite E. reflexivity. }
    (* what the provider does: nothing that is accepted, and it remembers what it remembered *)
    assert (Hquiet : h_st (blob_watch O fixed nk b (S b) (BList l)) = S b /\
                     forall p, In p (h_calls (blob_watch O fixed nk b (S b) (BList l))) -> p_ok p = false).
    { unfold blob_watch. simpl blob_fetch.
      destruct (existsb (fun kw => unreadable (snd kw)) l) eqn:Ebad.
      - rewrite (read_all_unreadable l Ebad). split; [reflexivity | intros p []].
      - rewrite (read_all_readable l Ebad). cbn [h_st h_calls].
        assert (Hrem : blob_removed nk (S b) (valid_entries l) = []).
        { apply filter_nil. intros k Hk. apply in_seq in Hk. apply andb_false_iff.
          destruct (S b k) as [x|] eqn:Es; [|left; reflexivity]. right. apply negb_false_iff.
          destruct (existsb (Nat.eqb k) (map fst (valid_entries l))) eqn:E; [reflexivity|]. exfalso.
          assert (Hk' : k < nk) by lia. specialize (Hsame k Hk'). rewrite <- (Hinv b k), Es in Hsame.
          unfold o in Hsame. destruct (lookup_content k l) as [w|] eqn:El; [|simpl in Hsame; discriminate].
          destruct w; simpl in Hsame; try discriminate.
          + assert (existsb (fun kw => unreadable (snd kw)) l = true); [|congruence].
            apply existsb_exists. exists (k, CInvalid). split; [apply lookup_content_in; exact El | reflexivity].
          + assert (existsb (Nat.eqb k) (map fst (valid_entries l)) = true); [|congruence].
            apply existsb_exists. exists k. split; [|apply Nat.eqb_refl]. apply in_map_iff. exists (k, c). split; [reflexivity|].
            apply valid_entries_in. apply lookup_content_in. exact El. }
        unfold blob_updated. rewrite Hrem. simpl blob_remove. cbn [h_err hres_nop h_st h_calls]. simpl app.
        apply blob_load_quiet. intros k c Hin. apply valid_entries_in in Hin.
        assert (Hk : k < nk). { apply Nat.ltb_lt. apply Hlt. apply in_map_iff. exists (k, CValid c). auto. }
        specialize (Hsame k Hk). unfold o in Hsame. rewrite (lookup_content_nodup k (CValid c) l Hnd Hin) in Hsame.
        simpl in Hsame. fold acc. destruct (acc c) eqn:Ec; [left | right; reflexivity].
        rewrite (Hinv b k). rewrite <- Hsame. reflexivity. }
    destruct Hquiet as [Q1 Q2]. rewrite Q1.
    set (calls := h_calls (blob_watch O fixed nk b (S b) (BList l))) in *.
    assert (Hnocall : forall s0, calls_on s0 calls = []) by (intro s0; apply calls_on_rejected; exact Q2).
    assert (HSsame : forall b' k, bst_set S b (S b) b' k = S b' k).
    { intros b' k. destruct (Nat.eq_dec b' b) as [->|Hb]; [rewrite bst_set_same | rewrite bst_set_other by exact Hb]; reflexivity. }
    assert (Hnd' : NoDup (map fst (map (fun k => (bkey b k, o k)) (seq 0 nk)))).
    { rewrite map_map. simpl. apply NoDup_map_inj; [intros x y H; apply bsid_inj in H; tauto | apply seq_NoDup]. }
    splits.
    + apply step_ok_iff; cbn [t_obs t_calls]. splits; [exact Hnd'| |].
      * intros q Hq Hok. exfalso. apply (calls_on_in q _ Hq Hok). apply Hnocall.
      * intros s0 o' Hin. apply in_map_iff in Hin as [k [E Hk]]. inversion E; subst. apply in_seq in Hk.
        rewrite Hnocall, Hsame by lia. symmetry. apply expected_same.
    + intros b' k. rewrite HSsame. unfold seen_step; cbn [t_obs].
      destruct (Nat.eq_dec b' b) as [->|Hb].
      * destruct (Nat.lt_ge_cases k nk) as [Hk|Hk].
        -- rewrite (seen_fold_in _ _ (bkey b k) (o k) Hnd').
           ++ rewrite Hsame by exact Hk. apply Hinv.
           ++ apply in_map_iff. exists k. split; [reflexivity | apply in_seq; lia].
        -- rewrite seen_fold_notin; [apply Hinv|].
           rewrite map_map. simpl. intro X. apply in_map_iff in X as [j [E Hj]].
           apply bsid_inj in E as [_ [_ E]]. subst j. apply in_seq in Hj. lia.
      * rewrite seen_fold_notin; [apply Hinv|].
        rewrite map_map. simpl. intro X. apply in_map_iff in X as [j [E Hj]].
        apply bsid_inj in E as [_ [E _]]. congruence.
    + intros b' k Hk. rewrite HSsame. apply Hsmall. exact Hk.
    + intros b' k j Hm Hj. rewrite HSsame. eapply Hsingle; eauto.
    + destruct Hv as [Hf|Hv]; [left; exact Hf | right].
      intros b' k Hs. rewrite HSsame in Hs. unfold mk_step; cbn [fst snd].
      destruct (Nat.eqb b' b) eqn:Eb; [|apply Hv; exact Hs].
      apply Nat.eqb_eq in Eb. subst b'.
      destruct (valid_in k (BList l)) eqn:Ev; [reflexivity|].
      destruct (gone_in k (BList l)) eqn:Eg; [|apply Hv; exact Hs]. exfalso.
      destruct (Nat.lt_ge_cases k nk) as [Hk|Hk]; [|apply Hs; apply Hsmall; exact Hk].
      specialize (Hsame k Hk). rewrite <- (Hinv b k) in Hsame. unfold o in Hsame. simpl in Eg.
      destruct (lookup_content k l) as [w|]; [destruct w; try discriminate|]; simpl in Hsame; congruence.
  - (* the URL names blob k *)
    unfold conforms in Hconf; cbn [fst snd] in Hconf. apply andb_true_iff in Hconf as [Hmd Hk]. apply Nat.ltb_lt in Hk.
    destruct (md b) as [k0|] eqn:Emd; [|discriminate]. apply Nat.eqb_eq in Hmd. subst k0.
    assert (Hothers : forall j, j <> k -> S b j = None) by (intros j Hj; eapply Hsingle; eauto).
    unfold blob_watch. destruct w as [| | |c]; simpl blob_fetch; cbv iota.
    + (* no such blob: an internal error; right as long as nothing is loaded for it *)
      unfold blob_ev_guard_F6 in Hg6; cbn [fst snd] in Hg6.
      assert (Hnone : latest_valid acc (m (bkey b k)) = None).
      { unfold bkey. destruct (latest_valid acc (m (bsid false b k))); [discriminate | reflexivity]. }
      apply (Hnop true).
      * intro j. reflexivity.
      * intros j Hs. simpl. destruct (Nat.eqb k j) eqn:E; [reflexivity|].
        apply Nat.eqb_neq in E. exfalso. apply Hs. apply Hothers. congruence.
      * right. exists k, SGone. split; [reflexivity|]. simpl. symmetry. exact Hnone.
    + (* empty *)
      assert (Hgone0 : forall j, j < nk -> ~ In j (map fst (@nil (nat * cid))) -> gone_in j (BSingle k CEmpty) = true)
        by (intros j _ _; simpl; destruct (Nat.eqb k j); reflexivity).
      assert (Hlv0 : forall j, j < nk ->
                latest_valid acc ((if Nat.eqb j k then SGone else SNone) :: m (bkey b j)) = lookup_cid j []).
      { intros j Hj. simpl. destruct (Nat.eqb j k) eqn:E; [reflexivity|].
        apply Nat.eqb_neq in E. rewrite <- (Hinv b j). simpl. apply Hothers. exact E. }
      destruct (Hall [] (fun j => if Nat.eqb j k then SGone else SNone) (NoDup_nil _)
                  (fun _ H => match H with end) (fun _ _ H => match H with end) Hgone0
                  (fun _ _ H => match H with end) Hlv0 (fun _ _ _ _ H => H)) as [A1 [A2 [A3 [A4 A5]]]].
      clear A1 A2.
      { (* from the all-keys step to the one-key step *)
        pose proof (blob_updated_ok fixed b (S b) [] (NoDup_nil _) (fun _ H => match H with end)
                      (fun _ _ H => match H with end) (Hsmall b)
                      (Hnorem [] (fun j _ _ => ltac:(simpl; destruct (Nat.eqb k j); reflexivity)))) as [U1 [U2 U3]].
        cbv zeta in U1, U2, U3. change (blob_view nk (b, BSingle k CEmpty)) with [(bkey b k, SGone)]. cbn [h_st h_calls].
        splits; [| |exact A3|exact A4|exact A5].
        -- apply step_ok_iff; cbn [t_obs t_calls]. splits.
           ++ constructor; [intros []|constructor].
           ++ intros q Hq Hok. destruct (U2 q Hq) as [j [Hj Es]]. left. rewrite Es.
              destruct (Nat.eq_dec j k) as [->|Hjk]; [reflexivity|]. exfalso.
              apply (calls_on_in q _ Hq Hok). rewrite Es, (U3 j Hj), (Hothers j Hjk). reflexivity.
           ++ intros s o' [E|[]]. inversion E; subst. rewrite (U3 k Hk), (Hinv b k). reflexivity.
        -- intros b' j. unfold seen_step; simpl. unfold seen_add.
           destruct (Nat.eq_dec b' b) as [->|Hb].
           ++ rewrite bst_set_same, U1. simpl.
              destruct (sid_eqb (bkey b j) (bkey b k)) eqn:E; [reflexivity|].
              apply sid_eqb_neq in E. rewrite <- (Hinv b j). symmetry. apply Hothers. congruence.
           ++ rewrite bst_set_other by exact Hb.
              destruct (sid_eqb (bkey b' j) (bkey b k)) eqn:E; [|apply Hinv].
              apply sid_eqb_eq in E. apply bsid_inj in E as [_ [E _]]. congruence. }
    + (* invalid: internal error, nothing happens *)
      apply (Hnop true).
      * intro j. reflexivity.
      * intros j Hs. simpl. destruct (Nat.eqb k j) eqn:E; [reflexivity|].
        apply Nat.eqb_neq in E. exfalso. apply Hs. apply Hothers. congruence.
      * right. exists k, SBad. split; reflexivity.
    + (* valid *)
      destruct (acc c) eqn:Hc.
      * pose proof (blob_updated_ok fixed b (S b) [(k, c)]) as HU. cbv zeta in HU.
        destruct HU as [U1 [U2 U3]].
        { constructor; [intros []|constructor]. }
        { intros j [<-|[]]. exact Hk. }
        { intros j d [E|[]]. inversion E; subst. exact Hc. }
        { apply Hsmall. }
        { right. apply filter_nil. intros j Hj. apply andb_false_iff. simpl.
          destruct (Nat.eqb j k) eqn:E; [right; reflexivity | left].
          apply Nat.eqb_neq in E. rewrite (Hothers j E). reflexivity. }
        change (blob_view nk (b, BSingle k (CValid c))) with [(bkey b k, SNew c)]. cbn [h_st h_calls].
        assert (Hlk : forall j, lookup_cid j [(k, c)] = if Nat.eqb k j then Some c else None)
          by (intro j; reflexivity).
        splits.
        -- apply step_ok_iff; cbn [t_obs t_calls]. splits.
           ++ constructor; [intros []|constructor].
           ++ intros q Hq Hok. destruct (U2 q Hq) as [j [Hj Es]]. left. rewrite Es.
              destruct (Nat.eq_dec j k) as [->|Hjk]; [reflexivity|]. exfalso.
              apply (calls_on_in q _ Hq Hok). rewrite Es, (U3 j Hj), (Hothers j Hjk), Hlk.
              assert (Nat.eqb k j = false) as -> by (apply Nat.eqb_neq; congruence). reflexivity.
           ++ intros s o' [E|[]]. inversion E; subst. rewrite (U3 k Hk), (Hinv b k), Hlk, Nat.eqb_refl.
              simpl. fold acc. rewrite Hc. reflexivity.
        -- intros b' j. unfold seen_step; simpl. unfold seen_add.
           destruct (Nat.eq_dec b' b) as [->|Hb].
           ++ rewrite bst_set_same, U1, Hlk.
              destruct (sid_eqb (bkey b j) (bkey b k)) eqn:E.
              ** apply sid_eqb_eq in E. apply bsid_inj in E as [_ [_ E]]. subst j. rewrite Nat.eqb_refl.
                 simpl. fold acc. rewrite Hc. reflexivity.
              ** apply sid_eqb_neq in E. assert (Nat.eqb k j = false) as -> by (apply Nat.eqb_neq; congruence).
                 rewrite <- (Hinv b j). symmetry. apply Hothers. congruence.
           ++ rewrite bst_set_other by exact Hb.
              destruct (sid_eqb (bkey b' j) (bkey b k)) eqn:E; [|apply Hinv].
              apply sid_eqb_eq in E. apply bsid_inj in E as [_ [E _]]. congruence.
        -- intros b' j Hj. destruct (Nat.eq_dec b' b) as [->|Hb].
           ++ rewrite bst_set_same, U1, Hlk. assert (Nat.eqb k j = false) as -> by (apply Nat.eqb_neq; lia). reflexivity.
           ++ rewrite bst_set_other by exact Hb. apply Hsmall. exact Hj.
        -- intros b' k' j Hm Hj. destruct (Nat.eq_dec b' b) as [->|Hb].
           ++ rewrite bst_set_same, U1, Hlk. rewrite Emd in Hm. inversion Hm; subst k'.
              assert (Nat.eqb k j = false) as -> by (apply Nat.eqb_neq; congruence). reflexivity.
           ++ rewrite bst_set_other by exact Hb. eapply Hsingle; eauto.
        -- destruct Hv as [Hf|Hv]; [left; exact Hf | right].
           intros b' j Hs. unfold mk_step; cbn [fst snd]. destruct (Nat.eqb b' b) eqn:Eb.
           ++ apply Nat.eqb_eq in Eb. subst b'. rewrite bst_set_same, U1, Hlk in Hs.
              destruct (Nat.eqb k j) eqn:E; [|contradiction]. simpl. rewrite E. reflexivity.
           ++ apply Nat.eqb_neq in Eb. rewrite bst_set_other in Hs by exact Eb. apply Hv. exact Hs.
      * (* rejected by the processor: nothing is applied *)
        destruct (blob_updated_rejected fixed b (S b) k c Hc) as [R1 R2].
        { apply filter_nil. intros j Hj. apply andb_false_iff. simpl.
          destruct (Nat.eqb j k) eqn:E; [right; reflexivity | left].
          apply Nat.eqb_neq in E. rewrite (Hothers j E). reflexivity. }
        cbv zeta in R1, R2. change (blob_view nk (b, BSingle k (CValid c))) with [(bkey b k, SNew c)]. cbn [h_st h_calls]. rewrite R1.
        assert (Hlv : latest_valid acc (SNew c :: m (bkey b k)) = latest_valid acc (m (bkey b k)))
          by (simpl; rewrite Hc; reflexivity).
        splits.
        -- apply step_ok_iff; cbn [t_obs t_calls]. splits.
           ++ constructor; [intros []|constructor].
           ++ intros q Hq Hok. exfalso. apply (calls_on_in q _ Hq Hok). apply R2.
           ++ intros s o' [E|[]]. inversion E; subst. rewrite R2, Hlv, expected_same. reflexivity.
        -- intros b' j. unfold seen_step; simpl. unfold seen_add.
           assert (Hsame : bst_set S b (S b) b' j = S b' j).
           { destruct (Nat.eq_dec b' b) as [->|Hb]; [rewrite bst_set_same | rewrite bst_set_other by exact Hb]; reflexivity. }
           rewrite Hsame. destruct (sid_eqb (bkey b' j) (bkey b k)) eqn:E; [|apply Hinv].
           apply sid_eqb_eq in E. rewrite E, Hlv, <- E. apply Hinv.
        -- intros b' j Hj. destruct (Nat.eq_dec b' b) as [->|Hb];
             [rewrite bst_set_same | rewrite bst_set_other by exact Hb]; apply Hsmall; exact Hj.
        -- intros b' k' j Hm Hj. destruct (Nat.eq_dec b' b) as [->|Hb];
             [rewrite bst_set_same | rewrite bst_set_other by exact Hb]; eapply Hsingle; eauto.
        -- destruct Hv as [Hf|Hv]; [left; exact Hf | right].
           intros b' j Hs. unfold mk_step; cbn [fst snd]. destruct (Nat.eqb b' b) eqn:Eb.
           ++ apply Nat.eqb_eq in Eb. subst b'. rewrite bst_set_same in Hs. simpl.
              destruct (Nat.eqb k j) eqn:E; [reflexivity|]. exfalso. apply Hs. apply Hothers.
              apply Nat.eqb_neq in E. congruence.
           ++ apply Nat.eqb_neq in Eb. rewrite bst_set_other in Hs by exact Eb. apply Hv. exact Hs.
  - (* the poll fails *)
    unfold blob_watch. simpl blob_fetch. destruct err; cbv iota.
    + (* unreachable: every blob counts as gone *)
      change (blob_view nk (b, BFail BComm)) with (map (fun k => (bkey b k, (fun _ => SGone) k)) (seq 0 nk)).
      apply (Hall [] (fun _ => SGone)); try (constructor || (intros; simpl in *; tauto)).
    + change (blob_view nk (b, BFail BTimeout)) with (map (fun k => (bkey b k, (fun _ => SGone) k)) (seq 0 nk)).
      apply (Hall [] (fun _ => SGone)); try (constructor || (intros; simpl in *; tauto)).
    + apply (Hnop true); [intro; reflexivity | intros; reflexivity | left; reflexivity].
    + apply (Hnop false); [intro; reflexivity | intros; reflexivity | left; reflexivity].
Qed.


Definition blob_trace_from (fixed : bool) (S : bstates) (h : list blob_event) : list tstep :=
  mk_trace (blob_views nk h) (map h_calls (snd (blob_run_from O fixed nk S h))).

Lemma blob_trace_from_cons fixed S e r :
  blob_trace_from fixed S (e :: r) =
  {| t_obs := blob_view nk e; t_calls := h_calls (blob_watch O fixed nk (fst e) (S (fst e)) (snd e)) |}
    :: blob_trace_from fixed (bst_set S (fst e) (h_st (blob_watch O fixed nk (fst e) (S (fst e)) (snd e)))) r.
Proof. reflexivity. Qed.

Lemma blob_trace_ok_from fixed md : forall h S m v,
  inv2 S m -> small S -> single_inv md S -> (fixed = true \/ vinv v S) ->
  forallb (conforms md) h = true ->
  fixed = true \/ blob_guard_F1_from nk v h = false ->
  blob_guards_from (blob_ev_guard_F5 acc nk) nk m h = false ->
  blob_guards_from (blob_ev_guard_F6 acc) nk m h = false ->
  trace_ok_from acc m (blob_trace_from fixed S h) = true /\
  inv2 (fst (blob_run_from O fixed nk S h)) (fold_left seen_step (blob_trace_from fixed S h) m).
Proof.
  induction h as [|e r IH]; intros S m v Hinv Hsmall Hsingle Hv Hconf Hg1 Hg5 Hg6.
  - split; [reflexivity | exact Hinv].
  - rewrite blob_trace_from_cons. simpl trace_ok_from. simpl fold_left.
    simpl in Hconf. apply andb_true_iff in Hconf as [Hc1 Hc2].
    simpl in Hg5. apply orb_false_iff in Hg5 as [Hg5a Hg5b].
    simpl in Hg6. apply orb_false_iff in Hg6 as [Hg6a Hg6b].
    assert (Hg1a : fixed = true \/ existsb (fun k => v (fst e) k && gone_in k (snd e)) (seq 0 nk) = false).
    { destruct Hg1 as [Hf|Hg1]; [left; exact Hf | right]. simpl in Hg1. apply orb_false_iff in Hg1. tauto. }
    assert (Hg1b : fixed = true \/ blob_guard_F1_from nk (mk_step v e) r = false).
    { destruct Hg1 as [Hf|Hg1]; [left; exact Hf | right]. simpl in Hg1. apply orb_false_iff in Hg1. tauto. }
    destruct (blob_event_ok fixed md S m v e Hinv Hsmall Hsingle Hv Hc1 Hg1a Hg5a Hg6a) as [E1 [E2 [E3 [E4 E5]]]].
    cbv zeta in E1, E2, E3, E4, E5. rewrite E1. simpl.
    change (fst (blob_run_from O fixed nk S (e :: r)))
      with (fst (blob_run_from O fixed nk (bst_set S (fst e) (h_st (blob_watch O fixed nk (fst e) (S (fst e)) (snd e)))) r)).
    apply (IH _ _ (mk_step v e)); try assumption.
Qed.

Definition blob_trace (fixed : bool) (h : list blob_event) : list tstep := blob_trace_from fixed bst_empty h.

(** T_main (cloud blob): every history of polls that conforms to the endpoints'
    configuration, outside the guards of the open findings, yields a right trace *)
Theorem blob_trace_ok fixed md h :
  forallb (conforms md) h = true ->
  fixed = true \/ blob_guard_F1 nk h = false ->
  blob_guard_F5 acc nk h = false -> blob_guard_F6 acc nk h = false ->
  trace_ok acc (blob_trace fixed h) = true.
Proof.
  intros Hc H1 H5 H6.
  apply (blob_trace_ok_from fixed md h bst_empty seen_empty (fun _ _ => false)); try assumption.
  - intros b k. reflexivity.
  - intros b k _. reflexivity.
  - intros b k j _ _. reflexivity.
  - right. intros b k H. exfalso. apply H. reflexivity.
Qed.

Theorem blob_known_latest_valid fixed md h b k :
  forallb (conforms md) h = true ->
  fixed = true \/ blob_guard_F1 nk h = false ->
  blob_guard_F5 acc nk h = false -> blob_guard_F6 acc nk h = false ->
  fst (blob_run O fixed nk h) b k = latest_valid acc (seen_of (blob_trace fixed h) (bkey b k)).
Proof.
  intros Hc H1 H5 H6.
  apply (blob_trace_ok_from fixed md h bst_empty seen_empty (fun _ _ => false)); try assumption.
  - intros b' k'. reflexivity.
  - intros b' k' _. reflexivity.
  - intros b' k' j _ _. reflexivity.
  - right. intros b' k' H. exfalso. apply H. reflexivity.
Qed.

End Blob.

(** the findings' witnesses *)
Definition bh_F1 : list blob_event :=
  [(0, BList [(0, CValid 1); (1, CValid 2)]); (0, BList [(0, CValid 1)])].

Theorem blob_F1_refuted :
  exists h, blob_guard_F1 2 h = true /\ blob_guard_F5 (accepts O_all) 2 h = false /\ blob_guard_F6 (accepts O_all) 2 h = false /\
            forallb (conforms 2 (fun _ => None)) h = true /\
            trace_ok (accepts O_all) (blob_trace O_all 2 false h) <> true /\
            trace_ok (accepts O_all) (blob_trace O_all 2 true h) = true /\
            active_of (blob_trace O_all 2 false h) (bkey 0 1) = Some 2 /\
            fst (blob_run O_all false 2 h) 0 1 = None.
Proof. exists bh_F1. vm_compute. splits; try reflexivity. discriminate. Qed.

Definition bh_F5 : list blob_event :=
  [(0, BList [(0, CValid 1); (1, CValid 2); (2, CValid 3)]); (0, BList [(0, CInvalid); (1, CValid 4)])].

Theorem blob_F5_refuted :
  exists h, blob_guard_F5 (accepts O_all) 3 h = true /\ blob_guard_F6 (accepts O_all) 3 h = false /\
            forallb (conforms 3 (fun _ => None)) h = true /\
            trace_ok (accepts O_all) (blob_trace O_all 3 true h) <> true /\
            active_of (blob_trace O_all 3 true h) (bkey 0 1) = Some 2 /\
            active_of (blob_trace O_all 3 true h) (bkey 0 2) = Some 3.
Proof. exists bh_F5. vm_compute. splits; try reflexivity. discriminate. Qed.

Definition bh_F6 : list blob_event := [(0, BSingle 0 (CValid 1)); (0, BSingle 0 CAbsent)].

Theorem blob_F6_refuted :
  exists h, blob_guard_F6 (accepts O_all) 1 h = true /\ blob_guard_F5 (accepts O_all) 1 h = false /\
            forallb (conforms 1 (fun _ => Some 0)) h = true /\
            trace_ok (accepts O_all) (blob_trace O_all 1 true h) <> true /\
            active_of (blob_trace O_all 1 true h) (bkey 0 0) = Some 1.
Proof. exists bh_F6. vm_compute. splits; try reflexivity. discriminate. Qed.

Definition bh_nonvacuous : list blob_event :=
  [(0, BList [(0, CValid 1); (1, CValid 2)]); (0, BList [(0, CValid 1); (1, CValid 4); (2, CValid 2)]);
   (0, BList [(0, CEmpty); (1, CValid 4)]); (0, BFail BInternal); (0, BFail BComm); (0, BList [(1, CValid 4)]);
   (1, BSingle 0 (CValid 3)); (1, BSingle 0 (CValid 5)); (1, BSingle 0 CInvalid); (1, BSingle 0 CEmpty)].

Example blob_nonvacuous :
  forallb (conforms 3 (fun b => if Nat.eqb b 1 then Some 0 else None)) bh_nonvacuous = true /\
  blob_guard_F5 (accepts O_rej3) 3 bh_nonvacuous = false /\ blob_guard_F6 (accepts O_rej3) 3 bh_nonvacuous = false /\
  flat_map (fun st => filter p_ok (t_calls st)) (blob_trace O_rej3 3 true bh_nonvacuous) =
  [ {| p_kind := KCreated; p_src := bkey 0 0; p_cid := Some 1; p_ok := true |};
    {| p_kind := KCreated; p_src := bkey 0 1; p_cid := Some 2; p_ok := true |};
    {| p_kind := KUpdated; p_src := bkey 0 1; p_cid := Some 4; p_ok := true |};
    {| p_kind := KCreated; p_src := bkey 0 2; p_cid := Some 2; p_ok := true |};
    {| p_kind := KDeleted; p_src := bkey 0 0; p_cid := None; p_ok := true |};
    {| p_kind := KDeleted; p_src := bkey 0 2; p_cid := None; p_ok := true |};
    {| p_kind := KDeleted; p_src := bkey 0 1; p_cid := None; p_ok := true |};
    {| p_kind := KCreated; p_src := bkey 0 1; p_cid := Some 4; p_ok := true |};
    {| p_kind := KCreated; p_src := bkey 1 0; p_cid := Some 5; p_ok := true |};
    {| p_kind := KDeleted; p_src := bkey 1 0; p_cid := None; p_ok := true |} ].
Proof. vm_compute. splits; reflexivity. Qed.

(** ** Inside the guards: what the provider does there *)

(** C18-F5: a poll whose listing contains a blob that cannot be read is abandoned
    altogether: no processor call, nothing remembered differently (so every loaded
    version — of the bad blob and of all others — is kept) *)
Theorem blob_unreadable_poll_changes_nothing O fixed nk b st l :
  existsb (fun kw => unreadable (snd kw)) l = true ->
  blob_watch O fixed nk b st (BList l) = hres_nop st true.
Proof. intro H. unfold blob_watch. simpl. rewrite (read_all_unreadable l H). reflexivity. Qed.

(** C18-F6: when the blob named by the URL does not exist the poll is abandoned as well *)
Theorem blob_single_absent_changes_nothing O fixed nk b st k :
  blob_watch O fixed nk b st (BSingle k CAbsent) = hres_nop st true.
Proof. reflexivity. Qed.
