(** C18 — state-dependent acceptance: the polling provider models meet the specification.

    The HTTP-endpoint and cloud-blob provider models of Model.v / ModelBlob.v, run
    against the state-dependent processor of Accept.v ([dyn_oracle], frozen at the
    moment of each poll) and the ideal repository ([apply_calls]), for ALL histories of
    polls and ALL [ok0], [clash], [srcs]:
    calls and repository per poll = the reference run [ref_steps] on the history's
    views, hence repository = [spec_repo_steps] (what the streams httpreal / blobreal
    check on the real processor), retry and one-poll convergence.
    The invariant: stored hash of a source = what the repository holds of it.
    [*_eager]: the seeded defect (hash recorded before the processor answered) with
    its witness history. *)
From HV Require Import Base.Prelude C18.Model C18.ModelBlob C18.Spec C18.Proofs C18.ProofsBlob C18.Accept.

Definition snapshot (k : states) (n : nat) : list (option cid) := map k (seq 0 n).

(** ** The seeded defect: the hash is recorded before the processor answered *)

Definition http_updated_eager (O : oracle) (k : states) (e : nat) (rs : option cid) : hres :=
  match k e, rs with
  | Some _, None =>
    let ok := deletable O (Sid e) in
    {| h_st := if ok then st_set k e None else k;
       h_calls := [ {| p_kind := KDeleted; p_src := Sid e; p_cid := None; p_ok := ok |} ];
       h_err := negb ok |}
  | Some h, Some c =>
    if Nat.eqb h c then hres_nop k false else
    let ok := accepts O c in
    {| h_st := st_set k e (Some c);
       h_calls := [ {| p_kind := KUpdated; p_src := Sid e; p_cid := Some c; p_ok := ok |} ];
       h_err := negb ok |}
  | None, Some c =>
    let ok := accepts O c in
    {| h_st := st_set k e (Some c);
       h_calls := [ {| p_kind := KCreated; p_src := Sid e; p_cid := Some c; p_ok := ok |} ];
       h_err := negb ok |}
  | None, None => hres_nop k false
  end.

Definition http_watch_eager (O : oracle) (k : states) (e : nat) (r : response) : hres :=
  match http_fetch r with
  | FOk c => let h := http_updated_eager O k e (Some c) in {| h_st := h_st h; h_calls := h_calls h; h_err := false |}
  | FErr ECanceled => hres_nop k false
  | FErr EInternal => hres_nop k true
  | FErr (EEmpty | EComm | ECommTimeout) =>
    let h := http_updated_eager O k e None in {| h_st := h_st h; h_calls := h_calls h; h_err := false |}
  end.

(** cloud blob: second loop of [ruleSetsUpdated] writing the hash first *)
Fixpoint blob_load_eager (O : oracle) (b : nat) (st : states) (rs : list (nat * cid)) : hres :=
  match rs with
  | [] => hres_nop st false
  | (k, c) :: r =>
    let go (kind : pkind) :=
      let ok := accepts O c in
      let call := {| p_kind := kind; p_src := bsid false b k; p_cid := Some c; p_ok := ok |} in
      if ok then
        let h := blob_load_eager O b (st_set st k (Some c)) r in
        {| h_st := h_st h; h_calls := call :: h_calls h; h_err := h_err h |}
      else {| h_st := st_set st k (Some c); h_calls := [call]; h_err := true |} in
    match st k with
    | None => go KCreated
    | Some h => if Nat.eqb h c then blob_load_eager O b st r else go KUpdated
    end
  end.

Definition blob_updated_eager (O : oracle) (fixed : bool) (nk b : nat) (st : states) (rs : list (nat * cid)) : hres :=
  let h1 := blob_remove O fixed b st (blob_removed nk st rs) in
  if h_err h1 then h1
  else let h2 := blob_load_eager O b (h_st h1) rs in
       {| h_st := h_st h2; h_calls := h_calls h1 ++ h_calls h2; h_err := h_err h2 |}.

Definition blob_watch_eager (O : oracle) (fixed : bool) (nk b : nat) (st : states) (p : bpoll) : hres :=
  match blob_fetch p with
  | BErr BCanceled => hres_nop st false
  | BErr BInternal => hres_nop st true
  | BErr (BComm | BTimeout) =>
    let h := blob_updated_eager O fixed nk b st [] in {| h_st := h_st h; h_calls := h_calls h; h_err := false |}
  | BOk rs =>
    let h := blob_updated_eager O fixed nk b st rs in {| h_st := h_st h; h_calls := h_calls h; h_err := false |}
  end.

Ltac fin := split; [reflexivity|]; split;
  [ first [ rewrite st_set_same, a_set_same; reflexivity | congruence ]
  | first [ reflexivity | intros g Hg; apply st_set_other; exact Hg ] ].

Section Providers.
Variable ok0 : cid -> bool.
Variable clash : cid -> cid -> bool.
Variable srcs : list sid.

Notation dynO := (dyn_oracle ok0 clash srcs).
Notation Offer := (offer ok0 clash srcs).
Notation Dacc := (dacc ok0 clash srcs).

(** ** The runs: provider model -> state-dependent processor -> ideal repository *)

(** one event = one poll of endpoint [e]; the processor answers as of the repository at that moment *)
Fixpoint http_real_steps_w (watch : oracle -> states -> nat -> response -> hres)
         (n : nat) (k : states) (A : amap) (h : list http_event) : list rstep :=
  match h with
  | [] => []
  | er :: rest =>
    let x := watch (dynO A (Sid (fst er))) k (fst er) (snd er) in
    let A' := apply_calls A (h_calls x) in
    {| r_calls := h_calls x; r_known := snapshot (h_st x) n; r_repo := map A' srcs |}
      :: http_real_steps_w watch n (h_st x) A' rest
  end.

Definition http_real_steps := http_real_steps_w http_watch.

(** the state (stored hashes, repository) after a history *)
Fixpoint http_real_state (k : states) (A : amap) (h : list http_event) : states * amap :=
  match h with
  | [] => (k, A)
  | er :: rest =>
    let x := http_watch (dynO A (Sid (fst er))) k (fst er) (snd er) in
    http_real_state (h_st x) (apply_calls A (h_calls x)) rest
  end.

(** cloud blob, one key (0) per bucket: the buckets are the sources *)
Fixpoint blob_real_steps_w (watch : oracle -> bool -> nat -> nat -> states -> bpoll -> hres)
         (n : nat) (S : bstates) (A : amap) (h : list blob_event) : list rstep :=
  match h with
  | [] => []
  | bp :: rest =>
    let b := fst bp in
    let x := watch (dynO A (bsid false b 0)) true 1 b (S b) (snd bp) in
    let S' := bst_set S b (h_st x) in
    let A' := apply_calls A (h_calls x) in
    {| r_calls := h_calls x; r_known := map (fun c => S' c 0) (seq 0 n); r_repo := map A' srcs |}
      :: blob_real_steps_w watch n S' A' rest
  end.

Definition blob_real_steps := blob_real_steps_w blob_watch.

Fixpoint blob_real_state (S : bstates) (A : amap) (h : list blob_event) : bstates * amap :=
  match h with
  | [] => (S, A)
  | bp :: rest =>
    let b := fst bp in
    let x := blob_watch (dynO A (bsid false b 0)) true 1 b (S b) (snd bp) in
    blob_real_state (bst_set S b (h_st x)) (apply_calls A (h_calls x)) rest
  end.

(** ** The shared decision under the state-dependent processor *)

Lemma canon_offer k A f o :
  k f = A (Sid f) ->
  let x := canon (dynO A (Sid f)) k f o in
  h_calls x = Offer A (Sid f) o /\
  h_st x f = apply_calls A (h_calls x) (Sid f) /\
  (forall g, g <> f -> h_st x g = k g).
Proof.
  intro Hk. cbv zeta. unfold canon, offer, fs_deleted, mk_call.
  destruct o as [c| | |]; simpl.
  - destruct (k f) as [h|] eqn:Ek; rewrite <- Hk; simpl.
    + destruct (Nat.eqb h c); simpl; [fin|]. unfold apply_calls, apply_call; simpl.
      destruct (Dacc A (Sid f) c); simpl; fin.
    + unfold apply_calls, apply_call; simpl. destruct (Dacc A (Sid f) c); simpl; fin.
  - destruct (k f) as [h|] eqn:Ek; rewrite <- Hk; simpl; [unfold apply_calls, apply_call; simpl|]; fin.
  - fin.
  - fin.
Qed.

(** ** HTTP endpoint *)

Definition hagrees (A : amap) (k : states) : Prop := forall f, A (Sid f) = k f.

Lemma Sid_neq f g : g <> f -> Sid g <> Sid f.
Proof. intros H E. apply H. inversion E. reflexivity. Qed.

(** one poll: the calls are the offer for what the poll shows; the invariant is kept *)
Lemma http_dyn_step k A e r :
  hagrees A k ->
  let o := obs_of_outcome_r true (outcome_of r) in
  let x := http_watch (dynO A (Sid e)) k e r in
  h_calls x = Offer A (Sid e) o /\ hagrees (apply_calls A (h_calls x)) (h_st x).
Proof.
  intro Hag. cbv zeta.
  destruct (http_watch_canon (dynO A (Sid e)) k e r) as [Hst Hcalls]. cbv zeta in Hst, Hcalls.
  destruct (canon_offer k A e (obs_of_outcome (outcome_of r)) (eq_sym (Hag e))) as [C1 [C2 C3]]. cbv zeta in C1, C2, C3.
  rewrite Hcalls, Hst. split; [exact C1|].
  intro g. destruct (Nat.eq_dec g e) as [->|Hne].
  - symmetry. exact C2.
  - rewrite C3 by exact Hne. rewrite C1. rewrite offer_frame; [apply Hag | apply Sid_neq; exact Hne].
Qed.

(** THE THEOREM (HTTP endpoint): calls and repository of every poll are the reference run's *)
Theorem http_dyn_ref n h : forall k A B,
  hagrees A k -> aeq A B ->
  map (fun x => (r_calls x, r_repo x)) (http_real_steps n k A h) = ref_steps ok0 clash srcs B (http_views_r true h).
Proof.
  induction h as [|[e r] rest IH]; intros k A B Hag HAB; [reflexivity|].
  unfold http_real_steps in *. simpl http_real_steps_w. simpl map at 1.
  destruct (http_dyn_step k A e r Hag) as [Hc Hag']. cbv zeta in Hc, Hag'. simpl fst in *. simpl snd in *.
  simpl http_views_r. unfold http_view_r at 1. simpl fst. simpl snd.
  rewrite ref_steps_cons, ref_view_single. simpl fst. simpl snd.
  set (x := http_watch (dynO A (Sid e)) k e r) in *.
  assert (HA' : aeq (apply_calls A (h_calls x))
                    (apply_calls B (Offer B (Sid e) (obs_of_outcome_r true (outcome_of r))))).
  { rewrite Hc. rewrite (offer_ext ok0 clash srcs A B _ _ HAB). apply apply_calls_aeq. exact HAB. }
  f_equal.
  - rewrite (aeq_map _ _ srcs HA'), Hc, (offer_ext ok0 clash srcs A B _ _ HAB). reflexivity.
  - apply IH; assumption.
Qed.

Lemma hagrees_init : hagrees a_empty st_empty.
Proof. intro f. reflexivity. Qed.

(** the repository after every poll is what the specification demands *)
Theorem http_dyn_repo_is_spec n h :
  map r_repo (http_real_steps n st_empty a_empty h) = spec_repo_steps ok0 clash srcs a_empty (http_views_r true h).
Proof.
  rewrite <- (ref_steps_repo ok0 clash srcs _ a_empty a_empty (aeq_refl _)).
  rewrite <- (http_dyn_ref n h st_empty a_empty a_empty hagrees_init (aeq_refl _)).
  rewrite map_map. reflexivity.
Qed.

(** reachable states keep the invariant *)
Lemma http_real_state_agrees h : forall k A,
  hagrees A k -> hagrees (snd (http_real_state k A h)) (fst (http_real_state k A h)).
Proof.
  induction h as [|[e r] rest IH]; intros k A H; [exact H|]. simpl. apply IH.
  apply (http_dyn_step k A e r H).
Qed.

Lemma http_real_steps_app n h1 : forall k A h2,
  http_real_steps n k A (h1 ++ h2) =
  http_real_steps n k A h1 ++ http_real_steps n (fst (http_real_state k A h1)) (snd (http_real_state k A h1)) h2.
Proof.
  induction h1 as [|er rest IH]; intros k A h2; [reflexivity|].
  unfold http_real_steps in *. simpl. f_equal. apply IH.
Qed.

(** RETRY (HTTP endpoint): after ANY history, a poll that shows a valid content which is
    not the loaded one offers it to the processor — whether or not it was refused
    before; if the processor says yes it is loaded and remembered, if not neither
    the repository nor the stored hash change (so the next poll offers it again) *)
Theorem http_dyn_retry h e r c :
  let k := fst (http_real_state st_empty a_empty h) in
  let A := snd (http_real_state st_empty a_empty h) in
  obs_of_outcome_r true (outcome_of r) = SNew c ->
  A (Sid e) <> Some c ->
  let x := http_watch (dynO A (Sid e)) k e r in
  h_calls x = [mk_call (match A (Sid e) with None => KCreated | Some _ => KUpdated end) (Sid e) (Some c) (Dacc A (Sid e) c)] /\
  apply_calls A (h_calls x) (Sid e) = (if Dacc A (Sid e) c then Some c else A (Sid e)) /\
  h_st x e = (if Dacc A (Sid e) c then Some c else k e).
Proof.
  intros k A Ho Hne x.
  pose proof (http_real_state_agrees h st_empty a_empty hagrees_init) as Hag. fold k A in Hag.
  destruct (http_dyn_step k A e r Hag) as [Hc Hag']. cbv zeta in Hc, Hag'. fold x in Hc, Hag'.
  rewrite Ho in Hc. destruct (offer_retry ok0 clash srcs A (Sid e) c Hne) as [R1 R2].
  rewrite Hc. split; [exact R1|]. split; [exact R2|].
  rewrite <- (Hag' e), Hc, R2, (Hag e). reflexivity.
Qed.

(** NO RELOAD: a poll showing the loaded content calls nothing *)
Theorem http_dyn_unchanged h e r c :
  let k := fst (http_real_state st_empty a_empty h) in
  let A := snd (http_real_state st_empty a_empty h) in
  obs_of_outcome_r true (outcome_of r) = SNew c -> A (Sid e) = Some c ->
  h_calls (http_watch (dynO A (Sid e)) k e r) = [].
Proof.
  intros k A Ho HA.
  pose proof (http_real_state_agrees h st_empty a_empty hagrees_init) as Hag. fold k A in Hag.
  destruct (http_dyn_step k A e r Hag) as [Hc _]. cbv zeta in Hc. rewrite Hc, Ho.
  apply offer_unchanged. exact HA.
Qed.

(** CONVERGENCE (HTTP endpoint): after ANY history, if the endpoint shows a content that
    is acceptable in itself and no OTHER source holds a competing content right now,
    then after this one poll the repository holds it *)
Theorem http_dyn_converges h e r c :
  let k := fst (http_real_state st_empty a_empty h) in
  let A := snd (http_real_state st_empty a_empty h) in
  obs_of_outcome_r true (outcome_of r) = SNew c ->
  ok0 c = true ->
  (forall t d, In t srcs -> t <> Sid e -> A t = Some d -> clash c d = false) ->
  apply_calls A (h_calls (http_watch (dynO A (Sid e)) k e r)) (Sid e) = Some c.
Proof.
  intros k A Ho H0 Hfree.
  pose proof (http_real_state_agrees h st_empty a_empty hagrees_init) as Hag. fold k A in Hag.
  destruct (http_dyn_step k A e r Hag) as [Hc _]. cbv zeta in Hc. rewrite Hc, Ho.
  rewrite (offer_achieves_spec ok0 clash srcs A (Sid e) (SNew c) (Sid e)).
  apply spec_converges_one_look; assumption.
Qed.

(** ** Cloud blob, single-key buckets *)

(** polls of a bucket with the one key 0, in either mode; a blob that is listed or named
    but absent is the territory of the open findings C18-F5 / C18-F6 and excluded *)
Definition blob1_poll_ok (p : bpoll) : bool :=
  match p with
  | BList [] => true
  | BList [(0, w)] => match w with CAbsent => false | _ => true end
  | BList _ => false
  | BSingle 0 w => match w with CAbsent => false | _ => true end
  | BSingle _ _ => false
  | BFail _ => true
  end.

Definition bagrees (A : amap) (S : bstates) : Prop := forall b, A (bsid false b 0) = S b 0.

Lemma bsid_neq b c : c <> b -> bsid false c 0 <> bsid false b 0.
Proof. intros H E. apply H. inversion E. reflexivity. Qed.

(** the outcome of a single-key poll, as one look (or none) *)
Definition blob1_obs (p : bpoll) : option sobs :=
  match p with
  | BList [] => Some SGone
  | BList ((_, w) :: _) => Some (obs_of_content w)
  | BSingle _ w => Some (obs_of_content w)
  | BFail (BComm | BTimeout) => Some SGone
  | BFail _ => None
  end.

Lemma blob1_view b p :
  blob1_poll_ok p = true ->
  blob_view_r true 1 (b, p) = match blob1_obs p with Some o => [(bsid false b 0, o)] | None => [] end.
Proof.
  destruct p as [l|k w|e]; simpl.
  - destruct l as [|[k w] l']; [reflexivity|]. destruct k; [|discriminate]. destruct l'; [|destruct w; discriminate].
    intros _. reflexivity.
  - destruct k; [|discriminate]. intros _. reflexivity.
  - intros _. destruct e; reflexivity.
Qed.

(** one poll of a single-key bucket behaves like the shared decision *)
Lemma blob1_step_calls A b st p :
  blob1_poll_ok p = true -> st 0 = A (bsid false b 0) ->
  let x := blob_watch (dynO A (bsid false b 0)) true 1 b st p in
  h_calls x = match blob1_obs p with Some o => Offer A (bsid false b 0) o | None => [] end /\
  h_st x 0 = apply_calls A (h_calls x) (bsid false b 0).
Proof.
  intros Hok Hst. cbv zeta. unfold offer, mk_call. rewrite <- Hst.
  destruct (st 0) as [h|] eqn:E;
  destruct p as [[|[[|k] w] [|kw l']]|[|k] w|e]; simpl in Hok; try discriminate;
  try (destruct w as [| | |c]; try discriminate);
  try destruct e;
  unfold blob_watch, blob_updated, blob_removed; simpl; rewrite ?E; simpl; rewrite ?E; simpl;
  try (destruct (Nat.eqb h c); simpl; rewrite ?E; simpl);
  try (destruct (Dacc A (bsid false b 0) c); simpl; rewrite ?E; simpl);
  unfold apply_calls, apply_call; simpl;
  (split; [reflexivity | first [rewrite st_set_same, a_set_same; reflexivity | congruence]]).
Qed.

Lemma bst_set_same' S b v : bst_set S b v b = v.
Proof. unfold bst_set. rewrite Nat.eqb_refl. reflexivity. Qed.

Lemma bst_set_other' S b v c : c <> b -> bst_set S b v c = S c.
Proof. intro H. unfold bst_set. apply Nat.eqb_neq in H. rewrite H. reflexivity. Qed.

Lemma blob1_step A S b p :
  blob1_poll_ok p = true -> bagrees A S ->
  let x := blob_watch (dynO A (bsid false b 0)) true 1 b (S b) p in
  h_calls x = snd (ref_view ok0 clash srcs A (blob_view_r true 1 (b, p))) /\
  aeq (apply_calls A (h_calls x)) (fst (ref_view ok0 clash srcs A (blob_view_r true 1 (b, p)))) /\
  bagrees (apply_calls A (h_calls x)) (bst_set S b (h_st x)).
Proof.
  intros Hok Hag. cbv zeta.
  destruct (blob1_step_calls A b (S b) p Hok (eq_sym (Hag b))) as [Hc Hs]. cbv zeta in Hc, Hs.
  rewrite (blob1_view b p Hok).
  assert (Hcalls : h_calls (blob_watch (dynO A (bsid false b 0)) true 1 b (S b) p) =
                   snd (ref_view ok0 clash srcs A match blob1_obs p with Some o => [(bsid false b 0, o)] | None => [] end)).
  { rewrite Hc. destruct (blob1_obs p); [rewrite ref_view_single|]; reflexivity. }
  split; [exact Hcalls|]. split.
  - rewrite Hc. destruct (blob1_obs p); [rewrite ref_view_single|]; apply aeq_refl.
  - intro c. destruct (Nat.eq_dec c b) as [->|Hne].
    + rewrite bst_set_same'. symmetry. exact Hs.
    + rewrite bst_set_other' by exact Hne. rewrite Hc. destruct (blob1_obs p) as [o|].
      * rewrite offer_frame; [apply Hag | apply bsid_neq; exact Hne].
      * apply Hag.
Qed.

(** THE THEOREM (cloud blob, single-key buckets) *)
Theorem blob_dyn_ref n h : forall S A B,
  forallb (fun e => blob1_poll_ok (snd e)) h = true ->
  bagrees A S -> aeq A B ->
  map (fun x => (r_calls x, r_repo x)) (blob_real_steps n S A h) = ref_steps ok0 clash srcs B (blob_views_r true 1 h).
Proof.
  induction h as [|[b p] rest IH]; intros S A B Hok Hag HAB; [reflexivity|].
  simpl in Hok. apply andb_true_iff in Hok as [Hok1 Hok2].
  unfold blob_real_steps in *. simpl blob_real_steps_w. simpl map at 1. simpl fst in *. simpl snd in *.
  destruct (blob1_step A S b p Hok1 Hag) as [Hc [Ha Hag']]. cbv zeta in Hc, Ha, Hag'.
  set (x := blob_watch (dynO A (bsid false b 0)) true 1 b (S b) p) in *.
  pose proof Hc as Hc'.
  simpl blob_views_r. rewrite ref_steps_cons.
  destruct (ref_view_ext ok0 clash srcs (blob_view_r true 1 (b, p)) A B HAB) as [E1 E2].
  assert (HA' : aeq (apply_calls A (h_calls x)) (fst (ref_view ok0 clash srcs B (blob_view_r true 1 (b, p)))))
    by (eapply aeq_trans; [exact Ha | exact E2]).
  f_equal.
  - rewrite (aeq_map _ _ srcs HA'), Hc', E1. reflexivity.
  - apply IH; assumption.
Qed.

Lemma bagrees_init : bagrees a_empty bst_empty.
Proof. intro b. reflexivity. Qed.

Theorem blob_dyn_repo_is_spec n h :
  forallb (fun e => blob1_poll_ok (snd e)) h = true ->
  map r_repo (blob_real_steps n bst_empty a_empty h) = spec_repo_steps ok0 clash srcs a_empty (blob_views_r true 1 h).
Proof.
  intro Hok.
  rewrite <- (ref_steps_repo ok0 clash srcs _ a_empty a_empty (aeq_refl _)).
  rewrite <- (blob_dyn_ref n h bst_empty a_empty a_empty Hok bagrees_init (aeq_refl _)).
  rewrite map_map. reflexivity.
Qed.

Lemma blob_real_state_agrees h : forall S A,
  forallb (fun e => blob1_poll_ok (snd e)) h = true ->
  bagrees A S -> bagrees (snd (blob_real_state S A h)) (fst (blob_real_state S A h)).
Proof.
  induction h as [|[b p] rest IH]; intros S A Hok H; [exact H|]. simpl in Hok. apply andb_true_iff in Hok as [Hok1 Hok2].
  simpl. apply IH; [exact Hok2|]. apply (blob1_step A S b p Hok1 H).
Qed.

(** RETRY and CONVERGENCE (cloud blob, single-key buckets), after ANY history of such polls *)
Theorem blob_dyn_retry h b p c :
  forallb (fun e => blob1_poll_ok (snd e)) h = true -> blob1_poll_ok p = true ->
  let S := fst (blob_real_state bst_empty a_empty h) in
  let A := snd (blob_real_state bst_empty a_empty h) in
  let s := bsid false b 0 in
  blob1_obs p = Some (SNew c) ->
  A s <> Some c ->
  let x := blob_watch (dynO A s) true 1 b (S b) p in
  h_calls x = [mk_call (match A s with None => KCreated | Some _ => KUpdated end) s (Some c) (Dacc A s c)] /\
  apply_calls A (h_calls x) s = (if Dacc A s c then Some c else A s) /\
  h_st x 0 = (if Dacc A s c then Some c else S b 0).
Proof.
  intros Hok Hp S A s Ho Hne x.
  pose proof (blob_real_state_agrees h bst_empty a_empty Hok bagrees_init) as Hag. fold S A in Hag.
  destruct (blob1_step_calls A b (S b) p Hp (eq_sym (Hag b))) as [Hc Hs]. cbv zeta in Hc, Hs. fold s x in Hc, Hs.
  rewrite Ho in Hc. destruct (offer_retry ok0 clash srcs A s c Hne) as [R1 R2].
  rewrite Hc. split; [exact R1|]. split; [exact R2|].
  rewrite Hs, Hc, R2. unfold s. rewrite (Hag b). reflexivity.
Qed.

Theorem blob_dyn_converges h b p c :
  forallb (fun e => blob1_poll_ok (snd e)) h = true -> blob1_poll_ok p = true ->
  let S := fst (blob_real_state bst_empty a_empty h) in
  let A := snd (blob_real_state bst_empty a_empty h) in
  let s := bsid false b 0 in
  blob1_obs p = Some (SNew c) ->
  ok0 c = true ->
  (forall t d, In t srcs -> t <> s -> A t = Some d -> clash c d = false) ->
  apply_calls A (h_calls (blob_watch (dynO A s) true 1 b (S b) p)) s = Some c.
Proof.
  intros Hok Hp S A s Ho H0 Hfree.
  pose proof (blob_real_state_agrees h bst_empty a_empty Hok bagrees_init) as Hag. fold S A in Hag.
  destruct (blob1_step_calls A b (S b) p Hp (eq_sym (Hag b))) as [Hc _]. cbv zeta in Hc. fold s in Hc.
  rewrite Hc, Ho. rewrite (offer_achieves_spec ok0 clash srcs A s (SNew c) s).
  apply spec_converges_one_look; assumption.
Qed.

End Providers.

(** ** The old theorems are the special case of a state-independent processor *)

Definition static_oracle (ok0 : cid -> bool) : oracle := {| accepts := ok0; deletable := fun _ => true |}.

Lemma http_watch_oracle_ext O1 O2 k e r :
  (forall c, accepts O1 c = accepts O2 c) -> (forall s, deletable O1 s = deletable O2 s) ->
  http_watch O1 k e r = http_watch O2 k e r.
Proof.
  intros Ha Hd. unfold http_watch. destruct (http_fetch r) as [c|[]]; try reflexivity;
    unfold http_updated; destruct (k e); rewrite ?Ha, ?Hd; reflexivity.
Qed.

Lemma http_static_calls ok0 srcs n h : forall k A,
  map r_calls (http_real_steps ok0 no_clash srcs n k A h) = map h_calls (snd (http_run_from (static_oracle ok0) k h)).
Proof.
  induction h as [|[e r] rest IH]; intros k A; [reflexivity|].
  unfold http_real_steps in *. simpl.
  rewrite (http_watch_oracle_ext (dyn_oracle ok0 no_clash srcs A (Sid e)) (static_oracle ok0) k e r
             (fun c => dacc_no_clash ok0 srcs A (Sid e) c) (fun _ => eq_refl)).
  f_equal. apply IH.
Qed.

(** with [clash = none] the run is the run against the content-only oracle of the old
    theorems (same calls), and the repository is "the latest valid content seen" *)
Theorem http_static_special_case ok0 srcs n h :
  map r_calls (http_real_steps ok0 no_clash srcs n st_empty a_empty h) = map h_calls (snd (http_run (static_oracle ok0) h)) /\
  map r_repo (http_real_steps ok0 no_clash srcs n st_empty a_empty h) = lv_steps ok0 srcs seen_empty (http_views_r true h).
Proof.
  split; [apply http_static_calls|].
  rewrite http_dyn_repo_is_spec. apply spec_static_is_latest_valid. intro s. reflexivity.
Qed.

(** ** The seeded defect is refuted *)

(** two endpoints; 1 and 5 share a path.  e0 serves 1 (loaded); e1 serves 5 (refused: e0
    holds the path); e0 is gone (unloaded); e1 still serves 5.  The honest provider
    offers 5 again and it is loaded; the provider that memoised the hash when it first
    saw 5 finds "nothing changed" and never loads it. *)
Definition h_eager : list http_event :=
  [(0, RHttp 200 CtYaml (CValid 1)); (1, RHttp 200 CtYaml (CValid 5)); (0, RHttp 404 CtYaml CEmpty);
   (1, RHttp 200 CtYaml (CValid 5)); (1, RHttp 200 CtYaml (CValid 5))].

Definition srcs2 : list sid := [Sid 0; Sid 1].

Theorem http_eager_refuted :
  let ok := fun _ : cid => true in
  let spec := spec_repo_steps ok pclash srcs2 a_empty (http_views_r true h_eager) in
  map r_repo (http_real_steps ok pclash srcs2 2 st_empty a_empty h_eager) = spec /\
  map r_repo (http_real_steps_w ok pclash srcs2 http_watch_eager 2 st_empty a_empty h_eager) <> spec /\
  last spec [] = [None; Some 5] /\
  last (map r_repo (http_real_steps_w ok pclash srcs2 http_watch_eager 2 st_empty a_empty h_eager)) [] = [None; None] /\
  last (map r_known (http_real_steps_w ok pclash srcs2 http_watch_eager 2 st_empty a_empty h_eager)) [] = [None; Some 5] /\
  flat_map r_calls (skipn 3 (http_real_steps_w ok pclash srcs2 http_watch_eager 2 st_empty a_empty h_eager)) = [].
Proof.
  cbv zeta. split; [vm_compute; reflexivity|]. split; [intro H; vm_compute in H; discriminate H|].
  repeat split; vm_compute; reflexivity.
Qed.

Definition hb_eager : list blob_event :=
  [(0, BList [(0, CValid 1)]); (1, BList [(0, CValid 5)]); (0, BList []); (1, BList [(0, CValid 5)]); (1, BList [(0, CValid 5)])].

Definition bsrcs2 : list sid := [bsid false 0 0; bsid false 1 0].

Theorem blob_eager_refuted :
  let ok := fun _ : cid => true in
  let spec := spec_repo_steps ok pclash bsrcs2 a_empty (blob_views_r true 1 hb_eager) in
  forallb (fun e => blob1_poll_ok (snd e)) hb_eager = true /\
  map r_repo (blob_real_steps ok pclash bsrcs2 2 bst_empty a_empty hb_eager) = spec /\
  map r_repo (blob_real_steps_w ok pclash bsrcs2 blob_watch_eager 2 bst_empty a_empty hb_eager) <> spec /\
  last spec [] = [None; Some 5] /\
  last (map r_repo (blob_real_steps_w ok pclash bsrcs2 blob_watch_eager 2 bst_empty a_empty hb_eager)) [] = [None; None] /\
  last (map r_known (blob_real_steps_w ok pclash bsrcs2 blob_watch_eager 2 bst_empty a_empty hb_eager)) [] = [None; Some 5].
Proof.
  cbv zeta. split; [reflexivity|]. split; [vm_compute; reflexivity|]. split; [intro H; vm_compute in H; discriminate H|].
  repeat split; vm_compute; reflexivity.
Qed.

(** non-vacuity: on the witness history the honest run has a refused offer that is repeated and then accepted *)
Example http_dyn_nonvacuous :
  map (fun x => map (fun p => (p_cid p, p_ok p)) (r_calls x))
      (http_real_steps (fun _ => true) pclash srcs2 2 st_empty a_empty h_eager)
  = [[(Some 1, true)]; [(Some 5, false)]; [(None, true)]; [(Some 5, true)]; []].
Proof. vm_compute. reflexivity. Qed.
