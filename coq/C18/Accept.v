(** C18 — state-dependent acceptance: the specification.

    The provider theorems of Proofs*.v are about a processor ORACLE whose answer
    depends on the content alone.  The real rule-set processor + repository refuse a
    rule set that is valid in itself when ANOTHER source currently holds one of its
    paths, and accept the very same bytes at a later poll once that source is gone
    or changed.  This file states what the providers have to achieve against such a
    processor, independently of the provider models (no stored hashes here):

    - the processor: [dacc A self c] — content [c] offered by source [self] while the
      repository holds [A] — is accepted iff it is acceptable in itself ([ok0 c])
      and competes ([clash]) with nothing that a source OTHER than [self] holds now;
      a deletion is never refused; [ok0], [clash] and the list of sources are
      arbitrary (universally quantified in every theorem);
    - [spec_look] / [spec_repo_steps]: what the repository has to hold after every
      look at a source (the run-time predicate of the streams httpreal / blobreal);
    - [offer] / [ref_steps]: which processor calls (incl. refused ones) achieve it —
      a valid content that is not the loaded one is OFFERED at every look;
    - Part I: what the specification means (frame, latest applicable content, retry,
      one-poll convergence, no global convergence, the state-independent special case). *)
From HV Require Import Base.Prelude C18.Model C18.Spec C18.Proofs.

(** pointwise equality of repositories (no functional extensionality is assumed) *)
Definition aeq (A B : amap) : Prop := forall s, A s = B s.

Lemma aeq_refl A : aeq A A.
Proof. intro s; reflexivity. Qed.

Lemma aeq_trans A B C : aeq A B -> aeq B C -> aeq A C.
Proof. intros H1 H2 s. rewrite H1. apply H2. Qed.

Lemma aeq_sym A B : aeq A B -> aeq B A.
Proof. intros H s. symmetry. apply H. Qed.

Lemma aeq_map A B (l : list sid) : aeq A B -> map A l = map B l.
Proof. intro H. apply map_ext. intro s. apply H. Qed.

Lemma a_set_same A s v : a_set A s v s = v.
Proof. unfold a_set. rewrite sid_eqb_refl. reflexivity. Qed.

Lemma a_set_other A s v t : t <> s -> a_set A s v t = A t.
Proof. intro H. unfold a_set. apply sid_eqb_neq in H. rewrite H. reflexivity. Qed.

Lemma a_set_aeq A B s v : aeq A B -> aeq (a_set A s v) (a_set B s v).
Proof. intros H t. unfold a_set. destruct (sid_eqb t s); [reflexivity | apply H]. Qed.

Lemma a_set_id A s : aeq (a_set A s (A s)) A.
Proof.
  intro t. unfold a_set. destruct (sid_eqb t s) eqn:E; [|reflexivity].
  apply sid_eqb_eq in E. subst. reflexivity.
Qed.

Lemma opt_eqb_eq (a b : option cid) : option_eqb Nat.eqb a b = true <-> a = b.
Proof.
  destruct a as [x|], b as [y|]; simpl; split; intro H; try discriminate; try reflexivity.
  - apply Nat.eqb_eq in H. subst. reflexivity.
  - inversion H. apply Nat.eqb_refl.
Qed.

Lemma forallb_ext' {X} (f g : X -> bool) l : (forall x, f x = g x) -> forallb f l = forallb g l.
Proof. intro H. induction l as [|x r IH]; simpl; [reflexivity|]. rewrite H, IH. reflexivity. Qed.

Lemma opt_eqb_neq (a b : option cid) : option_eqb Nat.eqb a b = false <-> a <> b.
Proof.
  split.
  - intros H E. apply opt_eqb_eq in E. congruence.
  - intro H. destruct (option_eqb Nat.eqb a b) eqn:E; [|reflexivity]. apply opt_eqb_eq in E. contradiction.
Qed.

(** what one step of a provider -> processor -> repository run shows: the calls made
    (with the processor's answers), the provider's stored hashes, what the repository
    holds per source *)
Record rstep := { r_calls : list pcall; r_known : list (option cid); r_repo : list (option cid) }.

Definition rstep_eqb (a b : rstep) : bool :=
  list_eqb pcall_eqb (r_calls a) (r_calls b) && list_eqb (option_eqb Nat.eqb) (r_known a) (r_known b) &&
  list_eqb (option_eqb Nat.eqb) (r_repo a) (r_repo b).

Definition mk_call (k : pkind) (s : sid) (c : option cid) (ok : bool) : pcall :=
  {| p_kind := k; p_src := s; p_cid := c; p_ok := ok |}.

Section Accept.
Variable ok0 : cid -> bool.             (* acceptable in itself: supported version, known mechanisms, ... *)
Variable clash : cid -> cid -> bool.    (* [clash c d]: [c] cannot be loaded while ANOTHER source holds [d] (a shared path) *)
Variable srcs : list sid.               (* the sources that may hold something in the repository *)

(** ** The processor *)

(** nothing held by a source other than [self] competes with [c] *)
Definition free_for (A : amap) (self : sid) (c : cid) : bool :=
  forallb (fun t => sid_eqb t self || match A t with Some d => negb (clash c d) | None => true end) srcs.

Definition dacc (A : amap) (self : sid) (c : cid) : bool := ok0 c && free_for A self c.

(** as an oracle for the provider models, frozen at the moment of a look at [self] *)
Definition dyn_oracle (A : amap) (self : sid) : oracle :=
  {| accepts := dacc A self; deletable := fun _ => true |}.

(** the three properties the real processor has *)
Lemma dacc_iff A self c :
  dacc A self c = true <->
  ok0 c = true /\ forall t d, In t srcs -> t <> self -> A t = Some d -> clash c d = false.
Proof.
  unfold dacc, free_for. rewrite andb_true_iff, forallb_forall. split.
  - intros [H0 H]. split; [exact H0|]. intros t d Ht Hne Hd.
    specialize (H t Ht). apply sid_eqb_neq in Hne. rewrite Hne, Hd in H. simpl in H.
    apply negb_true_iff in H. exact H.
  - intros [H0 H]. split; [exact H0|]. intros t Ht.
    destruct (sid_eqb t self) eqn:E; [reflexivity|]. simpl. apply sid_eqb_neq in E.
    destruct (A t) as [d|] eqn:Ed; [|reflexivity]. rewrite (H t d Ht E Ed). reflexivity.
Qed.

Lemma dyn_never_refuses_deletion A self s : deletable (dyn_oracle A self) s = true.
Proof. reflexivity. Qed.

(** the answer does not depend on what [self] itself has loaded *)
Lemma dacc_own_irrelevant A self v c : dacc (a_set A self v) self c = dacc A self c.
Proof.
  unfold dacc, free_for. f_equal. apply forallb_ext'. intro t. unfold a_set.
  destruct (sid_eqb t self); reflexivity.
Qed.

Lemma dacc_ext A B self c : aeq A B -> dacc A self c = dacc B self c.
Proof.
  intro H. unfold dacc, free_for. f_equal. apply forallb_ext'. intro t. rewrite (H t). reflexivity.
Qed.

(** ** The specification on what is loaded *)

(** THE SPECIFICATION (no stored hashes, no calls): a look at a source that shows it
    gone unloads it; invalid content keeps what is loaded; a valid content other than
    the loaded one is loaded iff it can be applied NOW (acceptable in itself and not
    competing with what other sources have loaded) — otherwise the previous version
    stays, and since every look decides again, it is applied as soon as it can be. *)
Definition spec_look (A : amap) (so : sid * sobs) : amap :=
  let s := fst so in
  match snd so with
  | SGone => a_set A s None
  | SNew c => if option_eqb Nat.eqb (A s) (Some c) then A
              else if dacc A s c then a_set A s (Some c) else A
  | SBad | SNone => A
  end.

Definition spec_view (A : amap) (v : list (sid * sobs)) : amap := fold_left spec_look v A.

Fixpoint spec_repo_steps (A : amap) (views : list (list (sid * sobs))) : list (list (option cid)) :=
  match views with
  | [] => []
  | v :: r => let A' := spec_view A v in map A' srcs :: spec_repo_steps A' r
  end.

(** the repository after all the looks *)
Definition spec_final (A : amap) (views : list (list (sid * sobs))) : amap := fold_left spec_view views A.

(** ** The processor calls that achieve it *)

(** one look: a valid content that is not the loaded one is OFFERED (OnCreated if the
    source has nothing loaded, else OnUpdated) and the processor answers; a gone source
    that has something loaded is deleted; nothing else is called *)
Definition offer (A : amap) (s : sid) (o : sobs) : list pcall :=
  match o with
  | SNew c => match A s with
              | None => [mk_call KCreated s (Some c) (dacc A s c)]
              | Some h => if Nat.eqb h c then [] else [mk_call KUpdated s (Some c) (dacc A s c)]
              end
  | SGone => match A s with None => [] | Some _ => [mk_call KDeleted s None true] end
  | SBad | SNone => []
  end.

(** the reference run: calls and repository per step *)
Fixpoint ref_view (A : amap) (v : list (sid * sobs)) : amap * list pcall :=
  match v with
  | [] => (A, [])
  | so :: r => let cs := offer A (fst so) (snd so) in
               let x := ref_view (apply_calls A cs) r in (fst x, cs ++ snd x)
  end.

Fixpoint ref_steps (A : amap) (views : list (list (sid * sobs))) : list (list pcall * list (option cid)) :=
  match views with
  | [] => []
  | v :: r => let x := ref_view A v in (snd x, map (fst x) srcs) :: ref_steps (fst x) r
  end.

(** ** Part I — what the specification means *)

Lemma spec_look_ext A B so : aeq A B -> aeq (spec_look A so) (spec_look B so).
Proof.
  intro H. destruct so as [s o]. unfold spec_look; simpl. destruct o as [c| | |]; try exact H.
  - rewrite (H s), (dacc_ext A B s c H). destruct (option_eqb Nat.eqb (B s) (Some c)); [exact H|].
    destruct (dacc B s c); [apply a_set_aeq|]; exact H.
  - apply a_set_aeq. exact H.
Qed.

Lemma spec_view_ext v : forall A B, aeq A B -> aeq (spec_view A v) (spec_view B v).
Proof.
  induction v as [|so r IH]; intros A B H; [exact H|]. unfold spec_view; simpl.
  apply IH. apply spec_look_ext. exact H.
Qed.

Lemma spec_repo_steps_ext views : forall A B, aeq A B -> spec_repo_steps A views = spec_repo_steps B views.
Proof.
  induction views as [|v r IH]; intros A B H; [reflexivity|]. simpl.
  pose proof (spec_view_ext v A B H) as H'. rewrite (aeq_map _ _ srcs H'). f_equal. apply IH. exact H'.
Qed.

(** the calls of [offer] leave exactly what [spec_look] demands *)
Lemma offer_achieves_spec A s o : aeq (apply_calls A (offer A s o)) (spec_look A (s, o)).
Proof.
  unfold spec_look, offer; simpl. destruct o as [c| | |]; try apply aeq_refl.
  - destruct (A s) as [h|] eqn:EA; simpl.
    + destruct (Nat.eqb h c); [apply aeq_refl|]. unfold apply_calls, apply_call; simpl.
      destruct (dacc A s c); apply aeq_refl.
    + unfold apply_calls, apply_call; simpl. destruct (dacc A s c); apply aeq_refl.
  - destruct (A s) as [h|] eqn:EA; simpl.
    + apply aeq_refl.
    + apply aeq_sym. rewrite <- EA. apply a_set_id.
Qed.

Lemma ref_view_spec v : forall A B, aeq A B -> aeq (fst (ref_view A v)) (spec_view B v).
Proof.
  induction v as [|[s o] r IH]; intros A B H; [exact H|]. simpl. unfold spec_view; simpl. apply IH.
  eapply aeq_trans; [apply offer_achieves_spec|]. apply spec_look_ext. exact H.
Qed.

(** the repository column of the reference run IS the specification *)
Theorem ref_steps_repo views : forall A B, aeq A B ->
  map snd (ref_steps A views) = spec_repo_steps B views.
Proof.
  induction views as [|v r IH]; intros A B H; [reflexivity|]. simpl.
  pose proof (ref_view_spec v A B H) as H'. rewrite (aeq_map _ _ srcs H'). f_equal. apply IH. exact H'.
Qed.

(** frame: a look at [s] changes nothing of another source *)
Lemma spec_look_frame A s o t : t <> s -> spec_look A (s, o) t = A t.
Proof.
  intro H. unfold spec_look; simpl. destruct o as [c| | |]; try reflexivity.
  - destruct (option_eqb Nat.eqb (A s) (Some c)); [reflexivity|].
    destruct (dacc A s c); [apply a_set_other; exact H | reflexivity].
  - apply a_set_other. exact H.
Qed.

(** what a look does to the source looked at *)
Lemma spec_look_self A s o :
  spec_look A (s, o) s =
  match o with
  | SNew c => if dacc A s c then Some c else A s
  | SGone => None
  | SBad | SNone => A s
  end.
Proof.
  unfold spec_look; simpl. destruct o as [c| | |]; try reflexivity.
  - destruct (option_eqb Nat.eqb (A s) (Some c)) eqn:E.
    + apply opt_eqb_eq in E. rewrite E. destruct (dacc A s c); reflexivity.
    + destruct (dacc A s c); [apply a_set_same | reflexivity].
  - apply a_set_same.
Qed.

(** extensionality of the reference run *)
Lemma apply_call_aeq A B p : aeq A B -> aeq (apply_call A p) (apply_call B p).
Proof.
  intro H. unfold apply_call. destruct (p_ok p); [|exact H]. destruct (p_kind p); apply a_set_aeq; exact H.
Qed.

Lemma apply_calls_aeq ps : forall A B, aeq A B -> aeq (apply_calls A ps) (apply_calls B ps).
Proof.
  induction ps as [|p r IH]; intros A B H; [exact H|]. unfold apply_calls; simpl. apply IH. apply apply_call_aeq. exact H.
Qed.

Lemma offer_ext A B s o : aeq A B -> offer A s o = offer B s o.
Proof. intro H. unfold offer. destruct o as [c| | |]; try reflexivity; rewrite (H s), ?(dacc_ext A B s c H); reflexivity. Qed.

Lemma ref_view_ext v : forall A B, aeq A B ->
  snd (ref_view A v) = snd (ref_view B v) /\ aeq (fst (ref_view A v)) (fst (ref_view B v)).
Proof.
  induction v as [|[s o] r IH]; intros A B H; [split; [reflexivity | exact H]|]. simpl.
  rewrite (offer_ext A B s o H).
  destruct (IH (apply_calls A (offer B s o)) (apply_calls B (offer B s o)) (apply_calls_aeq _ A B H)) as [I1 I2].
  rewrite I1. split; [reflexivity | exact I2].
Qed.

Lemma ref_steps_ext views : forall A B, aeq A B -> ref_steps A views = ref_steps B views.
Proof.
  induction views as [|v r IH]; intros A B H; [reflexivity|]. simpl.
  destruct (ref_view_ext v A B H) as [I1 I2]. rewrite I1, (aeq_map _ _ srcs I2). f_equal. apply IH. exact I2.
Qed.

Lemma ref_steps_cons A v r :
  ref_steps A (v :: r) = (snd (ref_view A v), map (fst (ref_view A v)) srcs) :: ref_steps (fst (ref_view A v)) r.
Proof. reflexivity. Qed.

(** a view of one look *)
Lemma ref_view_single A s o : ref_view A [(s, o)] = (apply_calls A (offer A s o), offer A s o).
Proof. simpl. rewrite app_nil_r. reflexivity. Qed.

(** frame for the calls of one look *)
Lemma offer_frame A s o t : t <> s -> apply_calls A (offer A s o) t = A t.
Proof. intro H. rewrite (offer_achieves_spec A s o t). apply spec_look_frame. exact H. Qed.

(** RETRY (specification level): whenever a look shows a valid content that is not
    the loaded one, the content is offered — exactly one call, answered by the
    processor as of NOW; it is loaded iff the answer is yes, else what is loaded stays.
    Nothing in this depends on whether the same content was refused before. *)
Theorem offer_retry A s c :
  A s <> Some c ->
  offer A s (SNew c) = [mk_call (match A s with None => KCreated | Some _ => KUpdated end) s (Some c) (dacc A s c)] /\
  apply_calls A (offer A s (SNew c)) s = (if dacc A s c then Some c else A s).
Proof.
  intro H. split.
  - unfold offer. destruct (A s) as [h|] eqn:E; [|reflexivity].
    destruct (Nat.eqb h c) eqn:Ehc; [|reflexivity]. apply Nat.eqb_eq in Ehc. subst. contradiction.
  - rewrite (offer_achieves_spec A s (SNew c) s). exact (spec_look_self A s (SNew c)).
Qed.

(** no reload: a look showing the loaded content calls nothing *)
Theorem offer_unchanged A s c : A s = Some c -> offer A s (SNew c) = [].
Proof. intro H. unfold offer. rewrite H, Nat.eqb_refl. reflexivity. Qed.

(** CONVERGENCE (one poll): if the content a look shows is acceptable in itself and
    no OTHER source holds a competing content at that moment, the repository holds it
    after the look — whatever happened before (how often it was refused, what the
    source had loaded) *)
Theorem spec_converges_one_look A s c :
  ok0 c = true ->
  (forall t d, In t srcs -> t <> s -> A t = Some d -> clash c d = false) ->
  spec_look A (s, SNew c) s = Some c.
Proof.
  intros H0 H. rewrite spec_look_self.
  assert (dacc A s c = true) as -> by (apply dacc_iff; split; assumption). reflexivity.
Qed.

(** and it stays as long as the source shows the same content, whatever the other
    sources do meanwhile (they cannot push it out: competing contents are refused) *)
Lemma spec_look_keeps A s c so :
  A s = Some c -> (fst so = s -> snd so = SNew c \/ snd so = SBad \/ snd so = SNone) ->
  spec_look A so s = Some c.
Proof.
  intros HA Hso. destruct so as [t o]. simpl in Hso. destruct (sid_dec t s) as [->|Hne].
  - rewrite spec_look_self. destruct (Hso eq_refl) as [->|[->| ->]]; simpl; try exact HA.
    destruct (dacc A s c); [reflexivity | exact HA].
  - rewrite spec_look_frame; [exact HA | intro E; apply Hne; symmetry; exact E].
Qed.

Theorem spec_stable_keeps ls : forall A s c,
  A s = Some c ->
  (forall so, In so ls -> fst so = s -> snd so = SNew c \/ snd so = SBad \/ snd so = SNone) ->
  spec_view A ls s = Some c.
Proof.
  induction ls as [|so r IH]; intros A s c HA H; [exact HA|]. unfold spec_view; simpl. apply IH.
  - apply spec_look_keeps; [exact HA | apply H; left; reflexivity].
  - intros so' Hin. apply H. right. exact Hin.
Qed.

(** LATEST APPLICABLE CONTENT.  [seen_acc s A ls hist]: the looks at source [s] among
    [ls] (most recent first, on top of [hist]), each valid content with the
    processor's answer AT THE MOMENT OF THE LOOK. *)
Fixpoint seen_acc (s : sid) (A : amap) (ls : list (sid * sobs)) (hist : list (sobs * bool)) : list (sobs * bool) :=
  match ls with
  | [] => hist
  | so :: r =>
    seen_acc s (spec_look A so) r
             (if sid_eqb (fst so) s
              then (snd so, match snd so with SNew c => dacc A s c | _ => true end) :: hist
              else hist)
  end.

(** the generalisation of [latest_valid] to answers that depend on the moment *)
Fixpoint latest_applicable (l : list (sobs * bool)) : option cid :=
  match l with
  | [] => None
  | (SNew c, b) :: older => if b then Some c else latest_applicable older
  | (SGone, _) :: _ => None
  | ((SBad | SNone), _) :: older => latest_applicable older
  end.

(** after any looks the repository holds, for every source, the latest content of it
    that was valid and applicable at one of the looks since the source (re)appeared *)
Theorem spec_latest_applicable s ls : forall A hist,
  A s = latest_applicable hist ->
  spec_view A ls s = latest_applicable (seen_acc s A ls hist).
Proof.
  induction ls as [|[t o] r IH]; intros A hist HA; [exact HA|]. unfold spec_view; simpl. apply IH.
  destruct (sid_eqb t s) eqn:E.
  - apply sid_eqb_eq in E. subst t. rewrite spec_look_self. destruct o as [c| | |]; simpl; try exact HA; try reflexivity.
    destruct (dacc A s c); [reflexivity | exact HA].
  - apply sid_eqb_neq in E. rewrite spec_look_frame; [exact HA | intro X; apply E; symmetry; exact X].
Qed.

End Accept.

(** ** The state-independent processor is the special case [clash = none] *)

Definition no_clash : cid -> cid -> bool := fun _ _ => false.

Lemma dacc_no_clash ok0 srcs A s c : dacc ok0 no_clash srcs A s c = ok0 c.
Proof.
  unfold dacc, free_for, no_clash. replace (forallb _ srcs) with true; [apply andb_true_r|].
  symmetry. apply forallb_forall. intros t _. destruct (sid_eqb t s); [reflexivity|]. simpl. destruct (A t); reflexivity.
Qed.

(** the specification's answers: the latest valid content seen, as in the old theorems *)
Fixpoint lv_steps (acc : cid -> bool) (srcs : list sid) (m : seen_map) (views : list (list (sid * sobs)))
  : list (list (option cid)) :=
  match views with
  | [] => []
  | v :: r => let m' := seen_step m {| t_obs := v; t_calls := [] |} in
              map (fun s => latest_valid acc (m' s)) srcs :: lv_steps acc srcs m' r
  end.

Lemma spec_look_static ok0 srcs A m so :
  (forall s, A s = latest_valid ok0 (m s)) ->
  forall s, spec_look ok0 no_clash srcs A so s = latest_valid ok0 (seen_add m (fst so) (snd so) s).
Proof.
  intros H s. destruct so as [t o]. unfold seen_add; simpl. destruct (sid_eqb s t) eqn:E.
  - apply sid_eqb_eq in E. subst t. rewrite spec_look_self.
    destruct o as [c| | |]; simpl; try apply H; try reflexivity.
    rewrite dacc_no_clash. destruct (ok0 c); [reflexivity | apply H].
  - apply sid_eqb_neq in E. rewrite spec_look_frame; [apply H | exact E].
Qed.

Lemma spec_view_static ok0 srcs v : forall A m,
  (forall s, A s = latest_valid ok0 (m s)) ->
  forall s, spec_view ok0 no_clash srcs A v s
            = latest_valid ok0 (seen_step m {| t_obs := v; t_calls := [] |} s).
Proof.
  induction v as [|so r IH]; intros A m H s; [apply H|].
  unfold spec_view, seen_step; simpl. apply (IH (spec_look ok0 no_clash srcs A so) (seen_add m (fst so) (snd so))).
  apply spec_look_static. exact H.
Qed.

(** with a processor whose answer depends on the content alone, the specification is
    "the latest valid content seen of each source" — the vocabulary of C18_converges *)
Theorem spec_static_is_latest_valid ok0 srcs views : forall A m,
  (forall s, A s = latest_valid ok0 (m s)) ->
  spec_repo_steps ok0 no_clash srcs A views = lv_steps ok0 srcs m views.
Proof.
  induction views as [|v r IH]; intros A m H; [reflexivity|]. simpl.
  pose proof (spec_view_static ok0 srcs v A m H) as H'. f_equal.
  - apply map_ext. intro s. apply H'.
  - apply IH. exact H'.
Qed.

(** ** Concrete conflict relations *)

(** the brief's reading: contents own paths, two contents compete when they own a common path *)
Definition clash_of_owns (owns : cid -> nat -> bool) (paths : list nat) : cid -> cid -> bool :=
  fun c d => existsb (fun p => owns c p && owns d p) paths.

(** the streams httpreal / blobreal: contents of one conflict class share a path *)
Definition pclass (c : cid) : nat := Nat.modulo (c - 1) 4.
Definition pclash : cid -> cid -> bool := fun c d => Nat.eqb (pclass d) (pclass c).
Definition ok_rej (rej : list cid) : cid -> bool := fun c => negb (existsb (Nat.eqb c) rej).

(** NO GLOBAL CONVERGENCE, even with perfect retry: two sources whose new contents
    each compete with the OTHER's old content block each other for ever (each update is
    refused because of what the other still holds) although the new contents do not
    compete with each other.  (What the code achieves is per source and per look.) *)
Definition clash_block : cid -> cid -> bool :=
  fun c d => (Nat.eqb c 3 && Nat.eqb d 2) || (Nat.eqb c 4 && Nat.eqb d 1).

Example spec_mutual_block :
  let srcs := [Sid 0; Sid 1] in
  let first := [[(Sid 0, SNew 1)]; [(Sid 1, SNew 2)]] in
  let round := [[(Sid 0, SNew 3)]; [(Sid 1, SNew 4)]] in
  clash_block 3 4 = false /\ clash_block 4 3 = false /\
  map (spec_final (fun _ => true) clash_block srcs a_empty (first ++ round ++ round ++ round)) srcs = [Some 1; Some 2].
Proof. vm_compute. repeat split. Qed.
