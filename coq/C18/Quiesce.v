(** C18 — quiescence: the convergence clause for providers that look at a source only when an event for it arrives,
    against a processor whose answer depends on what is loaded; guards and witnesses of C18-F10 / C18-F11. *)
From HV Require Import Base.Prelude C18.Model C18.ModelK8s C18.Spec C18.Proofs C18.ProofsK8s
  C18.Accept C18.AcceptProviders C18.AcceptFs C18.AcceptK8s.

Definition k8r_uids := seq 0 24.
Definition k8c_srcs := map Sid k8r_uids.

Definition prefixes_from {A} (k : nat) (h : list A) : list (list A) :=
  map (fun i => firstn i h) (seq (S k) (length h - k)).

(** QUIESCENCE — the statement's "converges to the latest valid content of the sources that still exist", read for a
    repository whose answers depend on what is loaded, and independent of any model: after an event has been
    handled, no source is left whose latest version that is valid in itself is not loaded although it could be
    applied right now; and a source that shows no valid version (gone, emptied, never valid) has nothing loaded.
    (A version that cannot be applied because ANOTHER source holds its path may wait.) *)
Definition quiescent (ok : cid -> bool) (srcs : list sid) (m : seen_map) (A : sid -> option cid) : bool :=
  forallb (fun s => match latest_valid ok (m s) with
                    | None => match A s with None => true | Some _ => false end
                    | Some c => option_eqb Nat.eqb (A s) (Some c) || negb (free_for pclash srcs A s c)
                    end) srcs.

Definition repo_fun (srcs : list sid) (repo : list (option cid)) : sid -> option cid :=
  fun s => match find (fun sr => sid_eqb (fst sr) s) (combine srcs repo) with Some sr => snd sr | None => None end.

Definition k8s_seen_after (nn : nat) (h : list k8s_event) : seen_map :=
  let atoms := k8s_atoms_from nn ks_empty h in
  seen_of (mk_trace (k8s_atom_views ks_empty atoms) (map (fun _ => []) atoms)).

Definition k8s_dyn_repo_after (ok : cid -> bool) (nn : nat) (h : list k8s_event) : list (option cid) :=
  last (map snd (k8s_dyn_steps ok pclash k8c_srcs nn ks_empty a_empty h)) (map (fun _ => None) k8c_srcs).


(** ** The guards of C18-F10 / C18-F11, computed from the HISTORY and the specification alone (no provider model)

    The reference is a provider that does exactly what every look at a source demands ([spec_repo_steps]: a valid
    content other than the loaded one is loaded iff it can be applied at that look).  The finding is the situation in
    which even this reference ends an event non-quiescent: a source's latest valid content was refused at the last
    look at it because another source held a competing content, that competitor has since gone or changed, and there
    has been no look at the refused source since.  Any OTHER way of ending non-quiescent — an accepted content that
    is not applied, the wrong source unloaded, a gone source still loaded — is outside the guards. *)

(** Kubernetes: a look that offers something.  A delivery of an object of the class with the UID and generation the
    API server last told about it (status update, repeated delivery, relist) offers nothing — the statement of C18-F10
    includes "no new generation". *)
Definition k8s_offer_view (s : kstore) (a : katom) : list (sid * sobs) :=
  match a with
  | AUpsert o =>
    match s (k_name o) with
    | Some old => if Nat.eqb (k_uid old) (k_uid o) && k_cls o && k_cls old && Nat.eqb (k_gen o) (k_gen old)
                  then [] else k8s_atom_view s a
    | None => k8s_atom_view s a
    end
  | _ => k8s_atom_view s a
  end.

Fixpoint k8s_offer_views (s : kstore) (atoms : list katom) : list (list (sid * sobs)) :=
  match atoms with
  | [] => []
  | a :: r => k8s_offer_view s a :: k8s_offer_views (ks_atom s a) r
  end.

(** what the reference holds after the events [h] *)
Definition k8s_ref_repo_after (ok : cid -> bool) (nn : nat) (h : list k8s_event) : list (option cid) :=
  last (spec_repo_steps ok pclash k8c_srcs a_empty (k8s_offer_views ks_empty (k8s_atoms_from nn ks_empty h)))
       (map (fun _ => None) k8c_srcs).

Definition k8s_guard_F10 (ok : cid -> bool) (nn skip : nat) (h : list k8s_event) : bool :=
  k8s_wf nn h &&
  existsb (fun pre => negb (quiescent ok k8c_srcs (k8s_seen_after nn pre) (repo_fun k8c_srcs (k8s_ref_repo_after ok nn pre))))
          (prefixes_from skip h).

(** file system: every notification for a file is a look at it (histories without initial loads) *)
Definition fs_seen_after (h : list fs_event) : seen_map :=
  seen_of (mk_trace (fs_views (fun _ => true) h) (map (fun _ => []) h)).

Definition fs_ref_repo_after (ok : cid -> bool) (n : nat) (h : list fs_event) : list (option cid) :=
  let srcs := map Sid (seq 0 n) in
  last (spec_repo_steps ok pclash srcs a_empty (fs_views (fun _ => true) h)) (map (fun _ => None) srcs).

Definition fs_dyn_repo_after (ok : cid -> bool) (n : nat) (h : list fs_event) : list (option cid) :=
  let srcs := map Sid (seq 0 n) in
  last (map snd (fs_dyn_steps ok pclash srcs world0 st_empty a_empty h)) (map (fun _ => None) srcs).

Definition fs_guard_F11 (ok : cid -> bool) (n : nat) (h : list fs_event) : bool :=
  let srcs := map Sid (seq 0 n) in
  existsb (fun pre => negb (quiescent ok srcs (fs_seen_after pre) (repo_fun srcs (fs_ref_repo_after ok n pre))))
          (prefixes_from 0 h).

(** witnesses *)
Definition hk_F10 : list k8s_event := [KWatch WAdded kA1; KWatch WAdded kB1; KWatch WDeleted kA1].

Theorem k8s_F10_refuted :
  let ok := fun _ : cid => true in
  k8s_wf 2 hk_F10 = true /\ k8s_guard_F10 ok 2 0 hk_F10 = true /\
  (* the provider model ends where the reference ends: B's rule set (content 5) is valid, nothing holds its path
     any more, and it is not loaded *)
  k8s_dyn_repo_after ok 2 hk_F10 = k8s_ref_repo_after ok 2 hk_F10 /\
  k8s_dyn_repo_after ok 2 hk_F10 = map (fun _ => None) k8c_srcs /\
  free_for pclash k8c_srcs (repo_fun k8c_srcs (k8s_dyn_repo_after ok 2 hk_F10)) (Sid 1) 5 = true /\
  (* a relist that delivers B again with the same generation does not help; a new generation does *)
  k8s_dyn_repo_after ok 2 (hk_F10 ++ [KRelist [kB1]]) = map (fun _ => None) k8c_srcs /\
  nth 1 (k8s_dyn_repo_after ok 2 (hk_F10 ++ [KWatch WModified kB2])) None = Some 9.
Proof. vm_compute. repeat split; reflexivity. Qed.

Definition hf_F11 : list fs_event :=
  [FsSet 0 (CValid 1); FsNotify 0 [OpCreate]; FsSet 1 (CValid 5); FsNotify 1 [OpCreate]; FsSet 0 CAbsent; FsNotify 0 [OpRemove]].

Theorem fs_F11_refuted :
  let ok := fun _ : cid => true in
  fs_guard_F11 ok 2 hf_F11 = true /\
  fs_dyn_repo_after ok 2 hf_F11 = [None; None] /\
  free_for pclash [Sid 0; Sid 1] (repo_fun [Sid 0; Sid 1] (fs_dyn_repo_after ok 2 hf_F11)) (Sid 1) 5 = true /\
  (* the next event for the refused file loads it *)
  fs_dyn_repo_after ok 2 (hf_F11 ++ [FsNotify 1 [OpChmod]]) = [None; Some 5] /\
  fs_guard_F11 ok 2 [FsSet 0 (CValid 1); FsNotify 0 [OpCreate]; FsSet 0 (CValid 2); FsNotify 0 [OpWrite]] = false.
Proof. vm_compute. repeat split; reflexivity. Qed.
