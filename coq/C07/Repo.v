(** * C07/Repo.v — the general theorems instantiated for the regenerated
    skeleton of heimdall's rule repository ([Gen/RepoSkel.v]). *)
From HV Require Import Base.Prelude Base.Locks C07.Model C07.Proofs Gen.RepoSkel.

Lemma repo_safe :
  forall (val arg : Type) (wfun : op arg -> nat -> list val -> val) (wp : bool) (c : cfg val arg),
    reach wfun repo_skel wp c ->
    ~ bad c /\ ~ var_race c /\ ~ obj_race c /\
    ((exists t r, c_thr c t = Some r) -> progress wfun repo_skel wp c).
Proof.
  intros val arg wfun wp c Hr. pose proof repo_skel_wf as W.
  split; [eapply g_no_crash; eassumption|].
  destruct (g_race_free val arg wfun repo_skel wp repo_wlock W c Hr) as [R1 R2].
  split; [assumption|]. split; [assumption|].
  eapply g_deadlock_free; eassumption.
Qed.

From HV Require Import C07.Lin.

(** the rule repository as it is in the working tree: every execution is
    linearizable, every completed operation saw one committed state, and at
    quiescence the repository is in the state the sequential history leads to *)
Lemma repo_linearizable :
  forall (val arg : Type) (wfun : op arg -> nat -> list val -> val) (wp : bool) (c0 : cfg val arg) ls c,
    initial c0 -> exec wfun repo_skel wp c0 ls c ->
    exists σ pl tr ph,
      lin wfun repo_skel wp c0 ls c σ pl tr /\ seq_hist wfun repo_skel (abs_of c0) (lins tr) σ /\
      wb (fun _ => PIdle) tr ph /\ io_marks tr = io_labels ls /\
      (forall t o log, In (t, o, log) (lins tr) -> In (LBegin t o) ls) /\
      (forall t, exists extra, thread_hist t (lins tr) = thread_returns t ls ++ extra /\ length extra <= 1 /\
                               (c_thr c t = None -> extra = [])) /\
      (forall t o log, In (LEnd t o log) ls ->
         exists H1 H2 s1 s2, lins tr = H1 ++ (t, o, log) :: H2 /\
           seq_hist wfun repo_skel (abs_of c0) H1 s1 /\ seq_run wfun repo_skel o s1 = Some (s2, log)) /\
      ((forall t, c_thr c t = None) ->
         (forall v, c_val c v = s_val σ v) /\ (forall p, c_heap c (c_ptr c p) = s_pub σ p)).
Proof.
  intros val arg wfun wp c0 ls c Hi He. pose proof repo_skel_wf as W.
  destruct (g_linearizable val arg wfun repo_skel wp repo_wlock W c0 ls c Hi He) as (σ & pl & tr & ph & L & Hh & Hwb & Hio).
  destruct (g_history_is_execution val arg wfun repo_skel wp repo_wlock W c0 ls c σ pl tr Hi L) as [Hinv Hthr].
  exists σ, pl, tr, ph. repeat split; auto.
  - intros t o log Hin. eapply g_committed; eassumption.
  - destruct (g_no_lost_update val arg wfun repo_skel wp repo_wlock W c0 ls c σ pl tr Hi L H) as (_ & _ & Hv & _). apply Hv.
  - destruct (g_no_lost_update val arg wfun repo_skel wp repo_wlock W c0 ls c σ pl tr Hi L H) as (_ & _ & _ & Hp). apply Hp.
Qed.

From HV Require Import C07.Sched.

(** the run-time tie for the repository as it is in the working tree: what the stream "sched" replays (any log,
    in the instance [cfg0] / [wf1] the evaluator uses) is a crash-free, race-free, linearizable execution of the
    regenerated skeleton with exactly the logged invocations and responses *)
Lemma repo_explored_schedule_safe :
  forall (items : list item) (s' : rpst unit unit) (err : option rerr),
    replay wf1 repo_skel tt items (rpst0 cfg0) = (s', err) ->
    exec wf1 repo_skel false cfg0 (rev (rs_lab s')) (rs_cfg s') /\
    (err = None -> flat_map label_io (rev (rs_lab s')) = flat_map item_io items) /\
    ~ bad (rs_cfg s') /\ ~ var_race (rs_cfg s') /\ ~ obj_race (rs_cfg s') /\
    exists σ pl tr ph,
      lin wf1 repo_skel false cfg0 (rev (rs_lab s')) (rs_cfg s') σ pl tr /\
      seq_hist wf1 repo_skel (abs_of cfg0) (lins tr) σ /\
      wb (fun _ => PIdle) tr ph /\
      io_marks tr = io_labels (rev (rs_lab s')).
Proof.
  intros items s' err E.
  split; [eapply replay_sound; eassumption|].
  split; [intro N; subst err; eapply replay_history; eassumption|].
  eapply replay_run_safe; [exact repo_skel_wf|exact cfg0_initial|eassumption].
Qed.
