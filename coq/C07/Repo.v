(** * C07/Repo.v — the general theorems instantiated for the regenerated
    skeleton of heimdall's rule repository ([Gen/RepoSkel.v]). *)
From HV Require Import Base.Prelude Base.Locks C07.Model C07.Proofs Gen.RepoSkel.

Lemma repo_safe :
  forall (val arg : Type) (wfun : op arg -> nat -> list val -> val) (wp : bool) (c : cfg val arg),
    reach wfun repo_skel wp c ->
    ~ bad c /\ ~ var_race c /\ ~ obj_race c /\
    ((exists t r, c_thr c t = Some r) -> progress wfun repo_skel wp c).
Proof.
  intros val arg wfun wp c Hr. pose proof repo_skel_wf as W.
  split; [eapply g_no_crash; eassumption|].
  destruct (g_race_free val arg wfun repo_skel wp repo_wlock W c Hr) as [R1 R2].
  split; [assumption|]. split; [assumption|].
  eapply g_deadlock_free; eassumption.
Qed.
