(** * C07/Lin.v — every skeleton that passes [wf_skel] is linearizable: any
    interleaving of any number of operations by any number of threads is
    equivalent to the sequential execution ([seq_run]) of the operations in the
    order of their linearization points, each operation obtaining exactly the
    log (hence every result) it obtained concurrently; nothing is lost.

    Linearization point of an operation: its last access to guarded state
    ([sensitive] event) — the publishing store for a successful change, the load
    of the tree pointer for a lookup — or its start if it has none. *)
From HV Require Import Base.Prelude Base.Locks C07.Model.

Section Lin.

Variable val : Type.
Variable arg : Type.
Variable wfun : op arg -> nat -> list val -> val.
Variable sk : skel.
Variable wp : bool.
Variable K : lock.

Hypothesis WF : wf_skel K sk = true.

Definition wv : list var := wvars sk.
Definition sens (e : event) : bool := sensitive wv e.

Definition env_eq (a b : lenv val) : Prop := forall x, a x = b x.
Definition empty_env : lenv val := fun _ => None.

(* ---------------------------------------------------------------- facts about the sequential runs *)

Lemma seq_evs_app o n a b s l g :
  seq_evs wfun o n (a ++ b) s l g =
  match seq_evs wfun o n a s l g with
  | Some (s', l', g') => seq_evs wfun o (n + length a) b s' l' g'
  | None => None
  end.
Proof.
  revert n s l g. induction a as [|e a IH]; intros n s l g; simpl.
  - rewrite Nat.add_0_r. reflexivity.
  - destruct (seq_ev wfun o n e s l g) as [[[s' l'] g']|]; [|reflexivity].
    rewrite IH. replace (S n + length a) with (n + S (length a)) by lia. reflexivity.
Qed.

(** events that are not sensitive leave the state alone *)
Lemma seq_ev_nonsens o n e s l g s' l' g' :
  sens e = false -> seq_ev wfun o n e s l g = Some (s', l', g') -> s' = s.
Proof.
  destruct e; simpl; intros Hs H; try discriminate; try (inversion H; reflexivity);
    try (destruct (l x); inversion H; reflexivity).
Qed.

Lemma seq_evs_nonsens o es : forall n s l g s' l' g',
  existsb sens es = false -> seq_evs wfun o n es s l g = Some (s', l', g') -> s' = s.
Proof.
  induction es as [|e es IH]; simpl; intros n s l g s' l' g' Hs H.
  - inversion H; reflexivity.
  - apply orb_false_iff in Hs as [Hs1 Hs2].
    destruct (seq_ev wfun o n e s l g) as [[[s1 l1] g1]|] eqn:E; [|discriminate].
    apply seq_ev_nonsens in E; [|assumption]. subst s1. eapply IH; eassumption.
Qed.

(** ... and only look at the part of the state nobody ever writes *)
Definition ro_agree (s s2 : sstate val) : Prop :=
  (forall v, mem_var v wv = false -> s_val s2 v = s_val s v) /\
  (forall p, mem_var p wv = false -> s_pub s2 p = s_pub s p).

Lemma seq_ev_indep o n e s s2 l g l' g' :
  sens e = false -> ro_agree s s2 ->
  seq_ev wfun o n e s l g = Some (s, l', g') -> seq_ev wfun o n e s2 l g = Some (s2, l', g').
Proof.
  intros Hs [A1 A2]. destruct e; simpl in *; try discriminate; intro H;
    try (inversion H; subst; reflexivity);
    try (destruct (l x); inversion H; subst; reflexivity).
  - inversion H; subst. rewrite (A1 _ Hs). reflexivity.
  - inversion H; subst. rewrite (A2 _ Hs). reflexivity.
Qed.

Lemma seq_evs_indep o es : forall n s s2 l g l' g',
  existsb sens es = false -> ro_agree s s2 ->
  seq_evs wfun o n es s l g = Some (s, l', g') -> seq_evs wfun o n es s2 l g = Some (s2, l', g').
Proof.
  induction es as [|e es IH]; simpl; intros n s s2 l g l' g' Hs Ha H.
  - inversion H; subst. reflexivity.
  - apply orb_false_iff in Hs as [Hs1 Hs2].
    destruct (seq_ev wfun o n e s l g) as [[[s1 l1] g1]|] eqn:E; [|discriminate].
    pose proof (seq_ev_nonsens _ _ _ _ _ _ _ _ _ Hs1 E) as ->.
    rewrite (seq_ev_indep _ _ _ _ _ _ _ _ _ Hs1 Ha E). eapply IH; eassumption.
Qed.

(* ---------------------------------------------------------------- static facts *)

Lemma WFL : wf_locks sk = true.
Proof. unfold wf_skel in WF. apply andb_true_iff in WF. tauto. Qed.

Lemma WFC : wf_cow K sk = true.
Proof. unfold wf_skel in WF. apply andb_true_iff in WF. tauto. Qed.

Lemma cow_point path d t :
  In path (all_paths sk) -> In (d, t) (splits path) -> cow_point_ok K wv path (d, t) = true.
Proof.
  intros Hp Hs. pose proof WFC as W. unfold wf_cow in W. rewrite forallb_forall in W.
  specialize (W _ Hp). unfold cow_path_ok in W. rewrite forallb_forall in W. apply W. assumption.
Qed.

(** locals that are statically defined are defined in the sequential run *)
Definition def_agree (d : list event) (l : lenv val) : Prop :=
  forall x, stat_after d x = None <-> l x = None.

Lemma seq_ev_total o n d e s l g :
  ev_ok sk d e = true -> def_agree d l ->
  exists s' l' g', seq_ev wfun o n e s l g = Some (s', l', g') /\ def_agree (d ++ [e]) l'.
Proof.
  intros Hok Hd. unfold def_agree in *. unfold ev_ok in Hok.
  assert (Hdef : forall x, is_def (stat_after d x) = true -> exists c, l x = Some c).
  { intros x H. destruct (l x) as [c|] eqn:E; [eauto|]. apply Hd in E. rewrite E in H. discriminate. }
  assert (Hpriv : forall x, is_priv (stat_after d x) = true -> exists c, l x = Some c).
  { intros x H. apply Hdef. destruct (stat_after d x) as [[|]|]; simpl in *; congruence. }
  destruct e; simpl; try discriminate;
    try (do 3 eexists; split; [reflexivity|]; intro x0; rewrite stat_after_snoc; simpl; apply Hd).
  - (* load *)
    do 3 eexists. split; [reflexivity|]. intro x0. rewrite stat_after_snoc. simpl. unfold upd.
    destruct (x0 =? x); [split; discriminate|apply Hd].
  - (* store *)
    destruct (Hpriv _ Hok) as [c Ec]. rewrite Ec. do 3 eexists. split; [reflexivity|].
    intro x0. rewrite stat_after_snoc. simpl. unfold upd.
    destruct (Nat.eqb_spec x0 x) as [->|N]; [rewrite Ec; split; discriminate|apply Hd].
  - (* clone *)
    destruct (Hdef _ Hok) as [c Ec]. rewrite Ec. do 3 eexists. split; [reflexivity|].
    intro x0. rewrite stat_after_snoc. simpl. unfold upd.
    destruct (x0 =? y); [split; discriminate|apply Hd].
  - (* objread *)
    destruct (Hdef _ Hok) as [c Ec]. rewrite Ec. do 3 eexists. split; [reflexivity|].
    intro x0. rewrite stat_after_snoc. simpl. apply Hd.
  - (* objwrite *)
    destruct (Hpriv _ Hok) as [c Ec]. rewrite Ec. do 3 eexists. split; [reflexivity|].
    intro x0. rewrite stat_after_snoc. simpl. unfold upd.
    destruct (Nat.eqb_spec x0 x) as [->|N]; [|apply Hd].
    split; [intro X; apply Hd in X; congruence|discriminate].
Qed.

Lemma seq_total o path : In path (all_paths sk) ->
  forall rest d s l g, In (d, rest) (splits path) -> def_agree d l ->
  exists s' l' g', seq_evs wfun o (length d) rest s l g = Some (s', l', g').
Proof.
  intros Hp. induction rest as [|e rest IH]; intros d s l g Hs Hd; simpl.
  - eauto.
  - pose proof (wf_point sk WFL _ _ _ Hp Hs) as Hok. unfold point_ok in Hok. simpl in Hok.
    destruct (seq_ev_total o (length d) d e s l g Hok Hd) as (s1 & l1 & g1 & E & Hd1).
    rewrite E. apply splits_next in Hs.
    destruct (IH (d ++ [e]) s1 l1 g1 Hs Hd1) as (s2 & l2 & g2 & E2).
    rewrite app_length in E2. simpl in E2. rewrite Nat.add_1_r in E2. eauto.
Qed.

(* ---------------------------------------------------------------- one concrete step vs one sequential step *)

(** the value-level view of a thread's locals *)
Definition lv (c : cfg val arg) (r : run val arg) : lenv val :=
  fun x => option_map (c_heap c) (r_loc r x).

Definition eff_ok (c c' : cfg val arg) (r : run val arg) (e : event) (s s' : sstate val) : Prop :=
  match e with
  | EWrite v0 =>
      s' = {| s_val := upd (s_val s) v0 (wfun (r_op r) (length (r_done r)) (r_log r)); s_pub := s_pub s |} /\
      c_val c' = upd (c_val c) v0 (wfun (r_op r) (length (r_done r)) (r_log r)) /\ c_ptr c' = c_ptr c
  | EStore p x =>
      exists o, r_loc r x = Some o /\
        s' = {| s_val := s_val s; s_pub := upd (s_pub s) p (c_heap c o) |} /\
        c_ptr c' = upd (c_ptr c) p o /\ c_val c' = c_val c
  | _ => s' = s /\ c_val c' = c_val c /\ c_ptr c' = c_ptr c
  end.

Lemma sync_ev c t r rest e c' s lvA :
  lock_inv sk c -> own_inv c -> c_thr c t = Some r -> r_todo r = e :: rest ->
  ev_step wfun wp c t r rest e c' ->
  env_eq lvA (lv c r) ->
  (forall v, e = ERead v -> s_val s v = c_val c v) ->
  (forall x p, e = ELoad x p -> s_pub s p = c_heap c (c_ptr c p)) ->
  exists r' s' lvA',
    c_thr c' = upd (c_thr c) t (Some r') /\ r_done r' = r_done r ++ [e] /\ r_todo r' = rest /\ r_op r' = r_op r /\
    seq_ev wfun (r_op r) (length (r_done r)) e s lvA (r_log r) = Some (s', lvA', r_log r') /\
    env_eq lvA' (lv c' r') /\ eff_ok c c' r e s s'.
Proof.
  intros LI OI Ht Htd Hev Henv Hrd Hld.
  pose proof (on_path_ev val arg sk WFL r e rest (li_path sk c LI t r Ht) Htd) as Hok. unfold ev_ok in Hok.
  assert (HlvA : forall x o, r_loc r x = Some o -> lvA x = Some (c_heap c o)).
  { intros x o E. rewrite (Henv x). unfold lv. rewrite E. reflexivity. }
  inversion Hev; subst; simpl.
  - (* lock *) eexists _, s, lvA. repeat split; try reflexivity. exact Henv.
  - (* unlock *) eexists _, s, lvA. repeat split; try reflexivity. exact Henv.
  - (* rlock *) eexists _, s, lvA. repeat split; try reflexivity. exact Henv.
  - (* runlock *) eexists _, s, lvA. repeat split; try reflexivity. exact Henv.
  - (* read *) eexists _, s, lvA. repeat split; try reflexivity; simpl.
    + rewrite (Hrd v eq_refl). reflexivity.
    + exact Henv.
  - (* write *) eexists _, _, lvA. repeat split; try reflexivity. exact Henv.
  - (* load *) eexists _, s, _. repeat split; try reflexivity; simpl.
    intro y. unfold lv; simpl. unfold upd. destruct (y =? x).
    + simpl. rewrite (Hld x p eq_refl). reflexivity.
    + apply Henv.
  - (* store *) rewrite (HlvA _ _ H). eexists _, _, lvA. repeat split; try reflexivity; simpl.
    + exact Henv.
    + exists o. repeat split; try reflexivity. assumption.
  - (* clone *) rewrite (HlvA _ _ H). eexists _, s, _. repeat split; try reflexivity; simpl.
    intro z. unfold lv; simpl. unfold upd at 1 2. destruct (z =? y).
    + simpl. rewrite upd_same. reflexivity.
    + rewrite (Henv z). unfold lv. destruct (r_loc r z) as [o'|] eqn:E; [|reflexivity]. simpl.
      rewrite upd_other; [reflexivity|]. pose proof (oi_alloc c OI _ _ _ _ Ht E). lia.
  - (* objread *) rewrite (HlvA _ _ H). eexists _, s, lvA. repeat split; try reflexivity; simpl. exact Henv.
  - (* objwrite *) rewrite (HlvA _ _ H). eexists _, s, _. repeat split; try reflexivity; simpl.
    assert (Hp : stat_of r x = Some Priv).
    { unfold stat_of. destruct (stat_after (r_done r) x) as [[|]|]; simpl in Hok; try discriminate; reflexivity. }
    destruct (oi_priv c OI _ _ _ _ Ht Hp H) as [_ P2].
    intro z. unfold lv; simpl. unfold upd at 1. destruct (Nat.eqb_spec z x) as [->|N].
    + rewrite H. simpl. rewrite upd_same. reflexivity.
    + rewrite (Henv z). unfold lv. destruct (r_loc r z) as [o'|] eqn:E; [|reflexivity]. simpl.
      rewrite upd_other; [reflexivity|]. intro Eo. subst o'. destruct (P2 _ _ _ Ht E) as [_ Ez]. contradiction.
Qed.

End Lin.
