(** * C07/Lin.v — every skeleton that passes [wf_skel] is linearizable: any
    interleaving of any number of operations by any number of threads is
    equivalent to the sequential execution ([seq_run]) of the operations in the
    order of their linearization points, each operation obtaining exactly the
    log (hence every result) it obtained concurrently; nothing is lost.

    Linearization point of an operation: its publishing store if it has one,
    otherwise its last access to guarded state ([sensitive] event) — the load
    of the tree pointer for a lookup — or its start if it has none. *)
From HV Require Import Base.Prelude Base.Locks C07.Model.

Section Lin.

Variable val : Type.
Variable arg : Type.
Variable wfun : op arg -> nat -> list val -> val.
Variable sk : skel.
Variable wp : bool.
Variable K : lock.

Hypothesis WF : wf_skel K sk = true.

Definition wv : list var := wvars sk.
Definition sens (e : event) : bool := sensitive wv e.

Definition env_eq (a b : lenv val) : Prop := forall x, a x = b x.
Definition empty_env : lenv val := fun _ => None.

(* ---------------------------------------------------------------- facts about the sequential runs *)

Lemma seq_evs_app o n a b s l g :
  seq_evs wfun o n (a ++ b) s l g =
  match seq_evs wfun o n a s l g with
  | Some (s', l', g') => seq_evs wfun o (n + length a) b s' l' g'
  | None => None
  end.
Proof.
  revert n s l g. induction a as [|e a IH]; intros n s l g; simpl.
  - rewrite Nat.add_0_r. reflexivity.
  - destruct (seq_ev wfun o n e s l g) as [[[s' l'] g']|]; [|reflexivity].
    rewrite IH. replace (S n + length a) with (n + S (length a)) by lia. reflexivity.
Qed.

(** events that are not sensitive leave the state alone *)
Lemma seq_ev_nonsens o n e s l g s' l' g' :
  sens e = false -> seq_ev wfun o n e s l g = Some (s', l', g') -> s' = s.
Proof.
  destruct e; simpl; intros Hs H; try discriminate; try (inversion H; reflexivity);
    try (destruct (l x); inversion H; reflexivity).
Qed.

Lemma seq_evs_nonsens o es : forall n s l g s' l' g',
  existsb sens es = false -> seq_evs wfun o n es s l g = Some (s', l', g') -> s' = s.
Proof.
  induction es as [|e es IH]; simpl; intros n s l g s' l' g' Hs H.
  - inversion H; reflexivity.
  - apply orb_false_iff in Hs as [Hs1 Hs2].
    destruct (seq_ev wfun o n e s l g) as [[[s1 l1] g1]|] eqn:E; [|discriminate].
    apply seq_ev_nonsens in E; [|assumption]. subst s1. eapply IH; eassumption.
Qed.

(** ... and only look at the part of the state nobody ever writes *)
Definition ro_agree (s s2 : sstate val) : Prop :=
  (forall v, mem_var v wv = false -> s_val s2 v = s_val s v) /\
  (forall p, mem_var p wv = false -> s_pub s2 p = s_pub s p).

Lemma seq_ev_indep o n e s s2 l g l' g' :
  sens e = false -> ro_agree s s2 ->
  seq_ev wfun o n e s l g = Some (s, l', g') -> seq_ev wfun o n e s2 l g = Some (s2, l', g').
Proof.
  intros Hs [A1 A2]. destruct e; simpl in *; try discriminate; intro H;
    try (inversion H; subst; reflexivity);
    try (destruct (l x); inversion H; subst; reflexivity).
  - inversion H; subst. rewrite (A1 _ Hs). reflexivity.
  - inversion H; subst. rewrite (A2 _ Hs). reflexivity.
Qed.

Lemma seq_evs_indep o es : forall n s s2 l g l' g',
  existsb sens es = false -> ro_agree s s2 ->
  seq_evs wfun o n es s l g = Some (s, l', g') -> seq_evs wfun o n es s2 l g = Some (s2, l', g').
Proof.
  induction es as [|e es IH]; simpl; intros n s s2 l g l' g' Hs Ha H.
  - inversion H; subst. reflexivity.
  - apply orb_false_iff in Hs as [Hs1 Hs2].
    destruct (seq_ev wfun o n e s l g) as [[[s1 l1] g1]|] eqn:E; [|discriminate].
    pose proof (seq_ev_nonsens _ _ _ _ _ _ _ _ _ Hs1 E) as ->.
    rewrite (seq_ev_indep _ _ _ _ _ _ _ _ _ Hs1 Ha E). eapply IH; eassumption.
Qed.

(** a store is an access to guarded state *)
Lemma store_sens e : is_store_ev e = true -> sens e = true.
Proof. destruct e; simpl; intro H; try discriminate; reflexivity. Qed.

Lemma stores_sens es : existsb sens es = false -> existsb is_store_ev es = false.
Proof.
  induction es as [|e es IH]; simpl; [reflexivity|]. intro H. apply orb_false_iff in H as [H1 H2].
  rewrite (IH H2). destruct (is_store_ev e) eqn:X; [|reflexivity]. rewrite (store_sens _ X) in H1. discriminate.
Qed.

(** without a store the published contents stay *)
Lemma seq_evs_pub o es : forall n s l g s' l' g',
  existsb is_store_ev es = false -> seq_evs wfun o n es s l g = Some (s', l', g') ->
  forall p, s_pub s' p = s_pub s p.
Proof.
  induction es as [|e es IH]; simpl; intros n s l g s' l' g' Hs H p.
  - inversion H; reflexivity.
  - apply orb_false_iff in Hs as [Hs1 Hs2].
    destruct (seq_ev wfun o n e s l g) as [[[s1 l1] g1]|] eqn:E; [|discriminate].
    rewrite (IH _ _ _ _ _ _ _ Hs2 H p).
    destruct e; simpl in E, Hs1; try discriminate; try (inversion E; subst; reflexivity);
      try (destruct (l x); inversion E; subst; reflexivity).
Qed.

(** plain fields outside [wv] are never written *)
Lemma seq_evs_ro o es : forall n s l g s' l' g',
  (forall e v, In e es -> e = EWrite v -> mem_var v wv = true) ->
  seq_evs wfun o n es s l g = Some (s', l', g') ->
  forall v, mem_var v wv = false -> s_val s' v = s_val s v.
Proof.
  induction es as [|e es IH]; simpl; intros n s l g s' l' g' Hw H v Hv.
  - inversion H; reflexivity.
  - destruct (seq_ev wfun o n e s l g) as [[[s1 l1] g1]|] eqn:E; [|discriminate].
    rewrite (IH _ _ _ _ _ _ _ (fun e0 v0 Hin => Hw e0 v0 (or_intror Hin)) H v Hv).
    destruct e; simpl in E; try (inversion E; subst; reflexivity);
      try (destruct (l x); inversion E; subst; reflexivity).
    inversion E; subst. simpl. apply upd_other. intro X. subst v0.
    rewrite (Hw _ _ (or_introl eq_refl) eq_refl) in Hv. discriminate.
Qed.

(* ---------------------------------------------------------------- static facts *)

Lemma WFL : wf_locks sk = true.
Proof. unfold wf_skel in WF. apply andb_true_iff in WF. tauto. Qed.

Lemma WFC : wf_cow K sk = true.
Proof. unfold wf_skel in WF. apply andb_true_iff in WF. tauto. Qed.

Lemma cow_point path d t :
  In path (all_paths sk) -> In (d, t) (splits path) -> cow_point_ok K wv path (d, t) = true.
Proof.
  intros Hp Hs. pose proof WFC as W. unfold wf_cow in W. rewrite forallb_forall in W.
  specialize (W _ Hp). unfold cow_path_ok in W. rewrite forallb_forall in W. apply W. assumption.
Qed.

(** locals that are statically defined are defined in the sequential run *)
Definition def_agree (d : list event) (l : lenv val) : Prop :=
  forall x, stat_after d x = None <-> l x = None.

Lemma seq_ev_total o n d e s l g :
  ev_ok sk d e = true -> def_agree d l ->
  exists s' l' g', seq_ev wfun o n e s l g = Some (s', l', g') /\ def_agree (d ++ [e]) l'.
Proof.
  intros Hok Hd. unfold def_agree in *. unfold ev_ok in Hok.
  assert (Hdef : forall x, is_def (stat_after d x) = true -> exists c, l x = Some c).
  { intros x H. destruct (l x) as [c|] eqn:E; [eauto|]. apply Hd in E. rewrite E in H. discriminate. }
  assert (Hpriv : forall x, is_priv (stat_after d x) = true -> exists c, l x = Some c).
  { intros x H. apply Hdef. destruct (stat_after d x) as [[|]|]; simpl in *; congruence. }
  destruct e; simpl; try discriminate;
    try (do 3 eexists; split; [reflexivity|]; intro x0; rewrite stat_after_snoc; simpl; apply Hd).
  - (* load *)
    do 3 eexists. split; [reflexivity|]. intro x0. rewrite stat_after_snoc. simpl. unfold upd.
    destruct (x0 =? x); [split; discriminate|apply Hd].
  - (* store *)
    destruct (Hpriv _ Hok) as [c Ec]. rewrite Ec. do 3 eexists. split; [reflexivity|].
    intro x0. rewrite stat_after_snoc. simpl. unfold upd.
    destruct (Nat.eqb_spec x0 x) as [->|N]; [rewrite Ec; split; discriminate|apply Hd].
  - (* clone *)
    destruct (Hdef _ Hok) as [c Ec]. rewrite Ec. do 3 eexists. split; [reflexivity|].
    intro x0. rewrite stat_after_snoc. simpl. unfold upd.
    destruct (x0 =? y); [split; discriminate|apply Hd].
  - (* objread *)
    destruct (Hdef _ Hok) as [c Ec]. rewrite Ec. do 3 eexists. split; [reflexivity|].
    intro x0. rewrite stat_after_snoc. simpl. apply Hd.
  - (* objwrite *)
    destruct (Hpriv _ Hok) as [c Ec]. rewrite Ec. do 3 eexists. split; [reflexivity|].
    intro x0. rewrite stat_after_snoc. simpl. unfold upd.
    destruct (Nat.eqb_spec x0 x) as [->|N]; [|apply Hd].
    split; [intro X; apply Hd in X; congruence|discriminate].
Qed.

Lemma seq_total o path : In path (all_paths sk) ->
  forall rest d s l g, In (d, rest) (splits path) -> def_agree d l ->
  exists s' l' g', seq_evs wfun o (length d) rest s l g = Some (s', l', g').
Proof.
  intros Hp. induction rest as [|e rest IH]; intros d s l g Hs Hd; simpl.
  - eauto.
  - pose proof (wf_point sk WFL _ _ _ Hp Hs) as Hok. unfold point_ok in Hok. simpl in Hok.
    destruct (seq_ev_total o (length d) d e s l g Hok Hd) as (s1 & l1 & g1 & E & Hd1).
    rewrite E. apply splits_next in Hs.
    destruct (IH (d ++ [e]) s1 l1 g1 Hs Hd1) as (s2 & l2 & g2 & E2).
    rewrite app_length in E2. simpl in E2. rewrite Nat.add_1_r in E2. eauto.
Qed.

(* ---------------------------------------------------------------- one concrete step vs one sequential step *)

(** the value-level view of a thread's locals *)
Definition lv (c : cfg val arg) (r : run val arg) : lenv val :=
  fun x => option_map (c_heap c) (r_loc r x).

Definition eff_ok (c c' : cfg val arg) (r : run val arg) (e : event) (s s' : sstate val) : Prop :=
  match e with
  | EWrite v0 =>
      s' = {| s_val := upd (s_val s) v0 (wfun (r_op r) (length (r_done r)) (r_log r)); s_pub := s_pub s |} /\
      c_val c' = upd (c_val c) v0 (wfun (r_op r) (length (r_done r)) (r_log r)) /\ c_ptr c' = c_ptr c
  | EStore p x =>
      exists o, r_loc r x = Some o /\
        s' = {| s_val := s_val s; s_pub := upd (s_pub s) p (c_heap c o) |} /\
        c_ptr c' = upd (c_ptr c) p o /\ c_val c' = c_val c
  | _ => s' = s /\ c_val c' = c_val c /\ c_ptr c' = c_ptr c
  end.

Lemma sync_ev c t r rest e c' s lvA :
  lock_inv sk c -> own_inv c -> c_thr c t = Some r -> r_todo r = e :: rest ->
  ev_step wfun wp c t r rest e c' ->
  env_eq lvA (lv c r) ->
  (forall v, e = ERead v -> s_val s v = c_val c v) ->
  (forall x p, e = ELoad x p -> s_pub s p = c_heap c (c_ptr c p)) ->
  exists r' s' lvA',
    c_thr c' = upd (c_thr c) t (Some r') /\ r_done r' = r_done r ++ [e] /\ r_todo r' = rest /\ r_op r' = r_op r /\
    seq_ev wfun (r_op r) (length (r_done r)) e s lvA (r_log r) = Some (s', lvA', r_log r') /\
    env_eq lvA' (lv c' r') /\ eff_ok c c' r e s s'.
Proof.
  intros LI OI Ht Htd Hev Henv Hrd Hld.
  pose proof (on_path_ev val arg sk WFL r e rest (li_path sk c LI t r Ht) Htd) as Hok. unfold ev_ok in Hok.
  assert (HlvA : forall x o, r_loc r x = Some o -> lvA x = Some (c_heap c o)).
  { intros x o E. rewrite (Henv x). unfold lv. rewrite E. reflexivity. }
  inversion Hev; subst; simpl.
  - (* lock *) eexists _, s, lvA. repeat split; try reflexivity. exact Henv.
  - (* unlock *) eexists _, s, lvA. repeat split; try reflexivity. exact Henv.
  - (* rlock *) eexists _, s, lvA. repeat split; try reflexivity. exact Henv.
  - (* runlock *) eexists _, s, lvA. repeat split; try reflexivity. exact Henv.
  - (* read *) eexists _, s, lvA. repeat split; try reflexivity; simpl.
    + rewrite (Hrd v eq_refl). reflexivity.
    + exact Henv.
  - (* write *) eexists _, _, lvA. repeat split; try reflexivity. exact Henv.
  - (* load *) eexists _, s, _. repeat split; try reflexivity; simpl.
    intro y. unfold lv; simpl. unfold upd. destruct (y =? x).
    + simpl. rewrite (Hld x p eq_refl). reflexivity.
    + apply Henv.
  - (* store *) rewrite (HlvA _ _ H). eexists _, _, lvA. repeat split; try reflexivity; simpl.
    + exact Henv.
    + exists o. repeat split; try reflexivity. assumption.
  - (* clone *) rewrite (HlvA _ _ H). eexists _, s, _. repeat split; try reflexivity; simpl.
    intro z. unfold lv; simpl. unfold upd. destruct (Nat.eqb_spec z y) as [->|N].
    + simpl. rewrite Nat.eqb_refl. reflexivity.
    + rewrite (Henv z). unfold lv. destruct (r_loc r z) as [o'|] eqn:E; [|reflexivity]. simpl.
      destruct (Nat.eqb_spec o' (c_next c)) as [Eo|_]; [|reflexivity].
      pose proof (oi_alloc c OI _ _ _ _ Ht E). lia.
  - (* objread *) rewrite (HlvA _ _ H). eexists _, s, lvA. repeat split; try reflexivity; simpl. exact Henv.
  - (* objwrite *) rewrite (HlvA _ _ H). eexists _, s, _. repeat split; try reflexivity; simpl.
    assert (Hp : stat_of r x = Some Priv).
    { unfold stat_of. destruct (stat_after (r_done r) x) as [[|]|]; simpl in Hok; try discriminate; reflexivity. }
    destruct (oi_priv c OI _ _ _ _ Ht Hp H) as [_ P2].
    intro z. unfold lv; simpl. unfold upd. destruct (Nat.eqb_spec z x) as [->|N].
    + rewrite H. simpl. rewrite Nat.eqb_refl. reflexivity.
    + rewrite (Henv z). unfold lv. destruct (r_loc r z) as [o'|] eqn:E; [|reflexivity]. simpl.
      destruct (Nat.eqb_spec o' o) as [Eo|_]; [|reflexivity].
      subst o'. destruct (P2 _ _ _ Ht E) as [_ Ez]. contradiction.
Qed.

(* ---------------------------------------------------------------- the simulation relation *)

Definition pending (r : run val arg) : bool := existsb sens (r_todo r).
Definition inKr (r : run val arg) : bool := in_K K (r_done r).

(** the linearization point of an operation is still to come: its publishing
    store if it has one, otherwise its last access to guarded state *)
Definition lp_pend (d t : list event) : bool :=
  existsb is_store_ev t || (negb (existsb is_store_ev d) && existsb sens t).
Definition lp_pending (r : run val arg) : bool := lp_pend (r_done r) (r_todo r).

Lemma lp_pending_pending r : lp_pending r = true -> pending r = true.
Proof.
  unfold lp_pending, lp_pend, pending. intro H. apply orb_true_iff in H as [H|H].
  - destruct (existsb sens (r_todo r)) eqn:E; [reflexivity|]. rewrite (stores_sens _ E) in H. discriminate.
  - apply andb_true_iff in H. tauto.
Qed.

(** what relates one running thread to the abstract (sequential) state [σ]:
    - before its linearization point, outside the writer lock: it has not touched guarded state;
    - before its linearization point, inside the writer lock: what it did so far is a prefix of its
      sequential run from [σ] (nobody else can change [σ] or the plain fields meanwhile);
    - after its linearization point (the publishing store) but with accesses to plain fields still to
      come, inside the writer lock: [σ] is already the final state of its sequential run, the concrete
      plain fields lag behind, and the rest of the sequential run from the concrete state ends in [σ];
    - after its last access: the rest of its run, in value semantics, yields the log [pred]
      that the sequential run predicted for it. *)
Definition thread_inv (c : cfg val arg) (σ : sstate val) (pred : option (list val)) (r : run val arg) : Prop :=
  if lp_pending r then
    pred = None /\
    (if inKr r then
       exists σ1 lvA, seq_evs wfun (r_op r) 0 (r_done r) σ empty_env [] = Some (σ1, lvA, r_log r) /\
         env_eq lvA (lv c r) /\ (forall v, s_val σ1 v = c_val c v) /\ (forall p, s_pub σ1 p = s_pub σ p)
     else
       exists lvA, seq_evs wfun (r_op r) 0 (r_done r) σ empty_env [] = Some (σ, lvA, r_log r) /\
         env_eq lvA (lv c r) /\ existsb sens (r_done r) = false)
  else if pending r then
    exists plog σc lvA lv', pred = Some plog /\ inKr r = true /\ env_eq lvA (lv c r) /\
      (forall v, s_val σc v = c_val c v) /\ (forall p, s_pub σc p = s_pub σ p) /\
      seq_evs wfun (r_op r) (length (r_done r)) (r_todo r) σc lvA (r_log r) = Some (σ, lv', plog)
  else
    exists plog lvA lv', pred = Some plog /\ env_eq lvA (lv c r) /\
      seq_evs wfun (r_op r) (length (r_done r)) (r_todo r) σ lvA (r_log r) = Some (σ, lv', plog).

Record sim (c : cfg val arg) (σ : sstate val) (pl : tid -> option (list val)) : Prop := {
  sm_pub : forall p, c_heap c (c_ptr c p) = s_pub σ p;
  sm_ro : forall v, mem_var v wv = false -> c_val c v = s_val σ v;
  sm_val : (forall v, c_val c v = s_val σ v) \/
           (exists t r, c_thr c t = Some r /\ inKr r = true /\ pending r = true);
  sm_thr : forall t r, c_thr c t = Some r -> thread_inv c σ (pl t) r;
  sm_path : forall t r, c_thr c t = Some r -> path_of sk (r_op r) = Some (r_done r ++ r_todo r);
  sm_idle : forall t, c_thr c t = None -> pl t = None
}.

Lemma thread_inv_frame c c' σ pred r :
  thread_inv c σ pred r ->
  (forall x o, r_loc r x = Some o -> c_heap c' o = c_heap c o) ->
  (inKr r = true -> pending r = true -> forall v, c_val c' v = c_val c v) ->
  thread_inv c' σ pred r.
Proof.
  intros H Hh Hv.
  assert (Hlv : forall lvA, env_eq lvA (lv c r) -> env_eq lvA (lv c' r)).
  { intros lvA E x. rewrite (E x). unfold lv. destruct (r_loc r x) as [o|] eqn:El; [|reflexivity].
    simpl. rewrite (Hh _ _ El). reflexivity. }
  unfold thread_inv in *. destruct (lp_pending r) eqn:Elp.
  - destruct H as [Hp H]. split; [assumption|]. destruct (inKr r) eqn:Ek.
    + destruct H as (σ1 & lvA & E & He & Hval & Hpub). exists σ1, lvA. repeat split; auto.
      intro v. rewrite (Hv eq_refl (lp_pending_pending _ Elp) v). apply Hval.
    + destruct H as (lvA & E & He & Hs). exists lvA. auto.
  - destruct (pending r) eqn:Ep.
    + destruct H as (plog & σc & lvA & lv' & Hp & Hk & He & Hval & Hpub & E).
      exists plog, σc, lvA, lv'. repeat split; auto. intro v. rewrite (Hv Hk eq_refl v). apply Hval.
    + destruct H as (plog & lvA & lv' & Hp & He & E). exists plog, lvA, lv'. auto.
Qed.

Lemma thread_inv_sigma c σ σ' pred r :
  thread_inv c σ pred r -> inKr r && pending r = false -> ro_agree σ σ' -> thread_inv c σ' pred r.
Proof.
  intros H Hn Ha. unfold thread_inv in *. destruct (lp_pending r) eqn:Elp.
  - destruct H as [Hp H]. split; [assumption|]. rewrite (lp_pending_pending _ Elp), andb_true_r in Hn. rewrite Hn in *.
    destruct H as (lvA & E & He & Hs). exists lvA. repeat split; auto.
    eapply seq_evs_indep; eassumption.
  - destruct (pending r) eqn:Ep.
    + destruct H as (plog & σc & lvA & lv' & Hp & Hk & _). rewrite Hk in Hn. discriminate.
    + destruct H as (plog & lvA & lv' & Hp & He & E). exists plog, lvA, lv'. repeat split; auto.
      eapply seq_evs_indep; eassumption.
Qed.

(** *** the writer lock along a path *)

Lemma inK_In d : in_K K d = true <-> In (K, true) (held_after d).
Proof. unfold in_K. apply hmem_In. Qed.

Lemma held_step_keeps h e :
  e <> EUnlock K -> In (K, true) h -> In (K, true) (held_step h e).
Proof.
  intros Hne Hin. destruct e; simpl; auto.
  - apply hremove_In_other; [|assumption]. intro X. inversion X; subst. apply Hne. reflexivity.
  - apply hremove_In_other; [discriminate|assumption].
Qed.

Lemma held_step_new h e :
  e <> ELock K -> In (K, true) (held_step h e) -> In (K, true) h.
Proof.
  intros Hne Hin. destruct e; simpl in Hin; auto.
  - destruct Hin as [X|X]; [inversion X; subst; exfalso; apply Hne; reflexivity|assumption].
  - eapply hremove_incl; eassumption.
  - destruct Hin as [X|X]; [discriminate|assumption].
  - eapply hremove_incl; eassumption.
Qed.

Lemma inK_keep d e : e <> EUnlock K -> in_K K d = true -> in_K K (d ++ [e]) = true.
Proof. rewrite !inK_In, held_after_snoc. apply held_step_keeps. Qed.

Lemma inK_stay_out d e : e <> ELock K -> in_K K d = false -> in_K K (d ++ [e]) = false.
Proof.
  intros Hne Hf. destruct (in_K K (d ++ [e])) eqn:E; [|reflexivity].
  rewrite inK_In, held_after_snoc in E. apply held_step_new in E; [|assumption].
  apply inK_In in E. congruence.
Qed.

Lemma inK_lock d : in_K K (d ++ [ELock K]) = true.
Proof. rewrite inK_In, held_after_snoc. simpl. auto. Qed.

(* ---------------------------------------------------------------- the discipline at the point a thread is at *)

Lemma filter_len0_existsb {A} (f : A -> bool) l : length (filter f l) = 0 -> existsb f l = false.
Proof.
  induction l as [|a l IH]; simpl; [reflexivity|]. destruct (f a); simpl; [discriminate|assumption].
Qed.

Lemma count_one d e rest :
  count_sens wv (d ++ e :: rest) = 1 -> sens e = true ->
  existsb sens d = false /\ existsb sens rest = false.
Proof.
  unfold count_sens. rewrite filter_app, app_length. simpl. fold (sens e). intros H He. rewrite He in H.
  simpl in H. split; apply filter_len0_existsb.
  - change (length (filter (sensitive wv) d) = 0). lia.
  - change (length (filter (sensitive wv) rest) = 0). lia.
Qed.

Record cow_facts (r : run val arg) (e : event) (rest : list event) : Prop := {
  cf_unlock : e = EUnlock K -> existsb sens rest = false;
  cf_out : sens e = true -> inKr r = false ->
           existsb sens (r_done r) = false /\ existsb sens rest = false;
  cf_write : is_write_ev e = true -> inKr r = true;
  cf_store : is_store_ev e = true -> existsb is_store_ev rest = false;
  cf_after : existsb is_store_ev (r_done r) = true -> sens e = true -> inKr r = true /\ is_plain_access e = true;
  cf_read : is_shared_read wv e = true -> inKr r = true
}.

Lemma cow_at r e rest : on_path sk r -> r_todo r = e :: rest -> cow_facts r e rest.
Proof.
  intros (path & Hp & Hs) Htd. rewrite Htd in Hs. pose proof (cow_point _ _ _ Hp Hs) as H.
  pose proof (splits_app _ _ _ Hs) as Epath.
  unfold cow_point_ok in H. simpl in H.
  apply andb_true_iff in H as [H H7]. apply andb_true_iff in H as [H H6]. apply andb_true_iff in H as [H H5].
  apply andb_true_iff in H as [H H4]. apply andb_true_iff in H as [H2 H3].
  fold (inKr r) in *. split.
  - intro E. subst e. simpl in H2. rewrite Nat.eqb_refl in H2. simpl in H2. apply negb_true_iff in H2. exact H2.
  - intros He Hk. fold (sens e) in H3. rewrite He, Hk in H3. simpl in H3. apply Nat.eqb_eq in H3.
    rewrite <- Epath in H3. apply (count_one _ e _ H3 He).
  - intro Hw. rewrite Hw in H4. simpl in H4. exact H4.
  - intro Hst. rewrite Hst in H5. simpl in H5. apply negb_true_iff in H5. exact H5.
  - intros Hd He. fold (sens e) in H6. rewrite Hd, He in H6. simpl in H6. apply andb_true_iff in H6. exact H6.
  - intro Hr. rewrite Hr in H7. simpl in H7. exact H7.
Qed.

(** what one step of thread [t] does to the heap cells other threads can see *)
Lemma heap_frame c t r rest e c' :
  lock_inv sk c -> own_inv c -> c_thr c t = Some r -> r_todo r = e :: rest ->
  ev_step wfun wp c t r rest e c' ->
  (forall u ru x o, u <> t -> c_thr c u = Some ru -> r_loc ru x = Some o -> c_heap c' o = c_heap c o) /\
  (forall p, c_heap c' (c_ptr c p) = c_heap c (c_ptr c p)) /\
  (forall x o, is_priv (stat_of r x) = false -> r_loc r x = Some o -> c_heap c' o = c_heap c o).
Proof.
  intros LI OI Ht Htd Hev.
  pose proof (on_path_ev val arg sk WFL r e rest (li_path sk c LI t r Ht) Htd) as Hok. unfold ev_ok in Hok.
  inversion Hev; subst; simpl; try (repeat split; intros; reflexivity).
  - (* clone: only the fresh cell changes *)
    repeat split.
    + intros u ru x0 o0 Hne Hu Hl. rewrite upd_other; [reflexivity|].
      pose proof (oi_alloc c OI _ _ _ _ Hu Hl). lia.
    + intros p. rewrite upd_other; [reflexivity|]. pose proof (oi_ptr c OI p). lia.
    + intros x0 o0 _ Hl. rewrite upd_other; [reflexivity|]. pose proof (oi_alloc c OI _ _ _ _ Ht Hl). lia.
  - (* objwrite: the object is a private clone of [t] *)
    assert (Hp : stat_of r x = Some Priv).
    { unfold stat_of. destruct (stat_after (r_done r) x) as [[|]|]; simpl in Hok; try discriminate; reflexivity. }
    destruct (oi_priv c OI _ _ _ _ Ht Hp H) as [P1 P2].
    repeat split.
    + intros u ru x0 o0 Hne Hu Hl. rewrite upd_other; [reflexivity|]. intro E. subst o0.
      destruct (P2 _ _ _ Hu Hl) as [Eu _]. contradiction.
    + intros p. rewrite upd_other; [reflexivity|]. apply P1.
    + intros x0 o0 Hnp Hl. rewrite upd_other; [reflexivity|]. intro E. subst o0.
      destruct (P2 _ _ _ Ht Hl) as [_ Ex]. subst x0. rewrite Hp in Hnp. discriminate.
Qed.

(** at most one thread is inside the writer lock *)
Lemma inK_unique c t u r ru :
  lock_inv sk c -> c_thr c t = Some r -> c_thr c u = Some ru -> inKr r = true -> inKr ru = true -> t = u.
Proof.
  intros LI Ht Hu Kt Ku. unfold inKr in *. rewrite inK_In in Kt, Ku.
  assert (H1 : c_lk c K = LExcl t) by (apply (li_excl sk c LI); unfold hold; rewrite Ht; assumption).
  assert (H2 : c_lk c K = LExcl u) by (apply (li_excl sk c LI); unfold hold; rewrite Hu; assumption).
  congruence.
Qed.

Lemma ev_step_shared c t r rest e c' :
  ev_step wfun wp c t r rest e c' ->
  (forall v, (forall v0, e = EWrite v0 -> v <> v0) -> c_val c' v = c_val c v) /\
  ((forall p x, e <> EStore p x) -> c_ptr c' = c_ptr c) /\
  ((forall y x, e <> EClone y x) -> (forall x, e <> EObjWrite x) -> c_heap c' = c_heap c) /\
  (e = ELock K -> c_lk c K = LShared []).
Proof.
  intro H. inversion H; subst; simpl; repeat split; intros; try reflexivity; try congruence;
    try (exfalso; match goal with
                  | X : forall _ _, _ <> _ |- _ => eapply X; reflexivity
                  | X : forall _, _ <> _ |- _ => eapply X; reflexivity
                  end).
  rewrite upd_other; [reflexivity|].
  match goal with X : forall v0, _ = _ -> _ <> _ |- _ => eapply X; reflexivity end.
Qed.

Lemma mem_var_In v l : mem_var v l = true <-> In v l.
Proof.
  unfold mem_var. rewrite existsb_exists. split.
  - intros (x & Hin & E). apply Nat.eqb_eq in E. subst. assumption.
  - intro H. exists v. split; [assumption|apply Nat.eqb_refl].
Qed.

Lemma written_in_wv (r : run val arg) e rest :
  on_path sk r -> r_todo r = e :: rest ->
  (forall v, e = EWrite v -> mem_var v wv = true) /\ (forall p x, e = EStore p x -> mem_var p wv = true).
Proof.
  intros (path & Hp & Hs) Htd. rewrite Htd in Hs. apply splits_app in Hs.
  assert (Hin : In e (concat (all_paths sk))).
  { apply in_concat. exists path. split; [assumption|]. rewrite <- Hs. apply in_or_app. right. left. reflexivity. }
  split.
  - intros v ->. apply mem_var_In. unfold wv, wvars. apply in_flat_map. exists (EWrite v). split; [assumption|]. left. reflexivity.
  - intros p0 x ->. apply mem_var_In. unfold wv, wvars. apply in_flat_map. exists (EStore p0 x). split; [assumption|]. left. reflexivity.
Qed.

Lemma sim_rebuild c c' σ σ' pl pl' t r' :
  sim c σ pl ->
  c_thr c' = upd (c_thr c) t (Some r') ->
  (forall p, c_heap c' (c_ptr c' p) = s_pub σ' p) ->
  (forall v, mem_var v wv = false -> c_val c' v = s_val σ' v) ->
  ((forall v, c_val c' v = s_val σ' v) \/
   (exists u ru, c_thr c' u = Some ru /\ inKr ru = true /\ pending ru = true)) ->
  thread_inv c' σ' (pl' t) r' ->
  (forall u ru, u <> t -> c_thr c u = Some ru -> thread_inv c' σ' (pl' u) ru) ->
  path_of sk (r_op r') = Some (r_done r' ++ r_todo r') ->
  (forall u, u <> t -> pl' u = pl u) ->
  sim c' σ' pl'.
Proof.
  intros S Ethr Hpub Hro Hval Ht Hoth Hpath Hpl. split; auto.
  - intros u ru. rewrite Ethr. unfold upd. destruct (Nat.eqb_spec u t) as [->|N].
    + intro X. inversion X; subst. assumption.
    + intro X. apply Hoth; assumption.
  - intros u ru. rewrite Ethr. unfold upd. destruct (Nat.eqb_spec u t) as [->|N].
    + intro X. inversion X; subst. assumption.
    + intro X. apply (sm_path _ _ _ S u ru X).
  - intros u. rewrite Ethr. unfold upd. destruct (Nat.eqb_spec u t) as [->|N]; [discriminate|].
    intro X. rewrite (Hpl _ N). apply (sm_idle _ _ _ S u X).
Qed.

(* ---------------------------------------------------------------- one event of one thread *)

Definition is_lp_ev (r : run val arg) (e : event) (rest : list event) : bool :=
  lp_pend (r_done r) (e :: rest) && negb (lp_pend (r_done r ++ [e]) rest).

Lemma def_agree_of c' r' lvA' :
  own_inv c' -> (exists t, c_thr c' t = Some r') -> env_eq lvA' (lv c' r') -> def_agree (r_done r') lvA'.
Proof.
  intros OI' (t & Ht) He x. rewrite (He x). unfold lv. pose proof (oi_def c' OI' _ _ x Ht) as D.
  unfold stat_of in D. rewrite D. destruct (r_loc r' x); simpl; split; congruence.
Qed.

Lemma lp_pend_snoc d e rest :
  lp_pend (d ++ [e]) rest =
  existsb is_store_ev rest || (negb (existsb is_store_ev d || is_store_ev e) && existsb sens rest).
Proof. unfold lp_pend. rewrite existsb_app. simpl. rewrite orb_false_r. reflexivity. Qed.

Lemma sim_ev c σ pl t r e rest c' :
  lock_inv sk c -> own_inv c -> own_inv c' -> sim c σ pl ->
  c_thr c t = Some r -> r_todo r = e :: rest -> ev_step wfun wp c t r rest e c' ->
  if is_lp_ev r e rest
  then exists σ' plog, seq_run wfun sk (r_op r) σ = Some (σ', plog) /\ sim c' σ' (upd pl t (Some plog))
  else sim c' σ pl.
Proof.
  intros LI OI OI' S Ht Htd Hev.
  pose proof (li_path sk c LI t r Ht) as Hon.
  pose proof (cow_at r e rest Hon Htd) as CF.
  destruct (heap_frame c t r rest e c' LI OI Ht Htd Hev) as (HF1 & HF2 & _).
  destruct (ev_step_shared c t r rest e c' Hev) as (SV & SP & SH & SL).
  destruct (written_in_wv r e rest Hon Htd) as [WW WS].
  pose proof (sm_thr _ _ _ S t r Ht) as TI.
  pose proof (sm_path _ _ _ S t r Ht) as Hpath. rewrite Htd in Hpath.
  assert (Hpend : pending r = sens e || existsb sens rest) by (unfold pending; rewrite Htd; reflexivity).
  assert (Hlpn : lp_pending r = lp_pend (r_done r) (e :: rest)) by (unfold lp_pending; rewrite Htd; reflexivity).
  assert (Hin_path : In (r_done r ++ e :: rest) (all_paths sk)) by (eapply path_of_in; eassumption).
  assert (Hsplit : In (r_done r ++ [e], rest) (splits (r_done r ++ e :: rest))).
  { apply splits_next. destruct Hon as (path & Hp & Hs). rewrite Htd in Hs.
    pose proof (splits_app _ _ _ Hs) as Ep. rewrite Ep. assumption. }
  assert (Hrest_wv : forall e0 v, In e0 rest -> e0 = EWrite v -> mem_var v wv = true).
  { intros e0 v Hin ->. apply mem_var_In. unfold wv, wvars. apply in_flat_map. exists (EWrite v).
    split; [|left; reflexivity]. apply in_concat. exists (r_done r ++ e :: rest). split; [assumption|].
    apply in_or_app. right. right. assumption. }
  (* other threads are not disturbed *)
  assert (Hothers : forall u ru, u <> t -> c_thr c u = Some ru -> thread_inv c' σ (pl u) ru).
  { intros u ru Hne Hu. eapply thread_inv_frame; [apply (sm_thr _ _ _ S u ru Hu) | intros x o; apply (HF1 u ru x o Hne Hu) | ].
    intros Ku Pu v. apply SV. intros v0 Ee Ev. subst e.
    apply Hne. eapply (inK_unique c u t ru r LI Hu Ht Ku). apply (cf_write _ _ _ CF). reflexivity. }
  assert (Hnotstore_ptr : is_store_ev e = false -> c_ptr c' = c_ptr c).
  { intro Hn. apply SP. intros p x E. subst e. discriminate. }
  unfold thread_inv in TI. unfold is_lp_ev. rewrite <- Hlpn.
  destruct (lp_pending r) eqn:Elp.
  2:{ (* ---- the linearization point is behind *)
    simpl.
    assert (Hnst : is_store_ev e = false /\ existsb is_store_ev rest = false).
    { unfold lp_pend in Hlpn. symmetry in Hlpn. apply orb_false_iff in Hlpn as [X _]. simpl in X.
      apply orb_false_iff in X. exact X. }
    destruct Hnst as [Hns Hnsr].
    destruct (pending r) eqn:Ep.
    - (* ---- D: published, accesses to plain fields still to come (inside the writer lock) *)
      destruct TI as (plog & σc & lvA & lv' & Hpl & Ek & Henv & Hvalc & Hpubc & E).
      rewrite Htd in E. simpl in E.
      destruct (sync_ev c t r rest e c' σc lvA LI OI Ht Htd Hev Henv) as (r' & s' & lvA' & Ethr & Hd' & Htd' & Hop' & Eseq & Henv' & Heff).
      { intros v _. apply Hvalc. }
      { intros x p _. rewrite Hpubc. symmetry. apply (sm_pub _ _ _ S). }
      rewrite Eseq in E.
      assert (Hval' : forall v, s_val s' v = c_val c' v).
      { intro v. destruct e; simpl in Heff, Hns; try discriminate;
          try (destruct Heff as (-> & Ev & _); rewrite Ev; apply Hvalc).
        destruct Heff as (-> & Ev & _). rewrite Ev. simpl. unfold upd. destruct (v =? v0); [reflexivity|apply Hvalc]. }
      assert (Hpubs' : forall p, s_pub s' p = s_pub σ p).
      { intro p. destruct e; simpl in Heff, Hns; try discriminate;
          try (destruct Heff as (-> & _); apply Hpubc). }
      assert (Hro' : forall v, mem_var v wv = false -> c_val c' v = c_val c v).
      { intros v Hv. apply SV. intros v0 -> ->. rewrite (WW v0 eq_refl) in Hv. discriminate. }
      assert (Hlp' : lp_pending r' = false).
      { unfold lp_pending. rewrite Hd', Htd', lp_pend_snoc, Hnsr. simpl.
        unfold lp_pend in Hlpn. symmetry in Hlpn. apply orb_false_iff in Hlpn as [_ X].
        simpl in X. rewrite <- Hpend, andb_true_r in X. apply negb_false_iff in X. rewrite X. reflexivity. }
      destruct (existsb sens rest) eqn:Hsr.
      + (* more to come *)
        assert (Hne : e <> EUnlock K).
        { intro X. rewrite (cf_unlock _ _ _ CF X) in Hsr. discriminate. }
        assert (Hk' : inKr r' = true) by (unfold inKr; rewrite Hd'; apply inK_keep; assumption).
        assert (Hpend' : pending r' = true) by (unfold pending; rewrite Htd'; exact Hsr).
        eapply (sim_rebuild c c' σ σ pl pl t r' S Ethr).
        * intro p. rewrite (Hnotstore_ptr Hns), HF2. apply (sm_pub _ _ _ S).
        * intros v Hv. rewrite (Hro' v Hv). apply (sm_ro _ _ _ S). assumption.
        * right. exists t, r'. repeat split; auto. rewrite Ethr. apply upd_same.
        * unfold thread_inv. rewrite Hlp', Hpend'. exists plog, s', lvA', lv'. repeat split; auto.
          rewrite Hd', Htd', app_length, Hop'. simpl. rewrite Nat.add_1_r. exact E.
        * exact Hothers.
        * rewrite Hop', Hd', Htd', <- app_assoc. exact Hpath.
        * reflexivity.
      + (* that was the last one: the concrete state has caught up with [σ] *)
        pose proof (seq_evs_nonsens _ _ _ _ _ _ _ _ _ Hsr E) as Es. subst s'.
        assert (Hpend' : pending r' = false) by (unfold pending; rewrite Htd'; exact Hsr).
        eapply (sim_rebuild c c' σ σ pl pl t r' S Ethr).
        * intro p. rewrite (Hnotstore_ptr Hns), HF2. apply (sm_pub _ _ _ S).
        * intros v Hv. rewrite (Hro' v Hv). apply (sm_ro _ _ _ S). assumption.
        * left. intro v. symmetry. apply Hval'.
        * unfold thread_inv. rewrite Hlp', Hpend'. exists plog, lvA', lv'. repeat split; auto.
          rewrite Hd', Htd', app_length, Hop'. simpl. rewrite Nat.add_1_r. exact E.
        * exact Hothers.
        * rewrite Hop', Hd', Htd', <- app_assoc. exact Hpath.
        * reflexivity.
    - (* ---- A: after the last access *)
      symmetry in Hpend. apply orb_false_iff in Hpend as [Hse Hsr].
      destruct TI as (plog & lvA & lv' & Hpl & Henv & E). rewrite Htd in E. simpl in E.
      destruct (sync_ev c t r rest e c' σ lvA LI OI Ht Htd Hev Henv) as (r' & s' & lvA' & Ethr & Hd' & Htd' & Hop' & Eseq & Henv' & Heff).
      { intros v ->. simpl in Hse. symmetry. apply (sm_ro _ _ _ S). assumption. }
      { intros x p ->. symmetry. apply (sm_pub _ _ _ S). }
      rewrite Eseq in E. pose proof (seq_ev_nonsens _ _ _ _ _ _ _ _ _ Hse Eseq) as ->.
      assert (Hval' : forall v, c_val c' v = c_val c v).
      { intro v. apply SV. intros v0 ->. discriminate. }
      assert (Hlp' : lp_pending r' = false).
      { unfold lp_pending. rewrite Hd', Htd', lp_pend_snoc, Hnsr, Hsr, andb_false_r. reflexivity. }
      eapply (sim_rebuild c c' σ σ pl pl t r' S Ethr).
      + intro p. rewrite (Hnotstore_ptr Hns), HF2. apply (sm_pub _ _ _ S).
      + intros v Hv. rewrite Hval'. apply (sm_ro _ _ _ S). assumption.
      + destruct (sm_val _ _ _ S) as [L|(u & ru & Hu & Ku & Pu)].
        * left. intro v. rewrite Hval'. apply L.
        * right. exists u, ru. repeat split; auto. rewrite Ethr. rewrite upd_other; [assumption|].
          intro X. subst u. rewrite Ht in Hu. inversion Hu; subst. congruence.
      + unfold thread_inv. rewrite Hlp'. unfold pending. rewrite Htd', Hsr. exists plog, lvA', lv'. repeat split; auto.
        rewrite Hd', app_length, Hop'. simpl. rewrite Nat.add_1_r. exact E.
      + exact Hothers.
      + rewrite Hop', Hd', Htd', <- app_assoc. exact Hpath.
      + reflexivity. }
  pose proof (lp_pending_pending _ Elp) as Ep.
  destruct TI as [Hpl TI]. simpl.
  destruct (inKr r) eqn:Ek.
  2:{ (* ---- B: before the linearization point, outside the writer lock *)
    destruct TI as (lvA & E0 & Henv & Hsd).
    assert (Hnsd : existsb is_store_ev (r_done r) = false) by (apply stores_sens; assumption).
    destruct (sens e) eqn:Hse.
    - (* B2: the single access to guarded state: a load of the published pointer; linearization point *)
      destruct (cf_out _ _ _ CF Hse Ek) as [_ Hsr].
      assert (Hlpa : lp_pend (r_done r ++ [e]) rest = false).
      { rewrite lp_pend_snoc, (stores_sens _ Hsr), Hsr, andb_false_r. reflexivity. }
      rewrite Hlpa. simpl.
      assert (Hnw : is_write_ev e = false).
      { destruct (is_write_ev e) eqn:X; [|reflexivity]. rewrite (cf_write _ _ _ CF X) in Ek. discriminate. }
      assert (Hnr : is_shared_read wv e = false).
      { destruct (is_shared_read wv e) eqn:X; [|reflexivity]. rewrite (cf_read _ _ _ CF X) in Ek. discriminate. }
      assert (Hns : is_store_ev e = false) by (destruct e; simpl in *; try reflexivity; discriminate).
      destruct (sync_ev c t r rest e c' σ lvA LI OI Ht Htd Hev Henv) as (r' & s' & lvA' & Ethr & Hd' & Htd' & Hop' & Eseq & Henv' & Heff).
      { intros v ->. simpl in Hnr, Hse. unfold sens in Hse. simpl in Hse. congruence. }
      { intros x p ->. symmetry. apply (sm_pub _ _ _ S). }
      assert (Es' : s' = σ).
      { destruct e; simpl in Heff, Hnw; try discriminate; destruct Heff as [X _]; exact X. }
      subst s'.
      assert (Hval' : forall v, c_val c' v = c_val c v).
      { intro v. apply SV. intros v0 ->. discriminate. }
      assert (Hthr' : c_thr c' t = Some r') by (rewrite Ethr; apply upd_same).
      pose proof (def_agree_of c' r' lvA' OI' (ex_intro _ t Hthr') Henv') as Hdef. rewrite Hd' in Hdef.
      destruct (seq_total (r_op r) _ Hin_path rest (r_done r ++ [e]) σ lvA' (r_log r') Hsplit Hdef) as (s3 & l3 & g3 & E3).
      pose proof (seq_evs_nonsens _ _ _ _ _ _ _ _ _ Hsr E3) as ->.
      exists σ, g3. split.
      + unfold seq_run. rewrite Hpath. unfold empty_env in E0. rewrite seq_evs_app, E0. simpl. rewrite Eseq.
        rewrite app_length in E3. simpl in E3. rewrite Nat.add_1_r in E3. rewrite E3. reflexivity.
      + eapply (sim_rebuild c c' σ σ pl _ t r' S Ethr).
        * intro p. rewrite (Hnotstore_ptr Hns), HF2. apply (sm_pub _ _ _ S).
        * intros v Hv. rewrite Hval'. apply (sm_ro _ _ _ S). assumption.
        * destruct (sm_val _ _ _ S) as [L|(u & ru & Hu & Ku & Pu)].
          -- left. intro v. rewrite Hval'. apply L.
          -- right. exists u, ru. repeat split; auto. rewrite Ethr. rewrite upd_other; [assumption|].
             intro X. subst u. rewrite Ht in Hu. inversion Hu; subst. congruence.
        * unfold thread_inv. unfold lp_pending, pending. rewrite Hd', Htd', Hlpa, Hsr. rewrite upd_same.
          exists g3, lvA', l3. repeat split; auto. rewrite Hop'. exact E3.
        * intros u ru Hne Hu. rewrite upd_other by assumption. apply Hothers; assumption.
        * rewrite Hop', Hd', Htd', <- app_assoc. exact Hpath.
        * intros u Hne. apply upd_other. assumption.
    - (* B1: an event that does not touch guarded state *)
      assert (Hns : is_store_ev e = false).
      { destruct (is_store_ev e) eqn:X; [|reflexivity]. rewrite (store_sens _ X) in Hse. discriminate. }
      assert (Hlpa : lp_pend (r_done r ++ [e]) rest = true).
      { rewrite lp_pend_snoc, Hnsd, Hns. simpl. pose proof Hlpn as X. unfold lp_pend in X. simpl in X.
        rewrite Hns, Hnsd, Hse in X. simpl in X. symmetry. exact X. }
      rewrite Hlpa. simpl.
      destruct (sync_ev c t r rest e c' σ lvA LI OI Ht Htd Hev Henv) as (r' & s' & lvA' & Ethr & Hd' & Htd' & Hop' & Eseq & Henv' & Heff).
      { intros v ->. unfold sens in Hse. simpl in Hse. symmetry. apply (sm_ro _ _ _ S). assumption. }
      { intros x p ->. symmetry. apply (sm_pub _ _ _ S). }
      pose proof (seq_ev_nonsens _ _ _ _ _ _ _ _ _ Hse Eseq) as ->.
      assert (Hval' : forall v, c_val c' v = c_val c v).
      { intro v. apply SV. intros v0 ->. discriminate. }
      assert (E0' : seq_evs wfun (r_op r') 0 (r_done r') σ empty_env [] = Some (σ, lvA', r_log r')).
      { rewrite Hop', Hd', seq_evs_app, E0. simpl. rewrite Eseq. reflexivity. }
      assert (Hlp' : lp_pending r' = true) by (unfold lp_pending; rewrite Hd', Htd'; exact Hlpa).
      pose proof (lp_pending_pending _ Hlp') as Hpend'.
      destruct (event_eq_dec e (ELock K)) as [->|Hnl].
      + (* enters the writer lock: nobody else is inside *)
        assert (HvalS : forall v, c_val c v = s_val σ v).
        { destruct (sm_val _ _ _ S) as [L|(u & ru & Hu & Ku & Pu)]; [exact L|].
          exfalso. unfold inKr in Ku. rewrite inK_In in Ku.
          assert (X : c_lk c K = LExcl u) by (apply (li_excl sk c LI); unfold hold; rewrite Hu; assumption).
          rewrite (SL eq_refl) in X. discriminate. }
        assert (Hk' : inKr r' = true) by (unfold inKr; rewrite Hd'; apply inK_lock).
        eapply (sim_rebuild c c' σ σ pl pl t r' S Ethr).
        * intro p. rewrite (Hnotstore_ptr Hns), HF2. apply (sm_pub _ _ _ S).
        * intros v Hv. rewrite Hval'. apply (sm_ro _ _ _ S). assumption.
        * right. exists t, r'. repeat split; auto. rewrite Ethr. apply upd_same.
        * unfold thread_inv. rewrite Hlp', Hk'. split; [assumption|].
          exists σ, lvA'. repeat split; auto. intro v. rewrite Hval'. symmetry. apply HvalS.
        * exact Hothers.
        * rewrite Hop', Hd', Htd', <- app_assoc. exact Hpath.
        * reflexivity.
      + assert (Hk' : inKr r' = false) by (unfold inKr; rewrite Hd'; apply inK_stay_out; assumption).
        eapply (sim_rebuild c c' σ σ pl pl t r' S Ethr).
        * intro p. rewrite (Hnotstore_ptr Hns), HF2. apply (sm_pub _ _ _ S).
        * intros v Hv. rewrite Hval'. apply (sm_ro _ _ _ S). assumption.
        * destruct (sm_val _ _ _ S) as [L|(u & ru & Hu & Ku & Pu)].
          -- left. intro v. rewrite Hval'. apply L.
          -- right. exists u, ru. repeat split; auto. rewrite Ethr. rewrite upd_other; [assumption|].
             intro X. subst u. rewrite Ht in Hu. inversion Hu; subst. congruence.
        * unfold thread_inv. rewrite Hlp', Hk'. split; [assumption|].
          exists lvA'. repeat split; auto. rewrite Hd', existsb_app, Hsd. simpl. rewrite Hse. reflexivity.
        * exact Hothers.
        * rewrite Hop', Hd', Htd', <- app_assoc. exact Hpath.
        * reflexivity. }
  (* ---- C: before the linearization point, inside the writer lock *)
  destruct TI as (σ1 & lvA & E0 & Henv & Hval1 & Hpub1).
  destruct (sync_ev c t r rest e c' σ1 lvA LI OI Ht Htd Hev Henv) as (r' & s' & lvA' & Ethr & Hd' & Htd' & Hop' & Eseq & Henv' & Heff).
  { intros v _. apply Hval1. }
  { intros x p _. rewrite Hpub1. symmetry. apply (sm_pub _ _ _ S). }
  assert (E0' : seq_evs wfun (r_op r') 0 (r_done r') σ empty_env [] = Some (s', lvA', r_log r')).
  { rewrite Hop', Hd', seq_evs_app, E0. simpl. rewrite Eseq. reflexivity. }
  assert (Hthr' : c_thr c' t = Some r') by (rewrite Ethr; apply upd_same).
  (* the plain fields after the step, concretely and abstractly *)
  assert (Hval' : forall v, s_val s' v = c_val c' v).
  { intro v. destruct e; simpl in Heff;
      try (destruct Heff as (-> & Ev & _); rewrite Ev; apply Hval1).
    - destruct Heff as (-> & Ev & _). rewrite Ev. simpl. unfold upd. destruct (v =? v0); [reflexivity|apply Hval1].
    - destruct Heff as (o & _ & -> & _ & Ev). rewrite Ev. simpl. apply Hval1. }
  assert (Hro' : forall v, mem_var v wv = false -> c_val c' v = c_val c v).
  { intros v Hv. apply SV. intros v0 -> ->. rewrite (WW v0 eq_refl) in Hv. discriminate. }
  destruct (lp_pend (r_done r ++ [e]) rest) eqn:Hlpa.
  - (* C1: the linearization point is still to come *)
    simpl.
    assert (Hns : is_store_ev e = false).
    { destruct (is_store_ev e) eqn:X; [|reflexivity]. rewrite lp_pend_snoc, (cf_store _ _ _ CF X), X, orb_true_r in Hlpa.
      discriminate. }
    assert (Hlp' : lp_pending r' = true) by (unfold lp_pending; rewrite Hd', Htd'; exact Hlpa).
    pose proof (lp_pending_pending _ Hlp') as Hpend'.
    assert (Hsr : existsb sens rest = true) by (unfold pending in Hpend'; rewrite Htd' in Hpend'; exact Hpend').
    assert (Hne : e <> EUnlock K).
    { intro X. rewrite (cf_unlock _ _ _ CF X) in Hsr. discriminate. }
    assert (Hk' : inKr r' = true) by (unfold inKr; rewrite Hd'; apply inK_keep; assumption).
    assert (Hpub' : forall p, s_pub s' p = s_pub σ p).
    { intro p. destruct e; simpl in Heff, Hns; try discriminate;
        try (destruct Heff as (-> & _); apply Hpub1). }
    eapply (sim_rebuild c c' σ σ pl pl t r' S Ethr).
    + intro p. rewrite (Hnotstore_ptr Hns), HF2. apply (sm_pub _ _ _ S).
    + intros v Hv. rewrite (Hro' v Hv). apply (sm_ro _ _ _ S). assumption.
    + right. exists t, r'. auto.
    + unfold thread_inv. rewrite Hlp', Hk'. split; [assumption|]. exists s', lvA'. auto.
    + exact Hothers.
    + rewrite Hop', Hd', Htd', <- app_assoc. exact Hpath.
    + reflexivity.
  - (* C2: linearization point: the publishing store, or the last access of an operation that does not publish *)
    simpl.
    assert (Hnsr : existsb is_store_ev rest = false).
    { rewrite lp_pend_snoc in Hlpa. apply orb_false_iff in Hlpa. tauto. }
    pose proof (def_agree_of c' r' lvA' OI' (ex_intro _ t Hthr') Henv') as Hdef. rewrite Hd' in Hdef.
    destruct (seq_total (r_op r) _ Hin_path rest (r_done r ++ [e]) s' lvA' (r_log r') Hsplit Hdef) as (s3 & l3 & g3 & E3).
    pose proof (seq_evs_pub _ _ _ _ _ _ _ _ _ Hnsr E3) as Hpub3.
    pose proof (seq_evs_ro _ _ _ _ _ _ _ _ _ Hrest_wv E3) as Hro3.
    exists s3, g3. split.
    + unfold seq_run. rewrite Hpath. unfold empty_env in E0. rewrite seq_evs_app, E0. simpl. rewrite Eseq.
      rewrite app_length in E3. simpl in E3. rewrite Nat.add_1_r in E3. rewrite E3. reflexivity.
    + assert (Hpub' : forall p, c_heap c' (c_ptr c' p) = s_pub s' p).
      { intro p. destruct (is_store_ev e) eqn:Hns.
        - destruct e; simpl in Hns; try discriminate. simpl in Heff.
          destruct Heff as (o & Hl & -> & Eptr & _). rewrite Eptr. simpl.
          rewrite SH by (intros; discriminate). unfold upd. destruct (p =? p0); [reflexivity|].
          rewrite Hpub1. apply (sm_pub _ _ _ S).
        - rewrite (Hnotstore_ptr eq_refl), HF2, (sm_pub _ _ _ S), <- Hpub1.
          destruct e; simpl in Heff, Hns; try discriminate;
            try (destruct Heff as (-> & _); reflexivity). }
      assert (Hagree : ro_agree σ s3).
      { split.
        - intros v Hv. rewrite (Hro3 v Hv), Hval', (Hro' v Hv). apply (sm_ro _ _ _ S). assumption.
        - intros p Hp. rewrite Hpub3, <- Hpub'.
          assert (Eptr : c_ptr c' p = c_ptr c p).
          { destruct (is_store_ev e) eqn:Hns; [|rewrite (Hnotstore_ptr eq_refl); reflexivity].
            destruct e; simpl in Hns; try discriminate. simpl in Heff. destruct Heff as (o & _ & _ & Eptr & _).
            rewrite Eptr. apply upd_other. intro X. subst p0. rewrite (WS p x eq_refl) in Hp. discriminate. }
          rewrite Eptr, HF2. apply (sm_pub _ _ _ S). }
      assert (Hlp' : lp_pending r' = false) by (unfold lp_pending; rewrite Hd', Htd'; exact Hlpa).
      assert (Hoth3 : forall u ru, u <> t -> c_thr c u = Some ru ->
                 thread_inv c' s3 (upd pl t (Some g3) u) ru).
      { intros u ru Hne Hu. rewrite upd_other by assumption.
        eapply thread_inv_sigma; [apply Hothers; assumption| |exact Hagree].
        destruct (inKr ru) eqn:Ku; [|reflexivity]. exfalso. apply Hne.
        eapply (inK_unique c u t ru r LI Hu Ht Ku Ek). }
      destruct (existsb sens rest) eqn:Hsr.
      * (* published; plain fields are still to be updated under the writer lock *)
        assert (Hst : is_store_ev e = true).
        { destruct (is_store_ev e) eqn:X; [reflexivity|]. exfalso.
          rewrite lp_pend_snoc, Hnsr, X, Hsr, orb_false_r, andb_true_r in Hlpa. simpl in Hlpa.
          apply negb_false_iff in Hlpa.
          pose proof Hlpn as Y. unfold lp_pend in Y. simpl in Y. rewrite X, Hnsr, Hlpa in Y. discriminate. }
        assert (Hne : e <> EUnlock K) by (intro X; subst e; discriminate).
        assert (Hk' : inKr r' = true) by (unfold inKr; rewrite Hd'; apply inK_keep; assumption).
        assert (Hpend' : pending r' = true) by (unfold pending; rewrite Htd'; exact Hsr).
        eapply (sim_rebuild c c' σ s3 pl _ t r' S Ethr).
        -- intro p. rewrite Hpub3. apply Hpub'.
        -- intros v Hv. rewrite (Hro3 v Hv). symmetry. apply Hval'.
        -- right. exists t, r'. auto.
        -- unfold thread_inv. rewrite Hlp', Hpend', upd_same. exists g3, s', lvA', l3.
           split; [reflexivity|]. split; [exact Hk'|]. split; [exact Henv'|]. split; [exact Hval'|].
           split; [intro p; symmetry; apply Hpub3|]. rewrite Hd', Htd', Hop'. exact E3.
        -- exact Hoth3.
        -- rewrite Hop', Hd', Htd', <- app_assoc. exact Hpath.
        -- intros u Hne'. apply upd_other. assumption.
      * pose proof (seq_evs_nonsens _ _ _ _ _ _ _ _ _ Hsr E3) as Es3. subst s3.
        assert (Hpend' : pending r' = false) by (unfold pending; rewrite Htd'; exact Hsr).
        eapply (sim_rebuild c c' σ s' pl _ t r' S Ethr).
        -- exact Hpub'.
        -- intros v _. symmetry. apply Hval'.
        -- left. intro v. symmetry. apply Hval'.
        -- unfold thread_inv. rewrite Hlp', Hpend', upd_same.
           exists g3, lvA', l3. repeat split; auto. rewrite Hd', Htd', Hop'. exact E3.
        -- exact Hoth3.
        -- rewrite Hop', Hd', Htd', <- app_assoc. exact Hpath.
        -- intros u Hne. apply upd_other. assumption.
Qed.

(* ---------------------------------------------------------------- start and end of an operation *)

Lemma lp_pend_nil p : lp_pend [] p = existsb sens p.
Proof.
  unfold lp_pend. simpl. destruct (existsb sens p) eqn:E; [apply orb_true_r|].
  rewrite (stores_sens _ E). reflexivity.
Qed.

Lemma sim_begin c σ pl t o path :
  sim c σ pl -> c_thr c t = None -> path_of sk o = Some path ->
  let r0 := {| r_op := o; r_done := []; r_todo := path; r_loc := fun _ => None; r_log := [] |} in
  if existsb sens path
  then sim (set_thr c t (Some r0)) σ pl
  else exists plog, seq_run wfun sk o σ = Some (σ, plog) /\ sim (set_thr c t (Some r0)) σ (upd pl t (Some plog)).
Proof.
  intros S Hnone Hpath r0.
  assert (Hothers : forall pl', (forall u, u <> t -> pl' u = pl u) ->
            forall u ru, u <> t -> c_thr c u = Some ru -> thread_inv (set_thr c t (Some r0)) σ (pl' u) ru).
  { intros pl' Hpl u ru Hne Hu. rewrite (Hpl u Hne).
    eapply thread_inv_frame; [apply (sm_thr _ _ _ S u ru Hu)|reflexivity|reflexivity]. }
  assert (Hvalc : (forall v, c_val c v = s_val σ v) \/
                  (exists u ru, c_thr (set_thr c t (Some r0)) u = Some ru /\ inKr ru = true /\ pending ru = true)).
  { destruct (sm_val _ _ _ S) as [L|(u & ru & Hu & Ku & Pu)]; [left; exact L|].
    right. exists u, ru. repeat split; auto. simpl. rewrite upd_other; [assumption|]. intro X. subst u. congruence. }
  assert (Henv0 : env_eq empty_env (lv (set_thr c t (Some r0)) r0)) by (intro x; reflexivity).
  destruct (existsb sens path) eqn:Hs.
  - eapply (sim_rebuild c (set_thr c t (Some r0)) σ σ pl pl t r0 S eq_refl); simpl; auto.
    + apply (sm_pub _ _ _ S).
    + apply (sm_ro _ _ _ S).
    + unfold thread_inv. unfold lp_pending. simpl. rewrite lp_pend_nil, Hs. split; [apply (sm_idle _ _ _ S t Hnone)|].
      unfold inKr, in_K. simpl. exists empty_env. repeat split.
  - assert (Hin : In path (all_paths sk)) by (eapply path_of_in; eassumption).
    assert (Hd0 : def_agree [] empty_env) by (intro x; split; reflexivity).
    destruct (seq_total o path Hin path [] σ empty_env [] (splits_nil_in path) Hd0) as (s3 & l3 & g3 & E3).
    simpl in E3. pose proof (seq_evs_nonsens _ _ _ _ _ _ _ _ _ Hs E3) as ->.
    exists g3. split.
    + unfold seq_run. rewrite Hpath. unfold empty_env in E3. rewrite E3. reflexivity.
    + eapply (sim_rebuild c (set_thr c t (Some r0)) σ σ pl _ t r0 S eq_refl); simpl; auto.
      * apply (sm_pub _ _ _ S).
      * apply (sm_ro _ _ _ S).
      * unfold thread_inv. unfold lp_pending, pending. simpl. rewrite lp_pend_nil, Hs. rewrite upd_same.
        exists g3, empty_env, l3. split; [reflexivity|]. split; [exact Henv0|exact E3].
      * apply Hothers. intros u Hne. apply upd_other. assumption.
      * intros u Hne. apply upd_other. assumption.
Qed.

Lemma sim_end c σ pl t r :
  sim c σ pl -> c_thr c t = Some r -> r_todo r = [] ->
  pl t = Some (r_log r) /\ sim (set_thr c t None) σ (upd pl t None).
Proof.
  intros S Ht Htd. pose proof (sm_thr _ _ _ S t r Ht) as TI. unfold thread_inv, lp_pending, lp_pend, pending in TI.
  rewrite Htd in TI. simpl in TI. rewrite andb_false_r in TI. destruct TI as (plog & lvA & lv' & Hpl & _ & E). inversion E; subst.
  split; [assumption|]. split; simpl.
  - apply (sm_pub _ _ _ S).
  - apply (sm_ro _ _ _ S).
  - destruct (sm_val _ _ _ S) as [L|(u & ru & Hu & Ku & Pu)]; [left; exact L|].
    right. exists u, ru. repeat split; auto. rewrite upd_other; [assumption|].
    intro X. subst u. rewrite Ht in Hu. inversion Hu; subst. unfold pending in Pu. rewrite Htd in Pu. discriminate.
  - intros u ru. unfold upd. destruct (Nat.eqb_spec u t) as [->|N]; [discriminate|]. intro Hu.
    eapply thread_inv_frame; [apply (sm_thr _ _ _ S u ru Hu)|reflexivity|reflexivity].
  - intros u ru. unfold upd. destruct (Nat.eqb_spec u t) as [->|N]; [discriminate|]. apply (sm_path _ _ _ S).
  - intros u. unfold upd. destruct (Nat.eqb_spec u t) as [->|N]; [reflexivity|]. apply (sm_idle _ _ _ S).
Qed.

(* ---------------------------------------------------------------- executions, linearization points, histories *)

Inductive exec : cfg val arg -> list (label val arg) -> cfg val arg -> Prop :=
| exec_nil c : exec c [] c
| exec_snoc c0 ls c l c' : exec c0 ls c -> step wfun sk wp c l c' -> exec c0 (ls ++ [l]) c'.

Lemma exec_reach c0 ls c : initial c0 -> exec c0 ls c -> reach wfun sk wp c.
Proof.
  intros Hi H. induction H; [apply reach_init; assumption|eapply reach_step; [apply IHexec; assumption|eassumption]].
Qed.

(** the step at which an operation takes effect: the event after which no
    access to guarded state remains (or the start, if there is none at all) *)
Definition lp_of (c : cfg val arg) (l : label val arg) : option (tid * op arg) :=
  match l with
  | LBegin t o =>
      match path_of sk o with
      | Some path => if existsb sens path then None else Some (t, o)
      | None => None
      end
  | LEv t e =>
      match c_thr c t with
      | Some r =>
          match r_todo r with
          | e' :: rest => if is_lp_ev r e' rest then Some (t, r_op r) else None
          | [] => None
          end
      | None => None
      end
  | LEnd _ _ _ => None
  end.

(** history marks: invocation, linearization (with the log the SEQUENTIAL run
    produced), response (with the log the thread ACTUALLY returns) *)
Inductive mark :=
| MInv (t : tid) (o : op arg)
| MLin (t : tid) (o : op arg) (log : list val)
| MRes (t : tid) (o : op arg) (log : list val).

Definition marks_of (l : label val arg) (lp : option (tid * op arg * list val)) : list mark :=
  (match l with LBegin t o => [MInv t o] | _ => [] end) ++
  (match lp with Some (t, o, log) => [MLin t o log] | None => [] end) ++
  (match l with LEnd t o log => [MRes t o log] | _ => [] end).

(** the abstract (sequential) state a configuration starts from *)
Definition abs_of (c : cfg val arg) : sstate val :=
  {| s_val := c_val c; s_pub := fun p => c_heap c (c_ptr c p) |}.

(** an execution annotated with the sequential machine: at every linearization
    point the sequential specification runs the whole operation atomically *)
Inductive lin (c0 : cfg val arg) :
  list (label val arg) -> cfg val arg -> sstate val -> (tid -> option (list val)) -> list mark -> Prop :=
| lin_init : lin c0 [] c0 (abs_of c0) (fun _ => None) []
| lin_lp ls c σ pl tr l c' t o σ' plog :
    lin c0 ls c σ pl tr -> step wfun sk wp c l c' -> lp_of c l = Some (t, o) ->
    seq_run wfun sk o σ = Some (σ', plog) ->
    lin c0 (ls ++ [l]) c' σ' (upd pl t (Some plog)) (tr ++ marks_of l (Some (t, o, plog)))
| lin_tau ls c σ pl tr l c' :
    lin c0 ls c σ pl tr -> step wfun sk wp c l c' -> lp_of c l = None ->
    lin c0 (ls ++ [l]) c' σ (match l with LEnd t _ _ => upd pl t None | _ => pl end) (tr ++ marks_of l None).

Lemma lin_exec c0 ls c σ pl tr : lin c0 ls c σ pl tr -> exec c0 ls c.
Proof. induction 1; [constructor|econstructor; eassumption|econstructor; eassumption]. Qed.

Lemma sim_init c0 : initial c0 -> sim c0 (abs_of c0) (fun _ => None).
Proof.
  intros (_ & Ht & _). split; simpl; auto.
  - intros t r E. rewrite Ht in E. discriminate.
  - intros t r E. rewrite Ht in E. discriminate.
Qed.

(** one step of the annotated execution preserves the simulation; at a
    linearization point the sequential run succeeds *)
Lemma sim_step c σ pl l c' :
  reach wfun sk wp c -> sim c σ pl -> step wfun sk wp c l c' ->
  match lp_of c l with
  | Some (t, o) => exists σ' plog, seq_run wfun sk o σ = Some (σ', plog) /\ sim c' σ' (upd pl t (Some plog))
  | None => sim c' σ (match l with LEnd t _ _ => upd pl t None | _ => pl end)
  end.
Proof.
  intros Hr S Hs.
  destruct (reach_invs wfun sk wp WFL c Hr) as [LI OI].
  assert (Hr' : reach wfun sk wp c') by (eapply reach_step; eassumption).
  destruct (reach_invs wfun sk wp WFL c' Hr') as [_ OI'].
  destruct Hs as [t o path Hnone Hpath | t r e rest c' Ht Htodo Hev | t r Ht Htodo]; simpl.
  - rewrite Hpath. pose proof (sim_begin c σ pl t o path S Hnone Hpath) as H. simpl in H.
    destruct (existsb sens path); [exact H|].
    destruct H as (plog & E & H). exists σ, plog. auto.
  - rewrite Ht, Htodo. simpl.
    pose proof (sim_ev c σ pl t r e rest c' LI OI OI' S Ht Htodo Hev) as H.
    destruct (is_lp_ev r e rest); exact H.
  - apply (sim_end c σ pl t r S Ht Htodo).
Qed.

Lemma lin_sim c0 ls c σ pl tr : initial c0 -> lin c0 ls c σ pl tr -> sim c σ pl.
Proof.
  intros Hi H. induction H as [|ls c σ pl tr l c' t o σ' plog H IH Hs Hlp Hseq|ls c σ pl tr l c' H IH Hs Hlp].
  - apply sim_init. assumption.
  - pose proof (sim_step c σ pl l c' (exec_reach _ _ _ Hi (lin_exec _ _ _ _ _ _ H)) IH Hs) as X.
    rewrite Hlp in X. destruct X as (σ2 & plog2 & E & X). rewrite Hseq in E. inversion E; subst. exact X.
  - pose proof (sim_step c σ pl l c' (exec_reach _ _ _ Hi (lin_exec _ _ _ _ _ _ H)) IH Hs) as X.
    rewrite Hlp in X. exact X.
Qed.

(** EVERY execution can be annotated: the sequential run never gets stuck *)
Theorem lin_total c0 ls c : initial c0 -> exec c0 ls c -> exists σ pl tr, lin c0 ls c σ pl tr.
Proof.
  intros Hi H. induction H as [c|c0 ls c l c' H IH Hs].
  - exists (abs_of c), (fun _ => None), []. constructor.
  - destruct (IH Hi) as (σ & pl & tr & L).
    pose proof (sim_step c σ pl l c' (exec_reach _ _ _ Hi H) (lin_sim _ _ _ _ _ _ Hi L) Hs) as X.
    destruct (lp_of c l) as [[t o]|] eqn:Hlp.
    + destruct X as (σ' & plog & E & _). do 3 eexists. eapply lin_lp; eassumption.
    + do 3 eexists. eapply lin_tau; eassumption.
Qed.

(** *** the sequential history *)

Definition lins (tr : list mark) : list (tid * op arg * list val) :=
  flat_map (fun m => match m with MLin t o log => [(t, o, log)] | _ => [] end) tr.

Lemma lins_app a b : lins (a ++ b) = lins a ++ lins b.
Proof. unfold lins. apply flat_map_app. Qed.

Lemma lins_marks l lp :
  lins (marks_of l lp) = match lp with Some x => [x] | None => [] end.
Proof.
  unfold marks_of. rewrite !lins_app. destruct l, lp as [[[t' o'] log']|]; reflexivity.
Qed.

(** the linearization-point order is a legal sequential history of the
    specification, leading from the initial state to the current abstract state *)
Theorem lin_hist c0 ls c σ pl tr : lin c0 ls c σ pl tr -> seq_hist wfun sk (abs_of c0) (lins tr) σ.
Proof.
  induction 1.
  - constructor.
  - rewrite lins_app, lins_marks. econstructor; eassumption.
  - rewrite lins_app, lins_marks, app_nil_r. assumption.
Qed.

(** *** every operation is linearized exactly once between its invocation and
    its response, and returns what the sequential history says *)

Inductive tphase := PIdle | PInv (o : op arg) | PLin (o : op arg) (log : list val).

Definition mark_ok (ph : tid -> tphase) (m : mark) : Prop :=
  match m with
  | MInv t _ => ph t = PIdle
  | MLin t o _ => ph t = PInv o
  | MRes t o log => ph t = PLin o log
  end.

Definition mark_next (ph : tid -> tphase) (m : mark) : tid -> tphase :=
  match m with
  | MInv t o => upd ph t (PInv o)
  | MLin t o log => upd ph t (PLin o log)
  | MRes t _ _ => upd ph t PIdle
  end.

(** [wb ph tr ph']: per thread the marks come as  MInv o, MLin o log, MRes o log  — the response
    carries the SAME operation and the SAME log as the linearization mark before it *)
Inductive wb : (tid -> tphase) -> list mark -> (tid -> tphase) -> Prop :=
| wb_nil ph : wb ph [] ph
| wb_cons ph m tr ph' : mark_ok ph m -> wb (mark_next ph m) tr ph' -> wb ph (m :: tr) ph'.

Lemma wb_app ph a ph1 b ph2 : wb ph a ph1 -> wb ph1 b ph2 -> wb ph (a ++ b) ph2.
Proof. induction 1; simpl; intro H2; [assumption|constructor; auto]. Qed.

Definition ph_inv (ph : tid -> tphase) (c : cfg val arg) (pl : tid -> option (list val)) : Prop :=
  forall t, match ph t with
            | PIdle => c_thr c t = None
            | PInv o => exists r, c_thr c t = Some r /\ r_op r = o /\ pl t = None
            | PLin o log => exists r, c_thr c t = Some r /\ r_op r = o /\ pl t = Some log
            end.

Lemma ph_inv_idle ph c pl t : ph_inv ph c pl -> c_thr c t = None -> ph t = PIdle.
Proof.
  intros H Hn. specialize (H t). destruct (ph t); [reflexivity| |]; destruct H as (r & E & _); congruence.
Qed.

Theorem lin_wb c0 ls c σ pl tr :
  initial c0 -> lin c0 ls c σ pl tr -> exists ph, wb (fun _ => PIdle) tr ph /\ ph_inv ph c pl.
Proof.
  intros Hi H. induction H as [|ls c σ pl tr l c' t o σ' plog H IH Hs Hlp Hseq|ls c σ pl tr l c' H IH Hs Hlp].
  - exists (fun _ => PIdle). split; [constructor|]. intro t. destruct Hi as (_ & Ht & _). apply Ht.
  - destruct IH as (ph & Hwb & Hph).
    pose proof (lin_sim _ _ _ _ _ _ Hi H) as S.
    destruct Hs as [t1 o1 path Hnone Hpath | t1 r e rest c' Ht Htodo Hev | t1 r Ht Htodo]; simpl in Hlp.
    + (* linearized at its start *)
      rewrite Hpath in Hlp. destruct (existsb sens path); [discriminate|]. inversion Hlp; subst t1 o1.
      exists (upd (upd ph t (PInv o)) t (PLin o plog)). split.
      * eapply wb_app; [exact Hwb|]. unfold marks_of. simpl.
        constructor; [simpl; eapply ph_inv_idle; eassumption|].
        constructor; [simpl; apply upd_same|]. constructor.
      * intro u. unfold upd. simpl. destruct (Nat.eqb_spec u t) as [->|N].
        -- eexists. unfold upd. rewrite Nat.eqb_refl. repeat split.
        -- unfold upd. destruct (u =? t) eqn:X; [apply Nat.eqb_eq in X; contradiction|]. apply Hph.
    + rewrite Ht, Htodo in Hlp. simpl in Hlp. destruct (is_lp_ev r e rest) eqn:Elp; [|discriminate].
      inversion Hlp; subst t1 o.
      destruct (ev_step_thr val arg wfun wp c t r rest e c' Hev) as (r' & Ethr & _ & _ & Hop').
      assert (Hplt : pl t = None).
      { pose proof (sm_thr _ _ _ S t r Ht) as TI. unfold thread_inv in TI. unfold is_lp_ev in Elp.
        apply andb_true_iff in Elp as [Ep _]. unfold lp_pending in TI. rewrite Htodo, Ep in TI. tauto. }
      assert (Hpht : ph t = PInv (r_op r)).
      { pose proof (Hph t) as X. destruct (ph t) as [|o2|o2 log2].
        - congruence.
        - destruct X as (r2 & E2 & Eo & _). rewrite Ht in E2. inversion E2; subst. reflexivity.
        - destruct X as (r2 & _ & _ & E3). congruence. }
      exists (upd ph t (PLin (r_op r) plog)). split.
      * eapply wb_app; [exact Hwb|]. unfold marks_of. simpl. constructor; [exact Hpht|constructor].
      * intro u. unfold upd. rewrite Ethr. destruct (Nat.eqb_spec u t) as [->|N].
        -- exists r'. unfold upd. rewrite Nat.eqb_refl. auto.
        -- unfold upd. destruct (u =? t) eqn:X; [apply Nat.eqb_eq in X; contradiction|]. apply Hph.
    + discriminate.
  - destruct IH as (ph & Hwb & Hph).
    pose proof (lin_sim _ _ _ _ _ _ Hi H) as S.
    destruct Hs as [t1 o1 path Hnone Hpath | t1 r e rest c' Ht Htodo Hev | t1 r Ht Htodo]; simpl in Hlp.
    + exists (upd ph t1 (PInv o1)). split.
      * eapply wb_app; [exact Hwb|]. unfold marks_of. simpl.
        constructor; [simpl; eapply ph_inv_idle; eassumption|constructor].
      * intro u. unfold upd. simpl. destruct (Nat.eqb_spec u t1) as [->|N].
        -- eexists. unfold upd. rewrite Nat.eqb_refl. repeat split. apply (sm_idle _ _ _ S t1 Hnone).
        -- unfold upd. destruct (u =? t1) eqn:X; [apply Nat.eqb_eq in X; contradiction|]. apply Hph.
    + exists ph. split.
      * unfold marks_of. simpl. rewrite app_nil_r. exact Hwb.
      * destruct (ev_step_thr val arg wfun wp c t1 r rest e c' Hev) as (r' & Ethr & _ & _ & Hop').
        intro u. rewrite Ethr. unfold upd. destruct (Nat.eqb_spec u t1) as [->|N]; [|apply Hph].
        pose proof (Hph t1) as X. destruct (ph t1) as [|o2|o2 log2].
        -- congruence.
        -- destruct X as (r2 & E2 & Eo & Ep). rewrite Ht in E2. inversion E2; subst. exists r'. auto.
        -- destruct X as (r2 & E2 & Eo & Ep). rewrite Ht in E2. inversion E2; subst. exists r'. auto.
    + destruct (sim_end c σ pl t1 r S Ht Htodo) as [Hplt _].
      assert (Hpht : ph t1 = PLin (r_op r) (r_log r)).
      { pose proof (Hph t1) as X. destruct (ph t1) as [|o2|o2 log2].
        - congruence.
        - destruct X as (r2 & _ & _ & E3). congruence.
        - destruct X as (r2 & E2 & Eo & E3). rewrite Ht in E2. inversion E2; subst. congruence. }
      exists (upd ph t1 PIdle). split.
      * eapply wb_app; [exact Hwb|]. unfold marks_of. simpl. constructor; [exact Hpht|constructor].
      * intro u. unfold upd. simpl. destruct (Nat.eqb_spec u t1) as [->|N].
        -- unfold upd. rewrite Nat.eqb_refl. reflexivity.
        -- unfold upd. destruct (u =? t1) eqn:X; [apply Nat.eqb_eq in X; contradiction|]. apply Hph.
Qed.

(** the invocations and responses among the marks are exactly the starts and ends of the execution *)
Definition io_marks (tr : list mark) : list mark :=
  filter (fun m => match m with MLin _ _ _ => false | _ => true end) tr.

Definition io_labels (ls : list (label val arg)) : list mark :=
  flat_map (fun l => match l with LBegin t o => [MInv t o] | LEnd t o log => [MRes t o log] | LEv _ _ => [] end) ls.

Lemma lin_io c0 ls c σ pl tr : lin c0 ls c σ pl tr -> io_marks tr = io_labels ls.
Proof.
  induction 1; [reflexivity| |]; unfold io_marks, io_labels in *; rewrite filter_app, flat_map_app, IHlin; f_equal;
    destruct l; reflexivity.
Qed.

(** nothing is lost: when no operation is in flight, the guarded state IS the
    state the sequential history leads to *)
Theorem lin_quiescent c0 ls c σ pl tr :
  initial c0 -> lin c0 ls c σ pl tr -> (forall t, c_thr c t = None) ->
  (forall v, c_val c v = s_val σ v) /\ (forall p, c_heap c (c_ptr c p) = s_pub σ p).
Proof.
  intros Hi H Hq. pose proof (lin_sim _ _ _ _ _ _ Hi H) as S. split; [|apply (sm_pub _ _ _ S)].
  destruct (sm_val _ _ _ S) as [L|(u & ru & Hu & _)]; [exact L|]. rewrite Hq in Hu. discriminate.
Qed.

(* ---------------------------------------------------------------- corollaries *)

(** the sequential specification is total on well-formed skeletons *)
Theorem seq_run_total o path s : path_of sk o = Some path -> exists s' log, seq_run wfun sk o s = Some (s', log).
Proof.
  intro Hp. assert (Hin : In path (all_paths sk)) by (eapply path_of_in; eassumption).
  assert (Hd0 : def_agree [] empty_env) by (intro x; split; reflexivity).
  destruct (seq_total o path Hin path [] s empty_env [] (splits_nil_in path) Hd0) as (s3 & l3 & g3 & E3).
  exists s3, g3. unfold seq_run. rewrite Hp. simpl in E3. unfold empty_env in E3. rewrite E3. reflexivity.
Qed.

Lemma wb_res_lin ph tr ph' : wb ph tr ph' ->
  forall acc, (forall t o log, ph t = PLin o log -> In (t, o, log) acc) ->
  forall t o log, In (MRes t o log) tr -> In (t, o, log) (acc ++ lins tr).
Proof.
  induction 1 as [ph|ph m tr ph' Hok Hwb IH]; intros acc Hacc t o log Hin; [destruct Hin|].
  destruct Hin as [->|Hin].
  - simpl in Hok. apply in_or_app. left. apply Hacc. assumption.
  - change (m :: tr) with ([m] ++ tr). rewrite lins_app, app_assoc. apply IH; [|assumption].
    intros t1 o1 log1 Hph. destruct m as [t2 o2|t2 o2 log2|t2 o2 log2]; simpl in Hph; unfold upd in Hph;
      destruct (Nat.eqb_spec t1 t2) as [->|N]; try discriminate;
      try (apply in_or_app; left; apply Hacc; assumption).
    inversion Hph; subst. apply in_or_app. right. simpl. left. reflexivity.
Qed.

Lemma seq_hist_split s0 H s x :
  seq_hist wfun sk s0 H s -> In x H ->
  exists H1 H2 s1 s2, H = H1 ++ x :: H2 /\ seq_hist wfun sk s0 H1 s1 /\
                      seq_run wfun sk (snd (fst x)) s1 = Some (s2, snd x).
Proof.
  induction 1 as [s|s H s1 t o log s2 Hh IH Hrun]; intro Hin; [destruct Hin|].
  apply in_app_or in Hin as [Hin|[<-|[]]].
  - destruct (IH Hin) as (H1 & H2 & a & b & E & Hh1 & Hr). exists H1, (H2 ++ [(t, o, log)]), a, b.
    repeat split; auto. rewrite E, <- app_assoc. reflexivity.
  - exists H, [], s1, s2. repeat split; auto.
Qed.

(** Every completed operation returned exactly the log (hence every result)
    that the sequential specification produces for it in a state reached by
    executing whole operations one after the other: a lookup is matched against
    one committed state, never a partially applied change. *)
Theorem completed_ops_atomic_lin c0 ls c σ pl tr t o log :
  initial c0 -> lin c0 ls c σ pl tr -> In (LEnd t o log) ls ->
  exists H1 H2 s1 s2,
    lins tr = H1 ++ (t, o, log) :: H2 /\
    seq_hist wfun sk (abs_of c0) H1 s1 /\ seq_run wfun sk o s1 = Some (s2, log).
Proof.
  intros Hi L Hin.
  pose proof (lin_hist _ _ _ _ _ _ L) as Hh.
  destruct (lin_wb _ _ _ _ _ _ Hi L) as (ph & Hwb & _).
  assert (Hm : In (MRes t o log) tr).
  { assert (X : In (MRes t o log) (io_labels ls)).
    { unfold io_labels. apply in_flat_map. exists (LEnd t o log). split; [assumption|left; reflexivity]. }
    rewrite <- (lin_io _ _ _ _ _ _ L) in X. unfold io_marks in X. apply filter_In in X. tauto. }
  pose proof (wb_res_lin _ _ _ Hwb [] (fun t0 o0 log0 (X : PIdle = PLin o0 log0) => match X with end) t o log Hm) as Hl.
  simpl in Hl. destruct (seq_hist_split _ _ _ _ Hh Hl) as (H1 & H2 & s1 & s2 & E & Hh1 & Hr).
  exists H1, H2, s1, s2. auto.
Qed.

Theorem completed_ops_atomic c0 ls c t o log :
  initial c0 -> exec c0 ls c -> In (LEnd t o log) ls ->
  exists H H1 H2 s s1 s2,
    seq_hist wfun sk (abs_of c0) H s /\ H = H1 ++ (t, o, log) :: H2 /\
    seq_hist wfun sk (abs_of c0) H1 s1 /\ seq_run wfun sk o s1 = Some (s2, log).
Proof.
  intros Hi He Hin. destruct (lin_total c0 ls c Hi He) as (σ & pl & tr & L).
  pose proof (lin_hist _ _ _ _ _ _ L) as Hh.
  destruct (lin_wb _ _ _ _ _ _ Hi L) as (ph & Hwb & _).
  assert (Hm : In (MRes t o log) tr).
  { assert (X : In (MRes t o log) (io_labels ls)).
    { unfold io_labels. apply in_flat_map. exists (LEnd t o log). split; [assumption|left; reflexivity]. }
    rewrite <- (lin_io _ _ _ _ _ _ L) in X. unfold io_marks in X. apply filter_In in X. tauto. }
  pose proof (wb_res_lin _ _ _ Hwb [] (fun t0 o0 log0 (X : PIdle = PLin o0 log0) => match X with end) t o log Hm) as Hl.
  simpl in Hl. destruct (seq_hist_split _ _ _ _ Hh Hl) as (H1 & H2 & s1 & s2 & E & Hh1 & Hr).
  exists (lins tr), H1, H2, σ, s1, s2. auto.
Qed.

(* ---------------------------------------------------------------- real-time order *)

Lemma filter_split {A} (f : A -> bool) l : forall a x b,
  filter f l = a ++ x :: b ->
  exists la lb, l = la ++ x :: lb /\ filter f la = a /\ filter f lb = b.
Proof.
  induction l as [|y l IH]; intros a x b H; simpl in H.
  - destruct a; discriminate.
  - destruct (f y) eqn:Fy.
    + destruct a as [|a0 a]; simpl in H; inversion H; subst.
      * exists [], l. simpl. auto.
      * destruct (IH _ _ _ H2) as (la & lb & E & Ea & Eb). exists (a0 :: la), lb. simpl. rewrite Fy, Ea, E. auto.
    + destruct (IH _ _ _ H) as (la & lb & E & Ea & Eb). exists (y :: la), lb. simpl. rewrite Fy, Ea, E. auto.
Qed.

Lemma wb_split ph a b ph' : wb ph (a ++ b) ph' -> exists ph1, wb ph a ph1 /\ wb ph1 b ph'.
Proof.
  revert ph. induction a as [|m a IH]; simpl; intros ph H.
  - exists ph. split; [constructor|assumption].
  - inversion H; subst. destruct (IH _ H5) as (ph1 & H1 & H2). exists ph1. split; [constructor; assumption|assumption].
Qed.

Definition mark_thread (m : mark) : tid :=
  match m with MInv t _ | MLin t _ _ | MRes t _ _ => t end.

(** between its invocation and its response an operation is linearized, in between *)
Lemma wb_lin_between ph T ph' t : wb ph T ph' ->
  (forall m, In m T -> mark_thread m = t -> exists o log, m = MLin t o log) ->
  forall acc o,
    (ph t = PInv o \/ exists o' log', ph t = PLin o' log' /\ In (t, o', log') acc) ->
    forall o2 log2, ph' t = PLin o2 log2 -> In (t, o2, log2) (acc ++ lins T).
Proof.
  induction 1 as [ph|ph m tr ph' Hok Hwb IH]; intros Hm acc o Hph o2 log2 Hend.
  - simpl. rewrite app_nil_r. destruct Hph as [Hph|(o' & log' & Hph & Hin)]; [congruence|].
    rewrite Hph in Hend. inversion Hend; subst. assumption.
  - change (m :: tr) with ([m] ++ tr). rewrite lins_app, app_assoc.
    destruct (Nat.eq_dec (mark_thread m) t) as [Et|Nt].
    + destruct (Hm m (or_introl eq_refl) Et) as (o3 & log3 & ->). simpl in Hok.
      eapply (IH (fun m' Hin' => Hm m' (or_intror Hin')) _ o3); [|exact Hend].
      right. exists o3, log3. split; [simpl; apply upd_same|]. apply in_or_app. right. left. reflexivity.
    + eapply (IH (fun m' Hin' => Hm m' (or_intror Hin')) _ o); [|exact Hend].
      assert (Hsame : mark_next ph m t = ph t).
      { destruct m; simpl in *; apply upd_other; congruence. }
      rewrite Hsame. destruct Hph as [Hph|(o' & log' & Hph & Hin)]; [left; assumption|].
      right. exists o', log'. split; [assumption|]. apply in_or_app. left. assumption.
Qed.

Definition other_thread (t : tid) (l : label val arg) : Prop :=
  match l with LBegin t' _ | LEnd t' _ _ => t' <> t | LEv _ _ => True end.

(** REAL-TIME ORDER: if operation 1 had returned before operation 2 was invoked
    (and operation 2 completed), then the sequential history contains
    operation 1 before operation 2 *)
Theorem real_time_order_lin c0 c σ pl tr la t1 o1 log1 lb t2 o2 ld log2 le :
  initial c0 ->
  lin c0 (la ++ LEnd t1 o1 log1 :: lb ++ LBegin t2 o2 :: ld ++ LEnd t2 o2 log2 :: le) c σ pl tr ->
  Forall (other_thread t2) ld ->
  exists Ha Hm Hb, lins tr = Ha ++ (t1, o1, log1) :: Hm ++ (t2, o2, log2) :: Hb.
Proof.
  intros Hi L Hld.
  pose proof (lin_hist _ _ _ _ _ _ L) as Hh.
  destruct (lin_wb _ _ _ _ _ _ Hi L) as (ph & Hwb & _).
  pose proof (lin_io _ _ _ _ _ _ L) as Hio. unfold io_labels in Hio.
  rewrite flat_map_app in Hio. simpl in Hio. rewrite flat_map_app in Hio. simpl in Hio.
  rewrite flat_map_app in Hio. simpl in Hio. fold (io_labels la) (io_labels lb) (io_labels ld) (io_labels le) in Hio.
  unfold io_marks in Hio.
  destruct (filter_split _ _ _ _ _ Hio) as (T1 & R1 & E1 & F1 & G1).
  destruct (filter_split _ _ _ _ _ G1) as (T2 & R2 & E2 & F2 & G2).
  destruct (filter_split _ _ _ _ _ G2) as (T3 & T4 & E3 & F3 & F4).
  subst tr R1 R2.
  (* split the bracket structure at the three marks *)
  destruct (wb_split _ _ _ _ Hwb) as (p1 & W1 & W1').
  inversion W1' as [|? ? ? ? Ok1 W2]; subst.
  destruct (wb_split _ _ _ _ W2) as (p2 & W2a & W2').
  inversion W2' as [|? ? ? ? Ok2 W3]; subst.
  destruct (wb_split _ _ _ _ W3) as (p3 & W3a & W3').
  inversion W3' as [|? ? ? ? Ok3 W4]; subst.
  (* operation 1 was linearized before its response *)
  assert (In1 : In (t1, o1, log1) (lins T1)).
  { pose proof (wb_res_lin _ _ _ (wb_app _ _ _ _ _ W1 (wb_cons _ _ _ _ Ok1 (wb_nil _))) []
                  (fun t0 o0 log0 (X : PIdle = PLin o0 log0) => match X with end) t1 o1 log1) as X.
    simpl in X. rewrite lins_app in X. simpl in X. rewrite app_nil_r in X. apply X.
    apply in_or_app. right. left. reflexivity. }
  (* operation 2 was linearized between its invocation and its response *)
  assert (In2 : In (t2, o2, log2) (lins T3)).
  { simpl in Ok3.
    pose proof (wb_lin_between _ _ _ t2 W3a) as X.
    assert (Hm : forall m, In m T3 -> mark_thread m = t2 -> exists o log, m = MLin t2 o log).
    { intros m Hin Et. destruct m as [t o|t o log|t o log]; simpl in Et; subst t.
      - exfalso. assert (Y : In (MInv t2 o) (io_labels ld)) by (rewrite <- F3; apply filter_In; auto).
        unfold io_labels in Y. apply in_flat_map in Y as (l & Hl & Y). rewrite Forall_forall in Hld.
        specialize (Hld _ Hl). destruct l as [t0 o0|t0 e0|t0 o0 log0]; simpl in Y, Hld.
        + destruct Y as [Y|[]]. inversion Y. congruence.
        + destruct Y.
        + destruct Y as [Y|[]]. discriminate.
      - eauto.
      - exfalso. assert (Y : In (MRes t2 o log) (io_labels ld)) by (rewrite <- F3; apply filter_In; auto).
        unfold io_labels in Y. apply in_flat_map in Y as (l & Hl & Y). rewrite Forall_forall in Hld.
        specialize (Hld _ Hl). destruct l as [t0 o0|t0 e0|t0 o0 log0]; simpl in Y, Hld.
        + destruct Y as [Y|[]]. discriminate.
        + destruct Y.
        + destruct Y as [Y|[]]. inversion Y. congruence. }
    specialize (X Hm [] o2 (or_introl (upd_same _ _ _)) o2 log2 Ok3). exact X. }
  apply in_split in In1 as (A1 & B1 & EA). apply in_split in In2 as (A2 & B2 & EB).
  exists A1, (B1 ++ lins T2 ++ A2), (B2 ++ lins T4).
  change (MRes t1 o1 log1 :: T2 ++ MInv t2 o2 :: T3 ++ MRes t2 o2 log2 :: T4)
    with ([MRes t1 o1 log1] ++ T2 ++ [MInv t2 o2] ++ T3 ++ [MRes t2 o2 log2] ++ T4).
  rewrite !lins_app, EA, EB. simpl. repeat (rewrite <- app_assoc; simpl). reflexivity.
Qed.

Theorem real_time_order c0 c la t1 o1 log1 lb t2 o2 ld log2 le :
  initial c0 ->
  exec c0 (la ++ LEnd t1 o1 log1 :: lb ++ LBegin t2 o2 :: ld ++ LEnd t2 o2 log2 :: le) c ->
  Forall (other_thread t2) ld ->
  exists H Ha Hm Hb s,
    seq_hist wfun sk (abs_of c0) H s /\
    H = Ha ++ (t1, o1, log1) :: Hm ++ (t2, o2, log2) :: Hb.
Proof.
  intros Hi He Hld. destruct (lin_total c0 _ c Hi He) as (σ & pl & tr & L).
  destruct (real_time_order_lin _ _ _ _ _ _ _ _ _ _ _ _ _ _ _ Hi L Hld) as (Ha & Hm & Hb & E).
  exists (lins tr), Ha, Hm, Hb, σ. split; [eapply lin_hist; eassumption|exact E].
Qed.

(* ---------------------------------------------------------------- the sequential history is made of the execution's operations *)

(** every running operation has been started in the execution *)
Lemma exec_begun c0 ls c : initial c0 -> exec c0 ls c ->
  forall t r, c_thr c t = Some r -> In (LBegin t (r_op r)) ls.
Proof.
  intros Hi H. induction H as [c|c0 ls c l c' H IH Hs]; intros t r Ht.
  - destruct Hi as (_ & Hn & _). rewrite Hn in Ht. discriminate.
  - apply in_or_app.
    destruct Hs as [t1 o path Hnone Hpath | t1 r1 e rest c' Ht1 Htodo Hev | t1 r1 Ht1 Htodo]; simpl in Ht.
    + unfold upd in Ht. destruct (Nat.eqb_spec t t1) as [->|N].
      * inversion Ht; subst. simpl. right. left. reflexivity.
      * left. apply (IH Hi _ _ Ht).
    + destruct (ev_step_thr val arg wfun wp c t1 r1 rest e c' Hev) as (r' & Ethr & _ & _ & Hop').
      rewrite Ethr in Ht. unfold upd in Ht. destruct (Nat.eqb_spec t t1) as [->|N].
      * inversion Ht; subst. rewrite Hop'. left. apply (IH Hi _ _ Ht1).
      * left. apply (IH Hi _ _ Ht).
    + unfold upd in Ht. destruct (Nat.eqb_spec t t1) as [->|N]; [discriminate|]. left. apply (IH Hi _ _ Ht).
Qed.

(** no phantom operations: every entry of the sequential history is an operation the execution started *)
Theorem lins_invoked c0 ls c σ pl tr : initial c0 -> lin c0 ls c σ pl tr ->
  forall t o log, In (t, o, log) (lins tr) -> In (LBegin t o) ls.
Proof.
  intros Hi H. induction H as [|ls c σ pl tr l c' t0 o0 σ' plog H IH Hs Hlp Hseq|ls c σ pl tr l c' H IH Hs Hlp];
    intros t o log Hin.
  - destruct Hin.
  - rewrite lins_app, lins_marks in Hin. apply in_or_app. apply in_app_or in Hin as [Hin|[Hin|[]]].
    + left. apply (IH _ _ _ Hin).
    + inversion Hin; subst t0 o0 plog. destruct l as [t1 o1|t1 e1|t1 o1 log1]; simpl in Hlp.
      * destruct (path_of sk o1) as [path|]; [|discriminate]. destruct (existsb sens path); [discriminate|].
        inversion Hlp; subst. right. left. reflexivity.
      * destruct (c_thr c t1) as [r|] eqn:Ht; [|discriminate].
        destruct (r_todo r) as [|e' rest]; [discriminate|]. destruct (is_lp_ev r e' rest); [|discriminate].
        inversion Hlp; subst. left. apply (exec_begun c0 ls c Hi (lin_exec _ _ _ _ _ _ H) _ _ Ht).
      * discriminate.
  - rewrite lins_app, lins_marks, app_nil_r in Hin. apply in_or_app. left. apply (IH _ _ _ Hin).
Qed.

(** per thread: the linearized operations are the returned ones, in the same order, plus at most the one in flight *)
Definition thread_hist (t : tid) (H : list (tid * op arg * list val)) : list (op arg * list val) :=
  flat_map (fun x : tid * op arg * list val => if fst (fst x) =? t then [(snd (fst x), snd x)] else []) H.

Definition thread_returns (t : tid) (ls : list (label val arg)) : list (op arg * list val) :=
  flat_map (fun l => match l with LEnd t' o log => if t' =? t then [(o, log)] else [] | _ => [] end) ls.

Definition res_marks (t : tid) (tr : list mark) : list (op arg * list val) :=
  flat_map (fun m => match m with MRes t' o log => if t' =? t then [(o, log)] else [] | _ => [] end) tr.

Definition pend (ph : tid -> tphase) (t : tid) : list (op arg * list val) :=
  match ph t with PLin o log => [(o, log)] | _ => [] end.

Lemma thread_hist_lins t tr :
  thread_hist t (lins tr) =
  flat_map (fun m => match m with MLin t' o log => if t' =? t then [(o, log)] else [] | _ => [] end) tr.
Proof.
  induction tr as [|m tr IH]; [reflexivity|]. change (m :: tr) with ([m] ++ tr).
  rewrite lins_app. unfold thread_hist in *. rewrite !flat_map_app, IH. f_equal.
  destruct m; simpl; try reflexivity; rewrite app_nil_r; reflexivity.
Qed.

Lemma wb_thread ph tr ph' : wb ph tr ph' ->
  forall t, pend ph t ++ thread_hist t (lins tr) = res_marks t tr ++ pend ph' t.
Proof.
  induction 1 as [ph|ph m tr ph' Hok Hwb IH]; intro t.
  - simpl. rewrite app_nil_r. reflexivity.
  - specialize (IH t). rewrite thread_hist_lins in *. unfold pend in *.
    destruct m as [t1 o1|t1 o1 log1|t1 o1 log1]; simpl in Hok, IH |- *; unfold upd in IH.
    + destruct (Nat.eqb_spec t t1) as [E|N].
      * subst t1. rewrite Hok. exact IH.
      * exact IH.
    + destruct (Nat.eqb_spec t t1) as [E|N].
      * subst t1. rewrite Hok, Nat.eqb_refl. simpl in *. exact IH.
      * apply Nat.eqb_neq in N. rewrite Nat.eqb_sym, N. exact IH.
    + destruct (Nat.eqb_spec t t1) as [E|N].
      * subst t1. rewrite Hok, Nat.eqb_refl. simpl in *. rewrite <- IH. reflexivity.
      * apply Nat.eqb_neq in N. rewrite Nat.eqb_sym, N. exact IH.
Qed.

Lemma res_marks_io t tr : res_marks t (io_marks tr) = res_marks t tr.
Proof.
  unfold res_marks, io_marks. induction tr as [|m tr IH]; [reflexivity|]. simpl.
  destruct m; simpl; rewrite IH; reflexivity.
Qed.

Lemma res_marks_labels t ls : res_marks t (io_labels ls) = thread_returns t ls.
Proof.
  unfold res_marks, io_labels, thread_returns. induction ls as [|l ls IH]; [reflexivity|]. simpl.
  rewrite flat_map_app, IH. f_equal. destruct l; simpl; try reflexivity. rewrite app_nil_r. reflexivity.
Qed.

(** THE SEQUENTIAL HISTORY IS THE EXECUTION, REORDERED: restricted to any thread, [lins tr] lists
    exactly the operations that thread completed, in the order and with the logs it returned,
    followed by at most one operation that is linearized but has not returned yet; when nothing is
    in flight there is no such extra operation *)
Theorem lin_thread_order c0 ls c σ pl tr t :
  initial c0 -> lin c0 ls c σ pl tr ->
  exists extra, thread_hist t (lins tr) = thread_returns t ls ++ extra /\ length extra <= 1 /\
                (c_thr c t = None -> extra = []).
Proof.
  intros Hi L. destruct (lin_wb _ _ _ _ _ _ Hi L) as (ph & Hwb & Hph).
  pose proof (wb_thread _ _ _ Hwb t) as E. unfold pend at 1 in E. simpl in E.
  rewrite <- res_marks_io, (lin_io _ _ _ _ _ _ L), res_marks_labels in E.
  exists (pend ph t). split; [exact E|]. unfold pend. split.
  - destruct (ph t); simpl; lia.
  - intro Hn. specialize (Hph t). destruct (ph t) as [|o|o log]; [reflexivity|reflexivity|].
    destruct Hph as (r & Hr & _). congruence.
Qed.

End Lin.

Arguments exec {val arg}. Arguments lin {val arg}. Arguments lp_of {val arg}.
Arguments MInv {val arg}. Arguments MLin {val arg}. Arguments MRes {val arg}.
Arguments abs_of {val arg}. Arguments lins {val arg}. Arguments marks_of {val arg}.
Arguments PIdle {val arg}. Arguments PInv {val arg}. Arguments PLin {val arg}.
Arguments wb {val arg}. Arguments mark_ok {val arg}. Arguments mark_next {val arg}.
Arguments io_marks {val arg}. Arguments io_labels {val arg}. Arguments ph_inv {val arg}.
Arguments sim {val arg}. Arguments thread_inv {val arg}. Arguments pending {val arg}. Arguments inKr {val arg}.
Arguments other_thread {val arg}.
Arguments thread_hist {val arg}. Arguments thread_returns {val arg}.
