(** * C07/Model.v — copy-on-write discipline over lock skeletons, the sequential
    specification of a skeleton, and the sequential rule-repository machine.

    [Base/Locks.v] gives the interleaving semantics and the lock discipline
    ([wf_locks]).  Here:

    - [wf_cow K sk], the boolean check of the copy-on-write / writer-lock
      discipline that makes every operation ATOMIC:  all writes and stores, and
      all reads of plain fields that some method writes, happen inside the
      critical section of the writer lock [K]; the lock is not released while
      such accesses are still to come; outside it an operation may at most load
      the published pointer, once; an operation publishes a new object at most
      once and afterwards only reads / writes plain fields, still inside the
      writer lock;
    - [wf_skel K sk := wf_locks sk && wf_cow K sk] — the check the generated
      [Gen/RepoSkel.v] has to pass ([Example repo_skel_wf]);
    - [skel_cex] — what to print when it does not pass;
    - [seq_run], the sequential specification: the same path executed alone,
      atomically, with VALUE semantics for objects (loading a pointer yields a
      snapshot, cloning copies it, storing publishes the copy); linearizability
      w.r.t. it is proved in [C07/Lin.v];
    - the sequential repository machine used by the stress stream. *)
From HV Require Import Base.Prelude Base.Locks.

(* ------------------------------------------------------------------ the COW discipline *)

(** the guarded fields some method writes (a field that no method writes is
    immutable after construction; reading it is not an interaction between threads) *)
Definition written_by (e : event) : list var :=
  match e with EWrite v => [v] | EStore p _ => [p] | _ => [] end.

Definition wvars (sk : skel) : list var := flat_map written_by (concat (all_paths sk)).

Definition mem_var (v : var) (l : list var) : bool := existsb (Nat.eqb v) l.

(** events whose effect or result depends on / changes the state shared between threads *)
Definition sensitive (wv : list var) (e : event) : bool :=
  match e with
  | ERead v | ELoad _ v => mem_var v wv
  | EWrite _ | EStore _ _ => true
  | _ => false
  end.

Definition is_write_ev (e : event) : bool :=
  match e with EWrite _ | EStore _ _ => true | _ => false end.

Definition is_store_ev (e : event) : bool :=
  match e with EStore _ _ => true | _ => false end.

Definition count_sens (wv : list var) (l : list event) : nat := length (filter (sensitive wv) l).

Definition in_K (K : lock) (done : list event) : bool := hmem K true (held_after done).

Definition is_unlock_K (K : lock) (e : event) : bool :=
  match e with EUnlock m => m =? K | _ => false end.

(** a read of a plain field that some method writes *)
Definition is_shared_read (wv : list var) (e : event) : bool :=
  match e with ERead v => mem_var v wv | _ => false end.

Definition is_plain_access (e : event) : bool :=
  match e with ERead _ | EWrite _ => true | _ => false end.

(** the discipline, per point of a path ([pt] = (executed prefix, rest)):
    (c2) the writer lock is not released while accesses to guarded state are still to come;
    (c3) an access to guarded state outside the writer lock is the only one of its operation;
    (c4) writes and stores happen inside the writer lock;
    (c5) an operation publishes at most once, and after the publishing store it touches guarded
         state only by reading / writing plain fields inside the writer lock (no further load);
    (c6) plain fields that some method writes are read inside the writer lock only
         (outside it only the published pointer may be loaded). *)
Definition cow_point_ok (K : lock) (wv : list var) (path : list event) (pt : list event * list event) : bool :=
  match snd pt with
  | [] => true
  | e :: rest =>
      let ink := in_K K (fst pt) in
      (negb (is_unlock_K K e) || negb (existsb (sensitive wv) rest)) &&
      (negb (sensitive wv e) || ink || (count_sens wv path =? 1)) &&
      (negb (is_write_ev e) || ink) &&
      (negb (is_store_ev e) || negb (existsb is_store_ev rest)) &&
      (negb (existsb is_store_ev (fst pt) && sensitive wv e) || (ink && is_plain_access e)) &&
      (negb (is_shared_read wv e) || ink)
  end.

Definition cow_path_ok (K : lock) (wv : list var) (path : list event) : bool :=
  forallb (cow_point_ok K wv path) (splits path).

Definition wf_cow (K : lock) (sk : skel) : bool := forallb (cow_path_ok K (wvars sk)) (all_paths sk).

Definition wf_skel (K : lock) (sk : skel) : bool := wf_locks sk && wf_cow K sk.

(* ------------------------------------------------------------------ counter-examples *)

(** access points together with the prefix that reaches them *)
Definition access_points_pre (path : list event) : list (var * bool * list hentry * list event) :=
  flat_map (fun pt : list event * list event =>
    match snd pt with
    | e :: _ => match access e with
                | Some (v, w) => [(v, w, held_after (fst pt), fst pt ++ [e])]
                | None => []
                end
    | [] => []
    end) (splits path).

Inductive cex :=
| CexPoint (prefix rest : list event)
    (* after [prefix] the next event of [rest] violates the lock / ownership discipline:
       acquisition against the lock order or of a lock already held, release of a lock not held,
       write to / store of an object that is not a private clone, use of an undefined local,
       untranslatable code, or locks still held at the end *)
| CexRace (v : var) (prefix1 prefix2 : list event)
    (* two threads running these prefixes are both at a conflicting access to field [v]
       (last event of each prefix) without a common lock that one of them holds exclusively *)
| CexAtomic (prefix rest : list event).
    (* the next event of [rest] breaks atomicity: a write/store outside the writer lock, a second
       access to guarded state outside the writer lock, or an access after the publishing store *)

Definition skel_cex (K : lock) (sk : skel) : list cex :=
  map (fun pt => CexPoint (fst pt) (snd pt)) (point_cex sk) ++
  (let aps := flat_map access_points_pre (all_paths sk) in
   flat_map (fun a => let '(v1, w1, h1, p1) := a in
     flat_map (fun b => let '(v2, w2, h2, p2) := b in
       if negb (pair_ok (v1, w1, h1) (v2, w2, h2)) then [CexRace v1 p1 p2] else []) aps) aps) ++
  flat_map (fun path =>
    map (fun pt => CexAtomic (fst pt) (snd pt))
        (filter (fun pt => negb (cow_point_ok K (wvars sk) path pt)) (splits path))) (all_paths sk).

Fixpoint firstn_cex (n : nat) (l : list cex) : list cex :=
  match n, l with
  | S n', x :: r => x :: firstn_cex n' r
  | _, _ => []
  end.

(* ------------------------------------------------------------------ the sequential repository machine *)

(** The rule repository restricted to what the stress stream generates: literal,
    pairwise unrelated path expressions (identified by numbers), rules
    identified by (source, id) with a definition hash.  Transcribed from
    repository_impl.go + radixtree (values of a node in insertion order; a node
    only takes values of one source; deleting a rule removes its own route
    from the node and fails if it is not there). *)
Record rrule := { rr_id : nat; rr_src : nat; rr_hash : nat; rr_paths : list nat }.

Record rstate := { rs_known : list rrule; rs_index : list (nat * list rrule) }.

Definition rstate0 : rstate := {| rs_known := []; rs_index := [] |}.

Inductive rop :=
| OpAdd (rs : list rrule)
| OpUpdate (src : nat) (rs : list rrule)
| OpDelete (src : nat)
| OpFind (path : nat).

Inductive rres := ROk | RErr | RFound (src id hash : nat) | RNotFound | RDefault | RForeign | RPanic.

Definition same_as (a b : rrule) : bool := (rr_id a =? rr_id b) && (rr_src a =? rr_src b).
(** EqualTo compares the hash of the rule DEFINITION, which covers the routes:
    [rr_hash] stands for the rest of the definition *)
Definition equal_to (a b : rrule) : bool :=
  same_as a b && (rr_hash a =? rr_hash b) && list_eqb Nat.eqb (rr_paths a) (rr_paths b).

Fixpoint idx_get (ix : list (nat * list rrule)) (p : nat) : list rrule :=
  match ix with
  | [] => []
  | (q, vs) :: r => if q =? p then vs else idx_get r p
  end.

Fixpoint idx_set (ix : list (nat * list rrule)) (p : nat) (vs : list rrule) : list (nat * list rrule) :=
  match ix with
  | [] => [(p, vs)]
  | (q, ws) :: r => if q =? p then (q, vs) :: r else (q, ws) :: idx_set r p vs
  end.

(** tree.Add(path, route) with the repository's constraint *)
Definition tree_add (ix : list (nat * list rrule)) (p : nat) (r : rrule) : option (list (nat * list rrule)) :=
  let vs := idx_get ix p in
  match vs with
  | [] => Some (idx_set ix p [r])
  | v :: _ => if rr_src v =? rr_src r then Some (idx_set ix p (vs ++ [r])) else None
  end.

Definition rrule_eqb (a b : rrule) : bool :=
  equal_to a b && list_eqb Nat.eqb (rr_paths a) (rr_paths b).

Fixpoint remove_first (f : rrule -> bool) (l : list rrule) : option (list rrule) :=
  match l with
  | [] => None
  | v :: r => if f v then Some r else option_map (cons v) (remove_first f r)
  end.

(** tree.Delete(path, the very route of rule r): removes exactly one value of the node (the route object
    of that rule; rule objects that are equal in every respect are interchangeable here) and fails if
    there is none.  (Since fix 003095f; before it every value that is the SameAs r was removed.) *)
Definition tree_del (ix : list (nat * list rrule)) (p : nat) (r : rrule) : option (list (nat * list rrule)) :=
  match remove_first (rrule_eqb r) (idx_get ix p) with
  | Some vs' => Some (idx_set ix p vs')
  | None => None
  end.

Fixpoint add_paths ix (r : rrule) (ps : list nat) : option (list (nat * list rrule)) :=
  match ps with
  | [] => Some ix
  | p :: rest => match tree_add ix p r with Some ix' => add_paths ix' r rest | None => None end
  end.

Fixpoint add_rules ix (rs : list rrule) : option (list (nat * list rrule)) :=
  match rs with
  | [] => Some ix
  | r :: rest => match add_paths ix r (rr_paths r) with Some ix' => add_rules ix' rest | None => None end
  end.

Fixpoint del_paths ix (r : rrule) (ps : list nat) : option (list (nat * list rrule)) :=
  match ps with
  | [] => Some ix
  | p :: rest => match tree_del ix p r with Some ix' => del_paths ix' r rest | None => None end
  end.

Fixpoint del_rules ix (rs : list rrule) : option (list (nat * list rrule)) :=
  match rs with
  | [] => Some ix
  | r :: rest => match del_paths ix r (rr_paths r) with Some ix' => del_rules ix' rest | None => None end
  end.

(** [def]: the repository was built with a default rule *)
Definition repo_apply (def : bool) (s : rstate) (o : rop) : rstate * rres :=
  match o with
  | OpAdd rs =>
      match add_rules (rs_index s) rs with
      | Some ix => ({| rs_known := rs_known s ++ rs; rs_index := ix |}, ROk)
      | None => (s, RErr)
      end
  | OpUpdate src rs =>
      let applicable := filter (fun r => rr_src r =? src) (rs_known s) in
      let to_add := filter (fun n =>
         negb (existsb (fun e => same_as e n) applicable) ||
         existsb (fun e => same_as e n && negb (equal_to e n)) applicable) rs in
      let to_del := filter (fun e =>
         negb (existsb (fun n => same_as n e) rs) ||
         existsb (fun n => same_as n e && negb (equal_to n e)) rs) applicable in
      match del_rules (rs_index s) to_del with
      | None => (s, RErr)
      | Some ix1 =>
          match add_rules ix1 to_add with
          | None => (s, RErr)
          | Some ix2 =>
              ({| rs_known := filter (fun l => negb (existsb (rrule_eqb l) to_del)) (rs_known s) ++ to_add;
                  rs_index := ix2 |}, ROk)
          end
      end
  | OpDelete src =>
      let applicable := filter (fun r => rr_src r =? src) (rs_known s) in
      match del_rules (rs_index s) applicable with
      | None => (s, RErr)
      | Some ix =>
          ({| rs_known := filter (fun l => negb (existsb (rrule_eqb l) applicable)) (rs_known s);
              rs_index := ix |}, ROk)
      end
  | OpFind p =>
      match idx_get (rs_index s) p with
      | [] => (s, if def then RDefault else RNotFound)
      | v :: _ => (s, RFound (rr_src v) (rr_id v) (rr_hash v))
      end
  end.

Definition rres_eqb (a b : rres) : bool :=
  match a, b with
  | ROk, ROk | RErr, RErr | RNotFound, RNotFound | RDefault, RDefault | RForeign, RForeign | RPanic, RPanic => true
  | RFound s1 i1 h1, RFound s2 i2 h2 => (s1 =? s2) && (i1 =? i2) && (h1 =? h2)
  | _, _ => false
  end.

(** a lookup never changes the state; a failed change leaves it as it was *)
Lemma repo_apply_find def s p : fst (repo_apply def s (OpFind p)) = s.
Proof. simpl. destruct (idx_get (rs_index s) p); reflexivity. Qed.

Lemma repo_apply_err def s o : snd (repo_apply def s o) = RErr -> fst (repo_apply def s o) = s.
Proof.
  destruct o; simpl.
  - destruct (add_rules _ _); simpl; [discriminate|reflexivity].
  - destruct (del_rules _ _); [|reflexivity]. destruct (add_rules _ _); simpl; [discriminate|reflexivity].
  - destruct (del_rules _ _); simpl; [discriminate|reflexivity].
  - destruct (idx_get _ _); simpl; [destruct def|]; discriminate.
Qed.

(* ------------------------------------------------------------------ the sequential specification of a skeleton *)

(** The same path executed ALONE and atomically.  Objects have VALUE semantics:
    loading a pointer field yields (a snapshot of) the content of the published
    object, cloning copies it, writing changes the copy, storing publishes the
    copy.  Lock events do nothing.  The state is the content of the plain
    fields and, per pointer field, the content of the object it points to. *)
Section SeqSpec.

Variable val : Type.
Variable arg : Type.
Variable wfun : op arg -> nat -> list val -> val.

Record sstate := { s_val : var -> val; s_pub : var -> val }.

Definition lenv := lname -> option val.

Definition seq_ev (o : op arg) (pcn : nat) (e : event) (s : sstate) (loc : lenv) (log : list val)
  : option (sstate * lenv * list val) :=
  match e with
  | ELock _ | EUnlock _ | ERLock _ | ERUnlock _ => Some (s, loc, log)
  | ERead v => Some (s, loc, log ++ [s_val s v])
  | EWrite v => Some ({| s_val := upd (s_val s) v (wfun o pcn log); s_pub := s_pub s |}, loc, log)
  | ELoad x p => Some (s, upd loc x (Some (s_pub s p)), log)
  | EStore p x =>
      match loc x with
      | Some c => Some ({| s_val := s_val s; s_pub := upd (s_pub s) p c |}, loc, log)
      | None => None
      end
  | EClone y x =>
      match loc x with Some c => Some (s, upd loc y (Some c), log) | None => None end
  | EObjRead x =>
      match loc x with Some c => Some (s, loc, log ++ [c]) | None => None end
  | EObjWrite x =>
      match loc x with
      | Some c => Some (s, upd loc x (Some (wfun o pcn (log ++ [c]))), log ++ [c])
      | None => None
      end
  | EUnsupported => None
  end.

Fixpoint seq_evs (o : op arg) (pcn : nat) (es : list event) (s : sstate) (loc : lenv) (log : list val)
  : option (sstate * lenv * list val) :=
  match es with
  | [] => Some (s, loc, log)
  | e :: r =>
      match seq_ev o pcn e s loc log with
      | Some (s', loc', log') => seq_evs o (S pcn) r s' loc' log'
      | None => None
      end
  end.

(** one whole operation: new state and the log of everything the operation read
    (every result a method can return is a function of its arguments and this log) *)
Definition seq_run (sk : skel) (o : op arg) (s : sstate) : option (sstate * list val) :=
  match path_of sk o with
  | Some path =>
      match seq_evs o 0 path s (fun _ => None) [] with
      | Some (s', _, log) => Some (s', log)
      | None => None
      end
  | None => None
  end.

(** a sequential history: operations executed one after the other, each with the log it produced *)
Inductive seq_hist (sk : skel) : sstate -> list (tid * op arg * list val) -> sstate -> Prop :=
| sh_nil s : seq_hist sk s [] s
| sh_snoc s H s1 t o log s2 :
    seq_hist sk s H s1 -> seq_run sk o s1 = Some (s2, log) -> seq_hist sk s (H ++ [(t, o, log)]) s2.

End SeqSpec.

Arguments s_val {val}. Arguments s_pub {val}.
Arguments seq_ev {val arg}. Arguments seq_evs {val arg}. Arguments seq_run {val arg}. Arguments seq_hist {val arg}.
