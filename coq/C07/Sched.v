(** * C07/Sched.v — the run-time tie between the REAL repository code and the skeleton semantics.

    The stream "sched" of the C07 check runs tiny plans on an automatically
    instrumented copy of internal/rules/repository_impl.go (mutexes replaced by
    scheduler-aware stand-ins, every access to a guarded field and every method
    call on the tree behind [r.index] logged) under EVERY schedule of lock
    boundaries.  One explored schedule yields a global list of [item]s: what the
    real code did, in the order it did it.  This file provides

    - [path_matches] ("trace_of_skel_path" side): one operation's logged items are
      a path of the extracted skeleton — up to renaming of method-local names to
      the objects observed at run time and up to stuttering (a run of identical
      accesses by one thread without anything in between counts once, on both
      sides: that is how [Base/Locks.v method_paths] summarises loops and how
      the extractor renders in-place library calls);
    - [replay]: an executable interpreter of the interleaving semantics of
      [Base/Locks.v] (no writer preference) that follows the logged items: every
      item must be the next event of its thread's chosen path AND be enabled in
      the model (mutex free / not exclusively held), and the objects the real
      code loaded, cloned, published must be the ones the model says (a bijection
      between run-time objects and model objects is built on the way);
    - [replay_sound]: whatever [replay] accepts IS an execution ([exec]) of the
      skeleton semantics — so for a skeleton with [wf_skel] every theorem of
      [Properties/C07.v] speaks about that very run of the real code;
    - [hb_race]: a happens-before (vector clock) data-race detector on the logged
      items themselves (program order, Unlock -> later Lock/RLock, RUnlock ->
      later Lock of the same mutex), independent of the skeleton: it is what
      finds a concrete racy schedule when the skeleton no longer passes the check.

    Stdlib only, no axioms. *)
From HV Require Import Base.Prelude Base.Locks C07.Model C07.Lin C07.Proofs C07.Examples.

(* ------------------------------------------------------------------ what the instrumented code logs *)

Inductive item :=
| IBegin (t : tid) (meth : nat)          (* invocation of a method of the guarded type *)
| IEnd (t : tid)                         (* its response *)
| ILk (t : tid) (e : event)              (* ELock / EUnlock / ERLock / ERUnlock m: granted by the controller *)
| IGet (t : tid) (v : var) (o : nat)     (* guarded field v read; o = the object it pointed to (0: not a pointer) *)
| IPut (t : tid) (v : var) (o : nat)     (* guarded field v assigned *)
| IObj (t : tid) (o : nat) (w : bool)    (* method called on object o; w: the method mutates its receiver *)
| IClone (t : tid) (o' o : nat)          (* o' := o.Clone() *)
| INote (t : tid).                       (* a construct the instrumenter does not translate *)

Definition item_tid (it : item) : tid :=
  match it with
  | IBegin t _ | IEnd t | ILk t _ | IGet t _ _ | IPut t _ _ | IObj t _ _ | IClone t _ _ | INote t => t
  end.

Definition item_eqb (a b : item) : bool :=
  match a, b with
  | IBegin t m, IBegin t' m' => (t =? t') && (m =? m')
  | IEnd t, IEnd t' => t =? t'
  | ILk t e, ILk t' e' => (t =? t') && event_eqb e e'
  | IGet t v o, IGet t' v' o' => (t =? t') && (v =? v') && (o =? o')
  | IPut t v o, IPut t' v' o' => (t =? t') && (v =? v') && (o =? o')
  | IObj t o w, IObj t' o' w' => (t =? t') && (o =? o') && Bool.eqb w w'
  | IClone t a1 a2, IClone t' b1 b2 => (t =? t') && (a1 =? b1) && (a2 =? b2)
  | INote t, INote t' => t =? t'
  | _, _ => false
  end.

Definition is_lock_ev (e : event) : bool :=
  match e with ELock _ | EUnlock _ | ERLock _ | ERUnlock _ => true | _ => false end.

(** accesses that may stutter: a run of identical ones counts once *)
Definition stutterable (e : event) : bool :=
  match e with ERead _ | EWrite _ | EObjRead _ | EObjWrite _ => true | _ => false end.

Fixpoint drop_dups (e : event) (path : list event) : list event :=
  match path with
  | e' :: r => if event_eqb e e' then drop_dups e r else path
  | [] => []
  end.

Definition same_item (last : option item) (it : item) : bool :=
  match last with Some l => item_eqb l it | None => false end.

(* ------------------------------------------------------------------ one operation against one path *)

Definition lenv := list (lname * nat).

Fixpoint lget (x : lname) (l : lenv) : option nat :=
  match l with
  | [] => None
  | (y, o) :: r => if x =? y then Some o else lget x r
  end.

Definition onat_eqb (a : option nat) (b : nat) : bool :=
  match a with Some x => x =? b | None => false end.

(** does the logged item realise the skeleton event?  (method-local names are bound to run-time objects) *)
Definition lmatch_ev (env : lenv) (e : event) (it : item) : option lenv :=
  match e, it with
  | ERead v, IGet _ v' _ => if v =? v' then Some env else None
  | EWrite v, IPut _ v' _ => if v =? v' then Some env else None
  | ELoad x p, IGet _ p' o => if (p =? p') && negb (o =? 0) then Some ((x, o) :: env) else None
  | EStore p x, IPut _ p' o => if (p =? p') && onat_eqb (lget x env) o then Some env else None
  | EClone y x, IClone _ o' o => if onat_eqb (lget x env) o && negb (o' =? 0) then Some ((y, o') :: env) else None
  | EObjRead x, IObj _ o false => if onat_eqb (lget x env) o then Some env else None
  | EObjWrite x, IObj _ o true => if onat_eqb (lget x env) o then Some env else None
  | _, ILk _ e' => if is_lock_ev e && event_eqb e e' then Some env else None
  | _, _ => None
  end.

(** [whole = true]: the operation returned, the path must be used up; [false]: the run was cut (deadlock) *)
Fixpoint lmatch (whole : bool) (env : lenv) (last : option item) (path : list event) (its : list item) : bool :=
  match its with
  | [] => negb whole || is_nil path
  | it :: r =>
      if same_item last it then lmatch whole env last path r
      else match path with
           | [] => false
           | e :: p' =>
               match lmatch_ev env e it with
               | Some env' =>
                   if stutterable e then lmatch whole env' (Some it) (drop_dups e p') r
                   else lmatch whole env' None p' r
               | None => false
               end
           end
  end.

(** the expected trace of a skeleton path, in the normal form both sides are compared in:
    runs of identical accesses collapsed *)
Fixpoint collapse (prev : option event) (path : list event) : list event :=
  match path with
  | [] => []
  | e :: r =>
      if match prev with Some p => stutterable e && event_eqb p e | None => false end
      then collapse prev r
      else e :: collapse (Some e) r
  end.

Definition trace_of_skel_path (path : list event) : list event := collapse None path.

(** the items of thread [t] up to (excluding) its next response; [true] if the response is there *)
Fixpoint op_items (t : tid) (its : list item) : list item * bool :=
  match its with
  | [] => ([], false)
  | it :: r =>
      if item_tid it =? t then
        match it with
        | IEnd _ => ([], true)
        | _ => let '(l, b) := op_items t r in (it :: l, b)
        end
      else op_items t r
  end.

Definition path_matches (path : list event) (its : list item) (whole : bool) : bool :=
  lmatch whole [] None path its.

Fixpoint find_path (i : nat) (paths : list (list event)) (its : list item) (whole : bool) : option nat :=
  match paths with
  | [] => None
  | p :: r => if path_matches p its whole then Some i else find_path (S i) r its whole
  end.

(** matching against a path = matching against its expected trace [trace_of_skel_path] (the normal form) *)
Lemma event_eqb_eq a b : event_eqb a b = true -> a = b.
Proof. unfold event_eqb. destruct (event_eq_dec a b); [auto|discriminate]. Qed.

Lemma event_eqb_refl a : event_eqb a a = true.
Proof. unfold event_eqb. destruct (event_eq_dec a a); [reflexivity|contradiction]. Qed.

Lemma collapse_some_stut e r : stutterable e = true -> collapse (Some e) r = collapse None (drop_dups e r).
Proof.
  intro S. induction r as [|e2 r' IH]; [reflexivity|]. simpl.
  destruct (event_eqb e e2) eqn:E.
  - apply event_eqb_eq in E. subst e2. rewrite S. simpl. exact IH.
  - rewrite andb_false_r. reflexivity.
Qed.

Lemma collapse_some_nostut e r : stutterable e = false -> collapse (Some e) r = collapse None r.
Proof.
  intro S. destruct r as [|e2 r']; [reflexivity|]. simpl.
  destruct (event_eqb e e2) eqn:E.
  - apply event_eqb_eq in E. subst e2. rewrite S. reflexivity.
  - rewrite andb_false_r. reflexivity.
Qed.

Lemma drop_dups_head e r e2 t : drop_dups e r = e2 :: t -> event_eqb e e2 = false.
Proof.
  induction r as [|x r' IH]; simpl; [discriminate|].
  destruct (event_eqb e x) eqn:E; [exact IH|]. intro H. inversion H; subst. exact E.
Qed.

Lemma drop_dups_collapse e r :
  drop_dups e (collapse None (drop_dups e r)) = collapse None (drop_dups e r).
Proof.
  destruct (drop_dups e r) as [|e2 t] eqn:D; [reflexivity|].
  simpl. rewrite (drop_dups_head _ _ _ _ D). reflexivity.
Qed.

Lemma lmatch_normal_form whole its : forall env last path,
  lmatch whole env last path its = lmatch whole env last (trace_of_skel_path path) its.
Proof.
  unfold trace_of_skel_path. induction its as [|it r IH]; intros env last path; simpl.
  - destruct path; reflexivity.
  - destruct (same_item last it); [apply IH|].
    destruct path as [|e p']; [reflexivity|]. simpl.
    destruct (lmatch_ev env e it) as [env'|]; [|reflexivity].
    destruct (stutterable e) eqn:S.
    + rewrite (collapse_some_stut e p' S). rewrite drop_dups_collapse. apply IH.
    + rewrite (collapse_some_nostut e p' S). apply IH.
Qed.

Corollary path_matches_trace path its whole :
  path_matches path its whole = path_matches (trace_of_skel_path path) its whole.
Proof. apply lmatch_normal_form. Qed.

(* ------------------------------------------------------------------ executable interleaving semantics *)

Section Replay.

Variable val : Type.
Variable arg : Type.
Variable wfun : op arg -> nat -> list val -> val.
Variable sk : skel.

#[local] Arguments adv {val arg}.
#[local] Arguments with_log {val arg}.
#[local] Arguments with_loc {val arg}.

Definition mem_tid (t : tid) (ts : list tid) : bool := existsb (Nat.eqb t) ts.

(** the next event of thread [t], if the model allows it now (no writer preference) *)
Definition exec_ev (c : cfg val arg) (t : tid) : option (event * cfg val arg) :=
  match c_thr c t with
  | None => None
  | Some r =>
      match r_todo r with
      | [] => None
      | e :: rest =>
          match e with
          | ELock m =>
              match c_lk c m with
              | LShared [] =>
                  Some (e, {| c_lk := upd (c_lk c) m (LExcl t); c_val := c_val c; c_ptr := c_ptr c; c_heap := c_heap c;
                              c_next := c_next c; c_thr := upd (c_thr c) t (Some (adv r (ELock m) rest)) |})
              | _ => None
              end
          | EUnlock m =>
              match c_lk c m with
              | LExcl t' =>
                  if t' =? t then
                    Some (e, {| c_lk := upd (c_lk c) m (LShared []); c_val := c_val c; c_ptr := c_ptr c; c_heap := c_heap c;
                                c_next := c_next c; c_thr := upd (c_thr c) t (Some (adv r (EUnlock m) rest)) |})
                  else None
              | _ => None
              end
          | ERLock m =>
              match c_lk c m with
              | LShared ts =>
                  Some (e, {| c_lk := upd (c_lk c) m (LShared (t :: ts)); c_val := c_val c; c_ptr := c_ptr c; c_heap := c_heap c;
                              c_next := c_next c; c_thr := upd (c_thr c) t (Some (adv r (ERLock m) rest)) |})
              | _ => None
              end
          | ERUnlock m =>
              match c_lk c m with
              | LShared ts =>
                  if mem_tid t ts then
                    Some (e, {| c_lk := upd (c_lk c) m (LShared (remove Nat.eq_dec t ts)); c_val := c_val c; c_ptr := c_ptr c;
                                c_heap := c_heap c; c_next := c_next c;
                                c_thr := upd (c_thr c) t (Some (adv r (ERUnlock m) rest)) |})
                  else None
              | _ => None
              end
          | ERead v => Some (e, set_thr c t (Some (adv (with_log r (r_log r ++ [c_val c v])) (ERead v) rest)))
          | EWrite v =>
              Some (e, {| c_lk := c_lk c; c_val := upd (c_val c) v (wfun (r_op r) (pc r) (r_log r)); c_ptr := c_ptr c;
                          c_heap := c_heap c; c_next := c_next c; c_thr := upd (c_thr c) t (Some (adv r (EWrite v) rest)) |})
          | ELoad x p => Some (e, set_thr c t (Some (adv (with_loc r x (c_ptr c p)) (ELoad x p) rest)))
          | EStore p x =>
              match r_loc r x with
              | Some o =>
                  Some (e, {| c_lk := c_lk c; c_val := c_val c; c_ptr := upd (c_ptr c) p o; c_heap := c_heap c;
                              c_next := c_next c; c_thr := upd (c_thr c) t (Some (adv r (EStore p x) rest)) |})
              | None => None
              end
          | EClone y x =>
              match r_loc r x with
              | Some o =>
                  Some (e, {| c_lk := c_lk c; c_val := c_val c; c_ptr := c_ptr c;
                              c_heap := upd (c_heap c) (c_next c) (c_heap c o); c_next := S (c_next c);
                              c_thr := upd (c_thr c) t (Some (adv (with_loc r y (c_next c)) (EClone y x) rest)) |})
              | None => None
              end
          | EObjRead x =>
              match r_loc r x with
              | Some o => Some (e, set_thr c t (Some (adv (with_log r (r_log r ++ [c_heap c o])) (EObjRead x) rest)))
              | None => None
              end
          | EObjWrite x =>
              match r_loc r x with
              | Some o =>
                  Some (e, {| c_lk := c_lk c; c_val := c_val c; c_ptr := c_ptr c;
                              c_heap := upd (c_heap c) o (wfun (r_op r) (pc r) (r_log r ++ [c_heap c o]));
                              c_next := c_next c;
                              c_thr := upd (c_thr c) t
                                         (Some (adv (with_log r (r_log r ++ [c_heap c o])) (EObjWrite x) rest)) |})
              | None => None
              end
          | EUnsupported => None
          end
      end
  end.

Lemma exec_ev_sound c t e c' : exec_ev c t = Some (e, c') -> step wfun sk false c (LEv t e) c'.
Proof.
  unfold exec_ev. destruct (c_thr c t) as [r|] eqn:Ht; [|discriminate].
  destruct (r_todo r) as [|e0 rest] eqn:Hd; [discriminate|].
  destruct e0 as [m|m|m|m|v|v|x p|p x|y x|x|x|]; intro H.
  - destruct (c_lk c m) as [u|[|u ts]] eqn:Hl; try discriminate. inversion H; subst.
    eapply step_ev; [eassumption|eassumption|]. apply st_lock. assumption.
  - destruct (c_lk c m) as [u|ts] eqn:Hl; try discriminate.
    destruct (u =? t) eqn:E; [|discriminate]. inversion H; subst.
    eapply step_ev; [eassumption|eassumption|]. eapply st_unlock. eassumption.
  - destruct (c_lk c m) as [u|ts] eqn:Hl; try discriminate. inversion H; subst.
    eapply step_ev; [eassumption|eassumption|]. apply st_rlock; [assumption|discriminate].
  - destruct (c_lk c m) as [u|ts] eqn:Hl; try discriminate.
    destruct (mem_tid t ts) eqn:E; [|discriminate]. inversion H; subst.
    eapply step_ev; [eassumption|eassumption|]. apply st_runlock; [assumption|].
    unfold mem_tid in E. apply existsb_exists in E as (u & Hin & Hu). apply Nat.eqb_eq in Hu. subst. assumption.
  - inversion H; subst. eapply step_ev; [eassumption|eassumption|]. apply st_read.
  - inversion H; subst. eapply step_ev; [eassumption|eassumption|]. apply st_write.
  - inversion H; subst. eapply step_ev; [eassumption|eassumption|]. apply st_load.
  - destruct (r_loc r x) as [o|] eqn:Hx; [|discriminate]. inversion H; subst.
    eapply step_ev; [eassumption|eassumption|]. apply st_store. assumption.
  - destruct (r_loc r x) as [o|] eqn:Hx; [|discriminate]. inversion H; subst.
    eapply step_ev; [eassumption|eassumption|]. apply st_clone. assumption.
  - destruct (r_loc r x) as [o|] eqn:Hx; [|discriminate]. inversion H; subst.
    eapply step_ev; [eassumption|eassumption|]. apply st_objread. assumption.
  - destruct (r_loc r x) as [o|] eqn:Hx; [|discriminate]. inversion H; subst.
    eapply step_ev; [eassumption|eassumption|]. apply st_objwrite. assumption.
  - discriminate.
Qed.

Definition exec_begin (c : cfg val arg) (t : tid) (o : op arg) : option (cfg val arg) :=
  match c_thr c t, path_of sk o with
  | None, Some path =>
      Some (set_thr c t (Some {| r_op := o; r_done := []; r_todo := path; r_loc := fun _ => None; r_log := [] |}))
  | _, _ => None
  end.

Lemma exec_begin_sound c t o c' : exec_begin c t o = Some c' -> step wfun sk false c (LBegin t o) c'.
Proof.
  unfold exec_begin. destruct (c_thr c t) eqn:Ht; [discriminate|].
  destruct (path_of sk o) as [path|] eqn:Hp; [|discriminate]. intro H. inversion H; subst.
  apply step_begin; assumption.
Qed.

Definition exec_end (c : cfg val arg) (t : tid) : option (label val arg * cfg val arg) :=
  match c_thr c t with
  | Some r => match r_todo r with
              | [] => Some (LEnd t (r_op r) (r_log r), set_thr c t None)
              | _ => None
              end
  | None => None
  end.

Lemma exec_end_sound c t l c' : exec_end c t = Some (l, c') -> step wfun sk false c l c'.
Proof.
  unfold exec_end. destruct (c_thr c t) as [r|] eqn:Ht; [|discriminate].
  destruct (r_todo r) eqn:Hd; [|discriminate]. intro H. inversion H; subst.
  apply step_end; assumption.
Qed.

(* ---------------------------------------------------------------- following the logged items *)

(** run-time object <-> model object *)
Definition omap := list (nat * oid).

Fixpoint rho_get (o : nat) (rho : omap) : option oid :=
  match rho with
  | [] => None
  | (a, b) :: r => if o =? a then Some b else rho_get o r
  end.

Definition rho_bind (o : nat) (mo : oid) (rho : omap) : option omap :=
  if o =? 0 then None else
  match rho_get o rho with
  | Some mo' => if mo' =? mo then Some rho else None
  | None => if existsb (fun p => snd p =? mo) rho then None else Some ((o, mo) :: rho)
  end.

Definition rho_is (rho : omap) (o : nat) (mo : option oid) : bool :=
  match rho_get o rho, mo with
  | Some a, Some b => a =? b
  | _, _ => false
  end.

(** the item realises the model event [e] of run [r] in configuration [c]: same kind, same field / mutex,
    and the SAME OBJECT as the model computes (pointer loaded, clone source, published object, receiver) *)
Definition gmatch (c : cfg val arg) (r : run val arg) (rho : omap) (e : event) (it : item) : option omap :=
  match e, it with
  | ERead v, IGet _ v' _ => if v =? v' then Some rho else None
  | EWrite v, IPut _ v' _ => if v =? v' then Some rho else None
  | ELoad x p, IGet _ p' o => if p =? p' then rho_bind o (c_ptr c p) rho else None
  | EStore p x, IPut _ p' o => if (p =? p') && rho_is rho o (r_loc r x) then Some rho else None
  | EClone y x, IClone _ o' o =>
      if rho_is rho o (r_loc r x) then
        match rho_get o' rho with Some _ => None | None => rho_bind o' (c_next c) rho end
      else None
  | EObjRead x, IObj _ o false => if rho_is rho o (r_loc r x) then Some rho else None
  | EObjWrite x, IObj _ o true => if rho_is rho o (r_loc r x) then Some rho else None
  | _, ILk _ e' => if is_lock_ev e && event_eqb e e' then Some rho else None
  | _, _ => None
  end.

Definition lasts := list (tid * item).

Fixpoint last_get (t : tid) (l : lasts) : option item :=
  match l with
  | [] => None
  | (u, it) :: r => if t =? u then Some it else last_get t r
  end.

Definition last_set (t : tid) (it : option item) (l : lasts) : lasts :=
  let l' := filter (fun p => negb (fst p =? t)) l in
  match it with Some i => (t, i) :: l' | None => l' end.

Record rpst := {
  rs_cfg : cfg val arg;
  rs_lab : list (label val arg);     (* labels executed so far, latest first *)
  rs_rho : omap;
  rs_last : lasts
}.

(** execute the further copies of the stutterable event [e] that follow in the path *)
Fixpoint exec_dups (fuel : nat) (e : event) (t : tid) (c : cfg val arg) (acc : list (label val arg))
  : cfg val arg * list (label val arg) :=
  match fuel with
  | 0 => (c, acc)
  | S f =>
      match c_thr c t with
      | Some r =>
          match r_todo r with
          | e' :: _ =>
              if event_eqb e e' then
                match exec_ev c t with
                | Some (e'', c') => exec_dups f e t c' (LEv t e'' :: acc)
                | None => (c, acc)
                end
              else (c, acc)
          | [] => (c, acc)
          end
      | None => (c, acc)
      end
  end.

(** why a replay stopped (for the diagnostics of the check) *)
Inductive rerr :=
| RNoPath (t : tid) (meth : nat)        (* the operation's items are no path of the method *)
| RBegin (t : tid)                      (* invocation while an operation of the thread is in flight *)
| REnd (t : tid)                        (* response before the path was used up *)
| RMismatch (t : tid) (e : event)       (* the item is not the next event [e] of the path / other object than the model's *)
| RDisabled (t : tid) (e : event)       (* the model does not allow [e] now (mutex state, undefined local) *)
| RIdle (t : tid)                       (* an item of a thread that runs no operation *)
| RNote (t : tid).

Definition mk_op (meth path : nat) (a : arg) : op arg := {| o_meth := meth; o_path := path; o_arg := a |}.

Variable a0 : arg.

Fixpoint replay (its : list item) (s : rpst) : rpst * option rerr :=
  match its with
  | [] => (s, None)
  | it :: rest =>
      let c := rs_cfg s in
      match it with
      | IBegin t meth =>
          let '(mine, whole) := op_items t rest in
          match find_path 0 (nth meth (sk_meths sk) []) mine whole with
          | None => (s, Some (RNoPath t meth))
          | Some i =>
              let o := mk_op meth i a0 in
              match exec_begin c t o with
              | Some c' =>
                  replay rest {| rs_cfg := c'; rs_lab := LBegin t o :: rs_lab s; rs_rho := rs_rho s;
                                 rs_last := last_set t None (rs_last s) |}
              | None => (s, Some (RBegin t))
              end
          end
      | IEnd t =>
          match exec_end c t with
          | Some (l, c') =>
              replay rest {| rs_cfg := c'; rs_lab := l :: rs_lab s; rs_rho := rs_rho s;
                             rs_last := last_set t None (rs_last s) |}
          | None => (s, Some (REnd t))
          end
      | INote t => (s, Some (RNote t))
      | _ =>
          let t := item_tid it in
          if same_item (last_get t (rs_last s)) it then replay rest s
          else
            match c_thr c t with
            | None => (s, Some (RIdle t))
            | Some r =>
                match r_todo r with
                | [] => (s, Some (RIdle t))
                | e :: _ =>
                    match gmatch c r (rs_rho s) e it with
                    | None => (s, Some (RMismatch t e))
                    | Some rho' =>
                        match exec_ev c t with
                        | None => (s, Some (RDisabled t e))
                        | Some (e', c1) =>
                            if stutterable e then
                              let '(c2, lab2) := exec_dups (length (r_todo r)) e t c1 (LEv t e' :: rs_lab s) in
                              replay rest {| rs_cfg := c2; rs_lab := lab2; rs_rho := rho';
                                             rs_last := last_set t (Some it) (rs_last s) |}
                            else
                              replay rest {| rs_cfg := c1; rs_lab := LEv t e' :: rs_lab s; rs_rho := rho';
                                             rs_last := last_set t None (rs_last s) |}
                        end
                    end
                end
            end
      end
  end.

(* ---------------------------------------------------------------- soundness *)

Definition rs_ok (c0 : cfg val arg) (s : rpst) : Prop := exec wfun sk false c0 (rev (rs_lab s)) (rs_cfg s).

Lemma exec_cons c0 acc c l c' :
  exec wfun sk false c0 (rev acc) c -> step wfun sk false c l c' -> exec wfun sk false c0 (rev (l :: acc)) c'.
Proof. intros H S. simpl. eapply exec_snoc; eassumption. Qed.

Lemma exec_dups_sound c0 fuel e t : forall c acc c' acc',
  exec wfun sk false c0 (rev acc) c -> exec_dups fuel e t c acc = (c', acc') ->
  exec wfun sk false c0 (rev acc') c'.
Proof.
  induction fuel as [|f IH]; simpl; intros c acc c' acc' H E.
  - inversion E; subst. assumption.
  - destruct (c_thr c t) as [r|]; [|inversion E; subst; assumption].
    destruct (r_todo r) as [|e' rest]; [inversion E; subst; assumption|].
    destruct (event_eqb e e'); [|inversion E; subst; assumption].
    destruct (exec_ev c t) as [[e'' c1]|] eqn:X; [|inversion E; subst; assumption].
    eapply IH; [|eassumption]. eapply exec_cons; [eassumption|]. apply exec_ev_sound. assumption.
Qed.

Lemma replay_ok c0 its : forall s s' err, rs_ok c0 s -> replay its s = (s', err) -> rs_ok c0 s'.
Proof.
  induction its as [|it rest IH]; intros s s' err Hs E; simpl in E.
  - inversion E; subst. assumption.
  - assert (Hstop : forall x, (s, Some x) = (s', err) -> rs_ok c0 s') by (intros x Hx; inversion Hx; subst; assumption).
    assert (Hlow : forall t : tid,
      (if same_item (last_get t (rs_last s)) it then replay rest s
       else match c_thr (rs_cfg s) t with
            | None => (s, Some (RIdle t))
            | Some r =>
                match r_todo r with
                | [] => (s, Some (RIdle t))
                | e :: _ =>
                    match gmatch (rs_cfg s) r (rs_rho s) e it with
                    | None => (s, Some (RMismatch t e))
                    | Some rho' =>
                        match exec_ev (rs_cfg s) t with
                        | None => (s, Some (RDisabled t e))
                        | Some (e', c1) =>
                            if stutterable e then
                              let '(c2, lab2) := exec_dups (length (r_todo r)) e t c1 (LEv t e' :: rs_lab s) in
                              replay rest {| rs_cfg := c2; rs_lab := lab2; rs_rho := rho';
                                             rs_last := last_set t (Some it) (rs_last s) |}
                            else
                              replay rest {| rs_cfg := c1; rs_lab := LEv t e' :: rs_lab s; rs_rho := rho';
                                             rs_last := last_set t None (rs_last s) |}
                        end
                    end
                end
            end) = (s', err) -> rs_ok c0 s').
    { intros t E'. destruct (same_item (last_get t (rs_last s)) it); [eapply IH; eassumption|].
      destruct (c_thr (rs_cfg s) t) as [r|]; [|eapply Hstop; eassumption].
      destruct (r_todo r) as [|e tl]; [eapply Hstop; eassumption|].
      destruct (gmatch (rs_cfg s) r (rs_rho s) e it) as [rho'|]; [|eapply Hstop; eassumption].
      destruct (exec_ev (rs_cfg s) t) as [[e' c1]|] eqn:X; [|eapply Hstop; eassumption].
      assert (H1 : exec wfun sk false c0 (rev (LEv t e' :: rs_lab s)) c1).
      { eapply exec_cons; [exact Hs|]. apply exec_ev_sound. assumption. }
      destruct (stutterable e).
      - destruct (exec_dups (length (e :: tl)) e t c1 (LEv t e' :: rs_lab s)) as [c2 lab2] eqn:D.
        eapply IH; [|eassumption]. unfold rs_ok; simpl. eapply exec_dups_sound; eassumption.
      - eapply IH; [|eassumption]. exact H1. }
    destruct it as [t meth|t|t e|t v o|t v o|t o w|t o1 o2|t]; simpl in E;
      try (apply (Hlow _ E)).
    + destruct (op_items t rest) as [mine whole].
      destruct (find_path 0 (nth meth (sk_meths sk) []) mine whole) as [i|]; [|eapply Hstop; eassumption].
      destruct (exec_begin (rs_cfg s) t (mk_op meth i a0)) as [c'|] eqn:X; [|eapply Hstop; eassumption].
      eapply IH; [|eassumption]. unfold rs_ok; simpl. eapply exec_snoc; [exact Hs|]. apply exec_begin_sound. assumption.
    + destruct (exec_end (rs_cfg s) t) as [[l c']|] eqn:X; [|eapply Hstop; eassumption].
      eapply IH; [|eassumption]. unfold rs_ok; simpl. eapply exec_snoc; [exact Hs|]. eapply exec_end_sound. eassumption.
    + eapply Hstop; eassumption.
Qed.

Definition rpst0 (c0 : cfg val arg) : rpst := {| rs_cfg := c0; rs_lab := []; rs_rho := []; rs_last := [] |}.

(** THE TIE: the labels [replay] went through are an execution of the skeleton semantics from [c0] *)
Theorem replay_sound c0 its s' err :
  replay its (rpst0 c0) = (s', err) -> exec wfun sk false c0 (rev (rs_lab s')) (rs_cfg s').
Proof. intro E. eapply (replay_ok c0 its (rpst0 c0)); [|eassumption]. apply exec_nil. Qed.

(** the invocations and responses of the model execution are EXACTLY the logged ones: same threads, same
    methods, same order (so the history the linearizability theorem speaks about is the logged history) *)
Definition item_io (it : item) : list (tid * option nat) :=
  match it with IBegin t m => [(t, Some m)] | IEnd t => [(t, None)] | _ => [] end.

Definition label_io (l : label val arg) : list (tid * option nat) :=
  match l with LBegin t o => [(t, Some (o_meth o))] | LEnd t _ _ => [(t, None)] | LEv _ _ => [] end.

Definition labs_io (acc : list (label val arg)) : list (tid * option nat) := flat_map label_io (rev acc).

Lemma labs_io_cons l acc : labs_io (l :: acc) = labs_io acc ++ label_io l.
Proof. unfold labs_io. simpl. rewrite flat_map_app. simpl. rewrite app_nil_r. reflexivity. Qed.

Lemma exec_dups_io fuel e t : forall c acc c' acc',
  exec_dups fuel e t c acc = (c', acc') -> labs_io acc' = labs_io acc.
Proof.
  induction fuel as [|f IH]; simpl; intros c acc c' acc' E.
  - inversion E; reflexivity.
  - destruct (c_thr c t) as [r|]; [|inversion E; reflexivity].
    destruct (r_todo r) as [|e' rest]; [inversion E; reflexivity|].
    destruct (event_eqb e e'); [|inversion E; reflexivity].
    destruct (exec_ev c t) as [[e'' c1]|]; [|inversion E; reflexivity].
    rewrite (IH _ _ _ _ E). rewrite labs_io_cons. simpl. apply app_nil_r.
Qed.

Lemma replay_io its : forall s s',
  replay its s = (s', None) -> labs_io (rs_lab s') = labs_io (rs_lab s) ++ flat_map item_io its.
Proof.
  induction its as [|it rest IH]; intros s s' E; simpl in E.
  - inversion E; subst. rewrite app_nil_r. reflexivity.
  - assert (Hlow : forall t : tid, item_io it = [] ->
      (if same_item (last_get t (rs_last s)) it then replay rest s
       else match c_thr (rs_cfg s) t with
            | None => (s, Some (RIdle t))
            | Some r =>
                match r_todo r with
                | [] => (s, Some (RIdle t))
                | e :: _ =>
                    match gmatch (rs_cfg s) r (rs_rho s) e it with
                    | None => (s, Some (RMismatch t e))
                    | Some rho' =>
                        match exec_ev (rs_cfg s) t with
                        | None => (s, Some (RDisabled t e))
                        | Some (e', c1) =>
                            if stutterable e then
                              let '(c2, lab2) := exec_dups (length (r_todo r)) e t c1 (LEv t e' :: rs_lab s) in
                              replay rest {| rs_cfg := c2; rs_lab := lab2; rs_rho := rho';
                                             rs_last := last_set t (Some it) (rs_last s) |}
                            else
                              replay rest {| rs_cfg := c1; rs_lab := LEv t e' :: rs_lab s; rs_rho := rho';
                                             rs_last := last_set t None (rs_last s) |}
                        end
                    end
                end
            end) = (s', None) ->
      labs_io (rs_lab s') = labs_io (rs_lab s) ++ flat_map item_io (it :: rest)).
    { intros t Hio E'. simpl. rewrite Hio. simpl.
      destruct (same_item (last_get t (rs_last s)) it); [apply IH; assumption|].
      destruct (c_thr (rs_cfg s) t) as [r|]; [|discriminate].
      destruct (r_todo r) as [|e tl]; [discriminate|].
      destruct (gmatch (rs_cfg s) r (rs_rho s) e it) as [rho'|]; [|discriminate].
      destruct (exec_ev (rs_cfg s) t) as [[e' c1]|]; [|discriminate].
      destruct (stutterable e).
      - destruct (exec_dups (length (e :: tl)) e t c1 (LEv t e' :: rs_lab s)) as [c2 lab2] eqn:D.
        rewrite (IH _ _ E'). simpl. rewrite (exec_dups_io _ _ _ _ _ _ _ D). rewrite labs_io_cons. simpl.
        rewrite app_nil_r. reflexivity.
      - rewrite (IH _ _ E'). simpl. rewrite labs_io_cons. simpl. rewrite app_nil_r. reflexivity. }
    destruct it as [t meth|t|t e|t v o|t v o|t o w|t o1 o2|t]; simpl in E;
      try (apply (Hlow _ eq_refl E)).
    + destruct (op_items t rest) as [mine whole].
      destruct (find_path 0 (nth meth (sk_meths sk) []) mine whole) as [i|]; [|discriminate].
      destruct (exec_begin (rs_cfg s) t (mk_op meth i a0)) as [c'|]; [|discriminate].
      rewrite (IH _ _ E). simpl. rewrite labs_io_cons. simpl. rewrite <- app_assoc. reflexivity.
    + destruct (exec_end (rs_cfg s) t) as [[l c']|] eqn:X; [|discriminate].
      rewrite (IH _ _ E). simpl. rewrite labs_io_cons.
      unfold exec_end in X. destruct (c_thr (rs_cfg s) t) as [r|]; [|discriminate].
      destruct (r_todo r); [|discriminate]. inversion X; subst. simpl. rewrite <- app_assoc. reflexivity.
    + discriminate.
Qed.

Theorem replay_history c0 its s' :
  replay its (rpst0 c0) = (s', None) -> flat_map label_io (rev (rs_lab s')) = flat_map item_io its.
Proof. intro E. apply replay_io in E. exact E. Qed.

(** ... hence, for a skeleton that passes the check, everything the theorems promise holds of the run that was
    replayed: the configuration reached is no crash and no race, and the run has a linearization *)
Corollary replay_run_safe K c0 its s' err :
  wf_skel K sk = true -> initial c0 -> replay its (rpst0 c0) = (s', err) ->
  ~ bad (rs_cfg s') /\ ~ var_race (rs_cfg s') /\ ~ obj_race (rs_cfg s') /\
  exists σ pl tr ph,
    lin wfun sk false c0 (rev (rs_lab s')) (rs_cfg s') σ pl tr /\
    seq_hist wfun sk (abs_of c0) (lins tr) σ /\
    wb (fun _ => PIdle) tr ph /\
    io_marks tr = io_labels (rev (rs_lab s')).
Proof.
  intros W Hi E. pose proof (replay_sound c0 its s' err E) as X.
  assert (R : reach wfun sk false (rs_cfg s')) by (eapply exec_reach; eassumption).
  split; [eapply g_no_crash; eassumption|].
  destruct (g_race_free val arg wfun sk false K W _ R) as [R1 R2].
  split; [assumption|]. split; [assumption|].
  eapply g_linearizable; eassumption.
Qed.

(** after a run that the controller reports as a deadlock: no thread of the model can move either *)
Definition model_stuck (c : cfg val arg) (ts : list tid) : bool :=
  existsb (fun t => match c_thr c t with Some _ => true | None => false end) ts &&
  forallb (fun t => match c_thr c t with
                    | Some r => match exec_ev c t with None => negb (is_nil (r_todo r)) | Some _ => false end
                    | None => true
                    end) ts.

End Replay.

Arguments exec_ev {val arg}. Arguments exec_begin {val arg}. Arguments exec_end {val arg}.
Arguments replay {val arg}. Arguments rpst0 {val arg}. Arguments rs_cfg {val arg}. Arguments rs_lab {val arg}.
Arguments rs_rho {val arg}. Arguments model_stuck {val arg}. Arguments label_io {val arg}.

(** the instance the check evaluates: contents are irrelevant ([unit]); every pointer field starts at an allocated object *)
Definition cfg0 : cfg unit unit :=
  {| c_lk := fun _ => LShared []; c_val := fun _ => tt; c_ptr := fun p => Nat.min p 15; c_heap := fun _ => tt;
     c_next := 16; c_thr := fun _ => None |}.

Lemma cfg0_initial : initial cfg0.
Proof. repeat split; simpl; intros; lia. Qed.

Definition wf1 : op unit -> nat -> list unit -> unit := fun _ _ _ => tt.

(* ------------------------------------------------------------------ happens-before race detection on the items *)

Definition vc := list nat.

Fixpoint vc_get (t : nat) (v : vc) : nat :=
  match v, t with
  | [], _ => 0
  | x :: _, 0 => x
  | _ :: r, S t' => vc_get t' r
  end.

Fixpoint vc_set (t : nat) (n : nat) (v : vc) : vc :=
  match t, v with
  | 0, [] => [n]
  | 0, _ :: r => n :: r
  | S t', [] => 0 :: vc_set t' n []
  | S t', x :: r => x :: vc_set t' n r
  end.

Fixpoint vc_join (a b : vc) : vc :=
  match a, b with
  | [], _ => b
  | _, [] => a
  | x :: r, y :: s => Nat.max x y :: vc_join r s
  end.

Definition amap (A : Type) := list (nat * A).

Fixpoint aget {A} (d : A) (k : nat) (m : amap A) : A :=
  match m with
  | [] => d
  | (k', v) :: r => if k =? k' then v else aget d k r
  end.

Definition aset {A} (k : nat) (v : A) (m : amap A) : amap A := (k, v) :: filter (fun p => negb (fst p =? k)) m.

(** a location: guarded field [inl v] or object [inr o] *)
Definition loc_eqb (a b : nat + nat) : bool :=
  match a, b with
  | inl x, inl y | inr x, inr y => x =? y
  | _, _ => false
  end.

Record acc := { a_loc : nat + nat; a_w : bool; a_t : tid; a_vc : vc; a_pos : nat }.

Record hb := {
  hb_c : amap vc;        (* thread -> clock *)
  hb_lw : amap vc;       (* mutex -> clock of the last Unlock *)
  hb_lr : amap vc;       (* mutex -> join of the clocks of the RUnlocks *)
  hb_acc : list acc
}.

Definition clock_of (h : hb) (t : tid) : vc := aget (vc_set t 1 []) t (hb_c h).

Definition tick (t : tid) (v : vc) : vc := vc_set t (S (vc_get t v)) v.

Definition hb_item (h : hb) (pos : nat) (it : item) : hb :=
  let t := item_tid it in
  let ct := clock_of h t in
  let access l w := {| hb_c := hb_c h; hb_lw := hb_lw h; hb_lr := hb_lr h;
                       hb_acc := {| a_loc := l; a_w := w; a_t := t; a_vc := ct; a_pos := pos |} :: hb_acc h |} in
  match it with
  | ILk _ (ELock m) =>
      {| hb_c := aset t (vc_join ct (vc_join (aget [] m (hb_lw h)) (aget [] m (hb_lr h)))) (hb_c h);
         hb_lw := hb_lw h; hb_lr := hb_lr h; hb_acc := hb_acc h |}
  | ILk _ (ERLock m) =>
      {| hb_c := aset t (vc_join ct (aget [] m (hb_lw h))) (hb_c h);
         hb_lw := hb_lw h; hb_lr := hb_lr h; hb_acc := hb_acc h |}
  | ILk _ (EUnlock m) =>
      {| hb_c := aset t (tick t ct) (hb_c h); hb_lw := aset m ct (hb_lw h); hb_lr := hb_lr h; hb_acc := hb_acc h |}
  | ILk _ (ERUnlock m) =>
      {| hb_c := aset t (tick t ct) (hb_c h); hb_lw := hb_lw h;
         hb_lr := aset m (vc_join ct (aget [] m (hb_lr h))) (hb_lr h); hb_acc := hb_acc h |}
  | IGet _ v _ => access (inl v) false
  | IPut _ v _ => access (inl v) true
  | IObj _ o w => access (inr o) w
  | IClone _ o' o =>
      let h1 := access (inr o) false in
      {| hb_c := hb_c h1; hb_lw := hb_lw h1; hb_lr := hb_lr h1;
         hb_acc := {| a_loc := inr o'; a_w := true; a_t := t; a_vc := ct; a_pos := pos |} :: hb_acc h1 |}
  | _ => h
  end.

Fixpoint hb_run (h : hb) (pos : nat) (its : list item) : hb :=
  match its with
  | [] => h
  | it :: r => hb_run (hb_item h pos it) (S pos) r
  end.

(** [a] was logged before [b]: they race unless [a] happens before [b] *)
Definition races (a b : acc) : bool :=
  loc_eqb (a_loc a) (a_loc b) && negb (a_t a =? a_t b) && (a_w a || a_w b) &&
  negb (vc_get (a_t a) (a_vc a) <=? vc_get (a_t a) (a_vc b)).

Fixpoint race_pairs (l : list acc) : list (nat * nat) :=   (* [l]: latest first *)
  match l with
  | [] => []
  | b :: r => map (fun a => (a_pos a, a_pos b)) (filter (fun a => races a b) r) ++ race_pairs r
  end.

(** positions (in the item list) of the pairs of conflicting accesses not ordered by happens-before *)
Definition hb_races (its : list item) : list (nat * nat) :=
  race_pairs (hb_acc (hb_run {| hb_c := []; hb_lw := []; hb_lr := []; hb_acc := [] |} 0 its)).

Definition hb_race_free (its : list item) : bool := is_nil (hb_races its).

(** regression examples of the detector (the shapes of the seeded change C07-9 and of the code as it is) *)

(** a lookup that releases the read lock before the walk, against a delete that mutates the published tree
    in place under the write lock: the walk and the mutation are not ordered *)
Example hb_detects_unlocked_walk :
  hb_races [IBegin 2 0; ILk 2 (ERLock 1); IGet 2 2 1; ILk 2 (ERUnlock 1);
            IBegin 0 3; ILk 0 (ELock 0); IGet 0 1 0; ILk 0 (ELock 1); IGet 0 2 1; IObj 0 1 true; ILk 0 (EUnlock 1);
            IPut 0 1 0; ILk 0 (EUnlock 0); IEnd 0;
            IObj 2 1 false; IEnd 2] = [(9, 14)].
Proof. vm_compute. reflexivity. Qed.

(** copy-on-write: the clone is written while private, published under the write lock, walked under the read lock *)
Example hb_accepts_copy_on_write :
  hb_race_free [IBegin 1 0; ILk 1 (ERLock 1); IGet 1 2 1; IObj 1 1 false; ILk 1 (ERUnlock 1); IEnd 1;
                IBegin 0 1; ILk 0 (ELock 0); IGet 0 2 1; IClone 0 2 1; IObj 0 2 true; IGet 0 1 0; IPut 0 1 0;
                ILk 0 (ELock 1); IPut 0 2 2; ILk 0 (EUnlock 1); ILk 0 (EUnlock 0); IEnd 0;
                IBegin 1 0; ILk 1 (ERLock 1); IGet 1 2 2; IObj 1 2 false; ILk 1 (ERUnlock 1); IEnd 1] = true.
Proof. vm_compute. reflexivity. Qed.

(** the same without the read lock around the load: the pointer field itself races *)
Example hb_detects_unlocked_load :
  hb_races [IBegin 0 1; ILk 0 (ELock 0); IGet 0 2 1; IClone 0 2 1; ILk 0 (ELock 1); IPut 0 2 2; ILk 0 (EUnlock 1);
            ILk 0 (EUnlock 0); IEnd 0;
            IBegin 1 0; IGet 1 2 2; IObj 1 2 false; IEnd 1] <> [].
Proof. vm_compute. discriminate. Qed.

(** non-vacuity of the tie inside Coq: a hand-written log of the accepted example skeleton (method 0 = lookup,
    1 = add; a lookup overlapping an add whose loop ran twice - the second [IObj] is a stutter -, then a lookup that
    sees the published clone) is replayed WITHOUT error, all of it, and ends with both threads idle ... *)
Definition ex_log : list item :=
  [IBegin 0 1; ILk 0 (ELock 0); IGet 0 1 1; IClone 0 2 1; IObj 0 2 true; IObj 0 2 true;
   IBegin 1 0; ILk 1 (ERLock 1); IGet 1 1 1; IObj 1 1 false; ILk 1 (ERUnlock 1); IEnd 1;
   IGet 0 0 0; IPut 0 0 0; ILk 0 (ELock 1); IPut 0 1 2; ILk 0 (EUnlock 1); ILk 0 (EUnlock 0); IEnd 0;
   IBegin 1 0; ILk 1 (ERLock 1); IGet 1 1 2; IObj 1 2 false; ILk 1 (ERUnlock 1); IEnd 1].

Definition ex_sk : skel := ex_skel (ex_add true false false).

Example ex_log_replays :
  let r := replay wf1 ex_sk tt ex_log (rpst0 cfg0) in
  snd r = None /\ c_thr (rs_cfg (fst r)) 0 = None /\ c_thr (rs_cfg (fst r)) 1 = None /\
  length (rs_lab (fst r)) = 24 /\ hb_race_free ex_log = true.
Proof. vm_compute. repeat split; reflexivity. Qed.

(** ... a log in which the reader finds the clone BEFORE it was published is refused (other object than the model's) *)
Example ex_log_wrong_object_refused :
  snd (replay wf1 ex_sk tt
         [IBegin 0 1; ILk 0 (ELock 0); IGet 0 1 1; IClone 0 2 1;
          IBegin 1 0; ILk 1 (ERLock 1); IGet 1 1 2] (rpst0 cfg0)) = Some (RMismatch 1 (ELoad 0 1)).
Proof. vm_compute. reflexivity. Qed.

(** ... and so the shaped hypotheses of the property theorems are met by a concrete execution of a skeleton
    that passes the check: three completed operations of two threads, the second lookup invoked after the add
    returned ([C07_real_time_order]), nobody in flight at the end ([C07_no_lost_update]) *)
Example ex_execution_witness :
  wf_skel 0 ex_sk = true /\
  exists ls c,
    exec wf1 ex_sk false cfg0 ls c /\
    flat_map label_io ls = [(0, Some 1); (1, Some 0); (1, None); (0, None); (1, Some 0); (1, None)] /\
    c_thr c 0 = None /\ c_thr c 1 = None.
Proof.
  split; [exact ex_good|].
  pose (r := replay wf1 ex_sk tt ex_log (rpst0 cfg0)).
  exists (rev (rs_lab (fst r))), (rs_cfg (fst r)).
  split.
  - apply (replay_sound unit unit wf1 ex_sk tt cfg0 ex_log (fst r) (snd r)). unfold r.
    destruct (replay wf1 ex_sk tt ex_log (rpst0 cfg0)); reflexivity.
  - vm_compute. repeat split; reflexivity.
Qed.
