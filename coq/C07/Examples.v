(** * C07/Examples.v — the boolean check at work on hand-written skeletons, and a
    witness that its hypothesis is needed: a skeleton that stores the tree
    pointer without the tree lock reaches a data race in the semantics. *)
From HV Require Import Base.Prelude Base.Locks C07.Model.

(** locks: 0 = writer lock K, 1 = tree lock T; fields: 0 = known (plain), 1 = index (pointer) *)
Definition ex_rank (m : lock) : nat := match m with 0 => 1 | 1 => 2 | _ => 0 end.

Definition ex_find : list stmt :=
  [SEv (ERLock 1); SDefer (ERUnlock 1); SEv (ELoad 0 1); SEv (EObjRead 0); SReturn].

Definition ex_add (lock_tree clone_first in_place : bool) : list stmt :=
  (if clone_first then [SEv (ERLock 1); SEv (ELoad 0 1); SEv (EClone 1 0); SEv (ERUnlock 1)] else []) ++
  [SEv (ELock 0); SDefer (EUnlock 0)] ++
  (if clone_first then [] else if in_place then [SEv (ELoad 1 1)] else [SEv (ELoad 0 1); SEv (EClone 1 0)]) ++
  [SLoop [SEv (EObjWrite 1); SIf [SReturn] []];
   SEv (ERead 0); SEv (EWrite 0)] ++
  (if lock_tree then [SEv (ELock 1); SEv (EStore 1 1); SEv (EUnlock 1)] else [SEv (EStore 1 1)]) ++
  [SReturn].

Definition ex_skel (a : list stmt) : skel :=
  {| sk_meths := map method_paths [ex_find; a]; sk_rank := ex_rank; sk_bound := 2 |}.

(** the pattern of the repository passes *)
Example ex_good : wf_skel 0 (ex_skel (ex_add true false false)) = true.
Proof. vm_compute. reflexivity. Qed.

(** swap without the tree lock: rejected (lockset) *)
Example ex_no_tree_lock : wf_locks (ex_skel (ex_add false false false)) = false.
Proof. vm_compute. reflexivity. Qed.

(** clone taken before the writer lock: lock discipline fine, atomicity rejected (lost update) *)
Example ex_clone_first :
  wf_locks (ex_skel (ex_add true true false)) = true /\ wf_cow 0 (ex_skel (ex_add true true false)) = false.
Proof. vm_compute. split; reflexivity. Qed.

(** mutation of the published tree in place: rejected (ownership) *)
Example ex_in_place : wf_locks (ex_skel (ex_add true false true)) = false.
Proof. vm_compute. reflexivity. Qed.

(** r.knownRules updated AFTER the swap, still under the writer lock: accepted
    (the store is the linearization point; the plain field catches up before the lock is released) *)
Example ex_late_bookkeeping :
  wf_skel 0 (ex_skel [SEv (ELock 0); SDefer (EUnlock 0); SEv (ELoad 0 1); SEv (EClone 1 0); SEv (EObjWrite 1);
                      SEv (ELock 1); SEv (EStore 1 1); SEv (EUnlock 1); SEv (ERead 0); SEv (EWrite 0); SReturn]) = true.
Proof. vm_compute. reflexivity. Qed.

(** ... but not after the writer lock has been released, and no second look at the pointer *)
Example ex_late_outside :
  wf_cow 0 (ex_skel [SEv (ELock 0); SEv (ELoad 0 1); SEv (EClone 1 0); SEv (EObjWrite 1);
                     SEv (ELock 1); SEv (EStore 1 1); SEv (EUnlock 1); SEv (EUnlock 0);
                     SEv (ELock 0); SEv (ERead 0); SEv (EWrite 0); SEv (EUnlock 0)]) = false /\
  wf_cow 0 (ex_skel [SEv (ELock 0); SDefer (EUnlock 0); SEv (ELoad 0 1); SEv (EClone 1 0); SEv (EObjWrite 1);
                     SEv (ELock 1); SEv (EStore 1 1); SEv (EUnlock 1); SEv (ELoad 2 1)]) = false.
Proof. vm_compute. split; reflexivity. Qed.

(** tree lock taken before the writer lock in one method: rejected (lock order) *)
Example ex_lock_order :
  wf_locks (ex_skel [SEv (ELock 1); SEv (ELock 0); SEv (ELoad 0 1); SEv (EClone 1 0); SEv (EStore 1 1);
                     SEv (EUnlock 0); SEv (EUnlock 1)]) = false.
Proof. vm_compute. reflexivity. Qed.

(** a lock that is not released on the early-return path: rejected *)
Example ex_leak :
  wf_locks (ex_skel [SEv (ELock 0); SEv (ELoad 0 1); SEv (EClone 1 0); SIf [SReturn] [];
                     SEv (ELock 1); SEv (EStore 1 1); SEv (EUnlock 1); SEv (EUnlock 0)]) = false.
Proof. vm_compute. reflexivity. Qed.

(** *** the check is not idle: without it the theorem is false.

    Skeleton: a reader that loads the pointer under no lock, a writer that
    clones and stores under no lock.  Two threads reach a configuration in
    which both are about to access the pointer field, one of them writing. *)
Definition racy : skel :=
  {| sk_meths := [[[ELoad 0 0]]; [[ELoad 0 0; EClone 1 0; EStore 0 1]]]; sk_rank := fun _ => 0; sk_bound := 0 |}.

Example racy_rejected : wf_locks racy = false.
Proof. vm_compute. reflexivity. Qed.

Definition wf0 : op unit -> nat -> list nat -> nat := fun _ _ _ => 0.

Definition c_init : cfg nat unit :=
  {| c_lk := fun _ => LShared []; c_val := fun _ => 0; c_ptr := fun _ => 0; c_heap := fun _ => 0; c_next := 1;
     c_thr := fun _ => None |}.

Theorem racy_races : exists c, reach wf0 racy false c /\ var_race c.
Proof.
  pose (o_r := {| o_meth := 0; o_path := 0; o_arg := tt |}).
  pose (o_w := {| o_meth := 1; o_path := 0; o_arg := tt |}).
  assert (R0 : reach wf0 racy false c_init).
  { apply reach_init. repeat split; intros; simpl; auto. }
  assert (R1 : exists c, reach wf0 racy false c /\
             c_thr c 0 = Some {| r_op := o_r; r_done := []; r_todo := [ELoad 0 0]; r_loc := fun _ => None; r_log := [] |} /\
             c_thr c 1 = None /\ c_next c = 1 /\ c_ptr c = (fun _ => 0)).
  { eexists. split; [eapply reach_step; [exact R0|]; apply (@step_begin _ _ wf0 racy false c_init 0 o_r [ELoad 0 0]); reflexivity|].
    repeat split. }
  destruct R1 as (c1 & Rc1 & T0 & T1 & N1 & P1).
  assert (R2 : exists c, reach wf0 racy false c /\
             c_thr c 0 = Some {| r_op := o_r; r_done := []; r_todo := [ELoad 0 0]; r_loc := fun _ => None; r_log := [] |} /\
             c_thr c 1 = Some {| r_op := o_w; r_done := []; r_todo := [ELoad 0 0; EClone 1 0; EStore 0 1];
                                 r_loc := fun _ => None; r_log := [] |}).
  { eexists. split; [eapply reach_step; [exact Rc1|]; apply (@step_begin _ _ wf0 racy false c1 1 o_w [ELoad 0 0; EClone 1 0; EStore 0 1] T1); reflexivity|].
    simpl. split; [rewrite upd_other by discriminate; exact T0|apply upd_same]. }
  destruct R2 as (c2 & Rc2 & T0' & T1').
  (* the writer loads and clones *)
  assert (R3 : exists c r, reach wf0 racy false c /\
             c_thr c 0 = Some {| r_op := o_r; r_done := []; r_todo := [ELoad 0 0]; r_loc := fun _ => None; r_log := [] |} /\
             c_thr c 1 = Some r /\ r_todo r = [EClone 1 0; EStore 0 1] /\ r_loc r 0 = Some (c_ptr c2 0)).
  { eexists. eexists. split; [eapply reach_step; [exact Rc2|]; eapply step_ev; [exact T1'|reflexivity|apply st_load]|].
    simpl. split; [rewrite upd_other by discriminate; exact T0'|]. split; [apply upd_same|]. split; reflexivity. }
  destruct R3 as (c3 & r3 & Rc3 & T0'' & T1'' & Td3 & L3).
  assert (R4 : exists c r, reach wf0 racy false c /\
             c_thr c 0 = Some {| r_op := o_r; r_done := []; r_todo := [ELoad 0 0]; r_loc := fun _ => None; r_log := [] |} /\
             c_thr c 1 = Some r /\ r_todo r = [EStore 0 1]).
  { eexists. eexists. split; [eapply reach_step; [exact Rc3|]; eapply step_ev; [exact T1''|exact Td3|eapply st_clone; exact L3]|].
    simpl. split; [rewrite upd_other by discriminate; exact T0''|]. split; [apply upd_same|]. reflexivity. }
  destruct R4 as (c4 & r4 & Rc4 & A0 & A1 & Td4).
  exists c4. split; [exact Rc4|].
  eexists 0, 1, _, r4, (ELoad 0 0), (EStore 0 1), [], [], 0, false, true.
  repeat split; try eassumption; try reflexivity. discriminate.
Qed.

Lemma check_is_needed :
  exists (sk : skel) (c : cfg nat unit),
    wf_locks sk = false /\ reach wf0 sk false c /\ var_race c.
Proof.
  destruct racy_races as (c & Hr & Hrace). exists racy, c. split; [exact racy_rejected|]. split; assumption.
Qed.
