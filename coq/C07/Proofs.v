(** * C07/Proofs.v — proofs for the rule repository's concurrency discipline.

    Part 1: the lock-discipline theorems of [Base/Locks.v] restated for
    [wf_skel] and instantiated for the regenerated skeleton [repo_skel]. *)
From HV Require Import Base.Prelude Base.Locks C07.Model.

Lemma wf_skel_locks K sk : wf_skel K sk = true -> wf_locks sk = true.
Proof. unfold wf_skel. intro H. apply andb_true_iff in H. tauto. Qed.

Lemma wf_skel_cow K sk : wf_skel K sk = true -> wf_cow K sk = true.
Proof. unfold wf_skel. intro H. apply andb_true_iff in H. tauto. Qed.

Section General.
Variables (val arg : Type) (wfun : op arg -> nat -> list val -> val) (sk : skel) (wp : bool) (K : lock).
Hypothesis WF : wf_skel K sk = true.

Lemma g_no_crash (c : cfg val arg) : reach wfun sk wp c -> ~ bad c.
Proof. apply no_bad. eapply wf_skel_locks; eassumption. Qed.

Lemma g_race_free (c : cfg val arg) : reach wfun sk wp c -> ~ var_race c /\ ~ obj_race c.
Proof. apply race_free. eapply wf_skel_locks; eassumption. Qed.

Lemma g_mutex (c : cfg val arg) t1 t2 m x :
  reach wfun sk wp c -> In (m, true) (hold c t1) -> In (m, x) (hold c t2) -> t1 = t2.
Proof. apply mutual_exclusion. eapply wf_skel_locks; eassumption. Qed.

Lemma g_deadlock_free (c : cfg val arg) :
  reach wfun sk wp c -> (exists t r, c_thr c t = Some r) -> progress wfun sk wp c.
Proof. apply deadlock_free. eapply wf_skel_locks; eassumption. Qed.

End General.

(** Part 2: linearizability (proved in [C07/Lin.v]) in the form used by [Properties/C07.v]. *)
From HV Require Import C07.Lin.

Section General2.
Variables (val arg : Type) (wfun : op arg -> nat -> list val -> val) (sk : skel) (wp : bool) (K : lock).
Hypothesis WF : wf_skel K sk = true.

Lemma g_linearizable (c0 : cfg val arg) ls c :
  initial c0 -> exec wfun sk wp c0 ls c ->
  exists σ pl tr ph,
    lin wfun sk wp c0 ls c σ pl tr /\
    seq_hist wfun sk (abs_of c0) (lins tr) σ /\
    wb (fun _ => PIdle) tr ph /\
    io_marks tr = io_labels ls.
Proof.
  intros Hi He. destruct (lin_total val arg wfun sk wp K WF c0 ls c Hi He) as (σ & pl & tr & L).
  destruct (lin_wb val arg wfun sk wp K WF _ _ _ _ _ _ Hi L) as (ph & Hwb & _).
  exists σ, pl, tr, ph. repeat split; auto.
  - eapply lin_hist; eassumption.
  - eapply lin_io; eassumption.
Qed.

Lemma g_committed (c0 : cfg val arg) ls c t o log :
  initial c0 -> exec wfun sk wp c0 ls c -> In (LEnd t o log) ls ->
  exists H H1 H2 s s1 s2,
    seq_hist wfun sk (abs_of c0) H s /\ H = H1 ++ (t, o, log) :: H2 /\
    seq_hist wfun sk (abs_of c0) H1 s1 /\ seq_run wfun sk o s1 = Some (s2, log).
Proof. apply (completed_ops_atomic val arg wfun sk wp K WF). Qed.

Lemma g_no_lost_update (c0 : cfg val arg) ls c :
  initial c0 -> exec wfun sk wp c0 ls c -> (forall t, c_thr c t = None) ->
  exists H σ,
    seq_hist wfun sk (abs_of c0) H σ /\
    (forall t o log, In (LEnd t o log) ls -> In (t, o, log) H) /\
    (forall v, c_val c v = s_val σ v) /\ (forall p, c_heap c (c_ptr c p) = s_pub σ p).
Proof.
  intros Hi He Hq. destruct (lin_total val arg wfun sk wp K WF c0 ls c Hi He) as (σ & pl & tr & L).
  destruct (lin_wb val arg wfun sk wp K WF _ _ _ _ _ _ Hi L) as (ph & Hwb & _).
  destruct (lin_quiescent val arg wfun sk wp K WF _ _ _ _ _ _ Hi L Hq) as [Hv Hp].
  exists (lins tr), σ. repeat split; auto.
  - eapply lin_hist; eassumption.
  - intros t o log Hin.
    assert (X : In (MRes t o log) (io_labels ls)).
    { unfold io_labels. apply in_flat_map. exists (LEnd t o log). split; [assumption|left; reflexivity]. }
    rewrite <- (lin_io _ _ _ _ _ _ _ _ _ _ _ L) in X. unfold io_marks in X. apply filter_In in X as [X _].
    pose proof (wb_res_lin val arg _ _ _ Hwb [] (fun t0 o0 log0 (E : PIdle = PLin o0 log0) => match E with end) t o log X) as Y.
    exact Y.
Qed.

Lemma g_seq_total (o : op arg) path (s : sstate val) :
  path_of sk o = Some path -> exists s' log, seq_run wfun sk o s = Some (s', log).
Proof. apply (seq_run_total val arg wfun sk K WF). Qed.

End General2.

Section General3.
Variables (val arg : Type) (wfun : op arg -> nat -> list val -> val) (sk : skel) (wp : bool) (K : lock).
Hypothesis WF : wf_skel K sk = true.

Lemma g_real_time (c0 c : cfg val arg) la t1 o1 log1 lb t2 o2 ld log2 le :
  initial c0 ->
  exec wfun sk wp c0 (la ++ LEnd t1 o1 log1 :: lb ++ LBegin t2 o2 :: ld ++ LEnd t2 o2 log2 :: le) c ->
  Forall (other_thread t2) ld ->
  exists H Ha Hm Hb s,
    seq_hist wfun sk (abs_of c0) H s /\ H = Ha ++ (t1, o1, log1) :: Hm ++ (t2, o2, log2) :: Hb.
Proof. apply (real_time_order val arg wfun sk wp K WF). Qed.

End General3.
