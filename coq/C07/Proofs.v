(** * C07/Proofs.v — proofs for the rule repository's concurrency discipline.

    Part 1: the lock-discipline theorems of [Base/Locks.v] restated for
    [wf_skel] and instantiated for the regenerated skeleton [repo_skel]. *)
From HV Require Import Base.Prelude Base.Locks C07.Model.

Lemma wf_skel_locks K sk : wf_skel K sk = true -> wf_locks sk = true.
Proof. unfold wf_skel. intro H. apply andb_true_iff in H. tauto. Qed.

Lemma wf_skel_cow K sk : wf_skel K sk = true -> wf_cow K sk = true.
Proof. unfold wf_skel. intro H. apply andb_true_iff in H. tauto. Qed.

Section General.
Variables (val arg : Type) (wfun : op arg -> nat -> list val -> val) (sk : skel) (wp : bool) (K : lock).
Hypothesis WF : wf_skel K sk = true.

Lemma g_no_crash (c : cfg val arg) : reach wfun sk wp c -> ~ bad c.
Proof. apply no_bad. eapply wf_skel_locks; eassumption. Qed.

Lemma g_race_free (c : cfg val arg) : reach wfun sk wp c -> ~ var_race c /\ ~ obj_race c.
Proof. apply race_free. eapply wf_skel_locks; eassumption. Qed.

Lemma g_mutex (c : cfg val arg) t1 t2 m x :
  reach wfun sk wp c -> In (m, true) (hold c t1) -> In (m, x) (hold c t2) -> t1 = t2.
Proof. apply mutual_exclusion. eapply wf_skel_locks; eassumption. Qed.

Lemma g_deadlock_free (c : cfg val arg) :
  reach wfun sk wp c -> (exists t r, c_thr c t = Some r) -> progress wfun sk wp c.
Proof. apply deadlock_free. eapply wf_skel_locks; eassumption. Qed.

End General.
