(** * C07/Proofs.v — proofs for the rule repository's concurrency discipline.

    Part 1: the lock-discipline theorems of [Base/Locks.v] restated for
    [wf_skel] and instantiated for the regenerated skeleton [repo_skel]. *)
From HV Require Import Base.Prelude Base.Locks C07.Model.

Lemma wf_skel_locks K sk : wf_skel K sk = true -> wf_locks sk = true.
Proof. unfold wf_skel. intro H. apply andb_true_iff in H. tauto. Qed.

Lemma wf_skel_cow K sk : wf_skel K sk = true -> wf_cow K sk = true.
Proof. unfold wf_skel. intro H. apply andb_true_iff in H. tauto. Qed.

Section General.
Variables (val arg : Type) (wfun : op arg -> nat -> list val -> val) (sk : skel) (wp : bool) (K : lock).
Hypothesis WF : wf_skel K sk = true.

Lemma g_no_crash (c : cfg val arg) : reach wfun sk wp c -> ~ bad c.
Proof. apply no_bad. eapply wf_skel_locks; eassumption. Qed.

Lemma g_race_free (c : cfg val arg) : reach wfun sk wp c -> ~ var_race c /\ ~ obj_race c.
Proof. apply race_free. eapply wf_skel_locks; eassumption. Qed.

Lemma g_mutex (c : cfg val arg) t1 t2 m x :
  reach wfun sk wp c -> In (m, true) (hold c t1) -> In (m, x) (hold c t2) -> t1 = t2.
Proof. apply mutual_exclusion. eapply wf_skel_locks; eassumption. Qed.

Lemma g_deadlock_free (c : cfg val arg) :
  reach wfun sk wp c -> (exists t r, c_thr c t = Some r) -> progress wfun sk wp c.
Proof. apply deadlock_free. eapply wf_skel_locks; eassumption. Qed.

End General.

(** Part 2: linearizability (proved in [C07/Lin.v]) in the form used by [Properties/C07.v]. *)
From HV Require Import C07.Lin.

Section General2.
Variables (val arg : Type) (wfun : op arg -> nat -> list val -> val) (sk : skel) (wp : bool) (K : lock).
Hypothesis WF : wf_skel K sk = true.

Lemma g_linearizable (c0 : cfg val arg) ls c :
  initial c0 -> exec wfun sk wp c0 ls c ->
  exists σ pl tr ph,
    lin wfun sk wp c0 ls c σ pl tr /\
    seq_hist wfun sk (abs_of c0) (lins tr) σ /\
    wb (fun _ => PIdle) tr ph /\
    io_marks tr = io_labels ls.
Proof.
  intros Hi He. destruct (lin_total val arg wfun sk wp K WF c0 ls c Hi He) as (σ & pl & tr & L).
  destruct (lin_wb val arg wfun sk wp K WF _ _ _ _ _ _ Hi L) as (ph & Hwb & _).
  exists σ, pl, tr, ph. repeat split; auto.
  - eapply lin_hist; eassumption.
  - eapply lin_io; eassumption.
Qed.

(** the sequential history of an annotated execution consists of the execution's own operations *)
Lemma g_history_is_execution (c0 : cfg val arg) ls c σ pl tr :
  initial c0 -> lin wfun sk wp c0 ls c σ pl tr ->
  (forall t o log, In (t, o, log) (lins tr) -> In (LBegin t o) ls) /\
  (forall t, exists extra,
     thread_hist t (lins tr) = thread_returns t ls ++ extra /\ length extra <= 1 /\
     (c_thr c t = None -> extra = [])).
Proof.
  intros Hi L. split.
  - apply (lins_invoked val arg wfun sk wp c0 ls c σ pl tr Hi L).
  - intro t. apply (lin_thread_order val arg wfun sk wp K WF c0 ls c σ pl tr t Hi L).
Qed.

Lemma g_committed (c0 : cfg val arg) ls c σ pl tr t o log :
  initial c0 -> lin wfun sk wp c0 ls c σ pl tr -> In (LEnd t o log) ls ->
  exists H1 H2 s1 s2,
    lins tr = H1 ++ (t, o, log) :: H2 /\
    seq_hist wfun sk (abs_of c0) H1 s1 /\ seq_run wfun sk o s1 = Some (s2, log).
Proof. apply (completed_ops_atomic_lin val arg wfun sk wp K WF). Qed.

Lemma g_no_lost_update (c0 : cfg val arg) ls c σ pl tr :
  initial c0 -> lin wfun sk wp c0 ls c σ pl tr -> (forall t, c_thr c t = None) ->
  seq_hist wfun sk (abs_of c0) (lins tr) σ /\
  (forall t, thread_hist t (lins tr) = thread_returns t ls) /\
  (forall v, c_val c v = s_val σ v) /\ (forall p, c_heap c (c_ptr c p) = s_pub σ p).
Proof.
  intros Hi L Hq.
  destruct (lin_quiescent val arg wfun sk wp K WF _ _ _ _ _ _ Hi L Hq) as [Hv Hp].
  split; [eapply lin_hist; eassumption|]. split; [|split; assumption].
  intro t. destruct (lin_thread_order val arg wfun sk wp K WF c0 ls c σ pl tr t Hi L) as (extra & E & _ & Hx).
  rewrite E, (Hx (Hq t)), app_nil_r. reflexivity.
Qed.

Lemma g_seq_total (o : op arg) path (s : sstate val) :
  path_of sk o = Some path -> exists s' log, seq_run wfun sk o s = Some (s', log).
Proof. apply (seq_run_total val arg wfun sk K WF). Qed.

End General2.

Section General3.
Variables (val arg : Type) (wfun : op arg -> nat -> list val -> val) (sk : skel) (wp : bool) (K : lock).
Hypothesis WF : wf_skel K sk = true.

Lemma g_real_time (c0 c : cfg val arg) σ pl tr la t1 o1 log1 lb t2 o2 ld log2 le :
  initial c0 ->
  lin wfun sk wp c0 (la ++ LEnd t1 o1 log1 :: lb ++ LBegin t2 o2 :: ld ++ LEnd t2 o2 log2 :: le) c σ pl tr ->
  Forall (other_thread t2) ld ->
  exists Ha Hm Hb, lins tr = Ha ++ (t1, o1, log1) :: Hm ++ (t2, o2, log2) :: Hb.
Proof. apply (real_time_order_lin val arg wfun sk wp K WF). Qed.

End General3.
