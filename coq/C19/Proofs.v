(** C19 — specification vocabulary, finding guards and proofs. *)
From HV Require Import Base.Prelude C19.Model.

Ltac splits := repeat match goal with |- _ /\ _ => split end.

(** * Specification (independent of the model functions)

    A reload outcome is acceptable iff the process is still there and, unless
    the component announced a successful reload, the state it serves from is
    the state it had before. *)
Definition spec_reload_ok (st : kstate) (r : reload) : Prop :=
  match r with
  | Reloaded _ => True
  | Kept st' => st' = st
  | ProcessExit _ => False
  end.

Definition spec_rs_ok (st : list string) (r : rs_out) : Prop :=
  match r with
  | RsApplied _ => True
  | RsRejected st' => st' = st
  | RsExit _ => False
  end.

(** an fs event is handled acceptably iff the provider goroutine survives and,
    when an error is returned, the stored hash (hence what is loaded) is unchanged *)
Definition spec_fs_ok (st : option nat) (r : fs_out) : Prop :=
  match r with
  | FsDone x => fr_err x = true -> fr_state x = st
  | FsExit _ => False
  end.

(** * Guards of the recorded findings, on the inputs *)

(** the key store a component gets for an input *)
Definition ks_of (c : comp) (f : fixes) (i : kinput) : res (list entry) :=
  if match c with Tls => i_path_empty i | _ => false end then Err else
  match eff_file f i with
  | None => Err
  | Some bl => create_key_store f (i_chain_ok i) bl
  end.

Definition unsupported (e : entry) : bool := negb (size_ok (e_alg e) (e_size e)).

(** the entry a component selects, when selection does not fail *)
Definition selected (keyid : string) (es : list entry) : option entry :=
  if is_empty keyid then hd_error es else get_key keyid es.

(** the selected entry passes the certificate check of signer / httpsig *)
Definition cert_check_ok (i : kinput) (e : entry) : bool :=
  is_nil (e_chain e) || i_usable i (e_pub e).

(** C19-F1: a key store without any key, and no key_id configured *)
Definition guard_F1 (c : comp) (f : fixes) (i : kinput) : bool :=
  is_empty (i_keyid i) &&
  match ks_of c f i with Ok [] => true | _ => false end.

(** C19-F2: signer / httpsig get a store in which some entry has an unsupported
    size (and selection and the certificate check succeed) *)
Definition guard_F2 (c : comp) (f : fixes) (i : kinput) : bool :=
  match c with
  | Tls => false
  | _ => match ks_of c f i with
         | Ok es => match selected (i_keyid i) es with
                    | Some e => cert_check_ok i e && existsb unsupported es
                    | None => false
                    end
         | _ => false
         end
  end.

(** C19-F5: httpsig selects an ECDSA P-521 key from a store of supported keys *)
Definition guard_F5 (c : comp) (f : fixes) (i : kinput) : bool :=
  match c with
  | HttpSig =>
    negb (fx5 f) &&
    match ks_of c f i with
    | Ok es => match selected (i_keyid i) es with
               | Some e => cert_check_ok i e && negb (existsb unsupported es) &&
                           alg_eqb (e_alg e) ECDSA && Z.eqb (e_size e) 521
               | None => false
               end
    | _ => false
    end
  | _ => false
  end.

(** C19-F6: building the chain of some key does not terminate *)
Definition guard_F6 (c : comp) (f : fixes) (i : kinput) : bool :=
  match ks_of c f i with Panic SChainLoop => true | _ => false end.

(** * Small facts *)

Lemma bind_ok {A B} (r : res A) (g : A -> res B) b :
  bind r g = Ok b -> exists a, r = Ok a /\ g a = Ok b.
Proof. destruct r; simpl; intros H; try discriminate. eauto. Qed.

Lemma bind_panic {A B} (r : res A) (g : A -> res B) s :
  bind r g = Panic s -> r = Panic s \/ exists a, r = Ok a /\ g a = Panic s.
Proof. destruct r; simpl; intros H; try discriminate; eauto. left. congruence. Qed.

Lemma is_empty_true s : is_empty s = true <-> s = EmptyString.
Proof. destruct s; simpl; split; intros; congruence. Qed.

Lemma is_nil_true {A} (l : list A) : is_nil l = true <-> l = [].
Proof. destruct l; simpl; split; intros; congruence. Qed.

(** ** Entry.JWK: panics exactly on unsupported sizes *)
Lemma jose_alg_panic e : (exists s, jose_alg e = Panic s) <-> unsupported e = true.
Proof.
  unfold jose_alg, unsupported, size_ok, rsa_size_ok, ec_size_ok.
  destruct (e_alg e);
    repeat match goal with |- context [Z.eqb ?a ?b] => destruct (Z.eqb a b) end; simpl;
    split; intros H; try discriminate; try reflexivity; try (destruct H; discriminate); eauto.
Qed.

Lemma jose_alg_cases e : (exists a, jose_alg e = Ok a) \/ jose_alg e = Panic SKeySize.
Proof.
  unfold jose_alg. destruct (e_alg e);
    repeat match goal with |- context [Z.eqb ?a ?b] => destruct (Z.eqb a b) end; eauto.
Qed.

Lemma jose_alg_ok_iff e : (exists a, jose_alg e = Ok a) <-> unsupported e = false.
Proof.
  split.
  - intros [a Ha]. destruct (unsupported e) eqn:U; [|reflexivity].
    apply jose_alg_panic in U. destruct U as [s Hs]. congruence.
  - intros U. destruct (jose_alg_cases e) as [H|H]; [exact H|].
    assert (unsupported e = true) by (apply jose_alg_panic; eauto). congruence.
Qed.

Lemma jwks_cases es :
  (exists l, jwks es = Ok l /\ existsb unsupported es = false) \/
  (jwks es = Panic SKeySize /\ existsb unsupported es = true).
Proof.
  induction es as [|e r IH]; simpl.
  - left. eauto.
  - destruct (jose_alg_cases e) as [[a Ha]|Hp].
    + assert (U : unsupported e = false) by (apply jose_alg_ok_iff; eauto).
      rewrite Ha, U. simpl.
      destruct IH as [[l [Hl Hu]]|[Hl Hu]]; rewrite Hl; simpl; eauto.
    + assert (U : unsupported e = true) by (apply jose_alg_panic; eauto).
      rewrite Hp, U. simpl. right. auto.
Qed.

(** ** selection *)
Lemma select_cases f keyid es :
  match select f keyid es with
  | Ok e => selected keyid es = Some e
  | Err => selected keyid es = None /\ is_empty keyid = false
  | Panic s => s = SEntries0 /\ es = [] /\ is_empty keyid = true
  end.
Proof.
  unfold select, selected. destruct (is_empty keyid).
  - destruct es; simpl; auto.
  - destruct (get_key keyid es); auto.
Qed.

Lemma get_key_in kid es e : get_key kid es = Some e -> In e es.
Proof.
  induction es as [|x r IH]; simpl; [discriminate|].
  destruct (String.eqb (e_kid x) kid); intros H; [inversion H; auto | auto].
Qed.

Lemma selected_in keyid es e : selected keyid es = Some e -> In e es.
Proof.
  unfold selected. destruct (is_empty keyid).
  - destruct es; simpl; intros H; inversion H; auto.
  - apply get_key_in.
Qed.

(** ** the load of a component, in terms of the key store it gets *)
Lemma load_ks c f i :
  load c f i =
  bind (ks_of c f i) (fun es =>
  bind (select f (i_keyid i) es) (fun e =>
    match c with
    | Tls =>
      if is_nil (e_chain e) then Err
      else Ok {| st_kid := ""; st_alg := ""; st_pub := Some (e_pub e); st_keys := []; st_chain := map c_id (e_chain e) |}
    | Signer =>
      if negb (is_nil (e_chain e)) && negb (i_usable i (e_pub e)) then Err else
      bind (jwks es) (fun keys =>
      bind (jose_alg e) (fun a =>
      Ok {| st_kid := e_kid e; st_alg := a; st_pub := Some (e_pub e); st_keys := keys;
            st_chain := map c_id (e_chain e) |}))
    | HttpSig =>
      if negb (is_nil (e_chain e)) && negb (i_usable i (e_pub e)) then Err else
      bind (jwks es) (fun keys =>
      if sig_key_ok f e
      then Ok {| st_kid := ""; st_alg := ""; st_pub := None; st_keys := keys; st_chain := map c_id (e_chain e) |}
      else Panic SSigKeySize)
    end)).
Proof.
  unfold load, ks_of.
  destruct (match c with Tls => i_path_empty i | _ => false end); [reflexivity|].
  destruct (eff_file f i); reflexivity.
Qed.

Lemma cert_check_neg i e :
  negb (is_nil (e_chain e)) && negb (i_usable i (e_pub e)) = negb (cert_check_ok i e).
Proof. unfold cert_check_ok. destruct (is_nil (e_chain e)), (i_usable i (e_pub e)); reflexivity. Qed.

Lemma sig_key_ok_supported f e :
  unsupported e = false ->
  sig_key_ok f e = negb (negb (fx5 f) && alg_eqb (e_alg e) ECDSA && Z.eqb (e_size e) 521).
Proof.
  unfold unsupported, size_ok, sig_key_ok, rsa_size_ok, ec_size_ok.
  destruct (e_alg e); simpl; intros H.
  - apply negb_false_iff in H. rewrite H. rewrite andb_false_r. reflexivity.
  - apply negb_false_iff in H.
    destruct (Z.eqb_spec (e_size e) 256) as [E|E]; [rewrite E; destruct (fx5 f); reflexivity|].
    destruct (Z.eqb_spec (e_size e) 384) as [E2|E2]; [rewrite E2; destruct (fx5 f); reflexivity|].
    destruct (Z.eqb_spec (e_size e) 521) as [E3|E3]; [rewrite E3; destruct (fx5 f); reflexivity|].
    simpl in H. discriminate.
Qed.

Lemma existsb_false_in {A} (p : A -> bool) l x : existsb p l = false -> In x l -> p x = false.
Proof.
  intros H Hin. destruct (p x) eqn:E; [|reflexivity].
  assert (existsb p l = true) by (apply existsb_exists; eauto). congruence.
Qed.

(** * Exactness of the guards: the process exits exactly on the guarded inputs,
    with the site of the finding *)
Theorem exit_iff_guard c f st i s :
  on_changed c f st i = ProcessExit s <->
  (s = SEntries0 /\ guard_F1 c f i = true) \/
  (s = SKeySize /\ guard_F2 c f i = true) \/
  (s = SSigKeySize /\ guard_F5 c f i = true) \/
  (s = SChainLoop /\ guard_F6 c f i = true) \/
  (ks_of c f i = Panic s /\ s <> SChainLoop).
Proof.
  unfold on_changed, guard_F1, guard_F2, guard_F5, guard_F6. rewrite load_ks.
  destruct (ks_of c f i) as [es| |s0] eqn:K; simpl.
  - (* key store ok *)
    pose proof (select_cases f (i_keyid i) es) as S.
    destruct (select f (i_keyid i) es) as [e| |s1] eqn:Sel; simpl.
    + rewrite S.
      assert (Hin : In e es) by (apply selected_in with (keyid := i_keyid i); exact S).
      assert (NotNil : match es with [] => False | _ => True end) by (destruct es; [destruct Hin|exact I]).
      assert (G1 : is_empty (i_keyid i) && match es with [] => true | _ => false end = false)
        by (destruct es; [destruct NotNil | apply andb_false_r]).
      rewrite G1.
      destruct c; simpl.
      * (* signer *)
        rewrite cert_check_neg. destruct (cert_check_ok i e); simpl.
        -- destruct (jwks_cases es) as [[l [Hl Hu]]|[Hl Hu]]; rewrite Hl, Hu; simpl.
           ++ assert (Ue : unsupported e = false) by (eapply existsb_false_in; eauto).
              apply jose_alg_ok_iff in Ue. destruct Ue as [a Ha]. rewrite Ha. simpl.
              split; [discriminate|].
              intros [[_ H]|[[_ H]|[[_ H]|[[_ H]|[H _]]]]]; discriminate.
           ++ split.
              ** intros H. inversion H. right. left. auto.
              ** intros [[_ H]|[[E _]|[[_ H]|[[_ H]|[H _]]]]]; try discriminate. subst. reflexivity.
        -- split; [discriminate|].
           intros [[_ H]|[[_ H]|[[_ H]|[[_ H]|[H _]]]]]; discriminate.
      * (* tls *)
        destruct (is_nil (e_chain e)); simpl; (split; [discriminate|]);
          intros [[_ H]|[[_ H]|[[_ H]|[[_ H]|[H _]]]]]; discriminate.
      * (* httpsig *)
        rewrite cert_check_neg. destruct (cert_check_ok i e); simpl.
        -- destruct (jwks_cases es) as [[l [Hl Hu]]|[Hl Hu]]; rewrite Hl, Hu; simpl.
           ++ assert (Ue : unsupported e = false) by (eapply existsb_false_in; eauto).
              rewrite (sig_key_ok_supported f e Ue).
              destruct (negb (fx5 f)); simpl.
              ** destruct (alg_eqb (e_alg e) ECDSA && Z.eqb (e_size e) 521) eqn:E; simpl.
                 --- split.
                     +++ intros H. inversion H. right. right. left. auto.
                     +++ intros [[_ H]|[[_ H]|[[E' _]|[[_ H]|[H _]]]]]; try discriminate. subst. reflexivity.
                 --- split; [discriminate|].
                     intros [[_ H]|[[_ H]|[[_ H]|[[_ H]|[H _]]]]]; discriminate.
              ** split; [discriminate|].
                 intros [[_ H]|[[_ H]|[[_ H]|[[_ H]|[H _]]]]]; discriminate.
           ++ rewrite andb_false_r. split.
              ** intros H. inversion H. right. left. auto.
              ** intros [[_ H]|[[E _]|[[_ H]|[[_ H]|[H _]]]]]; try discriminate. subst. reflexivity.
        -- rewrite andb_false_r. split; [discriminate|].
           intros [[_ H]|[[_ H]|[[_ H]|[[_ H]|[H _]]]]]; discriminate.
    + destruct S as [S Hk]. rewrite S, Hk. simpl.
      assert (T : match c with Signer => false | Tls => false | HttpSig => negb (fx5 f) && false end = false)
        by (destruct c; try reflexivity; apply andb_false_r).
      split; [discriminate|].
      intros [[_ H]|[[_ H]|[[_ H]|[[_ H]|[H _]]]]]; try discriminate.
      * destruct c; discriminate.
      * rewrite T in H. discriminate.
    + destruct S as [-> [-> Hk]]. rewrite Hk. simpl.
      assert (Sn : selected (i_keyid i) [] = None) by (unfold selected; rewrite Hk; reflexivity).
      rewrite Sn.
      assert (T : match c with Signer => false | Tls => false | HttpSig => negb (fx5 f) && false end = false)
        by (destruct c; try reflexivity; apply andb_false_r).
      split.
      * intros H. inversion H. left. auto.
      * intros [[E _]|[[_ H]|[[_ H]|[[_ H]|[H _]]]]]; try discriminate.
        -- subst. reflexivity.
        -- destruct c; discriminate.
        -- rewrite T in H. discriminate.
  - (* key store error *)
    rewrite andb_false_r.
    assert (T : match c with Signer => false | Tls => false | HttpSig => negb (fx5 f) && false end = false)
      by (destruct c; try reflexivity; apply andb_false_r).
    split; [discriminate|].
    intros [[_ H]|[[_ H]|[[_ H]|[[_ H]|[H _]]]]]; try discriminate.
    + destruct c; discriminate.
    + rewrite T in H. discriminate.
  - (* key store panics *)
    rewrite andb_false_r.
    assert (T : match c with Signer => false | Tls => false | HttpSig => negb (fx5 f) && false end = false)
      by (destruct c; try reflexivity; apply andb_false_r).
    split.
    + intros H. inversion H. subst s0. destruct s; try (right; right; right; right; split; [reflexivity|discriminate]).
      right. right. right. left. auto.
    + intros [[_ H]|[[_ H]|[[_ H]|[[E H]|[H _]]]]]; try discriminate.
      * destruct c; discriminate.
      * rewrite T in H. discriminate.
      * destruct s0; try discriminate. subst. reflexivity.
      * inversion H. reflexivity.
Qed.

(** ** the key store itself fails only by an error or by the chain recursion *)
Lemma scan_no_panic f bl : forall es cs s, scan f bl es cs <> Panic s.
Proof.
  induction bl as [|b r IH]; intros es cs s; simpl; [discriminate|].
  destruct b as [[[a z pub spki|]|] kid|[c|]|]; try discriminate.
  - destruct (fx2 f && negb (size_ok a z)); [discriminate|apply IH].
  - apply IH.
Qed.

Lemma verify_panic f ok pool es : forall known s, verify f ok pool es known = Panic s -> s = SChainLoop.
Proof.
  induction es as [|p r IH]; intros known s; simpl; [discriminate|].
  destruct (find_chain (fx6 f) pool (p_pub p)) as [chain|]; [|intros H; inversion H; reflexivity].
  destruct (negb (is_nil chain) && negb (ok (p_pub p))); [discriminate|].
  match goal with |- context [existsb ?p known] => destruct (existsb p known) end; [discriminate|].
  intros H. apply bind_panic in H. destruct H as [H|[a [_ H]]]; [eapply IH; eauto|discriminate].
Qed.

Lemma ks_panic f ok bl s : create_key_store f ok bl = Panic s -> s = SChainLoop.
Proof.
  unfold create_key_store. intros H.
  apply bind_panic in H. destruct H as [H|[[es cs] [_ H]]]; [exfalso; eapply scan_no_panic; eauto|].
  apply bind_panic in H. destruct H as [H|[a [_ H]]]; [eapply verify_panic; eauto|].
  destruct (fx1 f && is_nil a); discriminate.
Qed.

Lemma ks_of_panic c f i s : ks_of c f i = Panic s -> s = SChainLoop.
Proof.
  unfold ks_of. destruct (match c with Tls => i_path_empty i | _ => false end); [discriminate|].
  destruct (eff_file f i); [apply ks_panic|discriminate].
Qed.

Theorem exit_iff_guards c f st i s :
  on_changed c f st i = ProcessExit s <->
  (s = SEntries0 /\ guard_F1 c f i = true) \/
  (s = SKeySize /\ guard_F2 c f i = true) \/
  (s = SSigKeySize /\ guard_F5 c f i = true) \/
  (s = SChainLoop /\ guard_F6 c f i = true).
Proof.
  rewrite exit_iff_guard. split.
  - intros [H|[H|[H|[H|[H Hn]]]]]; auto.
    exfalso. apply Hn. eapply ks_of_panic; eauto.
  - intros [H|[H|[H|H]]]; auto 6.
Qed.

(** * C19_reload_total: outside the guards no input ends the process, and (always)
    a load that fails leaves the component's state as it was *)
Theorem reload_total c f st i :
  guard_F1 c f i = false -> guard_F2 c f i = false ->
  guard_F5 c f i = false -> guard_F6 c f i = false ->
  spec_reload_ok st (on_changed c f st i).
Proof.
  intros G1 G2 G5 G6. destruct (on_changed c f st i) as [st'|st'|s] eqn:E; simpl; auto.
  - unfold on_changed in E. destruct (load c f i); inversion E; reflexivity.
  - apply exit_iff_guards in E. destruct E as [[_ H]|[[_ H]|[[_ H]|[_ H]]]]; congruence.
Qed.

Theorem failed_load_keeps_state c f st i :
  (forall st', load c f i <> Ok st') ->
  state_after st (on_changed c f st i) = Some st \/ exists s, on_changed c f st i = ProcessExit s.
Proof.
  intros H. unfold on_changed. destruct (load c f i) as [st'| |s]; simpl; eauto.
  exfalso. eapply H; eauto.
Qed.

(** the guards are not vacuous: each recorded finding ends the process *)
Definition in_of (keyid : string) (bl : list block) : kinput :=
  {| i_path_empty := false; i_keyid := keyid; i_file := Some bl; i_trailing := false;
     i_chain_ok := fun _ => true; i_usable := fun _ => true |}.

Definition st0 : kstate := {| st_kid := "old"; st_alg := "ES256"; st_pub := Some 1; st_keys := [("old", "ES256")]%string; st_chain := [] |}.

Theorem F1_refuted : exists c i, guard_F1 c no_fixes i = true /\ ~ spec_reload_ok st0 (on_changed c no_fixes st0 i).
Proof. exists Signer, (in_of "" []). split; [reflexivity|]. vm_compute. auto. Qed.

Theorem F2_refuted : exists c i, guard_F2 c no_fixes i = true /\ ~ spec_reload_ok st0 (on_changed c no_fixes st0 i).
Proof.
  exists Signer, (in_of "" [BKey (Some (KSig ECDSA 256 1 "aa")) ""; BKey (Some (KSig RSA 1024 2 "bb")) ""]).
  split; [reflexivity|]. vm_compute. auto.
Qed.

Theorem F5_refuted : exists i, guard_F5 HttpSig no_fixes i = true /\ ~ spec_reload_ok st0 (on_changed HttpSig no_fixes st0 i)
                               /\ spec_reload_ok st0 (on_changed Signer no_fixes st0 i).
Proof.
  exists (in_of "" [BKey (Some (KSig ECDSA 521 1 "aa")) ""]).
  split; [reflexivity|]. vm_compute. auto.
Qed.

Definition crossA := {| c_id := 1; c_pub := 1; c_subj := "A"; c_iss := "B"; c_aki := ""; c_ski := "" |}.
Definition crossB := {| c_id := 2; c_pub := 2; c_subj := "B"; c_iss := "A"; c_aki := ""; c_ski := "" |}.

Theorem F6_refuted : exists c i, guard_F6 c no_fixes i = true /\ ~ spec_reload_ok st0 (on_changed c no_fixes st0 i).
Proof.
  exists Tls, (in_of "" [BKey (Some (KSig ECDSA 256 1 "aa")) ""; BCert (Some crossA); BCert (Some crossB)]).
  split; [reflexivity|]. vm_compute. auto.
Qed.

(** non-vacuity of [reload_total]: a two-key store with a certificate chain reloads *)
Example reload_nonvacuous :
  let leaf := {| c_id := 5; c_pub := 1; c_subj := "leaf"; c_iss := "ca"; c_aki := "cafe"; c_ski := "" |} in
  let ca := {| c_id := 6; c_pub := 9; c_subj := "ca"; c_iss := "ca"; c_aki := ""; c_ski := "cafe" |} in
  let i := in_of "second" [BKey (Some (KSig ECDSA 256 1 "aa")) ""; BCert (Some leaf); BCert (Some ca);
                           BKey (Some (KSig RSA 3072 2 "bb")) "second"] in
  guard_F1 Signer no_fixes i = false /\ guard_F2 Signer no_fixes i = false /\
  guard_F5 Signer no_fixes i = false /\ guard_F6 Signer no_fixes i = false /\
  on_changed Signer no_fixes st0 i =
    Reloaded {| st_kid := "second"; st_alg := "PS384"; st_pub := Some 2;
                st_keys := [("aa", "ES256"); ("second", "PS384")]%string; st_chain := [] |}.
Proof. vm_compute. splits; reflexivity. Qed.

(** * Trust store *)

(** C19-F7: no PEM block at all, or undecodable bytes after the last block while every block is acceptable *)
Definition block_ok_ts (strict : bool) (b : block) : bool :=
  match b with
  | BCert (Some _) => true
  | BCert None => false
  | _ => negb strict
  end.

Definition guard_F7 (f : fixes) (strict : bool) (i : ts_input) : bool :=
  negb (fx7 f) && negb (fx10 f) &&
  (is_nil (ts_blocks i) || (forallb (block_ok_ts strict) (ts_blocks i) && ts_trailing i)).

Lemma ts_loop_spec strict bl : forall acc,
  (forallb (block_ok_ts strict) bl = true /\ exists l, ts_loop strict bl acc = Ok l) \/
  (forallb (block_ok_ts strict) bl = false /\ ts_loop strict bl acc = Err).
Proof.
  induction bl as [|b r IH]; intros acc; simpl.
  - left. eauto.
  - destruct b as [p kid|[c|]|]; simpl.
    + destruct strict; simpl; [right; auto|apply IH].
    + apply IH.
    + right. auto.
    + destruct strict; simpl; [right; auto|apply IH].
Qed.

(** what ReadPEM does at a nil block *)
Definition nil_block (f : fixes) (acc : list nat) : res (list nat) :=
  if fx10 f then Err else if fx7 f then Ok acc else Panic SNilBlock.

Lemma trust_store_unfold f strict i :
  trust_store f strict i =
  if is_nil (ts_blocks i) then nil_block f []
  else bind (ts_loop strict (ts_blocks i) [])
            (fun acc => if ts_trailing i then nil_block f acc else Ok acc).
Proof. unfold trust_store, nil_block. destruct (ts_blocks i); reflexivity. Qed.

Lemma nil_block_panic f acc s : nil_block f acc = Panic s <-> (s = SNilBlock /\ negb (fx7 f) && negb (fx10 f) = true).
Proof.
  unfold nil_block. destruct (fx10 f), (fx7 f); simpl; split; try discriminate; try (intros [_ H]; discriminate).
  - intros H; inversion H; auto.
  - intros [-> _]; reflexivity.
Qed.

Theorem trust_store_panic_iff f strict i s :
  trust_store f strict i = Panic s <-> (s = SNilBlock /\ guard_F7 f strict i = true).
Proof.
  rewrite trust_store_unfold. unfold guard_F7. destruct (is_nil (ts_blocks i)) eqn:B; simpl.
  - rewrite nil_block_panic. rewrite andb_true_r. tauto.
  - destruct (ts_loop_spec strict (ts_blocks i) []) as [[Hf [l Hl]]|[Hf Hl]]; rewrite Hl, Hf; simpl.
    + destruct (ts_trailing i).
      * rewrite nil_block_panic. rewrite andb_true_r. tauto.
      * rewrite andb_false_r. split; [discriminate|intros [_ H]; discriminate].
    + rewrite andb_false_r. split; [discriminate|intros [_ H]; discriminate].
Qed.

Theorem trust_store_total f strict i :
  guard_F7 f strict i = false -> forall s, trust_store f strict i <> Panic s.
Proof. intros G s H. apply trust_store_panic_iff in H. destruct H as [_ H]. congruence. Qed.

Theorem F7_refuted : exists strict i, guard_F7 no_fixes strict i = true /\ exists s, trust_store no_fixes strict i = Panic s.
Proof. exists true, {| ts_blocks := []; ts_trailing := false |}. split; [reflexivity|]. eexists. reflexivity. Qed.

(** * Rule sets *)

(** a step is well typed iff every mechanism-kind key it has holds a string and
    its `config` is absent, null or a map with string keys *)
Definition key_ok (k : string) (st : step) : bool :=
  match lookup k (s_map st) with
  | None | Some (YStr _) => true
  | Some _ => false
  end.

Definition typed_step (st : step) : bool :=
  key_ok "authenticator" st && key_ok "authorizer" st && key_ok "contextualizer" st &&
  key_ok "finalizer" st && key_ok "error_handler" st &&
  match cfg_of (lookup "config" (s_map st)) with CfgBad => false | _ => true end.

Definition mech_total (st : step) : bool := match s_mech st with MPanic => false | _ => true end.

Definition typed_rule (r : rule_def) : bool := forallb typed_step (r_exec r) && forallb typed_step (r_eh r).
Definition oracle_total_rule (r : rule_def) : bool :=
  forallb mech_total (r_exec r) && forallb mech_total (r_eh r) && match r_rest r with MPanic => false | _ => true end.

(** what a panic of the factory means *)
Definition confused (f : fixes) (ok : bool) (s : site) : Prop :=
  (fx3 f = false /\ ok = false /\ (s = SIdAssert \/ s = SGetConfig)).

Lemma id_string_panic f id s : id_string f id = Panic s -> fx3 f = false /\ s = SIdAssert /\ (forall x, id <> YStr x).
Proof.
  unfold id_string. destruct id; try discriminate; destruct (fx3 f); try discriminate;
    intros H; inversion H; splits; auto; discriminate.
Qed.

Lemma get_config_panic f st s :
  get_config f st = Panic s -> fx3 f = false /\ s = SGetConfig /\ cfg_of (lookup "config" (s_map st)) = CfgBad.
Proof.
  unfold get_config. destruct (cfg_of (lookup "config" (s_map st))); try discriminate.
  destruct (fx3 f); try discriminate. intros H; inversion H; auto.
Qed.

Lemma condition_no_panic st s : condition st <> Panic s.
Proof.
  unfold condition. destruct (lookup "if" (s_map st)) as [[| | | |x| | |]|]; try discriminate.
  destruct (is_empty x); [discriminate|]. destruct (s_cel st); discriminate.
Qed.

Lemma mech_panic st s : mech st = Panic s -> s = SMech /\ mech_total st = false.
Proof. unfold mech, mech_total. destruct (s_mech st); try discriminate. intros H; inversion H; auto. Qed.

Lemma key_bad k st id : lookup k (s_map st) = Some id -> (forall x, id <> YStr x) -> key_ok k st = false.
Proof. unfold key_ok. intros -> H. destruct id; try reflexivity. exfalso. eapply H; eauto. Qed.

Lemma typed_false_key k st :
  key_ok k st = false ->
  (k = "authenticator" \/ k = "authorizer" \/ k = "contextualizer" \/ k = "finalizer" \/ k = "error_handler")%string ->
  typed_step st = false.
Proof.
  unfold typed_step. intros H [->|[->|[->|[->| ->]]]]; rewrite H; simpl;
    repeat rewrite andb_false_r; reflexivity.
Qed.

Lemma typed_false_cfg st : cfg_of (lookup "config" (s_map st)) = CfgBad -> typed_step st = false.
Proof. unfold typed_step. intros ->. apply andb_false_r. Qed.

(** the three calls made once a key was found: id.(string), getConfig, the factory *)
Lemma call_panic f k st id (p' : pipes) s :
  lookup k (s_map st) = Some id ->
  (k = "authenticator" \/ k = "authorizer" \/ k = "contextualizer" \/ k = "finalizer" \/ k = "error_handler")%string ->
  bind (id_string f id) (fun _ => bind (get_config f st) (fun _ => bind (mech st) (fun _ => Ok p'))) = Panic s ->
  confused f (typed_step st) s \/ (s = SMech /\ mech_total st = false).
Proof.
  intros L K H. apply bind_panic in H. destruct H as [H|[_ [_ H]]].
  - apply id_string_panic in H. destruct H as [F [-> N]]. left. unfold confused. splits; auto.
    eapply typed_false_key; eauto. eapply key_bad; eauto.
  - apply bind_panic in H. destruct H as [H|[_ [_ H]]].
    + apply get_config_panic in H. destruct H as [F [-> C]]. left. unfold confused. splits; auto. apply typed_false_cfg; auto.
    + apply bind_panic in H. destruct H as [H|[_ [_ H]]]; [|discriminate].
      right. apply mech_panic; auto.
Qed.

Lemma create_handler_panic f p k key id st s :
  lookup key (s_map st) = Some id ->
  (key = "authenticator" \/ key = "authorizer" \/ key = "contextualizer" \/ key = "finalizer" \/ key = "error_handler")%string ->
  create_handler f p k id st = Panic s ->
  confused f (typed_step st) s \/ (s = SMech /\ mech_total st = false).
Proof.
  intros L K. unfold create_handler.
  destruct (match k with KFin => false | _ => negb (Nat.eqb (n_f p) 0) end); [discriminate|].
  intros H. apply bind_panic in H. destruct H as [H|[_ [_ H]]]; [exfalso; eapply condition_no_panic; eauto|].
  eapply call_panic; eauto.
Qed.

Lemma exec_step_panic f p st s :
  exec_step f p st = Panic s -> confused f (typed_step st) s \/ (s = SMech /\ mech_total st = false).
Proof.
  unfold exec_step.
  destruct (lookup "authenticator" (s_map st)) as [id|] eqn:L1.
  { destruct (negb (Nat.eqb (n_h p) 0) || negb (Nat.eqb (n_f p) 0)); [discriminate|].
    intros H. eapply call_panic; eauto. }
  destruct (lookup "authorizer" (s_map st)) as [id|] eqn:L2.
  { intros H. eapply create_handler_panic; eauto. }
  destruct (lookup "contextualizer" (s_map st)) as [id|] eqn:L3.
  { intros H. eapply create_handler_panic; eauto. }
  destruct (lookup "finalizer" (s_map st)) as [id|] eqn:L4.
  { intros H. eapply create_handler_panic; eauto 6. }
  discriminate.
Qed.

Lemma eh_step_panic f st s :
  eh_step f st = Panic s -> confused f (typed_step st) s \/ (s = SMech /\ mech_total st = false).
Proof.
  unfold eh_step. destruct (lookup "error_handler" (s_map st)) as [id|] eqn:L; [|discriminate].
  intros H. apply bind_panic in H. destruct H as [H|[_ [_ H]]].
  { apply get_config_panic in H. destruct H as [F [-> C]]. left. unfold confused. splits; auto. apply typed_false_cfg; auto. }
  apply bind_panic in H. destruct H as [H|[_ [_ H]]]; [exfalso; eapply condition_no_panic; eauto|].
  apply bind_panic in H. destruct H as [H|[_ [_ H]]].
  { apply id_string_panic in H. destruct H as [F [-> N]]. left. unfold confused. splits; auto.
    eapply typed_false_key; eauto 6. eapply key_bad; eauto. }
  right. apply mech_panic; auto.
Qed.

Lemma forallb_false_intro {A} (p : A -> bool) l x : In x l -> p x = false -> forallb p l = false.
Proof.
  intros Hin Hp. destruct (forallb p l) eqn:E; [|reflexivity].
  rewrite forallb_forall in E. rewrite (E x Hin) in Hp. discriminate.
Qed.

Lemma exec_pipeline_panic f sts : forall p s,
  exec_pipeline f p sts = Panic s ->
  confused f (forallb typed_step sts) s \/ (s = SMech /\ forallb mech_total sts = false).
Proof.
  induction sts as [|st r IH]; intros p s; simpl; [discriminate|].
  intros H. apply bind_panic in H. destruct H as [H|[p' [_ H]]].
  - apply exec_step_panic in H. destruct H as [[F [T S]]|[S M]].
    + left. unfold confused. splits; auto. rewrite T. reflexivity.
    + right. rewrite M. auto.
  - apply IH in H. destruct H as [[F [T S]]|[S M]].
    + left. unfold confused. splits; auto. rewrite T. apply andb_false_r.
    + right. rewrite M. rewrite andb_false_r. auto.
Qed.

Lemma eh_pipeline_panic f sts : forall s,
  eh_pipeline f sts = Panic s ->
  confused f (forallb typed_step sts) s \/ (s = SMech /\ forallb mech_total sts = false).
Proof.
  induction sts as [|st r IH]; intros s; simpl; [discriminate|].
  intros H. apply bind_panic in H. destruct H as [H|[p' [_ H]]].
  - apply eh_step_panic in H. destruct H as [[F [T S]]|[S M]].
    + left. unfold confused. splits; auto. rewrite T. reflexivity.
    + right. rewrite M. auto.
  - apply IH in H. destruct H as [[F [T S]]|[S M]].
    + left. unfold confused. splits; auto. rewrite T. apply andb_false_r.
    + right. rewrite M. rewrite andb_false_r. auto.
Qed.

Lemma create_rule_panic f proxy def r s :
  create_rule f proxy def r = Panic s ->
  confused f (typed_rule r) s \/ (s = SMech /\ oracle_total_rule r = false).
Proof.
  unfold create_rule, typed_rule, oracle_total_rule.
  destruct (proxy && negb (r_backend r)); [discriminate|].
  intros H. apply bind_panic in H. destruct H as [H|[p [_ H]]].
  - apply exec_pipeline_panic in H. destruct H as [[F [T S]]|[S M]].
    + left. unfold confused. splits; auto. rewrite T. reflexivity.
    + right. rewrite M. auto.
  - apply bind_panic in H. destruct H as [H|[u [_ H]]].
    + apply eh_pipeline_panic in H. destruct H as [[F [T S]]|[S M]].
      * left. unfold confused. splits; auto. rewrite T. apply andb_false_r.
      * right. rewrite M. rewrite andb_false_r. auto.
    + destruct (Nat.eqb (n_a p) 0 && negb def); [discriminate|].
      destruct (r_rest r); try discriminate. inversion H. right. rewrite andb_false_r. auto.
Qed.

Lemma load_rules_panic f proxy def rs : forall seen s,
  load_rules f proxy def seen rs = Panic s ->
  confused f (forallb typed_rule rs) s \/ (s = SMech /\ forallb oracle_total_rule rs = false).
Proof.
  induction rs as [|r rest IH]; intros seen s; simpl; [discriminate|].
  destruct (fxdup f && existsb (String.eqb (r_name r)) seen); [discriminate|].
  intros H. apply bind_panic in H. destruct H as [H|[u [_ H]]].
  - apply create_rule_panic in H. destruct H as [[F [T S]]|[S M]].
    + left. unfold confused. splits; auto. rewrite T. reflexivity.
    + right. rewrite M. auto.
  - apply bind_panic in H. destruct H as [H|[ids [_ H]]]; [|discriminate].
    apply IH in H. destruct H as [[F [T S]]|[S M]].
    + left. unfold confused. splits; auto. rewrite T. apply andb_false_r.
    + right. rewrite M. rewrite andb_false_r. auto.
Qed.

Definition ev_typed (e : rs_event) : bool :=
  match ev_parse e with PParsed rs => forallb typed_rule rs | _ => true end.
(** the collaborators taken as data did not panic themselves *)
Definition ev_oracle_total (f : fixes) (e : rs_event) : bool :=
  match ev_parse e with PParsed rs => forallb oracle_total_rule rs | PRejected => true | PPanics => false end.

Lemma process_exit f proxy def st e s :
  process f proxy def st e = RsExit s ->
  confused f (ev_typed e) s \/ ((s = SMech \/ s = SDecode) /\ ev_oracle_total f e = false).
Proof.
  unfold process, ev_typed, ev_oracle_total. destruct (ev_parse e) as [rs| |]; [|discriminate|].
  2:{ intros H. inversion H. right. auto. }
  destruct (negb (String.eqb (ev_version e) "1alpha4")); [discriminate|].
  destruct (load_rules f proxy def [] rs) as [ids| |s'] eqn:L; try discriminate.
  - destruct (ev_repo_ok e); discriminate.
  - intros H. inversion H. subst. apply load_rules_panic in L. destruct L as [L|[L1 L2]]; auto.
Qed.

(** C19-F3, exactly: the factory reaches one of its unchecked type assertions *)
Definition guard_F3 (f : fixes) (proxy def : bool) (e : rs_event) : bool :=
  match process f proxy def [] e with
  | RsExit SIdAssert | RsExit SGetConfig => true
  | _ => false
  end.

Lemma process_exit_any_state f proxy def st st' e s :
  process f proxy def st e = RsExit s -> process f proxy def st' e = RsExit s.
Proof.
  unfold process. destruct (ev_parse e) as [rs| |]; [|discriminate|auto].
  destruct (negb (String.eqb (ev_version e) "1alpha4")); [discriminate|].
  destruct (load_rules f proxy def [] rs); try discriminate; [destruct (ev_repo_ok e); discriminate|auto].
Qed.

Lemma process_rejected f proxy def st e st' : process f proxy def st e = RsRejected st' -> st' = st.
Proof.
  unfold process. destruct (ev_parse e) as [rs| |].
  - destruct (negb (String.eqb (ev_version e) "1alpha4")); [intros P; inversion P; reflexivity|].
    destruct (load_rules f proxy def [] rs); try discriminate; [|intros P; inversion P; reflexivity].
    destruct (ev_repo_ok e); intros P; inversion P; reflexivity.
  - intros P; inversion P; reflexivity.
  - discriminate.
Qed.

(** a collaborator taken as data panicked: the YAML/mapstructure decoder of the rule set (C19-F8 before b69f65b)
    or, inside the mechanism factory, the decoder of a step's config ([SMech]: C19-F8 and C19-F9 before b37641c) *)
Definition guard_F8 (f : fixes) (proxy def : bool) (e : rs_event) : bool :=
  match process f proxy def [] e with
  | RsExit SDecode | RsExit SMech => true
  | _ => false
  end.

(** C19_ruleset_total, syntactic form: a rule set whose steps are well typed
    (or any rule set once the assertions are checked, fx3) never ends the
    process, whatever the mechanism factory answers short of panicking
    itself; and a rejected rule set leaves the loaded rules as they were. *)
Theorem ruleset_total f proxy def st e :
  (fx3 f = true \/ ev_typed e = true) -> ev_oracle_total f e = true ->
  spec_rs_ok st (process f proxy def st e).
Proof.
  intros T O. destruct (process f proxy def st e) as [ids|st'|s] eqn:P; simpl; auto.
  - eapply process_rejected; eauto.
  - apply process_exit in P. destruct P as [[F [T' _]]|[_ M]]; [|congruence].
    destruct T as [T|T]; congruence.
Qed.

(** guard form used by the check *)
Theorem ruleset_total_guard f proxy def st e :
  guard_F3 f proxy def e = false -> guard_F8 f proxy def e = false ->
  spec_rs_ok st (process f proxy def st e).
Proof.
  intros G G8. destruct (process f proxy def st e) as [ids|st'|s] eqn:P; simpl; auto.
  - eapply process_rejected; eauto.
  - pose proof (process_exit _ _ _ _ _ _ P) as X.
    apply process_exit_any_state with (st' := []) in P.
    unfold guard_F3 in G. unfold guard_F8 in G8. rewrite P in G, G8.
    destruct X as [[_ [_ [->| ->]]]|[[->| ->] M]]; discriminate.
Qed.

(** the guard fires only on ill-typed rule sets of the unrepaired factory *)
Theorem guard_F3_only_ill_typed f proxy def e :
  guard_F3 f proxy def e = true -> fx3 f = false /\ ev_typed e = false.
Proof.
  unfold guard_F3. destruct (process f proxy def [] e) as [| |s] eqn:P; try discriminate.
  intros G. apply process_exit in P. destruct P as [[F [T _]]|[[->| ->] _]]; [auto|discriminate|discriminate].
Qed.

Definition ev_of (rs : list rule_def) : rs_event :=
  {| ev_op := OpUpdated; ev_version := "1alpha4"; ev_parse := PParsed rs; ev_repo_ok := true |}.

Theorem F3_refuted : exists e, guard_F3 no_fixes false false e = true /\ ev_oracle_total no_fixes e = true /\
  ~ spec_rs_ok ["old"%string] (process no_fixes false false ["old"%string] e).
Proof.
  exists (ev_of [{| r_name := "r"; r_id := "r"; r_exec := [{| s_map := [("authenticator"%string, YInt 42)]; s_mech := MOk; s_cel := false |}];
                    r_eh := []; r_backend := false; r_rest := MOk |}]).
  vm_compute. splits; auto.
Qed.

Theorem F8_refuted : exists e, guard_F8 no_fixes false false e = true /\
  ~ spec_rs_ok ["old"%string] (process no_fixes false false ["old"%string] e).
Proof.
  exists {| ev_op := OpUpdated; ev_version := ""; ev_parse := PPanics; ev_repo_ok := true |}.
  vm_compute. auto.
Qed.

Example ruleset_nonvacuous :
  let e := ev_of [{| r_name := "r"; r_id := "r";
                     r_exec := [{| s_map := [("authenticator", YStr "anon"); ("config", YMap [("subject", YStr "x")])]%string;
                                   s_mech := MOk; s_cel := false |};
                                {| s_map := [("authorizer", YStr "cel"); ("if", YStr "true")]%string; s_mech := MOk; s_cel := true |}];
                     r_eh := [{| s_map := [("error_handler", YStr "default")]%string; s_mech := MOk; s_cel := false |}];
                     r_backend := false; r_rest := MOk |}] in
  ev_typed e = true /\ ev_oracle_total no_fixes e = true /\ process no_fixes false false ["old"%string] e = RsApplied ["r"%string].
Proof. vm_compute. splits; reflexivity. Qed.

(** * File-system provider *)

(** C19-F4: the rule set was read and parsed, then os.Stat fails *)
Definition guard_F4 (f : fixes) (e : fs_event) : bool :=
  negb (fx4 f) &&
  match op_class f (fe_bits e), fe_read e with
  | FsWrite, RdParsed _ => negb (fe_stat_ok e)
  | _, _ => false
  end.

Theorem fs_exit_iff f st e s :
  fs_changed f st e = FsExit s <-> (s = SStatNil /\ guard_F4 f e = true).
Proof.
  unfold fs_changed, guard_F4, fs_deleted.
  destruct (op_class f (fe_bits e)); simpl.
  - destruct (fe_read e); simpl;
      try (rewrite andb_false_r; split; [destruct st; try destruct (fe_proc_ok e); discriminate|intros [_ H]; discriminate]).
    destruct (fe_stat_ok e); simpl.
    + rewrite andb_false_r. split; [|intros [_ H]; discriminate].
      destruct st as [h0|]; [destruct (Nat.eqb h0 hash)|]; try destruct (fe_proc_ok e); discriminate.
    + rewrite andb_true_r. destruct (fx4 f); simpl; split; try discriminate.
      * destruct st; try destruct (fe_proc_ok e); discriminate.
      * intros [_ H]; discriminate.
      * intros H; inversion H; auto.
      * intros [-> _]; reflexivity.
  - rewrite andb_false_r. split; [destruct st; try destruct (fe_proc_ok e); discriminate|intros [_ H]; discriminate].
  - rewrite andb_false_r. split; [discriminate|intros [_ H]; discriminate].
Qed.

(** C19_fs_total: outside the guard the watcher goroutine survives every event,
    and an event that ends in an error leaves the stored state as it was *)
Theorem fs_total f st e : guard_F4 f e = false -> spec_fs_ok st (fs_changed f st e).
Proof.
  intros G. destruct (fs_changed f st e) as [r|s] eqn:E; simpl.
  - unfold fs_changed, fs_deleted in E.
    destruct (op_class f (fe_bits e)).
    + destruct (fe_read e);
        try (destruct st; try destruct (fe_proc_ok e); inversion E; simpl; congruence).
      destruct (negb (fe_stat_ok e)).
      * destruct (fx4 f); [|discriminate].
        destruct st; try destruct (fe_proc_ok e); inversion E; simpl; congruence.
      * destruct st as [h0|]; [destruct (Nat.eqb h0 hash)|]; try destruct (fe_proc_ok e); inversion E; simpl; congruence.
    + destruct st; try destruct (fe_proc_ok e); inversion E; simpl; congruence.
    + inversion E; simpl; congruence.
  - apply fs_exit_iff in E. destruct E as [_ E]. congruence.
Qed.

Theorem F4_refuted : exists e, guard_F4 no_fixes e = true /\ ~ spec_fs_ok (Some 1) (fs_changed no_fixes (Some 1) e).
Proof.
  exists {| fe_bits := {| o_create := false; o_write := true; o_chmod := false; o_remove := false; o_rename := false |};
            fe_read := RdParsed 2; fe_stat_ok := false; fe_proc_ok := true |}.
  vm_compute. auto.
Qed.

(** * Request goroutines *)

(** the composite extractor panics exactly on the empty list *)
Theorem composite_extract_panic_iff l s : composite_extract l = Panic s <-> (l = [] /\ s = SExtractEmpty).
Proof.
  unfold composite_extract. destruct (first_some l) eqn:F.
  - split; [discriminate|]. intros [-> _]. discriminate.
  - destruct l as [|x r].
    + split; [intros H; inversion H; auto|intros [_ ->]; reflexivity].
    + split; [discriminate|intros [H _]; discriminate].
Qed.

Definition success (status : Z) : bool := (Z.leb 200 status && Z.ltb status 300)%bool.

(** C19_request_panic_is_non_success: whatever the handler does — answer or
    panic — the recovery middleware produces an answer, and a panic is never a
    success status *)
Theorem request_panic_is_non_success h :
  (exists status, recovery_mw h = status) /\ (forall k, h = Panicked k -> success (recovery_mw h) = false).
Proof. split; [eexists; reflexivity|intros k ->; destruct k; reflexivity]. Qed.

(** * The repaired loaders are total: with the repairs switched on the guards are empty *)

(** ** F6: the repaired chain building terminates *)
Definition unused (used : list cert) (c : cert) : bool := negb (cert_in c used).

Lemma filter_length_le {A} (p : A -> bool) l : length (filter p l) <= length l.
Proof. induction l as [|x r IH]; simpl; [lia|]. destruct (p x); simpl; lia. Qed.

Lemma filter_length_lt {A} (p q : A -> bool) l c :
  In c l -> p c = true -> q c = false -> (forall x, q x = true -> p x = true) ->
  length (filter q l) < length (filter p l).
Proof.
  intros Hin Hp Hq Hsub. induction l as [|x r IH]; [destruct Hin|].
  assert (Hle : forall l', length (filter q l') <= length (filter p l')).
  { induction l' as [|y r' IH']; simpl; [lia|].
    destruct (q y) eqn:Q; [rewrite (Hsub y Q); simpl; lia|destruct (p y); simpl; lia]. }
  simpl. destruct Hin as [->|Hin].
  - rewrite Hp, Hq. simpl. specialize (Hle r). lia.
  - specialize (IH Hin). destruct (q x) eqn:Q; [rewrite (Hsub x Q); simpl; lia|destruct (p x); simpl; lia].
Qed.

Lemma cert_in_cons_self c l : cert_in c (c :: l) = true.
Proof. unfold cert_in. simpl. rewrite Nat.eqb_refl. reflexivity. Qed.

Lemma unused_cons x c used : unused (c :: used) x = true -> unused used x = true.
Proof.
  unfold unused, cert_in. simpl. intros H. apply negb_true_iff in H. apply orb_false_iff in H.
  destruct H as [_ H]. rewrite H. reflexivity.
Qed.

Lemma build_chain_fixed_terminates pool : forall fuel rchain child,
  length (filter (unused (child :: rchain)) pool) < fuel ->
  build_chain true fuel pool rchain child <> None.
Proof.
  induction fuel as [|f IH]; intros rchain child Hm; [lia|].
  simpl. destruct (next_issuer true pool (child :: rchain) child) as [c|] eqn:N; [|discriminate].
  unfold next_issuer in N. apply find_some in N. destruct N as [Hin Hc].
  apply andb_true_iff in Hc. destruct Hc as [Hu _].
  apply IH.
  assert (L : length (filter (unused (c :: child :: rchain)) pool) < length (filter (unused (child :: rchain)) pool)).
  { apply filter_length_lt with (c := c); auto.
    - unfold unused. rewrite cert_in_cons_self. reflexivity.
    - intros x. apply unused_cons. }
  lia.
Qed.

Lemma find_chain_fixed pool pub : find_chain true pool pub <> None.
Proof.
  unfold find_chain. destruct (find (fun c => Nat.eqb (c_pub c) pub) pool) as [leaf|]; [|discriminate].
  apply build_chain_fixed_terminates. pose proof (filter_length_le (unused [leaf]) pool). lia.
Qed.

Lemma verify_fixed_no_panic f ok pool es : fx6 f = true -> forall known s, verify f ok pool es known <> Panic s.
Proof.
  intros F. induction es as [|p r IH]; intros known s; simpl; [discriminate|].
  rewrite F. destruct (find_chain true pool (p_pub p)) as [chain|] eqn:C; [|exfalso; eapply find_chain_fixed; eauto].
  destruct (negb (is_nil chain) && negb (ok (p_pub p))); [discriminate|].
  match goal with |- context [existsb ?q known] => destruct (existsb q known) end; [discriminate|].
  intros H. apply bind_panic in H. destruct H as [H|[a [_ H]]]; [eapply IH; eauto|discriminate].
Qed.

Lemma ks_of_fixed_no_panic c f i s : fx6 f = true -> ks_of c f i <> Panic s.
Proof.
  intros F. unfold ks_of. destruct (match c with Tls => i_path_empty i | _ => false end); [discriminate|].
  destruct (eff_file f i) as [bl|]; [|discriminate]. unfold create_key_store. intros H.
  apply bind_panic in H. destruct H as [H|[[es cs] [_ H]]]; [eapply scan_no_panic; eauto|].
  apply bind_panic in H. destruct H as [H|[a [_ H]]]; [eapply verify_fixed_no_panic; eauto|].
  destruct (fx1 f && is_nil a); discriminate.
Qed.

(** ** F2: the repaired createEntry lets only supported sizes in *)
Definition pre_ok (p : pre_entry) : bool := size_ok (p_alg p) (p_size p).

Lemma scan_sizes f bl : fx2 f = true -> forall es cs es' cs',
  scan f bl es cs = Ok (es', cs') -> forallb pre_ok es = true -> forallb pre_ok es' = true.
Proof.
  intros F. induction bl as [|b r IH]; intros es cs es' cs'; simpl.
  - intros H. inversion H. auto.
  - destruct b as [[[a z pub spki|]|] kid|[c|]|]; try discriminate.
    + rewrite F. simpl. destruct (size_ok a z) eqn:S; simpl; [|discriminate].
      intros H Hes. eapply IH; eauto. rewrite forallb_app. rewrite Hes. simpl. unfold pre_ok. simpl. rewrite S. reflexivity.
    + intros H Hes. eapply IH; eauto.
Qed.

Lemma verify_sizes f ok pool es : forallb pre_ok es = true -> forall known out,
  verify f ok pool es known = Ok out -> existsb unsupported out = false.
Proof.
  induction es as [|p r IH]; intros Hes known out; simpl.
  - intros H. inversion H. reflexivity.
  - simpl in Hes. apply andb_true_iff in Hes. destruct Hes as [Hp Hr].
    destruct (find_chain (fx6 f) pool (p_pub p)) as [chain|]; [|discriminate].
    destruct (negb (is_nil chain) && negb (ok (p_pub p))); [discriminate|].
    match goal with |- context [existsb ?q known] => destruct (existsb q known) end; [discriminate|].
    intros H. apply bind_ok in H. destruct H as [es' [H1 H2]]. inversion H2. subst out. simpl.
    rewrite (IH Hr _ _ H1). unfold unsupported. simpl. unfold pre_ok in Hp. rewrite Hp. reflexivity.
Qed.

Lemma ks_of_fixed_supported c f i es : fx2 f = true -> ks_of c f i = Ok es -> existsb unsupported es = false.
Proof.
  intros F. unfold ks_of. destruct (match c with Tls => i_path_empty i | _ => false end); [discriminate|].
  destruct (eff_file f i) as [bl|]; [|discriminate]. unfold create_key_store. intros H.
  apply bind_ok in H. destruct H as [[pes cs] [H1 H]].
  apply bind_ok in H. destruct H as [es' [H2 H]].
  destruct (fx1 f && is_nil es'); [discriminate|]. inversion H. subst es'.
  eapply verify_sizes; [|exact H2]. eapply scan_sizes; eauto.
Qed.

(** ** F1: the repaired createKeyStore never returns an empty store *)
Lemma ks_of_fixed_nonempty c f i : fx1 f = true -> ks_of c f i <> Ok [].
Proof.
  intros F. unfold ks_of. destruct (match c with Tls => i_path_empty i | _ => false end); [discriminate|].
  destruct (eff_file f i) as [bl|]; [|discriminate]. unfold create_key_store. intros H.
  apply bind_ok in H. destruct H as [[pes cs] [_ H]].
  apply bind_ok in H. destruct H as [es' [_ H]].
  rewrite F in H. destruct es'; simpl in H; discriminate.
Qed.

Lemma guards_empty_when_fixed c f i :
  fx1 f = true -> fx2 f = true -> fx5 f = true -> fx6 f = true ->
  guard_F1 c f i = false /\ guard_F2 c f i = false /\ guard_F5 c f i = false /\ guard_F6 c f i = false.
Proof.
  intros F1 F2 F5 F6. unfold guard_F1, guard_F2, guard_F5, guard_F6. splits.
  - destruct (ks_of c f i) as [[|e r]| |s] eqn:K; try apply andb_false_r.
    exfalso. eapply ks_of_fixed_nonempty; eauto.
  - destruct c; try reflexivity;
      (destruct (ks_of _ f i) as [es| |s] eqn:K; try reflexivity;
       rewrite (ks_of_fixed_supported _ f i es F2 K);
       destruct (selected (i_keyid i) es); try reflexivity; apply andb_false_r).
  - destruct c; try reflexivity. rewrite F5. reflexivity.
  - destruct (ks_of c f i) as [es| |s] eqn:K; try reflexivity.
    exfalso. eapply ks_of_fixed_no_panic; eauto.
Qed.

(** C19_reload_total for the repaired tree: NO input at all ends the process *)
Theorem reload_total_fixed c f st i :
  fx1 f = true -> fx2 f = true -> fx5 f = true -> fx6 f = true ->
  spec_reload_ok st (on_changed c f st i).
Proof.
  intros F1 F2 F5 F6. destruct (guards_empty_when_fixed c f i F1 F2 F5 F6) as [G1 [G2 [G5 G6]]].
  apply reload_total; assumption.
Qed.

Theorem fs_total_fixed f st e : fx4 f = true -> spec_fs_ok st (fs_changed f st e).
Proof. intros F. apply fs_total. unfold guard_F4. rewrite F. reflexivity. Qed.

Theorem trust_store_total_fixed f strict i : fx7 f = true -> forall s, trust_store f strict i <> Panic s.
Proof. intros F. apply trust_store_total. unfold guard_F7. rewrite F. reflexivity. Qed.

(** rule sets: with checked assertions (fx3) and the key check of the parser
    (fx8) the only way left to a panic is a collaborator panicking itself *)
Theorem ruleset_total_fixed f proxy def st e :
  fx3 f = true -> ev_oracle_total f e = true ->
  spec_rs_ok st (process f proxy def st e).
Proof. intros F3 O. apply ruleset_total; auto. Qed.

(** ** instances for the tree as it is now ([all_fixes]) *)
Theorem reload_total_now c st i : spec_reload_ok st (on_changed c all_fixes st i).
Proof. apply reload_total_fixed; reflexivity. Qed.

Theorem trust_store_total_now strict i s : trust_store all_fixes strict i <> Panic s.
Proof. apply trust_store_total_fixed. reflexivity. Qed.

Theorem ruleset_total_now proxy def st e :
  ev_oracle_total all_fixes e = true -> spec_rs_ok st (process all_fixes proxy def st e).
Proof. intros. apply ruleset_total_fixed; auto. Qed.

Theorem fs_total_now st e : spec_fs_ok st (fs_changed all_fixes st e).
Proof. apply fs_total_fixed. reflexivity. Qed.

Example reload_nonvacuous_now :
  let leaf := {| c_id := 5; c_pub := 1; c_subj := "leaf"; c_iss := "ca"; c_aki := "cafe"; c_ski := "" |} in
  let ca := {| c_id := 6; c_pub := 9; c_subj := "ca"; c_iss := "ca"; c_aki := ""; c_ski := "cafe" |} in
  let i := in_of "second" [BKey (Some (KSig ECDSA 256 1 "aa")) ""; BCert (Some leaf); BCert (Some ca);
                           BKey (Some (KSig RSA 3072 2 "bb")) "second"] in
  on_changed Signer all_fixes st0 i =
    Reloaded {| st_kid := "second"; st_alg := "PS384"; st_pub := Some 2;
                st_keys := [("aa", "ES256"); ("second", "PS384")]%string; st_chain := [] |} /\
  on_changed Tls all_fixes st0 (in_of "" [BKey (Some (KSig ECDSA 256 1 "aa")) ""; BCert (Some leaf); BCert (Some ca)]) =
    Reloaded {| st_kid := ""; st_alg := ""; st_pub := Some 1; st_keys := []; st_chain := [5; 6] |}.
Proof. vm_compute. split; reflexivity. Qed.

(** * What fuel exhaustion means *)

(** the result of a chain walk that returns does not depend on the fuel *)
Lemma build_chain_more_fuel fixed pool : forall fuel rchain child ch,
  build_chain fixed fuel pool rchain child = Some ch ->
  forall fuel', fuel <= fuel' -> build_chain fixed fuel' pool rchain child = Some ch.
Proof.
  induction fuel as [|f IH]; intros rchain child ch H fuel' Hle; [discriminate|].
  destruct fuel' as [|f']; [lia|]. simpl in *.
  destruct (next_issuer fixed pool (child :: rchain) child) as [c|]; [|exact H].
  apply IH with (fuel' := f') in H; [exact H|lia].
Qed.

(** the walk of the PINNED code, as a relation: [walk pool child tr] — from
    [child] the recursion visits exactly the certificates [tr] and returns *)
Inductive walk (pool : list cert) : list cert -> cert -> list cert -> Prop :=
| walk_stop rchain child : next_issuer false pool (child :: rchain) child = None -> walk pool rchain child [child]
| walk_step rchain child c tr :
    next_issuer false pool (child :: rchain) child = Some c -> walk pool (child :: rchain) c tr ->
    walk pool rchain child (child :: tr).

Lemma build_chain_walk pool : forall fuel rchain child ch,
  build_chain false fuel pool rchain child = Some ch -> exists tr, walk pool rchain child tr /\ length tr <= fuel.
Proof.
  induction fuel as [|f IH]; intros rchain child ch H; [discriminate|].
  simpl in H. destruct (next_issuer false pool (child :: rchain) child) as [c|] eqn:N.
  - apply IH in H. destruct H as [tr [W L]]. exists (child :: tr). split; [eapply walk_step; eauto|simpl; lia].
  - exists [child]. split; [apply walk_stop; auto|simpl; lia].
Qed.

Lemma walk_build_chain pool : forall rchain child tr,
  walk pool rchain child tr -> forall fuel, length tr <= fuel -> exists ch, build_chain false fuel pool rchain child = Some ch.
Proof.
  intros rchain child tr W. induction W as [rchain child N|rchain child c tr N W IH]; intros fuel L.
  - destruct fuel as [|f]; [simpl in L; lia|]. simpl. rewrite N. eauto.
  - destruct fuel as [|f]; [simpl in L; lia|]. simpl. rewrite N. apply IH. simpl in L. lia.
Qed.

(** next_issuer of the pinned code does not look at the chain *)
Lemma next_issuer_pinned_chain pool ch1 ch2 child : next_issuer false pool ch1 child = next_issuer false pool ch2 child.
Proof. reflexivity. Qed.

(** a walk that returns never visits a certificate (identity [c_id]) twice:
    the next step depends on the child only, so a revisit would repeat for ever *)
Lemma next_issuer_id pool ch child c :
  next_issuer false pool ch child = Some c -> In c pool.
Proof. unfold next_issuer. intros H. apply find_some in H. tauto. Qed.

Lemma walk_in_pool pool : forall rchain child tr, walk pool rchain child tr -> In child pool -> Forall (fun c => In c pool) tr.
Proof.
  intros rchain child tr W. induction W as [rchain child N|rchain child c tr N W IH]; intros Hin.
  - constructor; auto.
  - constructor; auto. apply IH. eapply next_issuer_id; eauto.
Qed.

Lemma walk_chain_irrelevant pool : forall r1 child tr, walk pool r1 child tr -> forall r2, walk pool r2 child tr.
Proof.
  intros r1 child tr W. induction W as [r1 child N|r1 child c tr N W IH]; intros r2.
  - apply walk_stop. exact N.
  - eapply walk_step; [exact N|apply IH].
Qed.

Lemma walk_deterministic pool : forall r child tr1, walk pool r child tr1 -> forall tr2, walk pool r child tr2 -> tr1 = tr2.
Proof.
  intros r child tr1 W. induction W as [r child N|r child c tr N W IH]; intros tr2 W2.
  - inversion W2; subst; [reflexivity|]. unfold next_issuer in *. congruence.
  - inversion W2; subst.
    + unfold next_issuer in *. congruence.
    + assert (c0 = c) by (unfold next_issuer in *; congruence). subst. f_equal. apply IH. assumption.
Qed.

(** a walk that returns does not come back to its start *)
Lemma walk_no_return pool : forall r child tr, walk pool r child tr ->
  match tr with [] => False | x :: rest => x = child /\ ~ In child rest end.
Proof.
  intros r child tr W.
  (* induction on the length of the walk: if child reappears in the rest, the walk from that
     occurrence is a strictly shorter walk from the same child, but walks are deterministic *)
  remember (length tr) as n eqn:Hn. revert r child tr W Hn.
  induction n as [n IHn] using lt_wf_ind. intros r child tr W Hn.
  destruct W as [r child N|r child c tr N W].
  - split; [reflexivity|intros []].
  - split; [reflexivity|]. intros Hin.
    (* find the sub-walk starting at the later occurrence of child *)
    assert (Sub : forall r' x tr', walk pool r' x tr' -> In child tr' ->
                  exists r'' tr'', walk pool r'' child tr'' /\ length tr'' <= length tr').
    { clear. intros r' x tr' W. induction W as [r' x N|r' x c tr' N W IH]; intros Hin.
      - destruct Hin as [->|[]]. exists r', [child]. split; [apply walk_stop; auto|simpl; lia].
      - destruct Hin as [->|Hin].
        + exists r', (child :: tr'). split; [eapply walk_step; eauto|simpl; lia].
        + destruct (IH Hin) as [r'' [tr'' [W' L]]]. exists r'', tr''. split; [auto|simpl; lia]. }
    destruct (Sub _ _ _ W Hin) as [r'' [tr'' [W' L]]].
    assert (Full : walk pool r child (child :: tr)) by (eapply walk_step; eauto).
    apply walk_chain_irrelevant with (r2 := r) in W'.
    pose proof (walk_deterministic _ _ _ _ Full _ W') as E. subst tr''. simpl in L. lia.
Qed.

Lemma walk_nodup pool : forall r child tr, walk pool r child tr -> NoDup tr.
Proof.
  intros r child tr W. induction W as [r child N|r child c tr N W IH].
  - constructor; [intros []|constructor].
  - constructor; [|exact IH].
    pose proof (walk_no_return _ _ _ _ (walk_step _ _ _ _ _ N W)) as [_ H]. exact H.
Qed.

(** hence a walk that returns is no longer than the pool (pigeonhole), and the
    fuel [S (length pool)] of [find_chain] is exhausted exactly when the
    recursion of the pinned code does not return *)
Theorem walk_bounded pool r child tr : walk pool r child tr -> In child pool -> length tr <= length pool.
Proof.
  intros W Hin. apply NoDup_incl_length; [eapply walk_nodup; eauto|].
  pose proof (walk_in_pool _ _ _ _ W Hin) as F. rewrite Forall_forall in F. exact F.
Qed.

Theorem pinned_exhaustion_is_divergence pool leaf :
  In leaf pool ->
  (build_chain false (S (length pool)) pool [] leaf = None <-> ~ exists tr, walk pool [] leaf tr).
Proof.
  intros Hin. split.
  - intros H [tr W].
    destruct (walk_build_chain _ _ _ _ W (S (length pool))) as [ch E]; [|congruence].
    pose proof (walk_bounded _ _ _ _ W Hin). lia.
  - intros H. destruct (build_chain false (S (length pool)) pool [] leaf) as [ch|] eqn:E; [|reflexivity].
    exfalso. apply H. apply build_chain_walk in E. destruct E as [tr [W _]]. eauto.
Qed.

(** * C19-F1: which files give a key store without keys *)
Definition is_cert_block (b : block) : bool := match b with BCert (Some _) => true | _ => false end.

Lemma scan_keys_nonempty f bl : forall es cs es' cs',
  scan f bl es cs = Ok (es', cs') -> es <> [] -> es' <> [].
Proof.
  induction bl as [|b r IH]; intros es cs es' cs'; simpl.
  - intros H. inversion H. auto.
  - destruct b as [[[a z pub spki|]|] kid|[c|]|]; try discriminate.
    + destruct (fx2 f && negb (size_ok a z)); [discriminate|].
      intros H _. eapply IH; eauto. destruct es; discriminate.
    + intros H Hne. eapply IH; eauto.
Qed.

Lemma scan_no_keys f bl : forall cs es' cs',
  scan f bl [] cs = Ok (es', cs') -> (es' = [] <-> forallb is_cert_block bl = true).
Proof.
  induction bl as [|b r IH]; intros cs es' cs'; simpl.
  - intros H. inversion H. tauto.
  - destruct b as [[[a z pub spki|]|] kid|[c|]|]; try discriminate.
    + destruct (fx2 f && negb (size_ok a z)); [discriminate|]. simpl.
      intros H. split; [|discriminate]. intros E. exfalso.
      eapply scan_keys_nonempty in H; [apply H; exact E|discriminate].
    + simpl. intros H. eapply IH; eauto.
Qed.

Lemma verify_nil_iff f ok pool es known out : verify f ok pool es known = Ok out -> (out = [] <-> es = []).
Proof.
  destruct es as [|p r]; simpl.
  - intros H. inversion H. tauto.
  - destruct (find_chain (fx6 f) pool (p_pub p)) as [chain|]; [|discriminate].
    destruct (negb (is_nil chain) && negb (ok (p_pub p))); [discriminate|].
    match goal with |- context [existsb ?q known] => destruct (existsb q known) end; [discriminate|].
    intros H. apply bind_ok in H. destruct H as [es' [_ H]]. inversion H. split; discriminate.
Qed.

(** the pinned createKeyStore returns an EMPTY store without error exactly for
    files that consist of well-formed certificates only (in particular the
    empty file and every file whose first block is cut off) *)
Theorem empty_store_iff f ok bl :
  create_key_store f ok bl = Ok [] <-> (fx1 f = false /\ forallb is_cert_block bl = true).
Proof.
  unfold create_key_store. split.
  - intros H. apply bind_ok in H. destruct H as [[es cs] [S H]].
    apply bind_ok in H. destruct H as [out [V H]]. simpl in V.
    destruct (fx1 f) eqn:F; simpl in H.
    + destruct out; simpl in H; discriminate.
    + inversion H. subst out. split; [reflexivity|].
      apply (scan_no_keys _ _ _ _ _ S). apply (verify_nil_iff _ _ _ _ _ _ V). reflexivity.
  - intros [F C].
    assert (S : exists cs, scan f bl [] [] = Ok ([], cs)).
    { clear F. generalize (@nil cert) as cs0. induction bl as [|b r IH]; intros cs0; simpl; [eauto|].
      simpl in C. apply andb_true_iff in C. destruct C as [Cb Cr].
      destruct b as [p kid|[c|]|]; try discriminate. apply IH. exact Cr. }
    destruct S as [cs S]. rewrite S. simpl. rewrite F. reflexivity.
Qed.

(** * createEntry's accepted sizes are exactly JWK's supported sizes: every
    entry of a key store built by the repaired code has a JWK *)
Theorem accepted_sizes_have_jwk f ok bl es :
  fx2 f = true -> create_key_store f ok bl = Ok es ->
  forall e, In e es -> exists a, jose_alg e = Ok a.
Proof.
  intros F H e Hin.
  assert (K : ks_of Signer f {| i_path_empty := false; i_keyid := ""; i_file := Some bl; i_trailing := false;
                                i_chain_ok := ok; i_usable := fun _ => true |} = Ok es).
  { unfold ks_of, eff_file. simpl. rewrite andb_false_r. exact H. }
  pose proof (ks_of_fixed_supported _ _ _ _ F K) as U.
  apply jose_alg_ok_iff. eapply existsb_false_in; eauto.
Qed.

(** and the two size tables are the same sets, for every size (not a range) *)
Theorem size_tables_agree a z :
  size_ok a z = true <->
  exists alg, jose_alg {| e_kid := ""; e_alg := a; e_size := z; e_pub := 0; e_chain := [] |} = Ok alg.
Proof.
  rewrite jose_alg_ok_iff. unfold unsupported. simpl. destruct (size_ok a z); simpl; split; congruence.
Qed.

Theorem size_ok_exact a z :
  size_ok a z = true <->
  match a with
  | RSA => z = 2048%Z \/ z = 3072%Z \/ z = 4096%Z
  | ECDSA => z = 256%Z \/ z = 384%Z \/ z = 521%Z
  end.
Proof.
  unfold size_ok, rsa_size_ok, ec_size_ok. destruct a;
    repeat rewrite orb_true_iff; repeat rewrite Z.eqb_eq; tauto.
Qed.

(** * The scopes-matcher decode hook (C19-F9) *)

(** the hook hits one of its unchecked assertions exactly on these values *)
Definition scopes_values_bad (v : yv) : bool :=
  match v with YList l => negb (forallb is_ystr l) | _ => true end.

Definition guard_F9 (f : fixes) (v : yv) : bool :=
  negb (fx9 f) &&
  match v with
  | YList _ => scopes_values_bad v
  | YMapAny => true
  | YMap m =>
    match lookup "matching_strategy" m with
    | Some (YStr s) => known_strategy s && match lookup "values" m with Some x => scopes_values_bad x | None => false end
    | Some _ => true
    | None => match lookup "values" m with Some x => scopes_values_bad x | None => false end
    end
  | _ => false
  end.

Lemma scopes_assert_panic f s : scopes_assert f = Panic s <-> (s = SScopes /\ fx9 f = false).
Proof.
  unfold scopes_assert. destruct (fx9 f); split; try discriminate.
  - intros [_ H]; discriminate.
  - intros H; inversion H; auto.
  - intros [-> _]; reflexivity.
Qed.

Lemma scopes_values_panic f v s :
  scopes_values f v = Panic s <-> (s = SScopes /\ fx9 f = false /\ scopes_values_bad v = true).
Proof.
  unfold scopes_values, scopes_values_bad.
  destruct v; try (rewrite scopes_assert_panic; tauto).
  destruct (forallb is_ystr l); simpl.
  - split; [discriminate|intros [_ [_ H]]; discriminate].
  - rewrite scopes_assert_panic. tauto.
Qed.

Lemma guard_shape f (b : bool) (s : site) :
  (s = SScopes /\ fx9 f = false /\ b = true) <-> (s = SScopes /\ negb (fx9 f) && b = true).
Proof. destruct (fx9 f), b; simpl; split; intros H; try tauto; destruct H as [? H]; try discriminate; destruct H; discriminate. Qed.

Lemma no_panic_shape {A} (r : res A) f (s : site) :
  (forall s', r <> Panic s') -> (r = Panic s <-> (s = SScopes /\ negb (fx9 f) && false = true)).
Proof. intros H. rewrite andb_false_r. split; [intros E; exfalso; eapply H; eauto|intros [_ E]; discriminate]. Qed.

Lemma vals_panic f m s :
  match lookup "values" m with Some x => scopes_values f x | None => Err end = Panic s <->
  (s = SScopes /\ negb (fx9 f) && match lookup "values" m with Some x => scopes_values_bad x | None => false end = true).
Proof.
  destruct (lookup "values" m) as [y|].
  - rewrite scopes_values_panic. apply guard_shape.
  - apply no_panic_shape. discriminate.
Qed.

Theorem decode_scopes_panic_iff f v s :
  decode_scopes f v = Panic s <-> (s = SScopes /\ guard_F9 f v = true).
Proof.
  unfold decode_scopes, guard_F9.
  destruct v as [| | | | |l|m|]; try (apply no_panic_shape; discriminate).
  - rewrite scopes_values_panic. apply guard_shape.
  - destruct (lookup "matching_strategy" m) as [[| | | |x| | |]|];
      try (rewrite scopes_assert_panic; rewrite <- (guard_shape f true s); tauto).
    + destruct (known_strategy x).
      * rewrite andb_true_l. apply vals_panic.
      * rewrite andb_false_l. apply no_panic_shape. discriminate.
    + apply vals_panic.
  - rewrite scopes_assert_panic. rewrite <- (guard_shape f true s). tauto.
Qed.

Theorem decode_scopes_total_fixed f v s : fx9 f = true -> decode_scopes f v <> Panic s.
Proof.
  intros F H. apply decode_scopes_panic_iff in H. destruct H as [_ H]. unfold guard_F9 in H. rewrite F in H. discriminate.
Qed.

Theorem F9_refuted : exists v, guard_F9 no_fixes v = true /\ exists s, decode_scopes no_fixes v = Panic s.
Proof. exists (YList [YInt 1]). split; [reflexivity|eexists; reflexivity]. Qed.

(** * Partial files (C19-F10): by the text of the property a partial key / trust store
    is a REJECTED reload.  [i_trailing]: bytes that do not decode follow the last block —
    what every truncation inside a block leaves behind. *)
Definition spec_partial_rejected (i : kinput) (r : reload) : Prop :=
  i_trailing i = true -> forall st', r <> Reloaded st'.

Definition guard_F10 (c : comp) (f : fixes) (i : kinput) : bool :=
  negb (fx10 f) && i_trailing i && match load c f i with Ok _ => true | _ => false end.

Theorem partial_rejected_fixed c f st i :
  fx10 f = true -> i_trailing i = true -> on_changed c f st i = Kept st.
Proof.
  intros F T. unfold on_changed, load, eff_file. rewrite F, T. simpl.
  destruct (match c with Tls => i_path_empty i | _ => false end); [reflexivity|].
  destruct (i_file i); reflexivity.
Qed.

Theorem partial_rejected c f st i :
  guard_F10 c f i = false -> spec_partial_rejected i (on_changed c f st i).
Proof.
  unfold guard_F10, spec_partial_rejected. intros G T st'. rewrite T in G.
  destruct (fx10 f) eqn:F.
  - rewrite (partial_rejected_fixed c f st i F T). discriminate.
  - simpl in G. unfold on_changed. destruct (load c f i); discriminate.
Qed.

Theorem F10_refuted : exists c i st', i_trailing i = true /\ guard_F10 c no_fixes i = true /\
  on_changed c no_fixes st0 i = Reloaded st'.
Proof.
  exists Signer, {| i_path_empty := false; i_keyid := ""; i_trailing := true; i_chain_ok := fun _ => true; i_usable := fun _ => true;
                    i_file := Some [BKey (Some (KSig ECDSA 256 1 "aa")) ""] |}.
  eexists. vm_compute. splits; reflexivity.
Qed.

(** trust store: a file without any block, or with an undecodable tail, is not accepted once repaired … *)
Theorem trust_store_partial_rejected_fixed f strict i l :
  fx10 f = true -> (ts_blocks i = [] \/ ts_trailing i = true) -> trust_store f strict i <> Ok l.
Proof.
  intros F H. rewrite trust_store_unfold. unfold nil_block. rewrite F.
  destruct (is_nil (ts_blocks i)) eqn:B; [discriminate|].
  destruct H as [H|H]; [rewrite H in B; discriminate|]. rewrite H.
  destruct (ts_loop strict (ts_blocks i) []); discriminate.
Qed.

(** … and is, silently and with fewer certificates, by the tree that has only the repair of F7 *)
Theorem F10_truststore_refuted : exists f i l, fx7 f = true /\ fx10 f = false /\ ts_blocks i = [] /\ trust_store f true i = Ok l.
Proof.
  exists {| fx1 := true; fx2 := true; fx3 := true; fx4 := true; fx5 := true; fx6 := true; fx7 := true; fx8 := true; fx9 := true;
            fx10 := false; fx12 := true; fx13 := true; fxdup := true; fx18 := true |}, {| ts_blocks := []; ts_trailing := false |}, [].
  splits; reflexivity.
Qed.

(** * The empty rule file (C19-F11): a rule file observed at size 0 — truncation at offset 0, what
    an in-place rewrite shows first — is taken as "rule set deleted" *)
Definition guard_F11 (f : fixes) (st : option nat) (e : fs_event) : bool :=
  match op_class f (fe_bits e), fe_read e, st with
  | FsWrite, RdEmpty, Some _ => true
  | _, _, _ => false
  end.

(** on the tree as it is (every event re-examines the file) an event that finds the file empty leaves the
    stored state as it was, outside the guard *)
Theorem fs_empty_keeps_state f st e :
  fx18 f = true -> guard_F11 f st e = false -> fe_read e = RdEmpty ->
  exists x, fs_changed f st e = FsDone x /\ fr_state x = st.
Proof.
  unfold guard_F11, fs_changed, fs_deleted, op_class. intros F G R. rewrite F in *. rewrite R in *.
  destruct (o_create (fe_bits e) || o_write (fe_bits e) || o_chmod (fe_bits e) || o_remove (fe_bits e) || o_rename (fe_bits e)).
  - destruct st; [discriminate|]. eexists. split; reflexivity.
  - eexists. split; reflexivity.
Qed.

Theorem F11_refuted : exists e, guard_F11 all_fixes (Some 1) e = true /\ fe_read e = RdEmpty /\
  exists x, fs_changed all_fixes (Some 1) e = FsDone x /\ fr_state x <> Some 1.
Proof.
  exists {| fe_bits := {| o_create := false; o_write := true; o_chmod := false; o_remove := false; o_rename := false |};
            fe_read := RdEmpty; fe_stat_ok := true; fe_proc_ok := true |}.
  splits; try reflexivity. eexists. split; [reflexivity|]. discriminate.
Qed.

(** * The loops: "none of them … stops a background watcher" *)

Lemma reload_run_app c f : forall a st b,
  reload_run c f st (a ++ b) = match reload_run c f st a with Alive st1 => reload_run c f st1 b | Dead s => Dead s end.
Proof.
  induction a as [|i r IH]; intros st b; simpl; [reflexivity|].
  destruct (on_changed c f st i); auto.
Qed.

(** after ANY sequence of file contents the key-store watcher's listener is alive … *)
Theorem reload_run_alive c f st is :
  fx1 f = true -> fx2 f = true -> fx5 f = true -> fx6 f = true -> exists st', reload_run c f st is = Alive st'.
Proof.
  intros F1 F2 F5 F6. revert st. induction is as [|i r IH]; intros st; simpl; [eauto|].
  pose proof (reload_total_fixed c f st i F1 F2 F5 F6) as T.
  destruct (on_changed c f st i); simpl in T; [apply IH|apply IH|destruct T].
Qed.

(** … rejected contents change nothing … *)
Theorem reload_run_all_rejected c f st is :
  Forall (fun i => load c f i = Err) is -> reload_run c f st is = Alive st.
Proof.
  induction 1 as [|i r H _ IH]; simpl; [reflexivity|]. unfold on_changed. rewrite H. exact IH.
Qed.

(** … and a good content after any number of bad ones is in effect: bad, bad, …, good ⇒ the good state *)
Theorem reload_run_last_good c f st bad i st' :
  fx1 f = true -> fx2 f = true -> fx5 f = true -> fx6 f = true ->
  load c f i = Ok st' -> reload_run c f st (bad ++ [i]) = Alive st'.
Proof.
  intros F1 F2 F5 F6 L. rewrite reload_run_app.
  destruct (reload_run_alive c f st bad F1 F2 F5 F6) as [st1 ->]. simpl. unfold on_changed. rewrite L. reflexivity.
Qed.

Lemma fs_run_app f : forall a st b,
  fs_run f st (a ++ b) = match fs_run f st a with Alive st1 => fs_run f st1 b | Dead s => Dead s end.
Proof.
  induction a as [|e r IH]; intros st b; simpl; [reflexivity|]. destruct (fs_changed f st e); auto.
Qed.

Theorem fs_run_alive f st es : fx4 f = true -> exists st', fs_run f st es = Alive st'.
Proof.
  intros F. revert st. induction es as [|e r IH]; intros st; simpl; [eauto|].
  pose proof (fs_total_fixed f st e F) as T. destruct (fs_changed f st e); simpl in T; [apply IH|destruct T].
Qed.

(** a parsable new content after any events is loaded (created or updated) when the processor accepts it,
    or was loaded already *)
Theorem fs_run_last_good f st es e h :
  fx4 f = true -> op_class f (fe_bits e) = FsWrite -> fe_read e = RdParsed h -> fe_stat_ok e = true -> fe_proc_ok e = true ->
  fs_run f st (es ++ [e]) = Alive (Some h).
Proof.
  intros F O R S P. rewrite fs_run_app. destruct (fs_run_alive f st es F) as [st1 ->]. simpl.
  unfold fs_changed. rewrite O, R, S, P. simpl.
  destruct st1 as [h0|]; [|reflexivity]. destruct (Nat.eqb_spec h0 h); subst; reflexivity.
Qed.

(** ** instances of the loop theorems for the tree as it is *)
Theorem reload_run_alive_now c st is : exists st', reload_run c all_fixes st is = Alive st'.
Proof. apply reload_run_alive; reflexivity. Qed.

Theorem reload_run_last_good_now c st bad i st' :
  load c all_fixes i = Ok st' -> reload_run c all_fixes st (bad ++ [i]) = Alive st'.
Proof. intros. apply reload_run_last_good; auto. Qed.

Theorem fs_run_alive_now st es : exists st', fs_run all_fixes st es = Alive st'.
Proof. apply fs_run_alive. reflexivity. Qed.

Theorem fs_run_last_good_now st es e h :
  op_class all_fixes (fe_bits e) = FsWrite -> fe_read e = RdParsed h -> fe_stat_ok e = true -> fe_proc_ok e = true ->
  fs_run all_fixes st (es ++ [e]) = Alive (Some h).
Proof. intros. apply fs_run_last_good; auto. Qed.

Theorem request_panic_non_success h k : h = Panicked k -> success (recovery_mw h) = false.
Proof. exact (proj2 (request_panic_is_non_success h) k). Qed.

(** * Kubernetes provider: updateStatus (C19-F12, C19-F13) *)

(** which try is reached: the tries before it all end in a conflict followed by a successful re-read *)
Definition retried (t : us_try) : bool :=
  match t_patch t with PatchStatusErr c => (Z.eqb c 409 || Z.eqb c 422)%bool && t_get_ok t | _ => false end.

Fixpoint guard_F12 (f : fixes) (tries : list us_try) : bool :=
  match tries with
  | [] => false
  | t :: r => if Nat.ltb (t_parts t) 2 then negb (fx12 f)
              else match t_patch t with PatchOtherErr => false | _ => retried t && guard_F12 f r end
  end.

Fixpoint guard_F13 (f : fixes) (tries : list us_try) : bool :=
  match tries with
  | [] => false
  | t :: r => if Nat.ltb (t_parts t) 2 && negb (fx12 f) then false
              else match t_patch t with PatchOtherErr => negb (fx13 f) | _ => retried t && guard_F13 f r end
  end.

Lemma guard_F12_fixed f tries : fx12 f = true -> guard_F12 f tries = false.
Proof.
  intros F. induction tries as [|t r IH]; simpl; [reflexivity|]. rewrite F. simpl.
  destruct (Nat.ltb (t_parts t) 2); [reflexivity|]. destruct (t_patch t); try reflexivity; rewrite IH; apply andb_false_r.
Qed.

Lemma guard_F13_fixed f tries : fx13 f = true -> guard_F13 f tries = false.
Proof.
  intros F. induction tries as [|t r IH]; simpl; [reflexivity|]. rewrite F. simpl.
  destruct (Nat.ltb (t_parts t) 2 && negb (fx12 f)); [reflexivity|].
  destruct (t_patch t); try reflexivity; rewrite IH; apply andb_false_r.
Qed.

Theorem update_status_panic_iff f tries s :
  update_status f tries = Panic s <->
  (s = SActiveIn /\ guard_F12 f tries = true) \/ (s = SStatusErr /\ guard_F13 f tries = true).
Proof.
  induction tries as [|t r IH]; simpl.
  - split; [discriminate|intros [[_ H]|[_ H]]; discriminate].
  - unfold retried. destruct (Nat.ltb (t_parts t) 2); simpl.
    + destruct (fx12 f) eqn:F12; simpl.
      * destruct (t_patch t) as [|c|]; simpl.
        -- split; [discriminate|intros [[_ H]|[_ H]]; discriminate].
        -- destruct ((Z.eqb c 409 || Z.eqb c 422)%bool && t_get_ok t); simpl.
           ++ split.
              ** intros H. apply bind_panic in H. destruct H as [H|[n [_ H]]]; [|discriminate].
                 apply IH in H. destruct H as [[-> H]|[-> H]]; [left|right]; auto.
                 rewrite (guard_F12_fixed f r F12) in H. discriminate.
              ** intros [[_ H]|[-> H]]; [discriminate|].
                 assert (E : update_status f r = Panic SStatusErr) by (apply IH; right; auto). rewrite E. reflexivity.
           ++ split; [discriminate|intros [[_ H]|[_ H]]; discriminate].
        -- destruct (fx13 f); simpl; split; try discriminate.
           ++ intros [[_ H]|[_ H]]; discriminate.
           ++ intros H. inversion H. right. auto.
           ++ intros [[_ H]|[-> _]]; [discriminate|reflexivity].
      * split; [intros H; inversion H; left; auto|intros [[-> _]|[_ H]]; [reflexivity|discriminate]].
    + destruct (t_patch t) as [|c|]; simpl.
      * split; [discriminate|intros [[_ H]|[_ H]]; discriminate].
      * destruct ((Z.eqb c 409 || Z.eqb c 422)%bool && t_get_ok t); simpl.
        -- split.
           ++ intros H. apply bind_panic in H. destruct H as [H|[n [_ H]]]; [|discriminate]. apply IH. exact H.
           ++ intros H. apply IH in H. rewrite H. reflexivity.
        -- split; [discriminate|intros [[_ H]|[_ H]]; discriminate].
      * destruct (fx13 f); simpl; split; try discriminate.
        -- intros [[_ H]|[_ H]]; discriminate.
        -- intros H. inversion H. right. auto.
        -- intros [[_ H]|[-> _]]; [discriminate|reflexivity].
Qed.

(** the repaired updateStatus survives every status string, every PatchStatus answer and any number of conflicts *)
Theorem update_status_total_fixed f tries s : fx12 f = true -> fx13 f = true -> update_status f tries <> Panic s.
Proof.
  intros F12 F13 H. apply update_status_panic_iff in H.
  rewrite (guard_F12_fixed f tries F12), (guard_F13_fixed f tries F13) in H. destruct H as [[_ H]|[_ H]]; discriminate.
Qed.

Theorem F12_refuted : exists tries, guard_F12 no_fixes tries = true /\ update_status no_fixes tries = Panic SActiveIn.
Proof. exists [{| t_parts := 1; t_patch := PatchOk; t_get_ok := true |}]. split; reflexivity. Qed.

Theorem F13_refuted : exists tries, guard_F13 no_fixes tries = true /\ update_status no_fixes tries = Panic SStatusErr.
Proof.
  exists [{| t_parts := 2; t_patch := PatchStatusErr 409; t_get_ok := true |}; {| t_parts := 2; t_patch := PatchOtherErr; t_get_ok := false |}].
  split; reflexivity.
Qed.

(** a rule set in which a rule id occurs twice (and whose rules before the second occurrence can be
    created) is a clean rejection on the tree as it is: nothing exits, the loaded rules stay *)
Lemma load_rules_dup f proxy def r rs2 :
  fxdup f = true -> forall rs1 seen,
  (existsb (String.eqb (r_name r)) seen = true \/ existsb (String.eqb (r_name r)) (map r_name rs1) = true) ->
  (forall x, In x rs1 -> create_rule f proxy def x = Ok tt) ->
  load_rules f proxy def seen (rs1 ++ r :: rs2) = Err.
Proof.
  intros F. induction rs1 as [|x xs IH]; intros seen D C; simpl in *.
  - destruct D as [D|D]; [|discriminate]. rewrite F, D. reflexivity.
  - destruct (fxdup f && existsb (String.eqb (r_name x)) seen); [reflexivity|].
    rewrite (C x (or_introl eq_refl)). simpl.
    rewrite IH; [reflexivity| |intros y Hy; apply C; right; exact Hy].
    simpl. destruct D as [D|D].
    + left. rewrite D. apply orb_true_r.
    + apply orb_true_iff in D. destruct D as [D|D]; [left; rewrite D; reflexivity|right; exact D].
Qed.

Theorem duplicate_id_rejected f proxy def st e rs1 r rs2 :
  fxdup f = true -> ev_parse e = PParsed (rs1 ++ r :: rs2) ->
  String.eqb (ev_version e) "1alpha4" = true ->
  existsb (String.eqb (r_name r)) (map r_name rs1) = true ->
  (forall x, In x rs1 -> create_rule f proxy def x = Ok tt) ->
  process f proxy def st e = RsRejected st.
Proof.
  intros F P V D C. unfold process. rewrite P, V. simpl.
  rewrite (load_rules_dup f proxy def r rs2 F rs1 []); auto.
Qed.

(** * Additions of the final pass *)

(** a panic of the rule-set decoder is an exit for every variant of the code: there is no recover around it.
    (C19-F8's repair, checkKeys, changes the DATA of a case — the parser's answer — not a function of this model.) *)
Theorem decoder_panic_is_exit f proxy def st e : ev_parse e = PPanics -> process f proxy def st e = RsExit SDecode.
Proof. intros P. unfold process. rewrite P. reflexivity. Qed.

(** exactness of the guard of C19-F11 on the tree as it is (every event re-examines the file): an event that
    finds the rule file empty changes the stored state exactly when the guard fires, i.e. for every LOADED source *)
Theorem fs_empty_changes_state_iff f st e :
  fx18 f = true -> fe_read e = RdEmpty ->
  (guard_F11 f st e = true <-> exists x, fs_changed f st e = FsDone x /\ (fe_proc_ok e = true -> fr_state x <> st)
                                          /\ fr_calls x = [PDeleted]).
Proof.
  unfold guard_F11, fs_changed, fs_deleted, op_class. intros F R. rewrite F, R.
  destruct (o_create (fe_bits e) || o_write (fe_bits e) || o_chmod (fe_bits e) || o_remove (fe_bits e) || o_rename (fe_bits e)).
  - destruct st as [h|]; split; try discriminate.
    + intros _. destruct (fe_proc_ok e); eexists; splits; try reflexivity; try discriminate.
    + intros _. reflexivity.
    + intros [x [H [_ C]]]. inversion H. subst x. discriminate.
  - split; [discriminate|]. intros [x [H [_ C]]]. inversion H. subst x. discriminate.
Qed.

(** events that find a bad (non-empty) content or an unreadable file after a good one keep it *)
Definition fs_bad_event (e : fs_event) : bool :=
  match fe_read e with RdBad | RdOpenErr => true | _ => false end.

Theorem fs_run_all_rejected f st es : fx18 f = true -> forallb fs_bad_event es = true -> fs_run f st es = Alive st.
Proof.
  intros F. revert st. induction es as [|e r IH]; intros st H; simpl in *; [reflexivity|].
  apply andb_true_iff in H. destruct H as [B H]. unfold fs_bad_event in B. unfold fs_changed, op_class. rewrite F.
  destruct (o_create (fe_bits e) || o_write (fe_bits e) || o_chmod (fe_bits e) || o_remove (fe_bits e) || o_rename (fe_bits e)).
  - destruct (fe_read e); try discriminate; simpl; apply IH; exact H.
  - simpl. apply IH; exact H.
Qed.

Theorem fs_run_all_rejected_now st es : forallb fs_bad_event es = true -> fs_run all_fixes st es = Alive st.
Proof. apply fs_run_all_rejected. reflexivity. Qed.

(** non-vacuity of the rule-set theorem for the tree as it is: its hypothesis holds and the set is applied *)
Example ruleset_nonvacuous_now :
  let e := ev_of [{| r_name := "r"; r_id := "r#1";
                     r_exec := [{| s_map := [("authenticator", YStr "anon"); ("config", YMap [("subject", YStr "x")])]%string;
                                   s_mech := MOk; s_cel := false |};
                                {| s_map := [("authorizer", YStr "cel"); ("if", YStr "true")]%string; s_mech := MOk; s_cel := true |}];
                     r_eh := [{| s_map := [("error_handler", YStr "default")]%string; s_mech := MOk; s_cel := false |}];
                     r_backend := false; r_rest := MOk |}] in
  ev_oracle_total all_fixes e = true /\ process all_fixes false false ["old"%string] e = RsApplied ["r#1"%string].
Proof. vm_compute. split; reflexivity. Qed.
