(** C19 — model of the loaders heimdall runs on reloadable / remote input, at the
    level AFTER byte parsing, with every Go panic as an explicit [Panic site]
    outcome and unbounded recursion as [Panic SChainLoop] (fatal stack overflow).

    Go sources transcribed (as they are; repairs are parameters [fx_…]):
    - internal/keystore/key_store.go   createKeyStore, createEntry, verifyAndBuildKeyStore, generateKeyID, GetKey
    - internal/keystore/cert_chain.go  FindChain, buildChain, isIssuerOf
    - internal/keystore/entry.go       JWK / JOSEAlgorithm / getRSAAlgorithm / getECDSAAlgorithm, TLSCertificate
    - internal/rules/mechanisms/finalizers/jwt_signer.go          load, OnChanged
    - internal/x/tlsx/key_store.go                                 load, OnChanged
    - internal/rules/endpoint/authstrategy/http_message_signatures.go  init, OnChanged, toHTTPSigKey
    - internal/watcher/watcher_impl.go  fireOnChange (`go listener.OnChanged`, no recover)
    - internal/truststore/trust_store.go addEntry / NewTrustStoreFromPEMBytes
    - internal/rules/rule_factory_impl.go createExecutePipeline, createOnErrorPipeline, createHandler,
      getConfig, getExecutionCondition, CreateRule;  ruleset_processor_impl.go loadRules/OnCreated/OnUpdated
    - internal/rules/provider/filesystem/provider.go ruleSetsChanged, ruleSetCreatedOrUpdated, ruleSetDeleted, loadRuleSet
    - internal/rules/mechanisms/authenticators/extractors/composite_extract_strategy.go GetAuthData
    - internal/handler/middleware/http/recovery/handler.go

    Data of a case (observed answers of libraries on the very input, never axioms):
    what encoding/pem + x509/pkcs8 parsers return per block, public-key / name /
    key-identifier equalities (interned), x509 chain verification, CEL
    compilation, the mechanism factory's answer per step, YAML + mapstructure
    decoding and validation of a rule set, os.Open / os.Stat results. *)
From HV Require Import Base.Prelude.

Inductive site :=
| SEntries0      (* ks.Entries()[0] on an empty key store *)
| SKeySize       (* keystore.getRSAAlgorithm / getECDSAAlgorithm *)
| SSigKeySize    (* authstrategy.getRSAAlgorithm / getECDSAAlgorithm (toHTTPSigKey) *)
| SIdAssert      (* id.(string) in the rule factory *)
| SGetConfig     (* getConfig: panic("unexpected type for config") *)
| SStatNil       (* stat.ModTime() on the nil result of os.Stat *)
| SChainLoop     (* buildChain never returns: fatal stack overflow *)
| SMech          (* the mechanism factory / a collaborator panicked (oracle) *)
| SExtractEmpty  (* errors[0] in CompositeExtractStrategy.GetAuthData *)
| SNilBlock      (* block.Type on the nil result of pem.Decode in pemx.ReadPEM *)
| SScopes        (* v.(string) / name.(string) / values.([]any) / k.(string) in oauth2.DecodeScopesMatcherHookFunc *)
| SActiveIn      (* usedBy[1] on the split of RuleSet.Status.ActiveIn in the kubernetes provider's updateStatus *)
| SStatusErr     (* statusErr.ErrStatus after an errors.As that did not match, same function *)
| SDecode        (* mapstructure (ErrorUnused) on a YAML mapping with a non-string key, under config.DecodeConfig *)
| SOther.

Definition site_eqb (a b : site) : bool :=
  match a, b with
  | SEntries0, SEntries0 | SKeySize, SKeySize | SSigKeySize, SSigKeySize | SIdAssert, SIdAssert
  | SGetConfig, SGetConfig | SStatNil, SStatNil | SChainLoop, SChainLoop | SMech, SMech
  | SExtractEmpty, SExtractEmpty | SNilBlock, SNilBlock | SDecode, SDecode | SScopes, SScopes | SActiveIn, SActiveIn | SStatusErr, SStatusErr
  | SOther, SOther => true
  | _, _ => false
  end.

Inductive res (A : Type) := Ok (a : A) | Err | Panic (s : site).
Arguments Ok {A} a. Arguments Err {A}. Arguments Panic {A} s.

Definition bind {A B} (r : res A) (f : A -> res B) : res B :=
  match r with Ok a => f a | Err => Err | Panic s => Panic s end.

(** which repairs are applied: [no_fixes] = the pinned tree, [all_fixes] = the tree
    after the `fix:` commits of docs/FIXES_APPLIED.md *)
Record fixes := {
  fx1 : bool;   (* C19-F1: createKeyStore returns an error for a store without keys *)
  fx2 : bool;   (* C19-F2: createEntry rejects unsupported key sizes *)
  fx3 : bool;   (* C19-F3: checked type assertions in the rule factory *)
  fx4 : bool;   (* C19-F4: loadRuleSet checks the error of os.Stat *)
  fx5 : bool;   (* C19-F5: http_message_signatures accepts P-521 (case 512, 521) *)
  fx6 : bool;   (* C19-F6: buildChain never re-uses a certificate already in the chain *)
  fx7 : bool;   (* C19-F7: pemx.ReadPEM stops at a nil block *)
  fx8 : bool;   (* C19-F8: parseYAML rejects mappings with non-string keys *)
  fx9 : bool;   (* C19-F9: checked assertions in the scopes-matcher decode hook *)
  fx10 : bool;  (* C19-F10: readPEMContents / pemx.ReadPEM reject undecodable trailing data (and a file without any block) *)
  fx12 : bool;  (* C19-F12: updateStatus does not index a missing second part of status.activeIn *)
  fx13 : bool;  (* C19-F13: updateStatus checks the result of errors.As *)
  fxdup : bool; (* C06-F6 (not a C19 finding): loadRules rejects a rule set in which a rule id occurs twice *)
  fx18 : bool }. (* C18-F2 (not a C19 finding): every fsnotify event re-examines the file *)

Definition no_fixes := {| fx1 := false; fx2 := false; fx3 := false; fx4 := false; fx5 := false; fx6 := false; fx7 := false; fx8 := false; fx9 := false; fx10 := false; fx12 := false; fx13 := false; fxdup := false; fx18 := false |}.
Definition all_fixes := {| fx1 := true; fx2 := true; fx3 := true; fx4 := true; fx5 := true; fx6 := true; fx7 := true; fx8 := true; fx9 := true; fx10 := true; fx12 := true; fx13 := true; fxdup := true; fx18 := true |}.

(** * Key store *)

Inductive alg := RSA | ECDSA.
Definition alg_eqb (a b : alg) : bool := match a, b with RSA, RSA | ECDSA, ECDSA => true | _, _ => false end.

(** a parsed certificate, as far as chain building looks at it.  [c_id]:
    identity of the raw bytes ([Certificate.Equal]); [c_pub]: identity of the
    public key; names and key identifiers as strings ("" = extension absent) *)
Record cert := { c_id : nat; c_pub : nat; c_subj : string; c_iss : string; c_aki : string; c_ski : string }.

(** what a private-key parser returned: an RSA/ECDSA key (size as
    [createEntry] computes it, public-key identity, hex SHA-1 of its SPKI) or a
    key of another type (ed25519 …) *)
Inductive keyinfo := KSig (a : alg) (size : Z) (pub : nat) (spki : string) | KForeign.

(** a PEM block after [pem.Decode] and the parser selected by its type;
    [None] = that parser returned an error *)
Inductive block :=
| BKey (p : option keyinfo) (kid : string)     (* the four private-key types; kid = X-Key-ID header *)
| BCert (p : option cert)
| BOther.                                      (* any other block type *)

Record entry := { e_kid : string; e_alg : alg; e_size : Z; e_pub : nat; e_chain : list cert }.

Definition is_empty (s : string) : bool := match s with EmptyString => true | _ => false end.

Definition is_issuer_of (child cand : cert) : bool :=
  if negb (is_empty (c_aki child)) && negb (is_empty (c_ski cand))
  then String.eqb (c_aki child) (c_ski cand)
  else String.eqb (c_iss child) (c_subj cand).

Definition cert_in (c : cert) (l : list cert) : bool := existsb (fun x => Nat.eqb (c_id x) (c_id c)) l.

(** the candidate loop of buildChain: first certificate of the pool that is
    not the child itself (repaired: not yet in the chain) and is its issuer *)
Definition next_issuer (fixed : bool) (pool chain : list cert) (child : cert) : option cert :=
  find (fun cand => (if fixed then negb (cert_in cand chain) else negb (Nat.eqb (c_id child) (c_id cand)))
                    && is_issuer_of child cand) pool.

(** buildChain; [chain] is the chain so far in reverse order, its head is the
    child.  Fuel exhaustion stands for "the Go recursion does not return"
    (C19/Proofs.v shows that with fuel [S (length pool)] it means exactly that). *)
Fixpoint build_chain (fixed : bool) (fuel : nat) (pool : list cert) (rchain : list cert) (child : cert)
  : option (list cert) :=
  match fuel with
  | O => None
  | S f => match next_issuer fixed pool (child :: rchain) child with
           | None => Some (rev (child :: rchain))
           | Some c => build_chain fixed f pool (child :: rchain) c
           end
  end.

Definition find_chain (fixed : bool) (pool : list cert) (pub : nat) : option (list cert) :=
  match find (fun c => Nat.eqb (c_pub c) pub) pool with
  | None => Some []
  | Some leaf => build_chain fixed (S (length pool)) pool [] leaf
  end.

Definition rsa_size_ok (z : Z) : bool := (Z.eqb z 2048 || Z.eqb z 3072 || Z.eqb z 4096)%bool.
Definition ec_size_ok (z : Z) : bool := (Z.eqb z 256 || Z.eqb z 384 || Z.eqb z 521)%bool.
Definition size_ok (a : alg) (z : Z) : bool := match a with RSA => rsa_size_ok z | ECDSA => ec_size_ok z end.

(** the block loop of createKeyStore: entries (without chain, kid = header) and certificates *)
Record pre_entry := { p_kid : string; p_alg : alg; p_size : Z; p_pub : nat; p_spki : string }.

Fixpoint scan (f : fixes) (bl : list block) (es : list pre_entry) (cs : list cert) : res (list pre_entry * list cert) :=
  match bl with
  | [] => Ok (es, cs)
  | BOther :: _ => Err                              (* unsupported entry in the pem file *)
  | BCert None :: _ | BKey None _ :: _ => Err       (* failed to parse <idx> entry *)
  | BCert (Some c) :: r => scan f r es (cs ++ [c])
  | BKey (Some KForeign) _ :: _ => Err              (* createEntry: unsupported key type *)
  | BKey (Some (KSig a z pub spki)) kid :: r =>
      if fx2 f && negb (size_ok a z) then Err
      else scan f r (es ++ [{| p_kid := kid; p_alg := a; p_size := z; p_pub := pub; p_spki := spki |}]) cs
  end.

(** generateKeyID: SubjectKeyId of the end-entity certificate if it has one, else SHA-1 of the SPKI *)
Definition gen_kid (chain : list cert) (spki : string) : string :=
  match chain with
  | c :: _ => if is_empty (c_ski c) then spki else c_ski c
  | [] => spki
  end.

(** verifyAndBuildKeyStore.  [chain_ok]: the answer of ValidateChain (x509
    verification) per public key, data of the case. *)
Fixpoint verify (f : fixes) (chain_ok : nat -> bool) (pool : list cert) (es : list pre_entry)
                (known : list string) : res (list entry) :=
  match es with
  | [] => Ok []
  | p :: r =>
    match find_chain (fx6 f) pool (p_pub p) with
    | None => Panic SChainLoop
    | Some chain =>
      if negb (is_nil chain) && negb (chain_ok (p_pub p)) then Err else
      let kid := if is_empty (p_kid p) then gen_kid chain (p_spki p) else p_kid p in
      if existsb (String.eqb kid) known then Err else
      bind (verify f chain_ok pool r (kid :: known))
           (fun es' => Ok ({| e_kid := kid; e_alg := p_alg p; e_size := p_size p; e_pub := p_pub p;
                              e_chain := chain |} :: es'))
    end
  end.

Definition create_key_store (f : fixes) (chain_ok : nat -> bool) (bl : list block) : res (list entry) :=
  bind (scan f bl [] [])
       (fun ec => bind (verify f chain_ok (snd ec) (fst ec) [])
                       (fun es => if fx1 f && is_nil es then Err else Ok es)).

Fixpoint get_key (kid : string) (es : list entry) : option entry :=
  match es with
  | [] => None
  | e :: r => if String.eqb (e_kid e) kid then Some e else get_key kid r
  end.

(** Entry.JWK(): the JOSE algorithm name, or the explicit panic *)
Definition jose_alg (e : entry) : res string :=
  match e_alg e with
  | RSA => if Z.eqb (e_size e) 2048 then Ok "PS256"%string else if Z.eqb (e_size e) 3072 then Ok "PS384"%string
           else if Z.eqb (e_size e) 4096 then Ok "PS512"%string else Panic SKeySize
  | ECDSA => if Z.eqb (e_size e) 256 then Ok "ES256"%string else if Z.eqb (e_size e) 384 then Ok "ES384"%string
             else if Z.eqb (e_size e) 521 then Ok "ES512"%string else Panic SKeySize
  end.

Fixpoint jwks (es : list entry) : res (list (string * string)) :=
  match es with
  | [] => Ok []
  | e :: r => bind (jose_alg e) (fun a => bind (jwks r) (fun l => Ok ((e_kid e, a) :: l)))
  end.

(** toHTTPSigKey: sizes 2048/3072/4096 and 256/384/512 (sic) *)
Definition sig_key_ok (f : fixes) (e : entry) : bool :=
  match e_alg e with
  | RSA => rsa_size_ok (e_size e)
  | ECDSA => (Z.eqb (e_size e) 256 || Z.eqb (e_size e) 384 || Z.eqb (e_size e) 512 ||
              (fx5 f && Z.eqb (e_size e) 521))%bool
  end.

(** * The three reloadable key-store users *)

Inductive comp := Signer | Tls | HttpSig.

(** what a component keeps from the last successful load.  Fields a component
    does not store are left at their default by its [load]. *)
Record kstate := {
  st_kid : string; st_alg : string;      (* jwtSigner.jwk.KeyID / .Algorithm *)
  st_pub : option nat;                   (* identity of the active private key (jwtSigner.key, tlsCert.PrivateKey) *)
  st_keys : list (string * string);      (* pubKeys: kid, alg *)
  st_chain : list nat }.                 (* ids of the active certificate chain *)

Record kinput := {
  i_path_empty : bool;                   (* tlsx: no path configured *)
  i_keyid : string;                      (* configured key_id, "" = first entry *)
  i_file : option (list block);          (* None: Stat/ReadFile failed *)
  i_trailing : bool;                     (* bytes that do not decode as a PEM block follow the last block: the file is
                                            cut inside a block, or has other garbage at its end *)
  i_chain_ok : nat -> bool;              (* ValidateChain per public key *)
  i_usable : nat -> bool }.              (* pkix.ValidateCertificate(digitalSignature, now) per public key *)

Definition select (f : fixes) (keyid : string) (es : list entry) : res entry :=
  if is_empty keyid then
    match es with [] => Panic SEntries0 | e :: _ => Ok e end
  else match get_key keyid es with Some e => Ok e | None => Err end.

(** readPEMContents: the blocks decoded before the first undecodable rest; repaired: such a rest is an error *)
Definition eff_file (f : fixes) (i : kinput) : option (list block) :=
  match i_file i with
  | Some bl => if fx10 f && i_trailing i then None else Some bl
  | None => None
  end.

Definition load (c : comp) (f : fixes) (i : kinput) : res kstate :=
  if match c with Tls => i_path_empty i | _ => false end then Err else
  match eff_file f i with
  | None => Err
  | Some bl =>
    bind (create_key_store f (i_chain_ok i) bl) (fun es =>
    bind (select f (i_keyid i) es) (fun e =>
    match c with
    | Tls =>
      if is_nil (e_chain e) then Err      (* ErrNoCertificatePresent *)
      else Ok {| st_kid := ""; st_alg := ""; st_pub := Some (e_pub e); st_keys := []; st_chain := map c_id (e_chain e) |}
    | Signer =>
      if negb (is_nil (e_chain e)) && negb (i_usable i (e_pub e)) then Err else
      bind (jwks es) (fun keys =>
      bind (jose_alg e) (fun a =>
      Ok {| st_kid := e_kid e; st_alg := a; st_pub := Some (e_pub e); st_keys := keys;
            st_chain := map c_id (e_chain e) |}))
    | HttpSig =>
      if negb (is_nil (e_chain e)) && negb (i_usable i (e_pub e)) then Err else
      bind (jwks es) (fun keys =>
      if sig_key_ok f e
      then Ok {| st_kid := ""; st_alg := ""; st_pub := None; st_keys := keys; st_chain := map c_id (e_chain e) |}
      else Panic SSigKeySize)
    end))
  end.

(** OnChanged runs on a goroutine started by the watcher without any recover:
    an error is logged, a panic ends the process *)
Inductive reload := Reloaded (st : kstate) | Kept (st : kstate) | ProcessExit (s : site).

Definition on_changed (c : comp) (f : fixes) (st : kstate) (i : kinput) : reload :=
  match load c f i with
  | Ok st' => Reloaded st'
  | Err => Kept st
  | Panic s => ProcessExit s
  end.

Definition state_after (st : kstate) (r : reload) : option kstate :=
  match r with Reloaded s => Some s | Kept s => Some s | ProcessExit _ => None end.

(** * Trust store (NewTrustStoreFromPEMBytes through pemx.ReadPEM): certificates
    are collected, other blocks are an error in strict mode and skipped
    otherwise.  Before b504821 ReadPEM used the result of pem.Decode without a nil check: no block at all,
    or bytes after the last block that do not decode ([ts_trailing]), was a nil dereference (fx7); before
    9709c71 such input was then accepted silently (fx10); now it is an error. *)
Record ts_input := { ts_blocks : list block; ts_trailing : bool }.

Fixpoint ts_loop (strict : bool) (bl : list block) (acc : list nat) : res (list nat) :=
  match bl with
  | [] => Ok acc
  | BCert (Some c) :: r => ts_loop strict r (acc ++ [c_id c])
  | BCert None :: _ => Err
  | _ :: r => if strict then Err else ts_loop strict r acc
  end.

Definition trust_store (f : fixes) (strict : bool) (i : ts_input) : res (list nat) :=
  match ts_blocks i with
  | [] => if fx10 f then Err else if fx7 f then Ok [] else Panic SNilBlock
  | bl => bind (ts_loop strict bl [])
               (fun acc => if ts_trailing i then (if fx10 f then Err else if fx7 f then Ok acc else Panic SNilBlock)
                           else Ok acc)
  end.

(** * Rule factory over the decoded YAML value tree *)

Inductive yv :=
| YNull | YBool (b : bool) | YInt (z : Z) | YFloat | YStr (s : string)
| YList (l : list yv) | YMap (m : list (string * yv)) | YMapAny.   (* YMapAny: map[any]any (non-string keys) *)

Fixpoint lookup (k : string) (m : list (string * yv)) : option yv :=
  match m with
  | [] => None
  | (k', v) :: r => if String.eqb k' k then Some v else lookup k r
  end.

(** ** oauth2.DecodeScopesMatcherHookFunc — the decode hook behind `assertions: {scopes: …}` of a
    rule-level jwt / oauth2_introspection authenticator config, for the values it handles (lists
    and maps).  `scopes: [a, b]` or `scopes: {matching_strategy: wildcard, values: [a]}` *)
Definition is_ystr (v : yv) : bool := match v with YStr _ => true | _ => false end.

Definition scopes_assert (f : fixes) : res unit := if fx9 f then Err else Panic SScopes.

(** createMatcherFromValues: values.([]any), then v.(string) per element *)
Definition scopes_values (f : fixes) (v : yv) : res unit :=
  match v with
  | YList l => if forallb is_ystr l then Ok tt else scopes_assert f
  | _ => scopes_assert f
  end.

Definition known_strategy (s : string) : bool :=
  String.eqb s "exact" || String.eqb s "hierarchic" || String.eqb s "wildcard".

Definition decode_scopes (f : fixes) (v : yv) : res unit :=
  match v with
  | YList _ => scopes_values f v
  | YMapAny => scopes_assert f                      (* k.(string) on a non-string key *)
  | YMap m =>
    let vals := match lookup "values" m with Some x => scopes_values f x | None => Err end in
    match lookup "matching_strategy" m with
    | Some (YStr s) => if known_strategy s then vals else Err
    | Some _ => scopes_assert f                     (* name.(string) *)
    | None => vals
    end
  | _ => Ok tt                                      (* not for this hook *)
  end.

(** answer of the mechanism factory (prototype lookup + WithConfig), data of the case *)
Inductive mres := MOk | MErr | MPanic.

(** one element of `execute` / `on_error`: the map, the factory's answer for the
    call this step leads to, whether its `if` (when a string) compiles as CEL *)
Record step := { s_map : list (string * yv); s_mech : mres; s_cel : bool }.

Inductive cfgv := CfgNil | CfgMap | CfgBad.
Definition cfg_of (o : option yv) : cfgv :=
  match o with
  | None | Some YNull => CfgNil
  | Some (YMap _) => CfgMap
  | Some _ => CfgBad
  end.

(** getConfig *)
Definition get_config (f : fixes) (st : step) : res unit :=
  match cfg_of (lookup "config" (s_map st)) with
  | CfgBad => if fx3 f then Err else Panic SGetConfig
  | _ => Ok tt
  end.

(** id.(string) *)
Definition id_string (f : fixes) (id : yv) : res unit :=
  match id with
  | YStr _ => Ok tt
  | _ => if fx3 f then Err else Panic SIdAssert
  end.

(** getExecutionCondition *)
Definition condition (st : step) : res unit :=
  match lookup "if" (s_map st) with
  | None | Some YNull => Ok tt
  | Some (YStr s) => if is_empty s then Err else if s_cel st then Ok tt else Err
  | Some _ => Err
  end.

Definition mech (st : step) : res unit :=
  match s_mech st with MOk => Ok tt | MErr => Err | MPanic => Panic SMech end.

Inductive kind := KAuthn | KAuthz | KCtx | KFin.

(** lengths of the three stage lists built so far *)
Record pipes := { n_a : nat; n_h : nat; n_f : nat }.

Definition add (p : pipes) (k : kind) : pipes :=
  match k with
  | KAuthn => {| n_a := S (n_a p); n_h := n_h p; n_f := n_f p |}
  | KAuthz | KCtx => {| n_a := n_a p; n_h := S (n_h p); n_f := n_f p |}
  | KFin => {| n_a := n_a p; n_h := n_h p; n_f := S (n_f p) |}
  end.

(** createHandler after the key was found *)
Definition create_handler (f : fixes) (p : pipes) (k : kind) (id : yv) (st : step) : res pipes :=
  if match k with KFin => false | _ => negb (Nat.eqb (n_f p) 0) end then Err else
  bind (condition st) (fun _ =>
  bind (id_string f id) (fun _ =>
  bind (get_config f st) (fun _ =>
  bind (mech st) (fun _ => Ok (add p k))))).

Definition exec_step (f : fixes) (p : pipes) (st : step) : res pipes :=
  match lookup "authenticator" (s_map st) with
  | Some id =>
    if negb (Nat.eqb (n_h p) 0) || negb (Nat.eqb (n_f p) 0) then Err else
    bind (id_string f id) (fun _ =>
    bind (get_config f st) (fun _ =>
    bind (mech st) (fun _ => Ok (add p KAuthn))))
  | None =>
    match lookup "authorizer" (s_map st) with
    | Some id => create_handler f p KAuthz id st
    | None =>
      match lookup "contextualizer" (s_map st) with
      | Some id => create_handler f p KCtx id st
      | None =>
        match lookup "finalizer" (s_map st) with
        | Some id => create_handler f p KFin id st
        | None => Err                      (* unsupported configuration in execute *)
        end
      end
    end
  end.

Fixpoint exec_pipeline (f : fixes) (p : pipes) (sts : list step) : res pipes :=
  match sts with
  | [] => Ok p
  | st :: r => bind (exec_step f p st) (fun p' => exec_pipeline f p' r)
  end.

(** createOnErrorPipeline: getConfig first, then the condition, then id.(string) *)
Definition eh_step (f : fixes) (st : step) : res unit :=
  match lookup "error_handler" (s_map st) with
  | None => Err
  | Some id =>
    bind (get_config f st) (fun _ =>
    bind (condition st) (fun _ =>
    bind (id_string f id) (fun _ => mech st)))
  end.

Fixpoint eh_pipeline (f : fixes) (sts : list step) : res unit :=
  match sts with
  | [] => Ok tt
  | st :: r => bind (eh_step f st) (fun _ => eh_pipeline f r)
  end.

Record rule_def := {
  r_name : string;              (* the rule's id *)
  r_id : string;                (* id and content (hash): what the repository state is compared by *)
  r_exec : list step; r_eh : list step;
  r_backend : bool;             (* forward_to present *)
  r_rest : mres }.              (* Hash() and the method/host/path matchers (C03): ok / error / panic, data *)

Definition zero_pipes := {| n_a := 0; n_h := 0; n_f := 0 |}.

(** CreateRule: [proxy] mode, [has_default]: a default rule (which always has authenticators) exists *)
Definition create_rule (f : fixes) (proxy has_default : bool) (r : rule_def) : res unit :=
  if proxy && negb (r_backend r) then Err else
  bind (exec_pipeline f zero_pipes (r_exec r)) (fun p =>
  bind (eh_pipeline f (r_eh r)) (fun _ =>
  if Nat.eqb (n_a p) 0 && negb has_default then Err else
  match r_rest r with MOk => Ok tt | MErr => Err | MPanic => Panic SMech end)).

(** ruleSetProcessor.loadRules *)
(** [seen]: the ids of the rules of this set created so far; an id that occurs again rejects the set
    (checked rule by rule, before that rule is created) *)
Fixpoint load_rules (f : fixes) (proxy has_default : bool) (seen : list string) (rs : list rule_def) : res (list string) :=
  match rs with
  | [] => Ok []
  | r :: rest =>
    if fxdup f && existsb (String.eqb (r_name r)) seen then Err else
    bind (create_rule f proxy has_default r)
         (fun _ => bind (load_rules f proxy has_default (r_name r :: seen) rest) (fun ids => Ok (r_id r :: ids)))
  end.

(** a rule-set event: config.ParseRules on the bytes, then the processor.
    [PRejected]: YAML / mapstructure / validation returned an error — the event
    never reaches the processor; [PPanics]: the decoder panicked (observed for
    mappings with non-string keys).  [ev_repo_ok]: the repository's answer (C06). *)
Inductive rs_op := OpCreated | OpUpdated.
Inductive parse_res := PParsed (rs : list rule_def) | PRejected | PPanics.
Record rs_event := {
  ev_op : rs_op; ev_version : string;
  ev_parse : parse_res;
  ev_repo_ok : bool }.

(** outcome on the provider's goroutine (no recover there either) *)
Inductive rs_out := RsApplied (ids : list string) | RsRejected (ids : list string) | RsExit (s : site).

(** [st]: ids of the rules currently loaded for this source *)
Definition process (f : fixes) (proxy has_default : bool) (st : list string) (e : rs_event) : rs_out :=
  match ev_parse e with
  | PRejected => RsRejected st
  | PPanics => RsExit SDecode     (* there is no recover around the decoder; fx8 is a pre-check that changes the DATA *)
  | PParsed rs =>
    if negb (String.eqb (ev_version e) "1alpha4") then RsRejected st else   (* isVersionSupported *)
    match load_rules f proxy has_default [] rs with
    | Ok ids => if ev_repo_ok e then RsApplied ids else RsRejected st
    | Err => RsRejected st
    | Panic s => RsExit s
    end
  end.

(** * File-system provider: one fsnotify event *)

(** the fsnotify.Op bit set of the event *)
Record fs_bits := { o_create : bool; o_write : bool; o_chmod : bool; o_remove : bool; o_rename : bool }.
Inductive fs_op := FsWrite (* Create | Write | Chmod *) | FsRemove | FsNone (* Rename only … *).
(** the switch of ruleSetsChanged *)
Definition op_class (f : fixes) (b : fs_bits) : fs_op :=
  if fx18 f then
    (if o_create b || o_write b || o_chmod b || o_remove b || o_rename b then FsWrite else FsNone)
  else if o_create b || o_write b || o_chmod b then FsWrite else if o_remove b then FsRemove else FsNone.
Inductive fs_read := RdOpenNotExist | RdOpenErr | RdEmpty | RdBad | RdParsed (hash : nat).
Inductive pcall := PCreated | PUpdated | PDeleted.

Record fs_event := {
  fe_bits : fs_bits; fe_read : fs_read;
  fe_stat_ok : bool;            (* os.Stat after parsing succeeded; false: the file does not exist any more *)
  fe_proc_ok : bool }.          (* the processor accepted the call (if one is made) *)

(** [st]: the hash stored for this file in p.states (None: file not known).
    Result: new stored hash, processor calls made, error returned? *)
Record fs_res := { fr_state : option nat; fr_calls : list pcall; fr_err : bool }.
Inductive fs_out := FsDone (r : fs_res) | FsExit (s : site).

Definition fs_deleted (st : option nat) (e : fs_event) : fs_out :=
  match st with
  | None => FsDone {| fr_state := None; fr_calls := []; fr_err := false |}
  | Some h => if fe_proc_ok e then FsDone {| fr_state := None; fr_calls := [PDeleted]; fr_err := false |}
              else FsDone {| fr_state := Some h; fr_calls := [PDeleted]; fr_err := true |}
  end.

Definition fs_changed (f : fixes) (st : option nat) (e : fs_event) : fs_out :=
  match op_class f (fe_bits e) with
  | FsNone => FsDone {| fr_state := st; fr_calls := []; fr_err := false |}
  | FsRemove => fs_deleted st e
  | FsWrite =>
    match fe_read e with
    | RdOpenNotExist | RdEmpty => fs_deleted st e
    | RdOpenErr | RdBad => FsDone {| fr_state := st; fr_calls := []; fr_err := true |}
    | RdParsed h =>
      if negb (fe_stat_ok e) then
        (* repaired: the error of Stat (file does not exist) is returned, which the caller takes as "deleted" *)
        (if fx4 f then fs_deleted st e else FsExit SStatNil)
      else
      match st with
      | None =>                       (* len(hash) == 0 *)
        if fe_proc_ok e then FsDone {| fr_state := Some h; fr_calls := [PCreated]; fr_err := false |}
        else FsDone {| fr_state := st; fr_calls := [PCreated]; fr_err := true |}
      | Some h0 =>
        if Nat.eqb h0 h then FsDone {| fr_state := st; fr_calls := []; fr_err := false |}
        else if fe_proc_ok e then FsDone {| fr_state := Some h; fr_calls := [PUpdated]; fr_err := false |}
        else FsDone {| fr_state := st; fr_calls := [PUpdated]; fr_err := true |}
      end
    end
  end.

(** * Request goroutines: the recovery middleware turns a panic into the
    internal-error response; CompositeExtractStrategy on an empty list *)

(** GetAuthData over the answers of the strategies ([None] = that strategy returned an error) *)
Fixpoint first_some (l : list (option string)) : option string :=
  match l with
  | [] => None
  | Some v :: _ => Some v
  | None :: r => first_some r
  end.

Definition composite_extract (l : list (option string)) : res string :=
  match first_some l with
  | Some v => Ok v
  | None => match l with [] => Panic SExtractEmpty | _ => Err end
  end.

(** a handler run: it answers with a status code, or panics.  recovery.New:
    recover, log, wrap the value as cause of ErrInternal and hand it to the
    service's error handler, which answers by the first heimdall error kind the
    chain `Is` (so a panic carrying an authentication error is a 401); a value
    that is not an error, or an error of no such kind, is a 500. *)
Inductive pkind := PkAuthn | PkAuthz | PkComm | PkArg | PkNoRule | PkOther.
Inductive handled :=
| Answered (status : Z)
| Panicked (k : pkind)                      (* before anything was written *)
| PanickedAfter (status : Z).               (* the handler had already sent the header with [status] *)
Definition recovery_mw (h : handled) : Z :=
  match h with
  | Answered s => s
  | Panicked PkAuthn => 401
  | Panicked PkAuthz => 403
  | Panicked PkComm => 502
  | Panicked PkArg => 400
  | Panicked PkNoRule => 404
  | Panicked PkOther => 500
  | PanickedAfter s => s                      (* the status line is on the wire; the error handler's code is ignored *)
  end%Z.

(** * Sequences: the watcher loops.  The key-store watcher starts one goroutine per event, the
    provider loop handles one event after the other; a run is alive as long as no step exits. *)
Inductive run (S : Type) := Alive (st : S) | Dead (s : site).
Arguments Alive {S} st. Arguments Dead {S} s.

Fixpoint reload_run (c : comp) (f : fixes) (st : kstate) (is : list kinput) : run kstate :=
  match is with
  | [] => Alive st
  | i :: r => match on_changed c f st i with
              | Reloaded st' => reload_run c f st' r
              | Kept st' => reload_run c f st' r
              | ProcessExit s => Dead s
              end
  end.

Fixpoint fs_run (f : fixes) (st : option nat) (es : list fs_event) : run (option nat) :=
  match es with
  | [] => Alive st
  | e :: r => match fs_changed f st e with
              | FsDone x => fs_run f (fr_state x) r
              | FsExit s => Dead s
              end
  end.

(** * Kubernetes provider: updateStatus, run by every informer callback (add / update / delete of a
    RuleSet) on client-go's informer goroutine, whose HandleCrash re-panics.  A try is one pass:
    the number of "/"-separated parts of status.activeIn as the API delivered it ("" is taken as
    "0/0"), the answer of PatchStatus, and - after a conflict - whether re-reading the RuleSet
    worked; a conflict leads to the next try with the re-read object. *)
Inductive patch_res := PatchOk | PatchStatusErr (code : Z) | PatchOtherErr.   (* other: not a *StatusError (connection refused, timeout …) *)
Record us_try := { t_parts : nat; t_patch : patch_res; t_get_ok : bool }.

(** result: the number of PatchStatus calls made *)
Fixpoint update_status (f : fixes) (tries : list us_try) : res nat :=
  match tries with
  | [] => Ok 1                                       (* after the scripted tries: a well-formed status, PatchStatus succeeds *)
  | t :: r =>
    if Nat.ltb (t_parts t) 2 && negb (fx12 f) then Panic SActiveIn else
    match t_patch t with
    | PatchOk => Ok 1
    | PatchOtherErr => if fx13 f then Ok 1 else Panic SStatusErr
    | PatchStatusErr c =>
      if (Z.eqb c 409 || Z.eqb c 422)%bool && t_get_ok t
      then bind (update_status f r) (fun n => Ok (S n))
      else Ok 1                                      (* 404: gone; other codes and a failed Get: logged *)
    end
  end.
