(** C07 — Rule-set changes are atomic for concurrent requests and never lost; no
    interleaving produces a data race, a deadlock or a crash.

    Property theorems only; the semantics is in Base/Locks.v, the copy-on-write
    discipline and the sequential specification in C07/Model.v, the proofs in
    Base/Locks.v and C07/Proofs.v.

    Every theorem is stated for EVERY skeleton [sk] that passes the boolean
    check [wf_skel K sk]; [Gen/RepoSkel.v] (regenerated from
    internal/rules/repository_impl.go on every run) ends with
    [Example repo_skel_wf : wf_skel repo_wlock repo_skel = true], which is what
    ties the theorems to the code.  The [C07_repo_…] corollaries are the
    instances for that skeleton.

    Reading guide: a configuration [c] has a lock table, guarded fields, pointer
    fields, a heap of objects and an UNBOUNDED family of threads (every natural
    number is a thread id); [reach wfun sk wp c] means [c] is reachable from an
    initial configuration by any interleaving of any number of operations
    (paths of methods of [sk]); [wp] switches sync.RWMutex's writer preference
    on or off (the theorems hold for both); [wfun] are the (uninterpreted)
    functions computing written values from the values read. *)
From HV Require Import Base.Prelude Base.Locks C07.Model C07.Proofs Gen.RepoSkel C07.Repo.

(** no interleaving reaches a crash: unlock of an unlocked mutex, nil
    dereference (use of an object pointer that was never loaded), or code the
    extractor could not translate *)
Theorem C07_no_crash :
  forall (val arg : Type) (wfun : op arg -> nat -> list val -> val) (sk : skel) (wp : bool) (K : lock),
    wf_skel K sk = true ->
    forall c : cfg val arg, reach wfun sk wp c -> ~ bad c.
Proof. exact g_no_crash. Qed.
Print Assumptions C07_no_crash.

(** no interleaving reaches a data race: never are two threads both about to
    access the same guarded field (r.index, r.knownRules, …), one of them
    writing, nor the same tree object, one of them mutating it *)
Theorem C07_drf :
  forall (val arg : Type) (wfun : op arg -> nat -> list val -> val) (sk : skel) (wp : bool) (K : lock),
    wf_skel K sk = true ->
    forall c : cfg val arg, reach wfun sk wp c -> ~ var_race c /\ ~ obj_race c.
Proof. exact g_race_free. Qed.
Print Assumptions C07_drf.

(** a mutex held exclusively by one thread is held by nobody else, in any mode *)
Theorem C07_mutual_exclusion :
  forall (val arg : Type) (wfun : op arg -> nat -> list val -> val) (sk : skel) (wp : bool) (K : lock),
    wf_skel K sk = true ->
    forall (c : cfg val arg) t1 t2 m x,
      reach wfun sk wp c -> In (m, true) (hold c t1) -> In (m, x) (hold c t2) -> t1 = t2.
Proof. exact g_mutex. Qed.
Print Assumptions C07_mutual_exclusion.

(** no interleaving reaches a deadlock: whenever some operation is in flight,
    some in-flight thread can take a step (not counting the start of new
    operations) — with and without RWMutex writer preference *)
Theorem C07_deadlock_free :
  forall (val arg : Type) (wfun : op arg -> nat -> list val -> val) (sk : skel) (wp : bool) (K : lock),
    wf_skel K sk = true ->
    forall c : cfg val arg, reach wfun sk wp c -> (exists t r, c_thr c t = Some r) -> progress wfun sk wp c.
Proof. exact g_deadlock_free. Qed.
Print Assumptions C07_deadlock_free.

(** the instances for the repository as it is in the working tree *)
Theorem C07_repo_safe :
  forall (val arg : Type) (wfun : op arg -> nat -> list val -> val) (wp : bool) (c : cfg val arg),
    reach wfun repo_skel wp c ->
    ~ bad c /\ ~ var_race c /\ ~ obj_race c /\
    ((exists t r, c_thr c t = Some r) -> progress wfun repo_skel wp c).
Proof. exact repo_safe. Qed.
Print Assumptions C07_repo_safe.
