(** C07 — Rule-set changes are atomic for concurrent requests and never lost; no
    interleaving produces a data race, a deadlock or a crash.

    Property theorems only; the semantics is in Base/Locks.v, the copy-on-write
    discipline and the sequential specification in C07/Model.v; the proofs of the
    lock discipline are in Base/Locks.v, of linearizability in C07/Lin.v, of the
    run-time tie in C07/Sched.v; C07/Proofs.v and C07/Repo.v restate them in the
    form used here.

    Every theorem is stated for EVERY skeleton [sk] that passes the boolean
    check [wf_skel K sk]; [Gen/RepoSkel.v] (regenerated from
    internal/rules/repository_impl.go on every run) ends with
    [Example repo_skel_wf : wf_skel repo_wlock repo_skel = true], which is what
    ties the theorems to the code.  The [C07_repo_…] corollaries are the
    instances for that skeleton.

    Reading guide: a configuration [c] has a lock table, guarded fields, pointer
    fields, a heap of objects and an UNBOUNDED family of threads (every natural
    number is a thread id); [reach wfun sk wp c] means [c] is reachable from an
    initial configuration by any interleaving of any number of operations
    (paths of methods of [sk]); [wp] switches sync.RWMutex's writer preference
    on or off (the theorems hold for both); [wfun] are the (uninterpreted)
    functions computing written values from the values read. *)
From HV Require Import Base.Prelude Base.Locks C07.Model C07.Lin C07.Proofs C07.Examples Gen.RepoSkel C07.Repo C07.Sched.

(** no interleaving reaches a crash in the sense of [bad]: unlock of a mutex the
    thread does not hold, use of a tree VARIABLE that was never loaded or cloned
    (a method-local name), or code the extractor could not translate.  That the
    pointer field itself is non-nil is the hypothesis [initial] of [reach]
    (every pointer field points to an allocated object): the body of
    newRepository is not extracted; a store of nil is untranslatable code. *)
Theorem C07_no_crash :
  forall (val arg : Type) (wfun : op arg -> nat -> list val -> val) (sk : skel) (wp : bool) (K : lock),
    wf_skel K sk = true ->
    forall c : cfg val arg, reach wfun sk wp c -> ~ bad c.
Proof. exact g_no_crash. Qed.
Print Assumptions C07_no_crash.

(** no interleaving reaches a data race: never are two threads both about to
    access the same guarded field (r.index, r.knownRules, …), one of them
    writing, nor the same tree object, one of them mutating it *)
Theorem C07_drf :
  forall (val arg : Type) (wfun : op arg -> nat -> list val -> val) (sk : skel) (wp : bool) (K : lock),
    wf_skel K sk = true ->
    forall c : cfg val arg, reach wfun sk wp c -> ~ var_race c /\ ~ obj_race c.
Proof. exact g_race_free. Qed.
Print Assumptions C07_drf.

(** a mutex held exclusively by one thread is held by nobody else, in any mode *)
Theorem C07_mutual_exclusion :
  forall (val arg : Type) (wfun : op arg -> nat -> list val -> val) (sk : skel) (wp : bool) (K : lock),
    wf_skel K sk = true ->
    forall (c : cfg val arg) t1 t2 m x,
      reach wfun sk wp c -> In (m, true) (hold c t1) -> In (m, x) (hold c t2) -> t1 = t2.
Proof. exact g_mutex. Qed.
Print Assumptions C07_mutual_exclusion.

(** no interleaving reaches a deadlock: whenever some operation is in flight,
    some in-flight thread can take a step (not counting the start of new
    operations) — with and without RWMutex writer preference *)
Theorem C07_deadlock_free :
  forall (val arg : Type) (wfun : op arg -> nat -> list val -> val) (sk : skel) (wp : bool) (K : lock),
    wf_skel K sk = true ->
    forall c : cfg val arg, reach wfun sk wp c -> (exists t r, c_thr c t = Some r) -> progress wfun sk wp c.
Proof. exact g_deadlock_free. Qed.
Print Assumptions C07_deadlock_free.

(** LINEARIZABILITY.  Every execution [ls] (any interleaving, any number of
    threads and operations) from an initial configuration [c0] can be annotated
    ([lin]) with the sequential machine: at the linearization point of each
    operation — the publishing store of a change; for an operation that
    publishes nothing its last access to guarded state, e.g. the load of the
    tree pointer of a lookup — the sequential specification [seq_run] executes
    the WHOLE operation atomically.  Then
    - [seq_hist]: the operations in linearization-point order [lins tr] form a
      legal sequential history of the specification from the initial state;
    - [wb]: per thread the marks of [tr] come as invocation, linearization,
      response, and each response carries the same operation and the SAME log
      (everything the operation read, hence every result it can return) as its
      linearization mark: the operation took effect once, between its
      invocation and its response (so real-time order is respected), and
      returned what the sequential history says;
    - [io_marks tr = io_labels ls]: the invocations/responses of [tr] are the
      real starts and ends of the execution. *)
Theorem C07_linearizable :
  forall (val arg : Type) (wfun : op arg -> nat -> list val -> val) (sk : skel) (wp : bool) (K : lock),
    wf_skel K sk = true ->
    forall (c0 : cfg val arg) ls c,
      initial c0 -> exec wfun sk wp c0 ls c ->
      exists σ pl tr ph,
        lin wfun sk wp c0 ls c σ pl tr /\
        seq_hist wfun sk (abs_of c0) (lins tr) σ /\
        wb (fun _ => PIdle) tr ph /\
        io_marks tr = io_labels ls.
Proof. exact g_linearizable. Qed.
Print Assumptions C07_linearizable.

(** THE SEQUENTIAL HISTORY IS THE EXECUTION, REORDERED.  For EVERY annotation [lin … tr] of the execution [ls]
    (one exists by [C07_linearizable]):  no phantom operations — every entry of the sequential history
    [lins tr] is an operation the execution started;  and restricted to any thread [t], [lins tr] lists exactly
    the operations [t] completed, in the order and with the logs it returned them ([thread_returns t ls]),
    followed by at most one operation that is linearized but has not returned yet — none when [t] is idle.
    Together with [C07_real_time_order] this is linearizability in the classical sense: a reordering of the
    execution's own operations that preserves per-thread and real-time order and is legal sequentially. *)
Theorem C07_history_is_the_execution :
  forall (val arg : Type) (wfun : op arg -> nat -> list val -> val) (sk : skel) (wp : bool) (K : lock),
    wf_skel K sk = true ->
    forall (c0 : cfg val arg) ls c σ pl tr,
      initial c0 -> lin wfun sk wp c0 ls c σ pl tr ->
      (forall t o log, In (t, o, log) (lins tr) -> In (LBegin t o) ls) /\
      (forall t, exists extra,
         thread_hist t (lins tr) = thread_returns t ls ++ extra /\ length extra <= 1 /\
         (c_thr c t = None -> extra = [])).
Proof. exact g_history_is_execution. Qed.
Print Assumptions C07_history_is_the_execution.

(** every concurrently served request is matched against one committed state:
    in the sequential history [lins tr] OF THIS EXECUTION, a completed operation
    (in particular a lookup) sits at a position where the sequential
    specification, run on the state [s1] reached by the whole operations before
    it, returns exactly the log the operation returned — never a partially
    applied change *)
Theorem C07_readers_see_committed_state :
  forall (val arg : Type) (wfun : op arg -> nat -> list val -> val) (sk : skel) (wp : bool) (K : lock),
    wf_skel K sk = true ->
    forall (c0 : cfg val arg) ls c σ pl tr t o log,
      initial c0 -> lin wfun sk wp c0 ls c σ pl tr -> In (LEnd t o log) ls ->
      exists H1 H2 s1 s2,
        lins tr = H1 ++ (t, o, log) :: H2 /\
        seq_hist wfun sk (abs_of c0) H1 s1 /\ seq_run wfun sk o s1 = Some (s2, log).
Proof. exact g_committed. Qed.
Print Assumptions C07_readers_see_committed_state.

(** real-time order: if operation 1 had returned before operation 2 was invoked
    (the labels in [ld] between the invocation and the response of operation 2
    are not starts/ends of thread [t2], i.e. that response belongs to that
    invocation), the sequential history [lins tr] of this execution has
    operation 1 before operation 2 *)
Theorem C07_real_time_order :
  forall (val arg : Type) (wfun : op arg -> nat -> list val -> val) (sk : skel) (wp : bool) (K : lock),
    wf_skel K sk = true ->
    forall (c0 c : cfg val arg) σ pl tr la t1 o1 log1 lb t2 o2 ld log2 le,
      initial c0 ->
      lin wfun sk wp c0 (la ++ LEnd t1 o1 log1 :: lb ++ LBegin t2 o2 :: ld ++ LEnd t2 o2 log2 :: le) c σ pl tr ->
      Forall (other_thread t2) ld ->
      exists Ha Hm Hb, lins tr = Ha ++ (t1, o1, log1) :: Hm ++ (t2, o2, log2) :: Hb.
Proof. exact g_real_time. Qed.
Print Assumptions C07_real_time_order.

(** no change is lost or half overwritten, none is invented: when no operation is
    in flight, the sequential history contains, per thread, exactly the completed
    operations (same order, same logs), it is legal, and the guarded fields and
    the published tree ARE the state it leads to *)
Theorem C07_no_lost_update :
  forall (val arg : Type) (wfun : op arg -> nat -> list val -> val) (sk : skel) (wp : bool) (K : lock),
    wf_skel K sk = true ->
    forall (c0 : cfg val arg) ls c σ pl tr,
      initial c0 -> lin wfun sk wp c0 ls c σ pl tr -> (forall t, c_thr c t = None) ->
      seq_hist wfun sk (abs_of c0) (lins tr) σ /\
      (forall t, thread_hist t (lins tr) = thread_returns t ls) /\
      (forall v, c_val c v = s_val σ v) /\ (forall p, c_heap c (c_ptr c p) = s_pub σ p).
Proof. exact g_no_lost_update. Qed.
Print Assumptions C07_no_lost_update.

(** non-vacuity of the specification side: the sequential run of every path of a
    well-formed skeleton succeeds from every state *)
Theorem C07_seq_spec_total :
  forall (val arg : Type) (wfun : op arg -> nat -> list val -> val) (sk : skel) (K : lock),
    wf_skel K sk = true ->
    forall (o : op arg) path (s : sstate val),
      path_of sk o = Some path -> exists s' log, seq_run wfun sk o s = Some (s', log).
Proof. exact g_seq_total. Qed.
Print Assumptions C07_seq_spec_total.

(** the boolean check is not idle: a skeleton that it rejects (pointer stored and
    loaded without any lock) does reach a data race in the semantics *)
(* sanity facts about single terms (not property theorems; not listed in P["theorems"]) *)
Lemma C07_check_is_needed :
  exists (sk : skel) (c : cfg nat unit),
    wf_locks sk = false /\ reach wf0 sk false c /\ var_race c.
Proof. exact check_is_needed. Qed.
Print Assumptions C07_check_is_needed.

(** ... and the pattern of the repository (hand-written here, independent of the
    generated file) is accepted, so the theorems are not vacuous *)
Lemma C07_nonvacuous : wf_skel 0 (ex_skel (ex_add true false false)) = true.
Proof. exact ex_good. Qed.
Print Assumptions C07_nonvacuous.

(** the instances for the repository as it is in the working tree *)
Theorem C07_repo_safe :
  forall (val arg : Type) (wfun : op arg -> nat -> list val -> val) (wp : bool) (c : cfg val arg),
    reach wfun repo_skel wp c ->
    ~ bad c /\ ~ var_race c /\ ~ obj_race c /\
    ((exists t r, c_thr c t = Some r) -> progress wfun repo_skel wp c).
Proof. exact repo_safe. Qed.
Print Assumptions C07_repo_safe.

Theorem C07_repo_linearizable :
  forall (val arg : Type) (wfun : op arg -> nat -> list val -> val) (wp : bool) (c0 : cfg val arg) ls c,
    initial c0 -> exec wfun repo_skel wp c0 ls c ->
    exists σ pl tr ph,
      lin wfun repo_skel wp c0 ls c σ pl tr /\ seq_hist wfun repo_skel (abs_of c0) (lins tr) σ /\
      wb (fun _ => PIdle) tr ph /\ io_marks tr = io_labels ls /\
      (forall t o log, In (t, o, log) (lins tr) -> In (LBegin t o) ls) /\
      (forall t, exists extra, thread_hist t (lins tr) = thread_returns t ls ++ extra /\ length extra <= 1 /\
                               (c_thr c t = None -> extra = [])) /\
      (forall t o log, In (LEnd t o log) ls ->
         exists H1 H2 s1 s2, lins tr = H1 ++ (t, o, log) :: H2 /\
           seq_hist wfun repo_skel (abs_of c0) H1 s1 /\ seq_run wfun repo_skel o s1 = Some (s2, log)) /\
      ((forall t, c_thr c t = None) ->
         (forall v, c_val c v = s_val σ v) /\ (forall p, c_heap c (c_ptr c p) = s_pub σ p)).
Proof. exact repo_linearizable. Qed.
Print Assumptions C07_repo_linearizable.

(** THE RUN-TIME TIE between the code and the model (stream "sched" of the check).  The instrumented copy of
    repository_impl.go logs, under every explored schedule, what the real code did ([items]: invocations,
    responses, lock operations as granted, accesses to the guarded fields, method calls on the tree objects).
    [replay] (C07/Sched.v) follows such a log through the interleaving semantics of the skeleton [sk]: every
    logged event must be the next event of a path of its method and be enabled in the model, on the objects
    the model computes.  Whatever [replay] went through IS an execution of the skeleton semantics (no writer
    preference) from [c0].  On its own this is satisfied trivially by a log that is rejected at its first event
    (then nothing was gone through: [exec c0 [] c0]); the content is in the combination with the next theorem:
    when [replay] reports no error it went through ALL of the log.  ([ex_log_replays] in C07/Sched.v: a hand-written
    log of the example skeleton is replayed without error; the check's cases are the run-time witnesses.) ... *)
Theorem C07_explored_schedule_is_model_execution :
  forall (val arg : Type) (wfun : op arg -> nat -> list val -> val) (sk : skel) (a0 : arg)
         (c0 : cfg val arg) (items : list item) (s' : rpst val arg) (err : option rerr),
    replay wfun sk a0 items (rpst0 c0) = (s', err) ->
    exec wfun sk false c0 (rev (rs_lab s')) (rs_cfg s').
Proof. exact replay_sound. Qed.
Print Assumptions C07_explored_schedule_is_model_execution.

(** ... whose invocations and responses are exactly the logged ones (same threads, same methods, same order):
    the history that [C07_linearizable] linearizes is the history of the real run ... *)
Theorem C07_explored_schedule_same_history :
  forall (val arg : Type) (wfun : op arg -> nat -> list val -> val) (sk : skel) (a0 : arg)
         (c0 : cfg val arg) (items : list item) (s' : rpst val arg),
    replay wfun sk a0 items (rpst0 c0) = (s', None) ->
    flat_map label_io (rev (rs_lab s')) = flat_map item_io items.
Proof. exact replay_history. Qed.
Print Assumptions C07_explored_schedule_same_history.

(** ... so for a skeleton that passes the check the theorems above apply to the MODEL EXECUTION that the run of the
    real code was replayed as: the configuration it reaches is no crash and no data race, and that execution has a
    linearization.  Values are abstract in the model (the check evaluates the instance with [unit] values, see
    [C07_repo_explored_schedule_safe]): the logs of [lin] say which events an operation went through, not what the
    real operation returned.  That the RESULTS of the real operations are linearizable is checked per schedule
    (evaluator, against the real code run sequentially), not proved. *)
Theorem C07_explored_schedule_safe :
  forall (val arg : Type) (wfun : op arg -> nat -> list val -> val) (sk : skel) (a0 : arg) (K : lock)
         (c0 : cfg val arg) (items : list item) (s' : rpst val arg) (err : option rerr),
    wf_skel K sk = true -> initial c0 -> replay wfun sk a0 items (rpst0 c0) = (s', err) ->
    ~ bad (rs_cfg s') /\ ~ var_race (rs_cfg s') /\ ~ obj_race (rs_cfg s') /\
    exists σ pl tr ph,
      lin wfun sk false c0 (rev (rs_lab s')) (rs_cfg s') σ pl tr /\
      seq_hist wfun sk (abs_of c0) (lins tr) σ /\
      wb (fun _ => PIdle) tr ph /\
      io_marks tr = io_labels (rev (rs_lab s')).
Proof. exact replay_run_safe. Qed.
Print Assumptions C07_explored_schedule_safe.

(** the same for the repository as it is in the working tree, in the instance the check evaluates *)
Theorem C07_repo_explored_schedule_safe :
  forall (items : list item) (s' : rpst unit unit) (err : option rerr),
    replay wf1 repo_skel tt items (rpst0 cfg0) = (s', err) ->
    exec wf1 repo_skel false cfg0 (rev (rs_lab s')) (rs_cfg s') /\
    (err = None -> flat_map label_io (rev (rs_lab s')) = flat_map item_io items) /\
    ~ bad (rs_cfg s') /\ ~ var_race (rs_cfg s') /\ ~ obj_race (rs_cfg s') /\
    exists σ pl tr ph,
      lin wf1 repo_skel false cfg0 (rev (rs_lab s')) (rs_cfg s') σ pl tr /\
      seq_hist wf1 repo_skel (abs_of cfg0) (lins tr) σ /\
      wb (fun _ => PIdle) tr ph /\
      io_marks tr = io_labels (rev (rs_lab s')).
Proof. exact repo_explored_schedule_safe. Qed.
Print Assumptions C07_repo_explored_schedule_safe.
