(** C04 — Authenticators fall back only on missing credentials or explicit
    opt-in.  Property theorems only; proofs are in C04/Proofs.v.

    Chain level: [execute] is compositeSubjectCreator.Execute over authenticators
    abstracted to (outcome on the request, IsFallbackOnErrorAllowed()); all
    theorems hold for chains of any length.  Type level: [classify] is the error
    kind each real authenticator type produces per credential shape. *)
From HV Require Import Base.Prelude C04.Model C04.Proofs.

(** the composite is exactly the declarative specification [spec]: skip the
    authenticators that let pass, answer with the first that accepts or blocks,
    or with the last error when all let pass *)
Theorem C04_execute_iff_spec : forall ca r, execute ca = r <-> spec ca r.
Proof. exact execute_iff_spec. Qed.
Print Assumptions C04_execute_iff_spec.

(** the subject is the one produced by the first authenticator that succeeds *)
Theorem C04_first_success_wins : forall ca n s,
  execute ca = (n, RSubject s) ->
  exists pre a post, ca = pre ++ a :: post /\ n = S (length pre) /\
    accepts a s /\ Forall (fun b => ~ succeeds b) pre /\ Forall lets_pass pre.
Proof. exact first_success_wins. Qed.
Print Assumptions C04_first_success_wins.

(** a later authenticator is consulted only if every earlier one found no
    credentials of its kind or allows fallback on error ([n] = number consulted) *)
Theorem C04_later_only_if_all_earlier_nocreds_or_optin : forall ca n r,
  execute ca = (n, r) ->
  forall i, i < n -> forall j, j < i ->
  exists b, nth_error ca j = Some b /\ (no_credentials b \/ opted_in b).
Proof. exact later_only_if_all_earlier_pass. Qed.
Print Assumptions C04_later_only_if_all_earlier_nocreds_or_optin.

(** credentials found and not accepted, no opt-in: authentication fails and
    nothing behind that authenticator is consulted, even if it would succeed *)
Theorem C04_rejected_without_optin_fails_even_if_later_accepts : forall pre a post e,
  Forall (fun b => ~ succeeds b) pre -> blocks a e ->
  exists n e', execute (pre ++ a :: post) = (n, RError e') /\ n <= S (length pre).
Proof. exact rejected_without_optin_fails. Qed.
Print Assumptions C04_rejected_without_optin_fails_even_if_later_accepts.

Theorem C04_rejected_without_optin_exact : forall pre a post e,
  Forall lets_pass pre -> blocks a e ->
  execute (pre ++ a :: post) = (S (length pre), RError e).
Proof. exact rejected_without_optin_exact. Qed.
Print Assumptions C04_rejected_without_optin_exact.

(** the [idx < len(ca)] test in the loop never decides anything *)
Theorem C04_index_test_vacuous : forall ca, execute ca = exec_plain None ca.
Proof. exact execute_plain. Qed.
Print Assumptions C04_index_test_vacuous.

(** per type: a request is answered with an argument-kind ("no credentials")
    error exactly when it carries no credentials of the authenticator's kind;
    present-and-rejected credentials, remote failures etc. never are *)
Theorem C04_classify_T_sound : forall t q,
  classify t q = Failed ENoCreds <-> presented t q = false.
Proof. exact classify_sound. Qed.
Print Assumptions C04_classify_T_sound.

Theorem C04_anonymous_unauthorized_fixed : forall q fb sub,
  classify (TAnonymous sub) q = Accepted sub /\
  classify TUnauthorized q = Failed ERejected /\
  fallback_allowed {| a_type := TAnonymous sub; a_fb := fb |} = false /\
  fallback_allowed {| a_type := TUnauthorized; a_fb := fb |} = false.
Proof. exact classify_fixed. Qed.
Print Assumptions C04_anonymous_unauthorized_fixed.

(** both levels together, on chains of real authenticator types *)
Theorem C04_typed_rejected_blocks : forall q pre a post,
  Forall (fun b => forall s, classify (a_type b) q <> Accepted s) pre ->
  presented (a_type a) q = true ->
  (forall s, classify (a_type a) q <> Accepted s) ->
  fallback_allowed a = false ->
  exists n e, authenticate (pre ++ a :: post) q = (n, RError e) /\ n <= S (length pre).
Proof. exact typed_rejected_blocks. Qed.
Print Assumptions C04_typed_rejected_blocks.

(** non-vacuity: wrong basic-auth password, no opt-in, anonymous behind it *)
Example C04_nonvacuous :
  let q := {| q_auth := AHBasic (BPair "alice" "wrong"); q_query := None; q_body := BodyNone;
              q_cookie := None; q_xsess := None |} in
  authenticate [ {| a_type := TJwt RUp; a_fb := false |};
                 {| a_type := TBasic "alice" "secret"; a_fb := false |};
                 {| a_type := TAnonymous "anon"; a_fb := false |} ] q = (2, RError ERejected) /\
  authenticate [ {| a_type := TJwt RUp; a_fb := false |};
                 {| a_type := TBasic "alice" "secret"; a_fb := true |};
                 {| a_type := TAnonymous "anon"; a_fb := false |} ] q = (3, RSubject "anon").
Proof. vm_compute. split; reflexivity. Qed.
