(** C04 — Authenticators fall back only on missing credentials or explicit
    opt-in.  Property theorems only; proofs are in C04/Proofs.v, C04/Checker.v,
    C04/FactoryProofs.v.

    Chain level: [execute] is compositeSubjectCreator.Execute over authenticators
    abstracted to (outcome on the request, IsFallbackOnErrorAllowed()); all
    theorems hold for chains of any length.  Type level: [classify] is the
    outcome each real authenticator type produces per credential shape, endpoint
    behaviour and cache lookup; [authenticate] runs a chain of configured steps
    (prototype flag, rule-level flag) on a request. *)
From HV Require Import Base.Prelude C04.Model C04.Proofs C04.Checker C04.FactoryProofs.

(* ------------------------------------------------------------------ chain level *)

(** the composite is exactly the declarative specification [spec]: skip the
    authenticators that let pass, answer with the first that accepts or blocks,
    or with the last error when all let pass *)
Theorem C04_execute_iff_spec : forall ca r, execute ca = r <-> spec ca r.
Proof. exact execute_iff_spec. Qed.
Print Assumptions C04_execute_iff_spec.

(** "tried in the configured order": the authenticators whose Execute is called
    are, in call order, the first [n] of the configured list *)
Theorem C04_tried_in_configured_order : forall ca, calls ca = firstn (fst (execute ca)) ca.
Proof. exact calls_are_prefix. Qed.
Print Assumptions C04_tried_in_configured_order.

(** the subject is the one produced by the first authenticator that succeeds *)
Theorem C04_first_success_wins : forall ca n s,
  execute ca = (n, RSubject s) ->
  exists pre a post, ca = pre ++ a :: post /\ n = S (length pre) /\
    accepts a s /\ Forall (fun b => ~ succeeds b) pre /\ Forall lets_pass pre.
Proof. exact first_success_wins. Qed.
Print Assumptions C04_first_success_wins.

(** a later authenticator is consulted only if every earlier one found no
    credentials of its kind or allows fallback on error ([n] = number consulted) *)
Theorem C04_later_only_if_all_earlier_nocreds_or_optin : forall ca n r,
  execute ca = (n, r) ->
  forall j, S j < n ->
  exists b, nth_error ca j = Some b /\ (no_credentials b \/ opted_in b).
Proof. exact later_only_if_all_earlier_pass. Qed.
Print Assumptions C04_later_only_if_all_earlier_nocreds_or_optin.

(** a failure other than "no credentials", no opt-in: authentication fails and
    nothing behind that authenticator is consulted, even if it would succeed *)
Theorem C04_rejected_without_optin_fails_even_if_later_accepts : forall pre a post e,
  Forall (fun b => ~ succeeds b) pre -> blocks a e ->
  exists n e', execute (pre ++ a :: post) = (n, RError e') /\ n <= S (length pre).
Proof. exact rejected_without_optin_fails. Qed.
Print Assumptions C04_rejected_without_optin_fails_even_if_later_accepts.

Theorem C04_rejected_without_optin_exact : forall pre a post e,
  Forall lets_pass pre -> blocks a e ->
  execute (pre ++ a :: post) = (S (length pre), RError e).
Proof. exact rejected_without_optin_exact. Qed.
Print Assumptions C04_rejected_without_optin_exact.

(* ------------------------------------------------------------------ type level *)

(** per type with a credential kind: a request is answered with an argument-kind
    ("no credentials") error exactly when it carries no credentials of that kind
    — whatever the endpoints do and the cache holds; the types without a kind
    (anonymous, unauthorized) never answer so *)
Theorem C04_no_credentials_iff_none_presented : forall t k h q,
  kind_of t = Some k ->
  (classify t h q = Failed ENoCreds <-> presented k q = false).
Proof. exact classify_sound. Qed.
Print Assumptions C04_no_credentials_iff_none_presented.

(** (lemma, not counted among the property theorems: immediate from the two defining
    equations of [classify] for anonymous and unauthorized) *)
Theorem C04_kindless_never_no_credentials : forall t h q,
  kind_of t = None -> classify t h q <> Failed ENoCreds.
Proof. exact classify_kindless. Qed.
Print Assumptions C04_kindless_never_no_credentials.

(** (lemma, not counted: [opts_in] is the case split of [configured_fb] written as an
    inductive; what it is worth is the sampled agreement of that definition with the
    flags observed on the real objects.)  For all fallback settings:
    IsFallbackOnErrorAllowed() is true only for a step that opts in (rule-level
    setting true, or none and the prototype's true) *)
Theorem C04_fallback_only_if_opted_in : forall a, fallback_allowed a = true -> opts_in a.
Proof. exact fallback_only_if_opted_in. Qed.
Print Assumptions C04_fallback_only_if_opted_in.

(** on chains of real authenticator types: a later one is consulted only if every
    earlier one found no credentials of its kind in the request or is opted in *)
Theorem C04_typed_later_only_if : forall q hits ca n r,
  authenticate ca hits q = (n, r) ->
  forall j, S j < n ->
  exists a, nth_error ca j = Some a /\
    ((exists k, kind_of (a_type a) = Some k /\ presented k q = false) \/ opts_in a).
Proof. exact typed_later_only_if. Qed.
Print Assumptions C04_typed_later_only_if.

(** ... the subject is that of the first authenticator that accepts: the accepting
    step is the last consulted one, and no step at an earlier position of the chain as
    the composite sees it ([to_chain]: every position with its own cache lookup)
    accepted ... *)
Theorem C04_typed_first_success : forall q hits ca n s,
  authenticate ca hits q = (n, RSubject s) ->
  exists j a h, n = S j /\ nth_error ca j = Some a /\ classify (a_type a) h q = Accepted s /\
    nth_error (to_chain q ca hits) j = Some {| c_out := classify (a_type a) h q; c_fb := fallback_allowed a |} /\
    forall i b, i < j -> nth_error (to_chain q ca hits) i = Some b -> forall s', c_out b <> Accepted s'.
Proof. exact typed_first_success. Qed.
Print Assumptions C04_typed_first_success.

(** ... and one that finds credentials of its kind, does not accept them and is
    not opted in ends the authentication with an error, whatever follows *)
Theorem C04_typed_rejected_blocks : forall q hits pre a post,
  Forall (never_accepts q) pre ->
  presents q a -> never_accepts q a -> ~ opts_in a ->
  exists n e, authenticate (pre ++ a :: post) hits q = (n, RError e) /\ n <= S (length pre).
Proof. exact typed_rejected_blocks. Qed.
Print Assumptions C04_typed_rejected_blocks.

(** the rejections the statement names — wrong password, bad signature, inactive
    token, failed assertion ([named_rejection], C04/Proofs.v) *)
Theorem C04_named_rejections_block : forall q hits pre a post,
  Forall (never_accepts q) pre ->
  named_rejection q (a_type a) -> ~ opts_in a ->
  exists n e, authenticate (pre ++ a :: post) hits q = (n, RError e) /\ n <= S (length pre).
Proof. exact named_rejections_block. Qed.
Print Assumptions C04_named_rejections_block.

(* ------------------------------------------------------------------ histories of rule creations *)

(** for all histories: rules created one after the other by one factory from the
    prototypes [protos] ([load], C04/Model.v: WithConfig returns the object itself
    without a config, a new object otherwise, never modifies one).  The
    authenticator objects rule [k] holds afterwards are, step by step, equal (type
    and allowFallbackOnError) to those it gets when created ALONE from fresh
    prototypes: the rules before and after it, and their order, do not matter *)
Theorem C04_flag_history_independent : forall protos rules h ls,
  Forall (Forall (fun s => sc_proto s < length protos)) rules ->
  load protos rules = Some (h, ls) ->
  forall k steps al, nth_error rules k = Some steps -> nth_error ls k = Some al ->
  exists h1 al1, create_rule protos steps = Some (h1, al1) /\
    Forall2 (fun a b => exists o, nth_error h a = Some o /\ nth_error h1 b = Some o) al al1.
Proof. exact flag_history_independent. Qed.
Print Assumptions C04_flag_history_independent.

(** and alone, IsFallbackOnErrorAllowed() of a step's object is [fallback_allowed]
    of (resulting type, the prototype's flag, the step's own rule-level flag) — the
    resolved step the type-level theorems and the evaluator work with *)
Theorem C04_step_flag_alone : forall protos s p h a,
  nth_error protos (sc_proto s) = Some p ->
  with_config protos (sc_proto s) (sc_config s) = Some (h, a) ->
  exists o, nth_error h a = Some o /\
    obj_fallback o =
    match sc_config s with
    | None => obj_fallback p
    | Some (t', ov) =>
        match o_type p with
        | TUnauthorized => false
        | _ => fallback_allowed {| a_type := t'; a_proto_fb := o_flag p; a_over_fb := ov |}
        end
    end.
Proof. exact step_flag_alone. Qed.
Print Assumptions C04_step_flag_alone.

(* ------------------------------------------------------------------ the predicate the correspondence run applies *)

(** an observation of the implementation that the executable predicate [prop_chain]
    (C04/Checker.v; the composite part of what `v_prop` of the evaluator computes:
    `prop_step` = `prop_chain` && `e2e_ok`, the latter — the service answer agrees with
    the composite's — being covered by no theorem) accepts is a run the
    specification allows: consulted = the first of the configured chain in order; the
    observed outcomes, flags and answer satisfy [spec] whatever the unconsulted
    authenticators would have done; "no credentials" only where none of the kind were
    presented; a flag allowing fallback only where the step is opted in *)
Theorem C04_checked_predicate_implies_spec : forall q ca seen res,
  prop_chain q 0 ca seen res RNil = true ->
  map s_pos seen = seq 0 (length seen) /\
  (forall post, length seen + length post = length ca ->
     exists r, res_cls_eqb res r = true /\ spec (map obs_authn seen ++ post) (length seen, r)) /\
  Forall2 (fun a s => (s_out s = Failed ENoCreds -> ~ presents q a) /\ (s_fb s = true -> opts_in a))
          (firstn (length seen) ca) seen.
Proof. exact prop_chain_sound. Qed.
Print Assumptions C04_checked_predicate_implies_spec.

(** conversely the model's own observation — [observe], which is the run of
    [authenticate] — always passes the predicate, for every chain, request and cache
    content: an implementation that behaves as the model is never reported *)
Theorem C04_model_passes_checked_predicate : forall q ca hits,
  (length (fst (observe q 0 RNil ca hits)), snd (observe q 0 RNil ca hits)) = authenticate ca hits q /\
  prop_chain q 0 ca (fst (observe q 0 RNil ca hits)) (snd (observe q 0 RNil ca hits)) RNil = true.
Proof. intros q ca hits. split; [apply observe_is_authenticate | apply model_passes_predicate]. Qed.
Print Assumptions C04_model_passes_checked_predicate.

(** non-vacuity of the history theorems: one generic prototype with the flag set and
    one anonymous prototype; rule 0 switches the flag off on the rule level, rule 1
    only sets other things.  Both are created; rule 0's step answers false, rule 1's
    true, and the two anonymous steps (no config) are the one prototype object *)
Example C04_history_nonvacuous :
  let t := TGeneric (RFixed SUp) false in
  let protos := [ {| o_type := t; o_flag := true |}; {| o_type := TAnonymous "anon"; o_flag := false |} ] in
  let st p c := {| sc_proto := p; sc_config := c |} in
  let rules := [ [st 0 (Some (t, Some false)); st 1 None]; [st 0 (Some (t, None)); st 1 None] ] in
  exists h a0 a1,
    load protos rules = Some (h, [[a0; 1]; [a1; 1]]) /\
    option_map obj_fallback (nth_error h a0) = Some false /\
    option_map obj_fallback (nth_error h a1) = Some true /\
    Forall (Forall (fun s => sc_proto s < length protos)) rules.
Proof.
  eexists _, _, _. split; [vm_compute; reflexivity|]. split; [reflexivity|]. split; [reflexivity|].
  repeat constructor.
Qed.

(** non-vacuity: wrong basic-auth password, no opt-in, anonymous behind it; the
    same with the opt-in on the rule level *)
Example C04_nonvacuous :
  let q := {| q_auth := AHBasic (BPair "alice" "wrong"); q_xtok := None; q_query := None; q_body := BodyNone;
              q_cookie := None; q_xsess := None; q_sw := SUp |} in
  let jwt := {| a_type := TJwt SrcDefault DDirect (RFixed SUp) false; a_proto_fb := false; a_over_fb := None |} in
  let anon := {| a_type := TAnonymous "anon"; a_proto_fb := false; a_over_fb := None |} in
  let basic o := {| a_type := TBasic "alice" "secret"; a_proto_fb := false; a_over_fb := o |} in
  authenticate [jwt; basic None; anon] [] q = (2, RError ERejected) /\
  authenticate [jwt; basic (Some true); anon] [] q = (3, RSubject "anon") /\
  named_rejection q (a_type (basic None)) /\ ~ opts_in (basic None) /\ never_accepts q jwt.
Proof.
  vm_compute. repeat split.
  - eapply rej_wrong_password; reflexivity.
  - intros [H | H1 H2]; discriminate.
  - intros h s H. destruct h; discriminate.
Qed.
