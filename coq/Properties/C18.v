(** C18 — Rule providers converge to the latest valid content of their sources.
    Property theorems only; proofs are in C18/Proofs.v.

    Vocabulary (C18/Spec.v, written from the property text): [latest_valid acc seen]
    is the latest valid content of a source given everything seen of it (most
    recent first); a trace pairs, per event, the sources looked at with the
    processor calls made; [trace_ok] demands, per event and source looked at,
    that the accepted calls are exactly those of the change of the latest valid
    content (one OnCreated / OnUpdated / OnDeleted, or none) and that no other
    source is touched.  [active_of] is what the accepted calls leave loaded. *)
From HV Require Import Base.Prelude C18.Model C18.ModelBlob C18.ModelK8s C18.Spec C18.Proofs C18.ProofsBlob C18.ProofsK8s.

(** ** What [trace_ok] means (any provider) *)

(** converges: what is loaded is the latest valid content seen, for every source *)
Theorem C18_converges : forall acc tr,
  trace_ok acc tr = true -> forall s, active_of tr s = latest_valid acc (seen_of tr s).
Proof. exact trace_ok_active. Qed.
Print Assumptions C18_converges.

(** each content change is applied exactly once *)
Theorem C18_exactly_once : forall acc tr st s c,
  trace_ok acc (tr ++ [st]) = true ->
  In (s, SNew c) (t_obs st) -> acc c = true -> active_of tr s <> Some c ->
  calls_on s (t_calls st) = [(match active_of tr s with None => KCreated | Some _ => KUpdated end, Some c)] /\
  active_of (tr ++ [st]) s = Some c.
Proof. exact trace_ok_change_applied_once. Qed.
Print Assumptions C18_exactly_once.

(** unchanged content triggers no reload *)
Theorem C18_unchanged_no_reload : forall acc tr st s c,
  trace_ok acc (tr ++ [st]) = true ->
  In (s, SNew c) (t_obs st) -> active_of tr s = Some c ->
  calls_on s (t_calls st) = [] /\ active_of (tr ++ [st]) s = Some c.
Proof. exact trace_ok_unchanged_no_reload. Qed.
Print Assumptions C18_unchanged_no_reload.

(** removed or emptied sources are unloaded *)
Theorem C18_removed_unloaded : forall acc tr st s,
  trace_ok acc (tr ++ [st]) = true ->
  In (s, SGone) (t_obs st) ->
  active_of (tr ++ [st]) s = None /\
  calls_on s (t_calls st) = match active_of tr s with None => [] | Some _ => [(KDeleted, None)] end.
Proof. exact trace_ok_removed_unloaded. Qed.
Print Assumptions C18_removed_unloaded.

(** an invalid (or rejected) new version leaves the previously loaded version active *)
Theorem C18_invalid_keeps_previous : forall acc tr st s o,
  trace_ok acc (tr ++ [st]) = true ->
  In (s, o) (t_obs st) ->
  (o = SBad \/ o = SNone \/ exists c, o = SNew c /\ acc c = false) ->
  active_of (tr ++ [st]) s = active_of tr s /\ calls_on s (t_calls st) = [].
Proof. exact trace_ok_invalid_keeps_previous. Qed.
Print Assumptions C18_invalid_keeps_previous.

(** an event applies nothing to a source it did not look at *)
Theorem C18_frame : forall acc tr st s,
  trace_ok acc (tr ++ [st]) = true ->
  ~ In s (map fst (t_obs st)) ->
  calls_on s (t_calls st) = [] /\ active_of (tr ++ [st]) s = active_of tr s.
Proof. exact trace_ok_frame. Qed.
Print Assumptions C18_frame.

(** ** Every history of each provider model yields such a trace *)

(** file system, the provider as it is now (fix: commit 07a625c, [fs_dispatch true]):
    ALL histories of file changes, notifications of any kind in any order
    (repeated, stale, out of order) and initial loads *)
Theorem C18_fs_all_histories : forall O,
  (forall s, deletable O s = true) ->
  forall h, trace_ok (accepts O) (fs_trace O true h) = true.
Proof. intros O Hdel h. apply fs_trace_ok; [exact Hdel | left; reflexivity]. Qed.
Print Assumptions C18_fs_all_histories.

(** the provider of the pinned commit ([fs_dispatch false]), outside the guards of
    the findings C18-F2 (ignored Rename) and C18-F4 (stale Remove) it had *)
Theorem C18_fs_all_histories_pinned : forall O,
  (forall s, deletable O s = true) ->
  forall h, fs_guard_F2 h = false -> fs_guard_F4 h = false ->
  trace_ok (accepts O) (fs_trace O false h) = true.
Proof. intros O Hdel h G2 G4. apply fs_trace_ok; [exact Hdel | right; split; assumption]. Qed.
Print Assumptions C18_fs_all_histories_pinned.

(** HTTP endpoint: all sequences of polls and fetch outcomes *)
Theorem C18_http_all_histories : forall O,
  (forall s, deletable O s = true) ->
  forall h, trace_ok (accepts O) (http_trace O h) = true.
Proof. exact http_trace_ok. Qed.
Print Assumptions C18_http_all_histories.

(** HTTP endpoint, in terms of the fetch outcomes alone: for all sequences of polls,
    what is loaded from endpoint [e] is the latest valid content among what its polls
    showed ([http_outcomes e h], oldest first: valid content / empty, not found,
    unreachable = gone / invalid / aborted) *)
Theorem C18_http_latest_valid : forall O h e,
  (forall s, deletable O s = true) ->
  active_of (http_trace O h) (Sid e) = latest_valid (accepts O) (rev (http_outcomes e h)).
Proof. exact http_latest_valid. Qed.
Print Assumptions C18_http_latest_valid.

(** the reading of "the endpoint cannot be reached" matters: under the other one
    (a failed poll says nothing, the rule set is kept) the provider is not right *)
Theorem C18_http_reading_keep_refuted :
  exists h, trace_ok (accepts O_all) (mk_trace (http_views_r false h) (map h_calls (snd (http_run O_all h)))) <> true /\
            trace_ok (accepts O_all) (mk_trace (http_views_r true h) (map h_calls (snd (http_run O_all h)))) = true /\
            flat_map (fun x => map p_kind (h_calls x)) (snd (http_run O_all h)) = [KCreated; KDeleted; KCreated].
Proof. exact http_reading_keep_refuted. Qed.
Print Assumptions C18_http_reading_keep_refuted.

(** ** File system at world level: files change, notifications arrive in any order *)

(** fairness, the provider as it is now: after the last change of file [f]
    (history [h1], then [f] now holds [w], then [h2] without a change of [f]), if
    [h2] contains at least one notification for [f] — of whatever kind — then
    what is loaded from [f] is [target w previous]: [w] itself if valid and
    accepted, nothing if [f] is gone or empty, the previously loaded version if [w]
    is invalid or rejected.  [h1], [h2] are arbitrary otherwise (other files,
    repeated / stale / out-of-order notifications, initial loads). *)
Theorem C18_fs_converges_world : forall O h1 f w h2,
  (forall s, deletable O s = true) ->
  (forall g w', In (FsSet g w') h2 -> g <> f) ->
  (exists ops, ops <> [] /\ In (FsNotify f ops) h2) ->
  active_of (fs_trace O true (h1 ++ FsSet f w :: h2)) (Sid f)
  = target O w (active_of (fs_trace O true h1) (Sid f)).
Proof. exact fs_converges_world_fixed. Qed.
Print Assumptions C18_fs_converges_world.

(** nothing is applied twice: over any history — repeated, stale, out-of-order
    notifications, initial loads — the accepted processor calls concerning a file
    are at most as many as the file's changes (together with the fairness theorem:
    each change is applied exactly once or superseded by a later one) *)
Theorem C18_fs_applied_at_most_once : forall O,
  (forall s, deletable O s = true) ->
  forall h f,
  length (calls_on (Sid f) (flat_map t_calls (fs_trace O true h))) <= length (filter (is_set f) h).
Proof. exact fs_applied_at_most_once. Qed.
Print Assumptions C18_fs_applied_at_most_once.

(** the same for both dispatch variants; the pinned one needs a notification that
    is not ignored ([rereads false]) and no Remove for [f] processed while [f]
    exists with content ([stale_remove]) *)
Theorem C18_fs_converges_world_pinned : forall O fixed h1 f w h2,
  (forall s, deletable O s = true) ->
  forallb (fun e => negb (is_set f e)) h2 = true ->
  existsb (rereads fixed f) h2 = true ->
  fixed = true \/ forallb (fun e => negb (stale_remove f w e)) h2 = true ->
  active_of (fs_trace O fixed (h1 ++ FsSet f w :: h2)) (Sid f)
  = target O w (active_of (fs_trace O fixed h1) (Sid f)).
Proof. exact fs_converges_world. Qed.
Print Assumptions C18_fs_converges_world_pinned.

(** ** The witnesses of the repaired findings (pinned behaviour), and non-vacuity *)

Theorem C18_fs_F2_pinned_refuted :
  exists h, fs_guard_F2 h = true /\ fs_guard_F4 h = false /\
            trace_ok (accepts O_all) (fs_trace O_all false h) <> true /\
            trace_ok (accepts O_all) (fs_trace O_all true h) = true /\
            world_step (world_step (world_step world0 (FsSet 0 (CValid 1))) (FsNotify 0 [OpCreate])) (FsSet 0 CAbsent) 0 = CAbsent /\
            active_of (fs_trace O_all false h) (Sid 0) = Some 1.
Proof. exact fs_F2_refuted. Qed.
Print Assumptions C18_fs_F2_pinned_refuted.

Theorem C18_fs_F4_pinned_refuted :
  exists h, fs_guard_F4 h = true /\ fs_guard_F2 h = false /\
            trace_ok (accepts O_all) (fs_trace O_all false h) <> true /\
            trace_ok (accepts O_all) (fs_trace O_all true h) = true /\
            active_of (fs_trace O_all false h) (Sid 0) = None /\
            active_of (fs_trace O_all true h) (Sid 0) = Some 1.
Proof. exact fs_F4_refuted. Qed.
Print Assumptions C18_fs_F4_pinned_refuted.

Theorem C18_fs_nonvacuous :
  fs_guard_F2 h_nonvacuous = false /\ fs_guard_F4 h_nonvacuous = false /\
  flat_map (fun st => filter p_ok (t_calls st)) (fs_trace O_rej3 true h_nonvacuous) =
  [ {| p_kind := KCreated; p_src := Sid 0; p_cid := Some 1; p_ok := true |};
    {| p_kind := KUpdated; p_src := Sid 0; p_cid := Some 2; p_ok := true |};
    {| p_kind := KCreated; p_src := Sid 1; p_cid := Some 4; p_ok := true |};
    {| p_kind := KDeleted; p_src := Sid 0; p_cid := None; p_ok := true |};
    {| p_kind := KDeleted; p_src := Sid 1; p_cid := None; p_ok := true |} ].
Proof. exact fs_nonvacuous. Qed.
Print Assumptions C18_fs_nonvacuous.

(** ** Cloud blob *)

(** the provider as it is now (fix: commit 9cefff4): all histories of polls
    (listings, single blobs, failures of every class) that conform to the
    endpoints' configuration [md] ([None]: all blobs under the prefix, [Some k]:
    the URL names blob [k]; listed keys distinct and below [nk]), outside the
    guards of the open findings C18-F5 (a listing contains a blob that cannot be
    loaded) and C18-F6 (the blob named by the URL is gone) *)
Theorem C18_blob_all_histories : forall O,
  (forall s, deletable O s = true) ->
  forall nk md h,
  forallb (conforms nk md) h = true ->
  blob_guard_F5 (accepts O) nk h = false ->
  blob_guard_F6 (accepts O) nk h = false ->
  trace_ok (accepts O) (blob_trace O nk true h) = true.
Proof. intros O Hdel nk md h Hc G5 G6. apply (blob_trace_ok O Hdel nk true md); [exact Hc | left; reflexivity | exact G5 | exact G6]. Qed.
Print Assumptions C18_blob_all_histories.

(** the provider of the pinned commit, additionally outside the guard of C18-F1
    (a removal is reported — under a source id nothing was created with) *)
Theorem C18_blob_all_histories_pinned : forall O,
  (forall s, deletable O s = true) ->
  forall nk md h,
  forallb (conforms nk md) h = true ->
  blob_guard_F1 nk h = false ->
  blob_guard_F5 (accepts O) nk h = false ->
  blob_guard_F6 (accepts O) nk h = false ->
  trace_ok (accepts O) (blob_trace O nk false h) = true.
Proof. intros O Hdel nk md h Hc G1 G5 G6. apply (blob_trace_ok O Hdel nk false md); [exact Hc | right; exact G1 | exact G5 | exact G6]. Qed.
Print Assumptions C18_blob_all_histories_pinned.

(** inside the guards: an unreadable blob in a listing, or a missing named blob, makes
    the provider abandon the poll — nothing is called, nothing is forgotten *)
Theorem C18_blob_unreadable_poll_changes_nothing : forall O fixed nk b st l,
  existsb (fun kw => unreadable (snd kw)) l = true ->
  blob_watch O fixed nk b st (BList l) = hres_nop st true.
Proof. exact blob_unreadable_poll_changes_nothing. Qed.
Print Assumptions C18_blob_unreadable_poll_changes_nothing.

Theorem C18_blob_single_absent_changes_nothing : forall O fixed nk b st k,
  blob_watch O fixed nk b st (BSingle k CAbsent) = hres_nop st true.
Proof. exact blob_single_absent_changes_nothing. Qed.
Print Assumptions C18_blob_single_absent_changes_nothing.

(** C18-F1: the removed blob k1 stays active although the provider forgot it *)
Theorem C18_blob_F1_pinned_refuted :
  exists h, blob_guard_F1 2 h = true /\ blob_guard_F5 (accepts O_all) 2 h = false /\ blob_guard_F6 (accepts O_all) 2 h = false /\
            forallb (conforms 2 (fun _ => None)) h = true /\
            trace_ok (accepts O_all) (blob_trace O_all 2 false h) <> true /\
            trace_ok (accepts O_all) (blob_trace O_all 2 true h) = true /\
            active_of (blob_trace O_all 2 false h) (bkey 0 1) = Some 2 /\
            fst (blob_run O_all false 2 h) 0 1 = None.
Proof. exact blob_F1_refuted. Qed.
Print Assumptions C18_blob_F1_pinned_refuted.

(** C18-F5: k0 became invalid; k1's update and k2's removal are not applied *)
Theorem C18_blob_F5_refuted :
  exists h, blob_guard_F5 (accepts O_all) 3 h = true /\ blob_guard_F6 (accepts O_all) 3 h = false /\
            forallb (conforms 3 (fun _ => None)) h = true /\
            trace_ok (accepts O_all) (blob_trace O_all 3 true h) <> true /\
            active_of (blob_trace O_all 3 true h) (bkey 0 1) = Some 2 /\
            active_of (blob_trace O_all 3 true h) (bkey 0 2) = Some 3.
Proof. exact blob_F5_refuted. Qed.
Print Assumptions C18_blob_F5_refuted.

(** C18-F6: the blob named by the URL was deleted; its rule set stays active *)
Theorem C18_blob_F6_refuted :
  exists h, blob_guard_F6 (accepts O_all) 1 h = true /\ blob_guard_F5 (accepts O_all) 1 h = false /\
            forallb (conforms 1 (fun _ => Some 0)) h = true /\
            trace_ok (accepts O_all) (blob_trace O_all 1 true h) <> true /\
            active_of (blob_trace O_all 1 true h) (bkey 0 0) = Some 1.
Proof. exact blob_F6_refuted. Qed.
Print Assumptions C18_blob_F6_refuted.

(** ** Kubernetes *)

(** A history is what the API server delivers: watch events and, after the watch
    broke, new lists (relists), over the names [0..nn-1].  [k8s_wf]: UIDs are unique
    across names, a Deleted event carries the object's last auth class, and for an
    object staying in the provider's class the generation changes exactly when the
    rules change.  The provider keeps no record of what it applied and relies on the
    processor's idempotent operations, so its trace (one step per object handed to
    the handlers) is read modulo calls that change nothing ([norm_trace]: an update
    of something not loaded is a creation; a deletion of something not loaded and
    an update to the loaded content are dropped).
    Outside the guards of the open findings C18-F7 (a relist finds a stored object
    missing: the tombstone makes [filter] panic; not needed for the repaired
    provider, [f7 = true]) and C18-F8 (an object arrives under a name whose stored
    object has another UID): no handler panics and the trace is right. *)
Theorem C18_k8s_all_histories : forall O,
  (forall s, deletable O s = true) ->
  forall f7 f8 nn h,
  k8s_wf nn h = true ->
  f7 = true \/ k8s_guard_F7 nn h = false ->
  k8s_guard_F8 nn h = false ->
  panicked (snd (k8s_run O f7 f8 nn h)) = false /\
  trace_ok (accepts O) (norm_trace (k8s_raw_trace O f7 f8 nn h)) = true.
Proof. exact k8s_trace_ok. Qed.
Print Assumptions C18_k8s_all_histories.

(** and what the provider's actual (un-normalised) calls leave loaded is the latest valid content seen *)
Theorem C18_k8s_converges : forall O,
  (forall s, deletable O s = true) ->
  forall f7 f8 nn h u,
  k8s_wf nn h = true ->
  f7 = true \/ k8s_guard_F7 nn h = false ->
  k8s_guard_F8 nn h = false ->
  active_of (k8s_raw_trace O f7 f8 nn h) (Sid u)
  = latest_valid (accepts O) (seen_of (k8s_raw_trace O f7 f8 nn h) (Sid u)).
Proof. exact k8s_converges. Qed.
Print Assumptions C18_k8s_converges.

(** C18-F7: deleted while the watch is broken — the provider as it is panics
    (the process dies, the rule set stays loaded); the repaired one unloads it *)
Theorem C18_k8s_F7_pinned_refuted :
  exists h, k8s_wf 1 h = true /\ k8s_guard_F7 1 h = true /\ k8s_guard_F8 1 h = false /\
            panicked (snd (k8s_run O_all false false 1 h)) = true /\
            panicked (snd (k8s_run O_all true false 1 h)) = false /\
            trace_ok (accepts O_all) (norm_trace (k8s_raw_trace O_all true false 1 h)) = true /\
            active_of (k8s_raw_trace O_all false false 1 h) (Sid 0) = Some 1 /\
            active_of (k8s_raw_trace O_all true false 1 h) (Sid 0) = None.
Proof. exact k8s_F7_refuted. Qed.
Print Assumptions C18_k8s_F7_pinned_refuted.

(** C18-F8: deleted and re-created under the same name while the watch is broken —
    the old object's rule set stays loaded, the new one's is never loaded; the
    repaired update handler unloads the old and loads the new *)
Theorem C18_k8s_F8_pinned_refuted :
  exists h, k8s_wf 1 h = true /\ k8s_guard_F8 1 h = true /\ k8s_guard_F7 1 h = false /\
            trace_ok (accepts O_all) (norm_trace (k8s_raw_trace O_all true false 1 h)) <> true /\
            active_of (k8s_raw_trace O_all true false 1 h) (Sid 0) = Some 1 /\
            active_of (k8s_raw_trace O_all true false 1 h) (Sid 1) = None /\
            trace_ok (accepts O_all) (norm_trace (k8s_raw_trace O_all true true 1 h)) = true /\
            active_of (k8s_raw_trace O_all true true 1 h) (Sid 0) = None /\
            active_of (k8s_raw_trace O_all true true 1 h) (Sid 1) = Some 2.
Proof. exact k8s_F8_refuted. Qed.
Print Assumptions C18_k8s_F8_pinned_refuted.
