(** C18 — Rule providers converge to the latest valid content of their sources.
    Property theorems only; proofs are in C18/Proofs*.v, C18/Accept*.v, C18/Quiesce.v.

    Vocabulary (C18/Spec.v, written from the property text): [latest_valid acc seen]
    is the latest valid content of a source given everything seen of it (most
    recent first); a trace pairs, per event, the sources looked at with the
    processor calls made; [trace_ok] demands, per event and source looked at,
    that the accepted calls are exactly those of the change of the latest valid
    content (one OnCreated / OnUpdated / OnDeleted, or none) and that no other
    source is touched.  [active_of] is what the accepted calls leave loaded. *)
From HV Require Import Base.Prelude C18.Model C18.ModelBlob C18.ModelK8s C18.Spec C18.Proofs C18.ProofsBlob C18.ProofsK8s
  C18.Accept C18.AcceptProviders C18.AcceptFs C18.AcceptK8s C18.Quiesce.

(** ** What [trace_ok] means (any provider) *)

(** converges: what is loaded is the latest valid content seen, for every source *)
Theorem C18_converges : forall acc tr,
  trace_ok acc tr = true -> forall s, active_of tr s = latest_valid acc (seen_of tr s).
Proof. exact trace_ok_active. Qed.
Print Assumptions C18_converges.

(** each content change is applied exactly once *)
Theorem C18_exactly_once : forall acc tr st s c,
  trace_ok acc (tr ++ [st]) = true ->
  In (s, SNew c) (t_obs st) -> acc c = true -> active_of tr s <> Some c ->
  calls_on s (t_calls st) = [(match active_of tr s with None => KCreated | Some _ => KUpdated end, Some c)] /\
  active_of (tr ++ [st]) s = Some c.
Proof. exact trace_ok_change_applied_once. Qed.
Print Assumptions C18_exactly_once.

(** unchanged content triggers no reload *)
Theorem C18_unchanged_no_reload : forall acc tr st s c,
  trace_ok acc (tr ++ [st]) = true ->
  In (s, SNew c) (t_obs st) -> active_of tr s = Some c ->
  calls_on s (t_calls st) = [] /\ active_of (tr ++ [st]) s = Some c.
Proof. exact trace_ok_unchanged_no_reload. Qed.
Print Assumptions C18_unchanged_no_reload.

(** removed or emptied sources are unloaded *)
Theorem C18_removed_unloaded : forall acc tr st s,
  trace_ok acc (tr ++ [st]) = true ->
  In (s, SGone) (t_obs st) ->
  active_of (tr ++ [st]) s = None /\
  calls_on s (t_calls st) = match active_of tr s with None => [] | Some _ => [(KDeleted, None)] end.
Proof. exact trace_ok_removed_unloaded. Qed.
Print Assumptions C18_removed_unloaded.

(** an invalid (or rejected) new version leaves the previously loaded version active *)
Theorem C18_invalid_keeps_previous : forall acc tr st s o,
  trace_ok acc (tr ++ [st]) = true ->
  In (s, o) (t_obs st) ->
  (o = SBad \/ o = SNone \/ exists c, o = SNew c /\ acc c = false) ->
  active_of (tr ++ [st]) s = active_of tr s /\ calls_on s (t_calls st) = [].
Proof. exact trace_ok_invalid_keeps_previous. Qed.
Print Assumptions C18_invalid_keeps_previous.

(** an event applies nothing to a source it did not look at *)
Theorem C18_frame : forall acc tr st s,
  trace_ok acc (tr ++ [st]) = true ->
  ~ In s (map fst (t_obs st)) ->
  calls_on s (t_calls st) = [] /\ active_of (tr ++ [st]) s = active_of tr s.
Proof. exact trace_ok_frame. Qed.
Print Assumptions C18_frame.

(** ** Every history of each provider model yields such a trace *)

(** file system, the provider as it is now (fix: commit 07a625c, [fs_dispatch true]):
    ALL histories of file changes, notifications of any kind in any order
    (repeated, stale, out of order) and initial loads *)
Theorem C18_fs_all_histories : forall O,
  (forall s, deletable O s = true) ->
  forall h, trace_ok (accepts O) (fs_trace O true h) = true.
Proof. intros O Hdel h. apply fs_trace_ok; [exact Hdel | left; reflexivity]. Qed.
Print Assumptions C18_fs_all_histories.

(** the provider of the pinned commit ([fs_dispatch false]), outside the guards of
    the findings C18-F2 (ignored Rename) and C18-F4 (stale Remove) it had *)
Theorem C18_fs_all_histories_pinned : forall O,
  (forall s, deletable O s = true) ->
  forall h, fs_guard_F2 h = false -> fs_guard_F4 h = false ->
  trace_ok (accepts O) (fs_trace O false h) = true.
Proof. intros O Hdel h G2 G4. apply fs_trace_ok; [exact Hdel | right; split; assumption]. Qed.
Print Assumptions C18_fs_all_histories_pinned.

(** HTTP endpoint: all sequences of polls and fetch outcomes *)
Theorem C18_http_all_histories : forall O,
  (forall s, deletable O s = true) ->
  forall h, trace_ok (accepts O) (http_trace O h) = true.
Proof. exact http_trace_ok. Qed.
Print Assumptions C18_http_all_histories.

(** HTTP endpoint, in terms of the fetch outcomes alone: for all sequences of polls,
    what is loaded from endpoint [e] is the latest valid content among what its polls
    showed ([http_outcomes e h], oldest first: valid content / empty, not found,
    unreachable = gone / invalid / aborted) *)
Theorem C18_http_latest_valid : forall O h e,
  (forall s, deletable O s = true) ->
  active_of (http_trace O h) (Sid e) = latest_valid (accepts O) (rev (http_outcomes e h)).
Proof. exact http_latest_valid. Qed.
Print Assumptions C18_http_latest_valid.

(** the reading of "the endpoint cannot be reached" matters: under the other one
    (a failed poll says nothing, the rule set is kept) the provider is not right *)
Theorem C18_http_reading_keep_refuted :
  exists h, trace_ok (accepts O_all) (mk_trace (http_views_r false h) (map h_calls (snd (http_run O_all h)))) <> true /\
            trace_ok (accepts O_all) (mk_trace (http_views_r true h) (map h_calls (snd (http_run O_all h)))) = true /\
            flat_map (fun x => map p_kind (h_calls x)) (snd (http_run O_all h)) = [KCreated; KDeleted; KCreated].
Proof. exact http_reading_keep_refuted. Qed.
Print Assumptions C18_http_reading_keep_refuted.

(** ** File system at world level: files change, notifications arrive in any order *)

(** fairness, the provider as it is now: after the last change of file [f]
    (history [h1], then [f] now holds [w], then [h2] without a change of [f]), if
    [h2] contains at least one notification for [f] — of whatever kind — then
    what is loaded from [f] is [target w previous]: [w] itself if valid and
    accepted, nothing if [f] is gone or empty, the previously loaded version if [w]
    is invalid or rejected.  [h1], [h2] are arbitrary otherwise (other files,
    repeated / stale / out-of-order notifications, initial loads). *)
Theorem C18_fs_converges_world : forall O h1 f w h2,
  (forall s, deletable O s = true) ->
  (forall g w', In (FsSet g w') h2 -> g <> f) ->
  (exists ops, ops <> [] /\ In (FsNotify f ops) h2) ->
  active_of (fs_trace O true (h1 ++ FsSet f w :: h2)) (Sid f)
  = target O w (active_of (fs_trace O true h1) (Sid f)).
Proof. exact fs_converges_world_fixed. Qed.
Print Assumptions C18_fs_converges_world.

(** nothing is applied twice: over any history — repeated, stale, out-of-order
    notifications, initial loads — the accepted processor calls concerning a file
    are at most as many as the file's changes (together with the fairness theorem:
    each change is applied exactly once or superseded by a later one) *)
Theorem C18_fs_applied_at_most_once : forall O,
  (forall s, deletable O s = true) ->
  forall h f,
  length (calls_on (Sid f) (flat_map t_calls (fs_trace O true h))) <= length (filter (is_set f) h).
Proof. exact fs_applied_at_most_once. Qed.
Print Assumptions C18_fs_applied_at_most_once.

(** the same for both dispatch variants; the pinned one needs a notification that
    is not ignored ([rereads false]) and no Remove for [f] processed while [f]
    exists with content ([stale_remove]) *)
Theorem C18_fs_converges_world_pinned : forall O fixed h1 f w h2,
  (forall s, deletable O s = true) ->
  forallb (fun e => negb (is_set f e)) h2 = true ->
  existsb (rereads fixed f) h2 = true ->
  fixed = true \/ forallb (fun e => negb (stale_remove f w e)) h2 = true ->
  active_of (fs_trace O fixed (h1 ++ FsSet f w :: h2)) (Sid f)
  = target O w (active_of (fs_trace O fixed h1) (Sid f)).
Proof. exact fs_converges_world. Qed.
Print Assumptions C18_fs_converges_world_pinned.

(** ** The witnesses of the repaired findings (pinned behaviour), and non-vacuity *)

Theorem C18_fs_F2_pinned_refuted :
  exists h, fs_guard_F2 h = true /\ fs_guard_F4 h = false /\
            trace_ok (accepts O_all) (fs_trace O_all false h) <> true /\
            trace_ok (accepts O_all) (fs_trace O_all true h) = true /\
            world_step (world_step (world_step world0 (FsSet 0 (CValid 1))) (FsNotify 0 [OpCreate])) (FsSet 0 CAbsent) 0 = CAbsent /\
            active_of (fs_trace O_all false h) (Sid 0) = Some 1.
Proof. exact fs_F2_refuted. Qed.
Print Assumptions C18_fs_F2_pinned_refuted.

Theorem C18_fs_F4_pinned_refuted :
  exists h, fs_guard_F4 h = true /\ fs_guard_F2 h = false /\
            trace_ok (accepts O_all) (fs_trace O_all false h) <> true /\
            trace_ok (accepts O_all) (fs_trace O_all true h) = true /\
            active_of (fs_trace O_all false h) (Sid 0) = None /\
            active_of (fs_trace O_all true h) (Sid 0) = Some 1.
Proof. exact fs_F4_refuted. Qed.
Print Assumptions C18_fs_F4_pinned_refuted.

Theorem C18_fs_nonvacuous :
  fs_guard_F2 h_nonvacuous = false /\ fs_guard_F4 h_nonvacuous = false /\
  flat_map (fun st => filter p_ok (t_calls st)) (fs_trace O_rej3 true h_nonvacuous) =
  [ {| p_kind := KCreated; p_src := Sid 0; p_cid := Some 1; p_ok := true |};
    {| p_kind := KUpdated; p_src := Sid 0; p_cid := Some 2; p_ok := true |};
    {| p_kind := KCreated; p_src := Sid 1; p_cid := Some 4; p_ok := true |};
    {| p_kind := KDeleted; p_src := Sid 0; p_cid := None; p_ok := true |};
    {| p_kind := KDeleted; p_src := Sid 1; p_cid := None; p_ok := true |} ].
Proof. exact fs_nonvacuous. Qed.
Print Assumptions C18_fs_nonvacuous.

(** ** Cloud blob *)

(** the provider as it is now (fix: commit 9cefff4): all histories of polls
    (listings, single blobs, failures of every class) that conform to the
    endpoints' configuration [md] ([None]: all blobs under the prefix, [Some k]:
    the URL names blob [k]; listed keys distinct and below [nk]), outside the
    guards of the open findings C18-F5 (a listing contains a blob that cannot be
    loaded) and C18-F6 (the blob named by the URL is gone) *)
Theorem C18_blob_all_histories : forall O,
  (forall s, deletable O s = true) ->
  forall nk md h,
  forallb (conforms nk md) h = true ->
  blob_guard_F5 (accepts O) nk h = false ->
  blob_guard_F6 (accepts O) nk h = false ->
  trace_ok (accepts O) (blob_trace O nk true h) = true.
Proof. intros O Hdel nk md h Hc G5 G6. apply (blob_trace_ok O Hdel nk true md); [exact Hc | left; reflexivity | exact G5 | exact G6]. Qed.
Print Assumptions C18_blob_all_histories.

(** the provider of the pinned commit, additionally outside the guard of C18-F1
    (a removal is reported — under a source id nothing was created with) *)
Theorem C18_blob_all_histories_pinned : forall O,
  (forall s, deletable O s = true) ->
  forall nk md h,
  forallb (conforms nk md) h = true ->
  blob_guard_F1 nk h = false ->
  blob_guard_F5 (accepts O) nk h = false ->
  blob_guard_F6 (accepts O) nk h = false ->
  trace_ok (accepts O) (blob_trace O nk false h) = true.
Proof. intros O Hdel nk md h Hc G1 G5 G6. apply (blob_trace_ok O Hdel nk false md); [exact Hc | right; exact G1 | exact G5 | exact G6]. Qed.
Print Assumptions C18_blob_all_histories_pinned.

(** inside the guards: an unreadable blob in a listing, or a missing named blob, makes
    the provider abandon the poll — nothing is called, nothing is forgotten *)
Theorem C18_blob_unreadable_poll_changes_nothing : forall O fixed nk b st l,
  existsb (fun kw => unreadable (snd kw)) l = true ->
  blob_watch O fixed nk b st (BList l) = hres_nop st true.
Proof. exact blob_unreadable_poll_changes_nothing. Qed.
Print Assumptions C18_blob_unreadable_poll_changes_nothing.

Theorem C18_blob_single_absent_changes_nothing : forall O fixed nk b st k,
  blob_watch O fixed nk b st (BSingle k CAbsent) = hres_nop st true.
Proof. exact blob_single_absent_changes_nothing. Qed.
Print Assumptions C18_blob_single_absent_changes_nothing.

(** C18-F1: the removed blob k1 stays active although the provider forgot it *)
Theorem C18_blob_F1_pinned_refuted :
  exists h, blob_guard_F1 2 h = true /\ blob_guard_F5 (accepts O_all) 2 h = false /\ blob_guard_F6 (accepts O_all) 2 h = false /\
            forallb (conforms 2 (fun _ => None)) h = true /\
            trace_ok (accepts O_all) (blob_trace O_all 2 false h) <> true /\
            trace_ok (accepts O_all) (blob_trace O_all 2 true h) = true /\
            active_of (blob_trace O_all 2 false h) (bkey 0 1) = Some 2 /\
            fst (blob_run O_all false 2 h) 0 1 = None.
Proof. exact blob_F1_refuted. Qed.
Print Assumptions C18_blob_F1_pinned_refuted.

(** C18-F5: k0 became invalid; k1's update and k2's removal are not applied *)
Theorem C18_blob_F5_refuted :
  exists h, blob_guard_F5 (accepts O_all) 3 h = true /\ blob_guard_F6 (accepts O_all) 3 h = false /\
            forallb (conforms 3 (fun _ => None)) h = true /\
            trace_ok (accepts O_all) (blob_trace O_all 3 true h) <> true /\
            active_of (blob_trace O_all 3 true h) (bkey 0 1) = Some 2 /\
            active_of (blob_trace O_all 3 true h) (bkey 0 2) = Some 3.
Proof. exact blob_F5_refuted. Qed.
Print Assumptions C18_blob_F5_refuted.

(** C18-F6: the blob named by the URL was deleted; its rule set stays active *)
Theorem C18_blob_F6_refuted :
  exists h, blob_guard_F6 (accepts O_all) 1 h = true /\ blob_guard_F5 (accepts O_all) 1 h = false /\
            forallb (conforms 1 (fun _ => Some 0)) h = true /\
            trace_ok (accepts O_all) (blob_trace O_all 1 true h) <> true /\
            active_of (blob_trace O_all 1 true h) (bkey 0 0) = Some 1.
Proof. exact blob_F6_refuted. Qed.
Print Assumptions C18_blob_F6_refuted.

(** ** Kubernetes *)

(** A history is what the API server delivers: watch events and, after the watch
    broke, new lists (relists), over the names [0..nn-1].  [k8s_wf]: UIDs are unique
    across names, a Deleted event carries the object's last auth class, and for an
    object staying in the provider's class the generation changes exactly when the
    rules change.  The provider keeps no record of what it applied and relies on the
    processor's idempotent operations, so its trace (one step per object handed to
    the handlers) is read modulo calls that change nothing ([norm_trace]: an update
    of something not loaded is a creation; a deletion of something not loaded and
    an update to the loaded content are dropped).
    Outside the guards of the repaired findings C18-F7 (a relist finds a stored object
    missing: the tombstone made [filter] panic; guard needed only for the pinned
    provider, [f7 = false]; repaired by 46996f5) and C18-F8 (an object arrives under a
    name whose stored object has another UID; repaired by f7bb6ba — guard needed for
    both variants: the repaired UID-change path is covered by witness and
    correspondence only): no handler panics and the trace is right. *)
Theorem C18_k8s_all_histories : forall O,
  (forall s, deletable O s = true) ->
  forall f7 f8 nn h,
  k8s_wf nn h = true ->
  f7 = true \/ k8s_guard_F7 nn h = false ->
  k8s_guard_F8 nn h = false ->
  panicked (snd (k8s_run O f7 f8 nn h)) = false /\
  trace_ok (accepts O) (norm_trace (k8s_raw_trace O f7 f8 nn h)) = true.
Proof. exact k8s_trace_ok. Qed.
Print Assumptions C18_k8s_all_histories.

(** and what the provider's actual (un-normalised) calls leave loaded is the latest valid content seen *)
Theorem C18_k8s_converges : forall O,
  (forall s, deletable O s = true) ->
  forall f7 f8 nn h u,
  k8s_wf nn h = true ->
  f7 = true \/ k8s_guard_F7 nn h = false ->
  k8s_guard_F8 nn h = false ->
  active_of (k8s_raw_trace O f7 f8 nn h) (Sid u)
  = latest_valid (accepts O) (seen_of (k8s_raw_trace O f7 f8 nn h) (Sid u)).
Proof. exact k8s_converges. Qed.
Print Assumptions C18_k8s_converges.

(** C18-F7: deleted while the watch is broken — the provider of the pinned commit panics
    (the process dies, the rule set stays loaded); the repaired one unloads it *)
Theorem C18_k8s_F7_pinned_refuted :
  exists h, k8s_wf 1 h = true /\ k8s_guard_F7 1 h = true /\ k8s_guard_F8 1 h = false /\
            panicked (snd (k8s_run O_all false false 1 h)) = true /\
            panicked (snd (k8s_run O_all true false 1 h)) = false /\
            trace_ok (accepts O_all) (norm_trace (k8s_raw_trace O_all true false 1 h)) = true /\
            active_of (k8s_raw_trace O_all false false 1 h) (Sid 0) = Some 1 /\
            active_of (k8s_raw_trace O_all true false 1 h) (Sid 0) = None.
Proof. exact k8s_F7_refuted. Qed.
Print Assumptions C18_k8s_F7_pinned_refuted.

(** C18-F8: deleted and re-created under the same name while the watch is broken —
    the old object's rule set stays loaded, the new one's is never loaded; the
    repaired update handler unloads the old and loads the new *)
Theorem C18_k8s_F8_pinned_refuted :
  exists h, k8s_wf 1 h = true /\ k8s_guard_F8 1 h = true /\ k8s_guard_F7 1 h = false /\
            trace_ok (accepts O_all) (norm_trace (k8s_raw_trace O_all true false 1 h)) <> true /\
            active_of (k8s_raw_trace O_all true false 1 h) (Sid 0) = Some 1 /\
            active_of (k8s_raw_trace O_all true false 1 h) (Sid 1) = None /\
            trace_ok (accepts O_all) (norm_trace (k8s_raw_trace O_all true true 1 h)) = true /\
            active_of (k8s_raw_trace O_all true true 1 h) (Sid 0) = None /\
            active_of (k8s_raw_trace O_all true true 1 h) (Sid 1) = Some 2.
Proof. exact k8s_F8_refuted. Qed.
Print Assumptions C18_k8s_F8_pinned_refuted.

(** ** State-dependent acceptance (C18/Accept.v, C18/AcceptProviders.v)

    The theorems above assume a processor whose answer depends on the content alone.
    The real processor + repository refuse a rule set that is valid in itself while
    ANOTHER source holds one of its paths, and accept the same bytes later.  Here the
    processor is [dacc ok0 clash srcs A self c]: content [c] offered by source [self]
    while the repository holds [A] is accepted iff [ok0 c] (acceptable in itself) and
    [clash c d = false] for everything [d] a source other than [self] holds now; a
    deletion is never refused.  [ok0], [clash], [srcs] are arbitrary in every theorem.
    THE SPECIFICATION [spec_look] / [spec_repo_steps] (evaluated at run time on the REAL
    repository by the streams httpreal / blobreal): gone => unloaded; invalid => kept;
    a valid content other than the loaded one is loaded iff the processor accepts it
    NOW, else the previous version stays; every look decides again. *)

(** meaning of the specification's processor (unfolds [dacc]; not in the property theorem list):
    the processor has the three properties of the real one *)
Theorem C18_accept_processor : forall ok0 clash srcs A self c,
  (dacc ok0 clash srcs A self c = true <->
   ok0 c = true /\ forall t d, In t srcs -> t <> self -> A t = Some d -> clash c d = false) /\
  (forall s, deletable (dyn_oracle ok0 clash srcs A self) s = true) /\
  (forall v, dacc ok0 clash srcs (a_set A self v) self c = dacc ok0 clash srcs A self c).
Proof.
  intros. split; [apply dacc_iff|]. split; [intro s; reflexivity | intro v; apply dacc_own_irrelevant].
Qed.
Print Assumptions C18_accept_processor.

(** what the specification means: after any looks [ls] the repository holds, for every
    source, the LATEST content of it that was valid and applicable at one of the looks
    since the source (re)appeared ([seen_acc]: the looks at [s], each valid content with the
    processor's answer at the moment of that look; [latest_applicable]: [latest_valid]
    with such answers) *)
Theorem C18_accept_latest_applicable : forall ok0 clash srcs s ls,
  spec_view ok0 clash srcs a_empty ls s = latest_applicable (seen_acc ok0 clash srcs s a_empty ls []).
Proof. intros. apply spec_latest_applicable. reflexivity. Qed.
Print Assumptions C18_accept_latest_applicable.

(** meaning of the specification (unfolds [offer]; says nothing about a provider; not in the property theorem
    list): retry, as a statement about the calls that achieve the specification: a valid
    content that is not the loaded one is offered at EVERY look, answered as of now *)
Theorem C18_accept_retry : forall ok0 clash srcs A s c,
  A s <> Some c ->
  offer ok0 clash srcs A s (SNew c)
    = [mk_call (match A s with None => KCreated | Some _ => KUpdated end) s (Some c) (dacc ok0 clash srcs A s c)] /\
  apply_calls A (offer ok0 clash srcs A s (SNew c)) s = (if dacc ok0 clash srcs A s c then Some c else A s).
Proof. exact offer_retry. Qed.
Print Assumptions C18_accept_retry.

(** convergence: one look suffices once the content is applicable, and it stays while the
    source keeps showing it, whatever the other sources do *)
Theorem C18_accept_converges : forall ok0 clash srcs A s c,
  ok0 c = true ->
  (forall t d, In t srcs -> t <> s -> A t = Some d -> clash c d = false) ->
  spec_look ok0 clash srcs A (s, SNew c) s = Some c /\
  forall ls, (forall so, In so ls -> fst so = s -> snd so = SNew c \/ snd so = SBad \/ snd so = SNone) ->
             spec_view ok0 clash srcs (spec_look ok0 clash srcs A (s, SNew c)) ls s = Some c.
Proof.
  intros ok0 clash srcs A s c H0 Hf.
  pose proof (spec_converges_one_look ok0 clash srcs A s c H0 Hf) as H. split; [exact H|].
  intros ls Hls. apply spec_stable_keeps; assumption.
Qed.
Print Assumptions C18_accept_converges.

(** what is NOT achieved (by any provider that only retries): two sources whose new
    contents each compete with the other's OLD content block each other for ever *)
Theorem C18_accept_no_global_convergence :
  let srcs := [Sid 0; Sid 1] in
  let first := [[(Sid 0, SNew 1)]; [(Sid 1, SNew 2)]] in
  let round := [[(Sid 0, SNew 3)]; [(Sid 1, SNew 4)]] in
  clash_block 3 4 = false /\ clash_block 4 3 = false /\
  map (spec_final (fun _ => true) clash_block srcs a_empty (first ++ round ++ round ++ round)) srcs = [Some 1; Some 2].
Proof. exact spec_mutual_block. Qed.
Print Assumptions C18_accept_no_global_convergence.

(** HTTP endpoint: for ALL histories of polls and ALL such processors, the calls (with the
    processor's answers) and the repository after every poll are those of the reference
    run, and the repository is what the specification demands *)
Theorem C18_http_accept_all_histories : forall ok0 clash srcs n h,
  map (fun x => (r_calls x, r_repo x)) (http_real_steps ok0 clash srcs n st_empty a_empty h)
    = ref_steps ok0 clash srcs a_empty (http_views_r true h) /\
  map r_repo (http_real_steps ok0 clash srcs n st_empty a_empty h)
    = spec_repo_steps ok0 clash srcs a_empty (http_views_r true h).
Proof.
  intros. split; [apply http_dyn_ref; [apply hagrees_init | apply aeq_refl] | apply http_dyn_repo_is_spec].
Qed.
Print Assumptions C18_http_accept_all_histories.

(** retry: after ANY history, a poll showing a valid content that is not the loaded one
    offers it — however often it was refused before; accepted => loaded and remembered,
    refused => repository and stored hash unchanged (so the next poll offers it again) *)
Theorem C18_http_accept_retry : forall ok0 clash srcs h e r c,
  let k := fst (http_real_state ok0 clash srcs st_empty a_empty h) in
  let A := snd (http_real_state ok0 clash srcs st_empty a_empty h) in
  obs_of_outcome_r true (outcome_of r) = SNew c ->
  A (Sid e) <> Some c ->
  let x := http_watch (dyn_oracle ok0 clash srcs A (Sid e)) k e r in
  h_calls x = [mk_call (match A (Sid e) with None => KCreated | Some _ => KUpdated end) (Sid e) (Some c)
                       (dacc ok0 clash srcs A (Sid e) c)] /\
  apply_calls A (h_calls x) (Sid e) = (if dacc ok0 clash srcs A (Sid e) c then Some c else A (Sid e)) /\
  h_st x e = (if dacc ok0 clash srcs A (Sid e) c then Some c else k e).
Proof. exact http_dyn_retry. Qed.
Print Assumptions C18_http_accept_retry.

(** convergence: after ANY history, if the endpoint shows a content acceptable in itself
    and no other source holds a competing content now, the repository holds it after this poll *)
Theorem C18_http_accept_converges : forall ok0 clash srcs h e r c,
  let k := fst (http_real_state ok0 clash srcs st_empty a_empty h) in
  let A := snd (http_real_state ok0 clash srcs st_empty a_empty h) in
  obs_of_outcome_r true (outcome_of r) = SNew c ->
  ok0 c = true ->
  (forall t d, In t srcs -> t <> Sid e -> A t = Some d -> clash c d = false) ->
  apply_calls A (h_calls (http_watch (dyn_oracle ok0 clash srcs A (Sid e)) k e r)) (Sid e) = Some c.
Proof. exact http_dyn_converges. Qed.
Print Assumptions C18_http_accept_converges.

(** cloud blob, buckets with the single key 0 (what the stream blobreal runs), polls in which
    no blob is listed/named but absent (that is C18-F5 / C18-F6): the same three *)
Theorem C18_blob_accept_all_histories : forall ok0 clash srcs n h,
  forallb (fun e => blob1_poll_ok (snd e)) h = true ->
  map (fun x => (r_calls x, r_repo x)) (blob_real_steps ok0 clash srcs n bst_empty a_empty h)
    = ref_steps ok0 clash srcs a_empty (blob_views_r true 1 h) /\
  map r_repo (blob_real_steps ok0 clash srcs n bst_empty a_empty h)
    = spec_repo_steps ok0 clash srcs a_empty (blob_views_r true 1 h).
Proof.
  intros ok0 clash srcs n h Hok.
  split; [apply blob_dyn_ref; [exact Hok | apply bagrees_init | apply aeq_refl] | apply blob_dyn_repo_is_spec; exact Hok].
Qed.
Print Assumptions C18_blob_accept_all_histories.

Theorem C18_blob_accept_retry : forall ok0 clash srcs h b p c,
  forallb (fun e => blob1_poll_ok (snd e)) h = true -> blob1_poll_ok p = true ->
  let S := fst (blob_real_state ok0 clash srcs bst_empty a_empty h) in
  let A := snd (blob_real_state ok0 clash srcs bst_empty a_empty h) in
  let s := bsid false b 0 in
  blob1_obs p = Some (SNew c) ->
  A s <> Some c ->
  let x := blob_watch (dyn_oracle ok0 clash srcs A s) true 1 b (S b) p in
  h_calls x = [mk_call (match A s with None => KCreated | Some _ => KUpdated end) s (Some c) (dacc ok0 clash srcs A s c)] /\
  apply_calls A (h_calls x) s = (if dacc ok0 clash srcs A s c then Some c else A s) /\
  h_st x 0 = (if dacc ok0 clash srcs A s c then Some c else S b 0).
Proof. exact blob_dyn_retry. Qed.
Print Assumptions C18_blob_accept_retry.

Theorem C18_blob_accept_converges : forall ok0 clash srcs h b p c,
  forallb (fun e => blob1_poll_ok (snd e)) h = true -> blob1_poll_ok p = true ->
  let S := fst (blob_real_state ok0 clash srcs bst_empty a_empty h) in
  let A := snd (blob_real_state ok0 clash srcs bst_empty a_empty h) in
  let s := bsid false b 0 in
  blob1_obs p = Some (SNew c) ->
  ok0 c = true ->
  (forall t d, In t srcs -> t <> s -> A t = Some d -> clash c d = false) ->
  apply_calls A (h_calls (blob_watch (dyn_oracle ok0 clash srcs A s) true 1 b (S b) p)) s = Some c.
Proof. exact blob_dyn_converges. Qed.
Print Assumptions C18_blob_accept_converges.

(** the old theorems are the special case [clash = none]: the run is the run against the
    content-only oracle (same calls) and the specification is "latest valid content seen" *)
Theorem C18_accept_static_special_case : forall ok0 srcs n h,
  (forall A s c, dacc ok0 no_clash srcs A s c = ok0 c) /\
  map r_calls (http_real_steps ok0 no_clash srcs n st_empty a_empty h) = map h_calls (snd (http_run (static_oracle ok0) h)) /\
  map r_repo (http_real_steps ok0 no_clash srcs n st_empty a_empty h) = lv_steps ok0 srcs seen_empty (http_views_r true h) /\
  (forall views, spec_repo_steps ok0 no_clash srcs a_empty views = lv_steps ok0 srcs seen_empty views).
Proof.
  intros. split; [intros; apply dacc_no_clash|].
  destruct (http_static_special_case ok0 srcs n h) as [H1 H2]. split; [exact H1|]. split; [exact H2|].
  intro views. apply spec_static_is_latest_valid. intro s. reflexivity.
Qed.
Print Assumptions C18_accept_static_special_case.

(** the seeded defect (seeded/C18-1, C18-10, C18-11; mutation M1): a provider that records
    the hash before the processor answered never offers a refused content again *)
Theorem C18_http_eager_hash_refuted :
  let ok := fun _ : cid => true in
  let spec := spec_repo_steps ok pclash srcs2 a_empty (http_views_r true h_eager) in
  map r_repo (http_real_steps ok pclash srcs2 2 st_empty a_empty h_eager) = spec /\
  map r_repo (http_real_steps_w ok pclash srcs2 http_watch_eager 2 st_empty a_empty h_eager) <> spec /\
  last spec [] = [None; Some 5] /\
  last (map r_repo (http_real_steps_w ok pclash srcs2 http_watch_eager 2 st_empty a_empty h_eager)) [] = [None; None] /\
  last (map r_known (http_real_steps_w ok pclash srcs2 http_watch_eager 2 st_empty a_empty h_eager)) [] = [None; Some 5] /\
  flat_map r_calls (skipn 3 (http_real_steps_w ok pclash srcs2 http_watch_eager 2 st_empty a_empty h_eager)) = [].
Proof. exact http_eager_refuted. Qed.
Print Assumptions C18_http_eager_hash_refuted.

Theorem C18_blob_eager_hash_refuted :
  let ok := fun _ : cid => true in
  let spec := spec_repo_steps ok pclash bsrcs2 a_empty (blob_views_r true 1 hb_eager) in
  forallb (fun e => blob1_poll_ok (snd e)) hb_eager = true /\
  map r_repo (blob_real_steps ok pclash bsrcs2 2 bst_empty a_empty hb_eager) = spec /\
  map r_repo (blob_real_steps_w ok pclash bsrcs2 blob_watch_eager 2 bst_empty a_empty hb_eager) <> spec /\
  last spec [] = [None; Some 5] /\
  last (map r_repo (blob_real_steps_w ok pclash bsrcs2 blob_watch_eager 2 bst_empty a_empty hb_eager)) [] = [None; None] /\
  last (map r_known (blob_real_steps_w ok pclash bsrcs2 blob_watch_eager 2 bst_empty a_empty hb_eager)) [] = [None; Some 5].
Proof. exact blob_eager_refuted. Qed.
Print Assumptions C18_blob_eager_hash_refuted.

(** file system (per event; the provider as it is now): for ALL histories of file changes,
    notifications of any kind in any order and initial loads, and ALL such processors, the
    calls and the repository of every event are the reference run's on what the event
    looks at ([fs_view_dyn]: a notification looks at its file; the initial load looks at
    the existing files in name order, the processor being asked per file as of then, and
    gives up at the first file whose content is not loaded after the look).
    [fs_handle_gen] is Model.v's [fs_handle] when the oracle does not depend on the repository. *)
Theorem C18_fs_accept_all_histories : forall ok0 clash srcs h,
  fs_dyn_steps ok0 clash srcs world0 st_empty a_empty h = fs_ref_steps ok0 clash srcs a_empty world0 h /\
  (forall O fixed s A e, fst (fs_handle_gen (fun _ _ => O) fixed (fs_world s) (fs_known s) A e) = fs_handle O fixed s e) /\
  (forall A v B, aeq A B -> aeq (fst (ref_view ok0 clash srcs A v)) (spec_view ok0 clash srcs B v)).
Proof.
  intros. split; [apply fs_dyn_ref; apply hagrees_init|]. split; [intros; apply fs_handle_gen_static|].
  intros A v B H. apply ref_view_spec. exact H.
Qed.
Print Assumptions C18_fs_accept_all_histories.

(** no reload / retry / convergence at a notification, after ANY history *)
Theorem C18_fs_accept_notify : forall ok0 clash srcs h f ops c,
  let st := fs_dyn_state ok0 clash srcs world0 st_empty a_empty h in
  let world := fst (fst st) in let k := snd (fst st) in let A := snd st in
  ops <> [] -> world f = CValid c ->
  let x := fs_handle_gen (dyn_oracle ok0 clash srcs) true world k A (FsNotify f ops) in
  (A (Sid f) = Some c -> h_calls (fst x) = []) /\
  (A (Sid f) <> Some c ->
     h_calls (fst x) = [mk_call (match A (Sid f) with None => KCreated | Some _ => KUpdated end) (Sid f) (Some c)
                                (dacc ok0 clash srcs A (Sid f) c)] /\
     snd x (Sid f) = (if dacc ok0 clash srcs A (Sid f) c then Some c else A (Sid f)) /\
     h_st (fst x) f = (if dacc ok0 clash srcs A (Sid f) c then Some c else k f)) /\
  (ok0 c = true -> (forall t d, In t srcs -> t <> Sid f -> A t = Some d -> clash c d = false) -> snd x (Sid f) = Some c).
Proof. exact fs_dyn_notify. Qed.
Print Assumptions C18_fs_accept_notify.

Theorem C18_fs_eager_hash_refuted :
  let ok := fun _ : cid => true in
  last (map snd (fs_dyn_steps ok pclash srcs2 world0 st_empty a_empty hf_eager)) [] = [None; Some 5] /\
  last (map snd (fs_ref_steps ok pclash srcs2 a_empty world0 hf_eager)) [] = [None; Some 5] /\
  last (map snd (fs_eager_steps ok pclash srcs2 world0 st_empty a_empty hf_eager)) [] = [None; None] /\
  flat_map fst (skipn 6 (fs_eager_steps ok pclash srcs2 world0 st_empty a_empty hf_eager)) = [].
Proof. exact fs_eager_refuted. Qed.
Print Assumptions C18_fs_eager_hash_refuted.

(** Kubernetes: NO retry = open finding C18-F10 (replayed on the real code; see C18_k8s_F10_refuted below).
    The provider's calls do not depend on the processor's answers
    (it keeps no record of what was applied); a version refused because another source
    held its path is offered again neither when that source goes away nor at a relist
    (same generation), only when the object's spec changes.  The witness: the polling
    specification demands B's rule set loaded, the provider's repository stays without it;
    the next generation is offered and loaded.  (No general theorem for this provider
    against a state-dependent processor.) *)
Theorem C18_k8s_calls_independent_of_answers : forall O1 O2 f7 f8 s a,
  fst (k8s_atom O1 f7 f8 s a) = fst (k8s_atom O2 f7 f8 s a) /\
  option_map (map shape) (snd (k8s_atom O1 f7 f8 s a)) = option_map (map shape) (snd (k8s_atom O2 f7 f8 s a)).
Proof. exact k8s_atom_shape. Qed.
Print Assumptions C18_k8s_calls_independent_of_answers.

Theorem C18_k8s_accept_no_retry_witness :
  let ok := fun _ : cid => true in
  k8s_wf 2 hk_no_retry = true /\
  map (fun x => map (fun p => (p_kind p, p_cid p, p_ok p)) (fst x)) (k8s_dyn_steps ok pclash ksrcs2 2 ks_empty a_empty hk_no_retry)
    = [[(KCreated, Some 1, true)]; [(KCreated, Some 5, false)]; [(KDeleted, None, true)]; []; []] /\
  last (map snd (k8s_dyn_steps ok pclash ksrcs2 2 ks_empty a_empty hk_no_retry)) [] = [None; None] /\
  last (spec_repo_steps ok pclash ksrcs2 a_empty hk_views) [] = [None; Some 5].
Proof. exact k8s_no_retry. Qed.
Print Assumptions C18_k8s_accept_no_retry_witness.

Theorem C18_k8s_accept_next_generation_loads :
  let ok := fun _ : cid => true in
  let h := hk_no_retry ++ [KWatch WModified kB2] in
  k8s_wf 2 h = true /\
  last (map (fun x => map (fun p => (p_kind p, p_cid p, p_ok p)) (fst x)) (k8s_dyn_steps ok pclash ksrcs2 2 ks_empty a_empty h)) []
    = [(KUpdated, Some 9, true)] /\
  last (map snd (k8s_dyn_steps ok pclash ksrcs2 2 ks_empty a_empty h)) [] = [None; Some 9].
Proof. exact k8s_next_generation_loads. Qed.
Print Assumptions C18_k8s_accept_next_generation_loads.

(** ** Event-driven providers against a processor whose answer depends on what is loaded: open findings *)

(** [quiescent]: no source is left whose latest version that is valid in itself is not loaded although nothing
    holds its path; a source showing no valid version has nothing loaded.

    C18-F10 (Kubernetes, replayed on the real code): RuleSet A holds a path; RuleSet B (valid, same path) is refused;
    A is deleted — B could be applied now, it exists and is valid, and it is not loaded; a relist delivering B with the
    same generation does not help (update handler ignores it), only a new generation does. *)
Theorem C18_k8s_F10_refuted :
  let ok := fun _ : cid => true in
  k8s_wf 2 hk_F10 = true /\ k8s_guard_F10 ok 2 0 hk_F10 = true /\
  k8s_dyn_repo_after ok 2 hk_F10 = k8s_ref_repo_after ok 2 hk_F10 /\
  k8s_dyn_repo_after ok 2 hk_F10 = map (fun _ => None) k8c_srcs /\
  free_for pclash k8c_srcs (repo_fun k8c_srcs (k8s_dyn_repo_after ok 2 hk_F10)) (Sid 1) 5 = true /\
  k8s_dyn_repo_after ok 2 (hk_F10 ++ [KRelist [kB1]]) = map (fun _ => None) k8c_srcs /\
  nth 1 (k8s_dyn_repo_after ok 2 (hk_F10 ++ [KWatch WModified kB2])) None = Some 9.
Proof. exact k8s_F10_refuted. Qed.
Print Assumptions C18_k8s_F10_refuted.

(** C18-F11 (file system, replayed): file 1 is refused while file 0 holds the path; file 0 is removed — file 1 stays
    unloaded until the next event for it *)
Theorem C18_fs_F11_refuted :
  let ok := fun _ : cid => true in
  fs_guard_F11 ok 2 hf_F11 = true /\
  fs_dyn_repo_after ok 2 hf_F11 = [None; None] /\
  free_for pclash [Sid 0; Sid 1] (repo_fun [Sid 0; Sid 1] (fs_dyn_repo_after ok 2 hf_F11)) (Sid 1) 5 = true /\
  fs_dyn_repo_after ok 2 (hf_F11 ++ [FsNotify 1 [OpChmod]]) = [None; Some 5] /\
  fs_guard_F11 ok 2 [FsSet 0 (CValid 1); FsNotify 0 [OpCreate]; FsSet 0 (CValid 2); FsNotify 0 [OpWrite]] = false.
Proof. exact fs_F11_refuted. Qed.
Print Assumptions C18_fs_F11_refuted.
