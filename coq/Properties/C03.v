(** C03 — Match conditions and captured path values behave as documented.
    Property theorems only; proofs are in C03/Proofs*.v and C03/Reach*.v.

    Model.v is the Go code as it is (route_matcher.go, typed_matcher.go, CreateRule's
    matcher assembly, the radix tree's Add / findNode / Find, FindRule, Execute's
    encoded-slash switch and capture decoding).  Spec.v is the documentation:
    path expressions, `ALL` / `!M` method lists, any-host, path_params on decoded
    segments, decoded captures.  No finding is open: C03-F8 is repaired as well (6d0a3af, decoder variant [D8]);
    each has a `_refuted` witness.  C03-F2, F3, F5, F6, F7 were repaired by `fix:` commits
    (88da16a, 20f92b3, 16cf34b, 72ba5d4, a779db8): the model is parametric in them ([fx2 fx3 fx5
    fx6 fx7], [true] = the tree as it is now) and the pinned behaviour is kept as `_pinned_refuted`.
    C03-F1 and C03-F4 are repaired as well (6793b33, 22bae5e: [fx1], [fx4]).  The slash-preserving
    decoder has three variants [fx7 : dec]: [D0] pinned, [D7] after a779db8,
    [D8] after 6d0a3af (the tree as it is).  The main theorems are stated for every
    value of the flags they depend on; a guard is false by definition for the repaired variant.
    What is left of the guard of C03-F6 is the request view without RawPath, which no entry
    point produces for a non-empty path any more (ae6db4f).

    The theorems named C03_reach_... / C03_history_... (end of the file) state the lookup theorems
    for EVERY tree the repository can reach by Tree.Add and Tree.Delete and after EVERY history of
    AddRuleSet / UpdateRuleSet / DeleteRuleSet: the tree is the shared compressed tree
    (Radix/Tree.v, C06/TreeDel.v) read as a C03 tree ([conv]); proofs in C03/Reach*.v on top of
    Radix/, C06/TreeDel*.v, C06/TreeRefine.v and C02/Reach.v. *)
From HV Require Import Base.Prelude C03.Model C03.Spec C03.Proofs C03.ProofsTree C03.ProofsAdd C03.ProofsSpec
  C03.ReachConv C03.ReachSpec C03.ReachHist C03.ReachTheorems.
Open Scope list_scope.
Open Scope string_scope.

(** the list createMethodMatcher computes contains exactly the methods the configured
    list denotes: listed (`ALL` = the nine HTTP methods), not excluded with `!` *)
Theorem C03_method_list_semantics : forall fx4 ms l,
  create_method_matcher fx4 ms = Ok l ->
  (forall m, mem m l = true <->
     (((has_bang m = false /\ m <> "ALL" /\ In m ms) \/ (In "ALL" ms /\ In m nine)) /\ ~ In ("!" ++ m) ms)) /\
  (forall q, guard_F4 fx4 ms = false -> method_match l q = spec_method ms (q_method q)).
Proof. exact method_list_semantics_full. Qed.
Print Assumptions C03_method_list_semantics.

(** a methods list is rejected exactly when it contains an empty string — and, since 22bae5e
    ([fx4 = true], the tree as it is), when it allows no method ([guard_F4 false ms]: the pinned
    createMethodMatcher computes the empty list; [C03_method_list_rejected_spec] says the same
    against the specification) *)
Theorem C03_method_list_rejected : forall ms,
  (create_method_matcher false ms = Rejected <-> In "" ms) /\
  (create_method_matcher true ms = Rejected <-> In "" ms \/ guard_F4 false ms = true).
Proof. exact method_list_rejected. Qed.
Print Assumptions C03_method_list_rejected.

(** the same for the code as it is, against the SPECIFICATION: rejected exactly when the list contains
    an empty string, or is non-empty and [spec_method] allows no method at all *)
Theorem C03_method_list_rejected_spec : forall ms,
  create_method_matcher true ms = Rejected <-> In "" ms \/ (ms <> [] /\ forall m, spec_method ms m = false).
Proof. exact method_list_rejected_spec. Qed.
Print Assumptions C03_method_list_rejected_spec.

(** C03-F4: a non-empty list denoting no method is turned into "all methods" *)
Theorem C03_F4_pinned_refuted :
  exists r cm q, only_matcher false r = Some cm /\ guard_F4 false (rl_methods r) = true /\
    route_matches false true D8 eng_none cm q [] [] = MYes /\ spec_route_ok eng_none r [] q [] [] = false.
Proof. exact F4_refuted. Qed.
Print Assumptions C03_F4_pinned_refuted.

(** hosts: any one of the listed expressions; for the pinned variant [fx1 = false] (before 6793b33)
    unless they disagree — the guard is false by definition for [fx1 = true], the tree as it is *)
Theorem C03_hosts_any : forall fx1 eng hs q,
  guard_F1 fx1 eng hs q = false -> hosts_match fx1 eng hs q = spec_hosts eng hs q.
Proof. exact hosts_semantics. Qed.
Print Assumptions C03_hosts_any.

Theorem C03_F1_pinned_refuted :
  exists r cm q, only_matcher false r = Some cm /\ guard_F1 false eng_none (rl_hosts r) q = true /\
    route_matches false true D8 eng_none cm q [] [] = MNo /\ spec_route_ok eng_none r [] q [] [] = true.
Proof. exact F1_refuted. Qed.
Print Assumptions C03_F1_pinned_refuted.

(** the decoding of a captured value per encoded-slash setting: `on` = percent-decoded;
    `off` / `no_decode` = percent-decoded with encoded slashes left as they are *)
Theorem C03_decode_per_setting : forall fx7 sl v d,
  spec_decode (keep_slash_of sl) v = Some d ->
  (sl = SOn \/ (guard_F7_val fx7 v = false /\ guard_F8_val fx7 d = false)) ->
  unescape fx7 v sl = d.
Proof. exact decode_per_setting. Qed.
Print Assumptions C03_decode_per_setting.

(** the matcher CreateRule builds for a route answers, for whatever keys and values
    it is asked with, exactly as the documented conditions say — scheme (when
    set), method list, any host, every path_params expression on the decoded value
    of the named wildcard — and never panics; for all rules, engines, requests *)
Theorem C03_route_matches_iff : forall fx1 fx4 fx7 eng r cr,
  create_rule fx4 r = Ok cr ->
  forall path cm, In (path, cm) (cr_routes cr) ->
  exists rt, In rt (rl_routes r) /\ path = rt_path rt /\
    forall q keys vals,
      length keys = length vals -> Forall valid_enc vals -> Forall (from_path q) vals ->
      guard_F1 fx1 eng (rl_hosts r) q = false ->
      guard_F4 fx4 (rl_methods r) = false ->
      on_params (guard_F6 true) (rl_slash r) q keys vals (rt_params rt) = false ->
      on_params (guard_F7 fx7) (rl_slash r) q keys vals (rt_params rt) = false ->
      on_params (guard_F8 fx7) (rl_slash r) q keys vals (rt_params rt) = false ->
      route_matches fx1 true fx7 eng cm q keys vals =
      of_bool (spec_scheme (rl_scheme r) q && spec_method (rl_methods r) (q_method q) &&
               spec_hosts eng (rl_hosts r) q &&
               forallb (spec_param eng (rl_slash r) q keys vals) (rt_params rt)).
Proof. exact route_matches_iff. Qed.
Print Assumptions C03_route_matches_iff.

(** the pinned tree (before 72ba5d4) evaluated path_params on the still encoded value under `off` *)
Theorem C03_F6_pinned_refuted :
  exists r ps cm q keys vals, only_matcher false r = Some cm /\ cm_params cm = ps /\
    length keys = length vals /\ Forall valid_enc vals /\ Forall (from_path q) vals /\
    on_params (guard_F6 false) (rl_slash r) q keys vals ps = true /\
    route_matches false false D7 eng_none cm q keys vals = MNo /\ spec_route_ok eng_none r ps q keys vals = true.
Proof. exact F6_pinned_refuted. Qed.
Print Assumptions C03_F6_pinned_refuted.

(** Execute rejects exactly the requests with an encoded slash under `off`; otherwise the
    captures are the decoded segments under the wildcard names, for every variant of the decoder *)
Theorem C03_captures_exact : forall fx7 sl q names segs caps rej,
  req_guard_F7 fx7 sl q = false ->
  execute fx7 sl q (map_of (named_pairs names segs)) = (caps, rej) ->
  rej = spec_rejected sl q /\
  (rej = false -> forall sc, spec_captures sl names segs = Some sc ->
     caps_guard_F7 fx7 sl (named_pairs names segs) = false ->
     caps_guard_F8 fx7 sl (named_pairs names segs) = false -> caps = sc).
Proof. exact captures_exact. Qed.
Print Assumptions C03_captures_exact.

(** unnamed wildcards are not exposed by a lookup *)
Theorem C03_unnamed_not_exposed : forall fx1 fx4 fx6 fx7 eng ds es t q r caps rej cs,
  load true fx4 ds = Loaded es t ->
  serve fx1 true true fx6 fx7 eng es t q = (ORule r caps rej, cs) ->
  forall k v, In (k, v) caps -> k <> "*".
Proof. exact lookup_unnamed_not_exposed. Qed.
Print Assumptions C03_unnamed_not_exposed.

(** the pinned tree (before a779db8) accepted a lower-case encoded slash under `off` and
    decoded it under `off` / `no_decode` *)
Theorem C03_F7_pinned_refuted :
  exists sl q names segs caps sc,
    req_guard_F7 D0 sl q = true /\
    execute D0 sl q (map_of (named_pairs names segs)) = (caps, false) /\
    spec_rejected sl q = true /\
    spec_captures sl names segs = Some sc /\ caps <> sc.
Proof. exact F7_pinned_refuted. Qed.
Print Assumptions C03_F7_pinned_refuted.

(** the decoder with the place-holder (before 6d0a3af) *)
Theorem C03_F8_pinned_refuted :
  exists sl q names segs caps sc,
    caps_guard_F8 D7 sl (named_pairs names segs) = true /\
    execute D7 sl q (map_of (named_pairs names segs)) = (caps, false) /\
    spec_rejected sl q = false /\
    spec_captures sl names segs = Some sc /\ caps <> sc.
Proof. exact F8_refuted. Qed.
Print Assumptions C03_F8_pinned_refuted.

(** the lookup tree hands the matcher of a route the wildcard names that route declares and the
    segments its wildcards match (free wildcard included), and it asks only routes whose
    expression matches the request path as documented — at every matcher call of every lookup,
    for all rule sets loaded by [Add] (any number of rules and routes, any insertion order,
    prefix splitting and escapes included), all engines and all requests *)
Theorem C03_matcher_sees_route_keys : forall fx1 fx4 fx6 fx7 eng ds es t q,
  load true fx4 ds = Loaded es t ->
  forall k, In k (snd (serve fx1 true true fx6 fx7 eng es t q)) ->
  exists s, nth_error (flat_routes 0 ds) (k_vid k) = Some s /\
    sr_segs s q = Some (k_vals k) /\ k_keys k = declared_names (sr_tokens s).
Proof. exact matcher_sees_route_keys_strong. Qed.
Print Assumptions C03_matcher_sees_route_keys.

(** end to end: every matcher call made for a route whose expression matches the request path
    answers exactly scheme && method && any-host && all path_params on the decoded segments
    ([spec_answer]), outside the finding guards of the variant *)
Theorem C03_lookup_answers_as_documented : forall fx1 fx4 fx6 fx7 eng ds es t q,
  load true fx4 ds = Loaded es t ->
  forall k, In k (snd (serve fx1 true true fx6 fx7 eng es t q)) ->
  forall s segs, nth_error (flat_routes 0 ds) (k_vid k) = Some s -> sr_segs s q = Some segs ->
    Forall valid_enc segs -> Forall (from_path q) segs ->
    route_guards fx1 fx4 fx6 fx7 eng s q segs = false ->
    k_res k = spec_answer eng s q segs.
Proof. exact lookup_answers_spec. Qed.
Print Assumptions C03_lookup_answers_as_documented.

(** the same for the tree as it is now (every finding repaired) and a request view with a validly
    encoded RawPath, which is what all entry points produce: no guard is left *)
Theorem C03_lookup_answers_as_documented_now : forall eng ds es t q,
  load true true ds = Loaded es t ->
  String.eqb (q_rawpath q) "" = false -> valid_enc (q_rawpath q) ->
  forall k, In k (snd (serve true true true true D8 eng es t q)) ->
  forall s segs, nth_error (flat_routes 0 ds) (k_vid k) = Some s -> sr_segs s q = Some segs ->
    k_res k = spec_answer eng s q segs.
Proof. exact lookup_answers_spec_now. Qed.
Print Assumptions C03_lookup_answers_as_documented_now.

(** no request makes the lookup of a loaded rule set panic: keys and values handed to a matcher
    always have the same length, and the entry returned has a name for every value (contrast:
    [C03_F5_pinned_panic_refuted]) *)
Theorem C03_lookup_no_panic : forall fx1 fx4 fx6 fx7 eng ds es t q,
  load true fx4 ds = Loaded es t -> fst (serve fx1 true true fx6 fx7 eng es t q) <> OPanic.
Proof. exact lookup_no_panic. Qed.
Print Assumptions C03_lookup_no_panic.

(** the rule a lookup selects: one of its routes has an expression that matches the request path as
    documented, that route's matcher was asked and said yes, and the captures are what Execute makes
    of exactly the named segments *)
Theorem C03_lookup_selected : forall fx1 fx4 fx6 fx7 eng ds es t q r caps rej cs,
  load true fx4 ds = Loaded es t ->
  serve fx1 true true fx6 fx7 eng es t q = (ORule r caps rej, cs) ->
  exists v s segs k, nth_error (flat_routes 0 ds) v = Some s /\ sr_rule s = r /\ sr_segs s q = Some segs /\
    In k cs /\ k_vid k = v /\ k_res k = MYes /\
    execute fx7 (rl_slash (sr_def s)) q (map_of (named_pairs (declared_names (sr_tokens s)) segs)) = (caps, rej).
Proof. exact lookup_selected. Qed.
Print Assumptions C03_lookup_selected.

(** THE STATEMENT end to end, for the tree as it is now (every finding repaired) and every request
    view with a validly encoded RawPath: a rule is selected only through a route whose expression
    matches the path and for which scheme, method, any-host and every path_params expression hold;
    the request is refused exactly for an encoded slash under `off`; otherwise the values exposed are
    exactly the decoded matched segments under the wildcard names *)
Theorem C03_selected_only_if_documented : forall eng ds es t q r caps rej cs,
  load true true ds = Loaded es t ->
  String.eqb (q_rawpath q) "" = false -> valid_enc (q_rawpath q) ->
  serve true true true true D8 eng es t q = (ORule r caps rej, cs) ->
  exists v s segs, nth_error (flat_routes 0 ds) v = Some s /\ sr_rule s = r /\ sr_segs s q = Some segs /\
    spec_route_ok eng (sr_def s) (rt_params (sr_route s)) q (declared_names (sr_tokens s)) segs = true /\
    rej = spec_rejected (rl_slash (sr_def s)) q /\
    (rej = false -> exists sc, spec_captures (rl_slash (sr_def s)) (declared_names (sr_tokens s)) segs = Some sc /\ caps = sc).
Proof. exact lookup_selected_now. Qed.
Print Assumptions C03_selected_only_if_documented.

(** independence of a request from the REQUESTS served before it (not to be confused with the histories
    of rule-set operations of the C03_history_... theorems), as far as a theorem about the MODEL can say it:
    a sequence of requests served by one instance of a loaded rule set is answered request by request - the
    same request gets the same answer at any place of any sequence.  The statement is [nth_error (map f qs)],
    true of any [map]: it records that the model is stateless, it covers no clause of the property.  (The model is stateless by construction; that the
    implementation is, is observed by the check: every request of a case goes through the same matcher
    instances and is compared with the answer of an instance built anew.) *)
Theorem C03_request_sequence_independent : forall fx1 fx2 fx5 fx6 fx7 eng es t qs1 qs2 i j q,
  nth_error qs1 i = Some q -> nth_error qs2 j = Some q ->
  nth_error (serve_seq fx1 fx2 fx5 fx6 fx7 eng es t qs1) i = nth_error (serve_seq fx1 fx2 fx5 fx6 fx7 eng es t qs2) j.
Proof. exact serve_seq_same_request. Qed.
Print Assumptions C03_request_sequence_independent.

(** the tree-side findings, on loaded rule sets *)
Theorem C03_F2_pinned_refuted :
  exists ds q k s segs,
    served false true true true D7 ds q = Some (ONone, [k]) /\
    nth_error (flat_routes 0 ds) (k_vid k) = Some s /\ guard_F2_params s = true /\
    sr_segs s q = Some segs /\
    ~ call_sees_route (flat_routes 0 ds) q k /\
    k_res k = MNo /\ spec_answer eng_none s q segs = MYes.
Proof. exact F2_pinned_refuted. Qed.
Print Assumptions C03_F2_pinned_refuted.

Theorem C03_F3_pinned_refuted :
  exists ds q k s segs caps sc,
    served true false true true D7 ds q = Some (ORule 0 caps false, [k]) /\
    nth_error (flat_routes 0 ds) (k_vid k) = Some s /\ sr_rule s = 0 /\
    guard_F3 (flat_routes 0 ds) s = true /\
    sr_segs s q = Some segs /\
    spec_captures (rl_slash (sr_def s)) (declared_names (sr_tokens s)) segs = Some sc /\
    caps <> sc.
Proof. exact F3_pinned_refuted. Qed.
Print Assumptions C03_F3_pinned_refuted.

Theorem C03_F5_pinned_refuted :
  exists ds q k s segs caps sc es t,
    load true false ds = Loaded es t /\ guard_F5 false true true D7 eng_none es t q = true /\
    served true true false true D7 ds q = Some (ORule 1 caps false, [k]) /\
    nth_error (flat_routes 0 ds) (k_vid k) = Some s /\
    sr_segs s q = Some segs /\
    ~ call_sees_route (flat_routes 0 ds) q k /\
    spec_captures (rl_slash (sr_def s)) (declared_names (sr_tokens s)) segs = Some sc /\
    caps <> sc.
Proof. exact F5_pinned_refuted. Qed.
Print Assumptions C03_F5_pinned_refuted.

Theorem C03_F5_pinned_panic_refuted :
  exists ds q k es t,
    load true false ds = Loaded es t /\ guard_F5 false true true D7 eng_none es t q = true /\
    served true true false true D7 ds q = Some (OPanic, [k]) /\ k_res k = MPanic.
Proof. exact F5_pinned_panic_refuted. Qed.
Print Assumptions C03_F5_pinned_panic_refuted.

(** the hypotheses of [C03_route_matches_iff] are satisfiable, for the variant the check runs (all
    repairs), by a rule using every kind of condition, and the matcher then says yes *)
Theorem C03_nonvacuous :
  exists r cm q keys vals,
    only_matcher true r = Some cm /\ length keys = length vals /\ Forall valid_enc vals /\
    Forall (from_path q) vals /\
    guard_F1 true eng_none (rl_hosts r) q = false /\ guard_F4 true (rl_methods r) = false /\
    on_params (guard_F6 true) (rl_slash r) q keys vals (cm_params cm) = false /\
    on_params (guard_F7 D8) (rl_slash r) q keys vals (cm_params cm) = false /\
    on_params (guard_F8 D8) (rl_slash r) q keys vals (cm_params cm) = false /\
    route_matches true true D8 eng_none cm q keys vals = MYes.
Proof. exact route_semantics_nonvacuous_live. Qed.
Print Assumptions C03_nonvacuous.

(** the hypotheses of the Add-only lookup theorems ([C03_selected_only_if_documented] ...) are satisfiable for
    the code as it is: a rule set loaded by one AddRuleSet, a request with a non-empty, validly encoded RawPath
    that selects a rule through a path_params condition on a single and on a free wildcard *)
Theorem C03_lookup_nonvacuous :
  exists es t,
    load true true ex_ds = Loaded es t /\
    String.eqb (q_rawpath (w_req "GET" "h" "/foo/baz/1")) "" = false /\
    valid_enc (q_rawpath (w_req "GET" "h" "/foo/baz/1")) /\
    serve true true true true D8 eng_none es t (w_req "GET" "h" "/foo/baz/1")
      = (ORule 1 [("x", "1")] false, [{| k_vid := 1; k_keys := ["x"]; k_vals := ["1"]; k_res := MYes |}]) /\
    serve true true true true D8 eng_none es t (w_req "GET" "h" "/files/a/b")
      = (ORule 1 [("rest", "a/b")] false, [{| k_vid := 2; k_keys := ["rest"]; k_vals := ["a/b"]; k_res := MYes |}]).
Proof. exact lookup_nonvacuous. Qed.
Print Assumptions C03_lookup_nonvacuous.

(* ================================================================== every tree the repository can reach *)

(** every tree reached by Tree.Add of route ids with their routes' expressions and Tree.Delete of
    valid expressions (any order, any values constraint, any value matchers) is a reachable index
    in the sense of C02/Reach.v, satisfies the invariant [wfd] of Find / Add / Delete, and its
    abstraction - the content of the pattern-map machine - holds per pattern only values whose own
    expression parses to that pattern with the node's key names *)
Theorem C03_reach_content : forall can_add es T,
  reach_tree can_add es T ->
  C02.Reach.reachable can_add T /\ C06.TreeDel.wfd T = true /\
  forall p N v, In (p, N) (RT.abs T) -> In v (RS.vals N) ->
    exists e, nth_error es v = Some e /\ RS.parse_expr (chars (ce_path e)) = Some (p, RS.keys N).
Proof. exact reach_content. Qed.
Print Assumptions C03_reach_content.

(** [C03_matcher_sees_route_keys] on every reachable tree: [ds] = all rule definitions that ever went
    into the repository, a route is its position in [flat_routes 0 ds] *)
Theorem C03_reach_matcher_sees_route_keys : forall can_add fx1 fx4 fx6 fx7 eng ds cs T q,
  create_rules fx4 ds = Ok cs -> reach_tree can_add (entries_of 0 cs) T ->
  forall k, In k (snd (serve fx1 true true fx6 fx7 eng (entries_of 0 cs) (conv T) q)) ->
  exists s, nth_error (flat_routes 0 ds) (k_vid k) = Some s /\
    sr_segs s q = Some (k_vals k) /\ k_keys k = declared_names (sr_tokens s).
Proof. intros can_add fx1 fx4 fx6 fx7 eng ds cs T q Hc Hr. exact (reach_matcher_sees_route_keys can_add fx4 ds cs T Hc Hr fx1 fx6 fx7 eng q). Qed.
Print Assumptions C03_reach_matcher_sees_route_keys.

Theorem C03_reach_lookup_answers_as_documented : forall can_add fx1 fx4 fx6 fx7 eng ds cs T q,
  create_rules fx4 ds = Ok cs -> reach_tree can_add (entries_of 0 cs) T ->
  forall k, In k (snd (serve fx1 true true fx6 fx7 eng (entries_of 0 cs) (conv T) q)) ->
  forall s segs, nth_error (flat_routes 0 ds) (k_vid k) = Some s -> sr_segs s q = Some segs ->
    Forall valid_enc segs -> Forall (from_path q) segs ->
    route_guards fx1 fx4 fx6 fx7 eng s q segs = false ->
    k_res k = spec_answer eng s q segs.
Proof. intros can_add fx1 fx4 fx6 fx7 eng ds cs T q Hc Hr. exact (reach_lookup_answers_spec can_add fx4 ds cs T Hc Hr fx1 fx6 fx7 eng q). Qed.
Print Assumptions C03_reach_lookup_answers_as_documented.

Theorem C03_reach_lookup_answers_as_documented_now : forall can_add eng ds cs T q,
  create_rules true ds = Ok cs -> reach_tree can_add (entries_of 0 cs) T ->
  String.eqb (q_rawpath q) "" = false -> valid_enc (q_rawpath q) ->
  forall k, In k (snd (serve true true true true D8 eng (entries_of 0 cs) (conv T) q)) ->
  forall s segs, nth_error (flat_routes 0 ds) (k_vid k) = Some s -> sr_segs s q = Some segs ->
    k_res k = spec_answer eng s q segs.
Proof. intros can_add eng ds cs T q Hc Hr. exact (reach_lookup_answers_spec_now can_add ds cs T Hc Hr eng q). Qed.
Print Assumptions C03_reach_lookup_answers_as_documented_now.

Theorem C03_reach_lookup_no_panic : forall can_add fx1 fx4 fx6 fx7 eng ds cs T q,
  create_rules fx4 ds = Ok cs -> reach_tree can_add (entries_of 0 cs) T ->
  fst (serve fx1 true true fx6 fx7 eng (entries_of 0 cs) (conv T) q) <> OPanic.
Proof. intros can_add fx1 fx4 fx6 fx7 eng ds cs T q Hc Hr. exact (reach_lookup_no_panic can_add fx4 ds cs T Hc Hr fx1 fx6 fx7 eng q). Qed.
Print Assumptions C03_reach_lookup_no_panic.

Theorem C03_reach_lookup_selected : forall can_add fx1 fx4 fx6 fx7 eng ds cs T q r caps rej calls,
  create_rules fx4 ds = Ok cs -> reach_tree can_add (entries_of 0 cs) T ->
  serve fx1 true true fx6 fx7 eng (entries_of 0 cs) (conv T) q = (ORule r caps rej, calls) ->
  exists v s segs k, nth_error (flat_routes 0 ds) v = Some s /\ sr_rule s = r /\ sr_segs s q = Some segs /\
    In k calls /\ k_vid k = v /\ k_res k = MYes /\
    execute fx7 (rl_slash (sr_def s)) q (map_of (named_pairs (declared_names (sr_tokens s)) segs)) = (caps, rej).
Proof. intros can_add fx1 fx4 fx6 fx7 eng ds cs T q r caps rej calls Hc Hr. exact (reach_lookup_selected can_add fx4 ds cs T Hc Hr fx1 fx6 fx7 eng q r caps rej calls). Qed.
Print Assumptions C03_reach_lookup_selected.

Theorem C03_reach_unnamed_not_exposed : forall can_add fx1 fx4 fx6 fx7 eng ds cs T q r caps rej calls,
  create_rules fx4 ds = Ok cs -> reach_tree can_add (entries_of 0 cs) T ->
  serve fx1 true true fx6 fx7 eng (entries_of 0 cs) (conv T) q = (ORule r caps rej, calls) ->
  forall k v, In (k, v) caps -> k <> "*".
Proof. intros can_add fx1 fx4 fx6 fx7 eng ds cs T q r caps rej calls Hc Hr. exact (reach_unnamed_not_exposed can_add fx4 ds cs T Hc Hr fx1 fx6 fx7 eng q r caps rej calls). Qed.
Print Assumptions C03_reach_unnamed_not_exposed.

(** THE STATEMENT end to end on every reachable tree *)
Theorem C03_reach_selected_only_if_documented : forall can_add eng ds cs T q r caps rej calls,
  create_rules true ds = Ok cs -> reach_tree can_add (entries_of 0 cs) T ->
  String.eqb (q_rawpath q) "" = false -> valid_enc (q_rawpath q) ->
  serve true true true true D8 eng (entries_of 0 cs) (conv T) q = (ORule r caps rej, calls) ->
  exists v s segs, nth_error (flat_routes 0 ds) v = Some s /\ sr_rule s = r /\ sr_segs s q = Some segs /\
    spec_route_ok eng (sr_def s) (rt_params (sr_route s)) q (declared_names (sr_tokens s)) segs = true /\
    rej = spec_rejected (rl_slash (sr_def s)) q /\
    (rej = false -> exists sc, spec_captures (rl_slash (sr_def s)) (declared_names (sr_tokens s)) segs = Some sc /\ caps = sc).
Proof. intros can_add eng ds cs T q r caps rej calls Hc Hr. exact (reach_selected_only_if_documented can_add ds cs T Hc Hr eng q r caps rej calls). Qed.
Print Assumptions C03_reach_selected_only_if_documented.

(* ================================================================== after any history of rule-set operations *)

(** after EVERY history of AddRuleSet / UpdateRuleSet / DeleteRuleSet (accepted or refused, each
    all-or-nothing) the index is a reachable tree *)
Theorem C03_history_index_is_reachable : forall es metas ops,
  reach_tree (same_src es metas) es (h_tree (fst (hrun es metas ops))).
Proof. exact hrun_reach. Qed.
Print Assumptions C03_history_index_is_reachable.

Theorem C03_history_matcher_sees_route_keys : forall ds cs metas ops fx1 fx4 fx6 fx7 eng q,
  create_rules fx4 ds = Ok cs ->
  forall k, In k (snd (serve fx1 true true fx6 fx7 eng (entries_of 0 cs) (hist_index cs metas ops) q)) ->
  exists s, nth_error (flat_routes 0 ds) (k_vid k) = Some s /\
    sr_segs s q = Some (k_vals k) /\ k_keys k = declared_names (sr_tokens s).
Proof. exact hist_matcher_sees_route_keys. Qed.
Print Assumptions C03_history_matcher_sees_route_keys.

Theorem C03_history_lookup_no_panic : forall ds cs metas ops fx1 fx4 fx6 fx7 eng q,
  create_rules fx4 ds = Ok cs ->
  fst (serve fx1 true true fx6 fx7 eng (entries_of 0 cs) (hist_index cs metas ops) q) <> OPanic.
Proof. exact hist_lookup_no_panic. Qed.
Print Assumptions C03_history_lookup_no_panic.

Theorem C03_history_lookup_answers_as_documented_now : forall ds cs metas ops eng q,
  create_rules true ds = Ok cs ->
  String.eqb (q_rawpath q) "" = false -> valid_enc (q_rawpath q) ->
  forall k, In k (snd (serve true true true true D8 eng (entries_of 0 cs) (hist_index cs metas ops) q)) ->
  forall s segs, nth_error (flat_routes 0 ds) (k_vid k) = Some s -> sr_segs s q = Some segs ->
    k_res k = spec_answer eng s q segs.
Proof. exact hist_lookup_answers_spec_now. Qed.
Print Assumptions C03_history_lookup_answers_as_documented_now.

(** THE STATEMENT end to end after any history *)
Theorem C03_history_selected_only_if_documented : forall ds cs metas ops eng q r caps rej calls,
  create_rules true ds = Ok cs ->
  String.eqb (q_rawpath q) "" = false -> valid_enc (q_rawpath q) ->
  serve true true true true D8 eng (entries_of 0 cs) (hist_index cs metas ops) q = (ORule r caps rej, calls) ->
  exists v s segs, nth_error (flat_routes 0 ds) v = Some s /\ sr_rule s = r /\ sr_segs s q = Some segs /\
    spec_route_ok eng (sr_def s) (rt_params (sr_route s)) q (declared_names (sr_tokens s)) segs = true /\
    rej = spec_rejected (rl_slash (sr_def s)) q /\
    (rej = false -> exists sc, spec_captures (rl_slash (sr_def s)) (declared_names (sr_tokens s)) segs = Some sc /\ caps = sc).
Proof. exact hist_selected_only_if_documented. Qed.
Print Assumptions C03_history_selected_only_if_documented.

(** non-vacuity: a history whose tree went through prefix splits and a deleteChild merge, with a
    route carrying path_params on a single and on a free wildcard (C03/ReachTheorems.v); the last two
    conjuncts: the first request satisfies the hypotheses of [C03_history_selected_only_if_documented] *)
Theorem C03_history_nonvacuous :
 (ex_oks ex_ops = Some [true; true; true] /\
  ex_paths (firstn 2 ex_ops) = Some [""; "/"; "f"; "oo"; "/"; "ba"; "r"; "z"; "/"; "wildcard"; "iles"; "/"; "rest"] /\
  ex_paths ex_ops = Some [""; "/"; "f"; "oo"; "/"; "baz"; "/"; "wildcard"; "iles"; "/"; "rest"] /\
  ex_serve ex_ops (w_req "GET" "h" "/foo/baz/1")
    = Some (ORule 1 [("x", "1")] false, [{| k_vid := 1; k_keys := ["x"]; k_vals := ["1"]; k_res := MYes |}]) /\
  ex_serve ex_ops (w_req "GET" "h" "/foo/baz/2")
    = Some (ONone, [{| k_vid := 1; k_keys := ["x"]; k_vals := ["2"]; k_res := MNo |}]) /\
  ex_serve ex_ops (w_req "GET" "h" "/files/a/b")
    = Some (ORule 1 [("rest", "a/b")] false, [{| k_vid := 2; k_keys := ["rest"]; k_vals := ["a/b"]; k_res := MYes |}]) /\
  ex_serve ex_ops (w_req "GET" "h" "/foo/bar") = Some (ONone, []) /\
  ex_serve (firstn 2 ex_ops) (w_req "GET" "h" "/foo/bar")
    = Some (ORule 0 [] false, [{| k_vid := 0; k_keys := []; k_vals := []; k_res := MYes |}])) /\
  String.eqb (q_rawpath (w_req "GET" "h" "/foo/baz/1")) "" = false /\
  valid_enc (q_rawpath (w_req "GET" "h" "/foo/baz/1")).
Proof. exact (conj hist_example hist_example_hyps). Qed.
Print Assumptions C03_history_nonvacuous.
