(** C12 — Every failure maps to the response class of its kind, never to success.
    Property theorems only; proofs are in C12/Proofs.v, C12/StackProofs.v, C12/EvalSound.v
    (and Base/ErrChain.v).  The specification is C12/Spec.v: it uses no function of the model.

    Model: [http_handle] / [grpc_handle] are the two error translators (HandleError and the
    gRPC interceptor), transcribed switch by switch; [entry_http fx proxy from_file] /
    [entry_grpc fx from_file] are the complete paths of a failure: respond configuration
    as loaded ([loaded]), the rule's error handler list with conditions and rule-level
    configuration ([run_handlers]), Finalize (incl. the proxy's own failures), service
    handler, recovery middleware / interceptor, translator; [fx] says which repairs
    (fixes/C12-F1.diff, fixes/C12-F4.diff) the tree contains.  Error values are arbitrary
    trees ([Base.ErrChain.err]).

    Specification: [demand_of sc] = the admissible kinds of the failure (+ the realm a
    challenge has to name); [seen_ok c nv hyp d s] = what the client sees is the response of
    such a kind (status or its override, Location), is no success status (under [hyp]: no
    override / redirect code involved is 1xx/2xx), carries details only when verbose, in
    a content type the Accept header admits ([nv]), well-formed, and names the realm;
    [same_reply] = "identically".  [seen_ok_w w] = the same with the clauses [w] waived.

    Findings (guards): C12-F1 [xguard_F1] (a WWW-Authenticate header is demanded), C12-F2 /
    C12-F5 [xguard_F2] / [guard_F2] = [guard_F2o_class] (an override that is no three-digit code)
    or [guard_F5_class] (a hand-built redirect error value with such a code); repaired: C12-F4
    [xguard_F4] (precondition override from a configuration file; fix: ed62adc, [fx4 = true];
    [as_is] = the tree as it is now). *)
From HV Require Import Base.Prelude Base.ErrChain C12.Model C12.Inputs C12.Spec C12.Stack C12.Proofs C12.StackProofs
  Run.Eval_C12 C12.EvalSound.
Local Open Scope Z_scope.

(** Go's errors.Is over a tree is "some leaf answers the target", errors.As finds
    the first RedirectError leaf: the chain semantics the kind table rests on *)
Theorem C12_errors_is_as_leaves : forall t e,
  is_ t e = existsb (leaf_is t) (leaves e) /\
  as_redirect e = first_some leaf_redirect (leaves e).
Proof. intros t e. split; [apply is_leaves | apply as_redirect_leaves]. Qed.
Print Assumptions C12_errors_is_as_leaves.

(** ** the two translators *)

(** the first kind in the precedence order authentication, authorization,
    communication/timeout, precondition, no rule, redirect, other that occurs
    anywhere in the error value decides; the status is 401/403/502/400/404/the
    redirect's code/500 or the override of that kind; a redirect carries its
    Location; HTTP and gRPC alike *)
Theorem C12_kind_table : forall c o e,
  guard_F2 c e = false ->
  (exists h b, http_handle c o e no_hdrs = HResp (spec_status c e) h b /\ h_location h = spec_location e) /\
  (exists d, grpc_handle c o e = Some d /\ g_status d = spec_status c e /\
             g_code d = spec_gcode (spec_class e) /\ h_location (g_hdrs d) = spec_location e).
Proof. exact kind_table. Qed.
Print Assumptions C12_kind_table.

Theorem C12_same_status : forall c o e,
  guard_F2 c e = false ->
  exists s h b d, http_handle c o e no_hdrs = HResp s h b /\ grpc_handle c o e = Some d /\
    g_status d = s /\ h_location (g_hdrs d) = h_location h.
Proof. exact same_status. Qed.
Print Assumptions C12_same_status.

(** every clause of the statement for both translators, on every input; [twaiver] waives the
    status clause inside C12-F2 / C12-F4 and nothing outside *)
Theorem C12_translators_meet_spec : forall fx file c o nv e,
  oracle_ok nv o = true ->
  seen_ok_w (twaiver fx file c e) c nv (thyp c e) (tdemand e)
            (seen_of_hresp (http_handle (loaded fx file c) o e no_hdrs)) = true /\
  seen_ok_w (twaiver fx file c e) c nv (thyp c e) (tdemand e)
            (seen_of_ghandle (grpc_handle (loaded fx file c) o e)) = true /\
  (guard_F2 (loaded fx file c) e = false ->
   same_reply (seen_of_hresp (http_handle (loaded fx file c) o e no_hdrs))
              (seen_of_ghandle (grpc_handle (loaded fx file c) o e)) = true).
Proof.
  intros. split; [apply http_translator_meets_spec; assumption|].
  split; [apply grpc_translator_meets_spec; assumption | apply translators_same].
Qed.
Print Assumptions C12_translators_meet_spec.

(** C12-F2 (open): the guard is needed — an override that is no status (here -5), no hand-built
    redirect value involved: the HTTP translator and the gRPC translator answer differently *)
Theorem C12_F2_refuted :
  exists c o e, guard_F2o_class c (spec_class e) = true /\ guard_F5_class (spec_class e) = false /\
    http_status (http_handle c o e no_hdrs) <> option_map g_status (grpc_handle c o e).
Proof. exact F2_refuted. Qed.
Print Assumptions C12_F2_refuted.

(** C12-F5 (open, latent: no heimdall code builds such a value): the same split for a redirect error
    value built by hand with a code that is no status, no override involved *)
Theorem C12_F5_refuted :
  exists c o e, guard_F5_class (spec_class e) = true /\ guard_F2o_class c (spec_class e) = false /\
    http_status (http_handle c o e no_hdrs) <> option_map g_status (grpc_handle c o e).
Proof. exact F5_refuted. Qed.
Print Assumptions C12_F5_refuted.

(** no translator ever answers a failure with a success status (1xx/2xx) or an OK
    gRPC code — provided no override and no redirect code is such a status;
    this holds inside C12-F2 as well *)
Theorem C12_never_success : forall c o e h,
  overrides_not_success c -> redirects_not_success e ->
  match http_handle c o e h with HResp s _ _ => success_like s = false | HPanic _ => True end /\
  match grpc_handle c o e with
  | Some d => success_like (g_status d) = false /\ g_code d <> GOk
  | None => True
  end.
Proof. exact never_success. Qed.
Print Assumptions C12_never_success.

Theorem C12_never_success_stack : forall c o sc,
  overrides_not_success c -> scenario_redirects_not_success sc ->
  match http_respond c o sc with
  | HFinal s _ _ => success_like s = false
  | HAbort => True
  | HPositive => False
  end /\
  match grpc_respond c o sc with
  | GDenied d => success_like (g_status d) = false /\ g_code d <> GOk
  | GStatusErr g => g <> GOk
  | GPositive => False
  end.
Proof. exact never_success_stack. Qed.
Print Assumptions C12_never_success_stack.

(** the hypotheses are needed: `authentication_error: {code: 200}` is accepted
    configuration (heimdall's own unit tests configure 100 Continue) and turns a 401
    into a 200 on both translators: "or the status configured for that kind" *)
Theorem C12_success_override_possible :
  exists c o e, http_status (http_handle c o e no_hdrs) = Some 200 /\
                option_map g_status (grpc_handle c o e) = Some 200.
Proof. exact success_override_possible. Qed.
Print Assumptions C12_success_override_possible.

(** a body (and a Content-Type) only with verbose responses, in the type the
    translator negotiated (gRPC falls back to text/html when negotiation fails) *)
Theorem C12_body_only_if_verbose : forall c o e,
  (forall s h b, http_handle c o e no_hdrs = HResp s h b ->
     (b = true -> c_verbose c = true) /\
     (forall m, h_ctype h = Some m -> c_verbose c = true /\ o_neg_http o = Some m /\ b = true)) /\
  (forall d, grpc_handle c o e = Some d ->
     (g_body d = true -> c_verbose c = true) /\
     (forall m, h_ctype (g_hdrs d) = Some m ->
        c_verbose c = true /\ (o_neg_grpc o = Some m \/ (o_neg_grpc o = None /\ m = Html)))).
Proof. exact body_only_if_verbose. Qed.
Print Assumptions C12_body_only_if_verbose.

Theorem C12_redirect_has_location : forall c o e code to,
  spec_class e = ClRedirect code to ->
  (valid_code code = true ->
     http_handle c o e no_hdrs = HResp code {| h_location := Some to; h_www := None; h_ctype := None |} false) /\
  (exists d, grpc_handle c o e = Some d /\ g_status d = code /\ g_code d = GFailedPrecondition /\
             h_location (g_hdrs d) = Some to /\ g_body d = false).
Proof. exact redirect_has_location. Qed.
Print Assumptions C12_redirect_has_location.

(** ** through the entry points *)

(** T_main: outside the guards of the open findings every answer of the decision service,
    the proxy service and the Envoy gRPC service to a failed request — an error returned by the
    executor, a failure handled by ANY list of conditional default / redirect /
    www_authenticate handlers with rule-level configuration, a panic, a failure of the proxy's
    own Finalize; configuration filled in directly or loaded from a file — satisfies every
    clause of the statement, identically on the three entry points *)
Theorem C12_entry_points_meet_spec : forall fx file c o nv sc,
  oracle_ok nv o = true ->
  xguard_F1 fx sc = false -> xguard_F2 (loaded fx file c) sc = false ->
  xguard_F4 fx file c (d_classes (demand_of sc)) = false ->
  (forall proxy, match sc with XProxy _ => proxy = true | _ => True end ->
     seen_ok c nv (hyp_never_success c sc) (demand_of sc) (seen_of_hfinal (entry_http fx proxy file c o sc)) = true) /\
  match sc with
  | XProxy _ => True
  | _ => seen_ok c nv (hyp_never_success c sc) (demand_of sc) (seen_of_gfinal (entry_grpc fx file c o sc)) = true /\
         (forall proxy, same_reply (seen_of_hfinal (entry_http fx proxy file c o sc))
                                   (seen_of_gfinal (entry_grpc fx file c o sc)) = true) /\
         entry_http fx true file c o sc = entry_http fx false file c o sc
  end.
Proof. exact entry_points_meet_spec. Qed.
Print Assumptions C12_entry_points_meet_spec.

(** the tree as it is (C12-F4 repaired): only the guards of C12-F1 and C12-F2/C12-F5
    remain ([xguard_F2] covers both: an override or a hand-built redirect code that is no status) *)
Theorem C12_entry_points_meet_spec_as_is : forall file c o nv sc,
  oracle_ok nv o = true -> xguard_F1 as_is sc = false -> xguard_F2 c sc = false ->
  (forall proxy, match sc with XProxy _ => proxy = true | _ => True end ->
     seen_ok c nv (hyp_never_success c sc) (demand_of sc) (seen_of_hfinal (entry_http as_is proxy file c o sc)) = true) /\
  match sc with
  | XProxy _ => True
  | _ => seen_ok c nv (hyp_never_success c sc) (demand_of sc) (seen_of_gfinal (entry_grpc as_is file c o sc)) = true /\
         (forall proxy, same_reply (seen_of_hfinal (entry_http as_is proxy file c o sc))
                                   (seen_of_gfinal (entry_grpc as_is file c o sc)) = true) /\
         entry_http as_is true file c o sc = entry_http as_is false file c o sc
  end.
Proof. exact entry_points_meet_spec_as_is. Qed.
Print Assumptions C12_entry_points_meet_spec_as_is.

(** ... and INSIDE the guards everything holds except the clause the finding breaks
    ([xwaiver]: C12-F1 waives only the WWW-Authenticate clause — status 401 / override, no
    success status, details only when verbose still hold; C12-F2 and C12-F4 waive only
    "the status (and Location) of its kind", and allow for a dropped connection) *)
Theorem C12_entry_points_inside_guards : forall fx file c o nv sc,
  oracle_ok nv o = true ->
  (forall proxy, match sc with XProxy _ => proxy = true | _ => True end ->
     seen_ok_w (xwaiver fx file c sc) c nv (hyp_never_success c sc) (demand_of sc)
               (seen_of_hfinal (entry_http fx proxy file c o sc)) = true) /\
  (match sc with XProxy _ => False | _ => True end ->
     seen_ok_w (xwaiver fx file c sc) c nv (hyp_never_success c sc) (demand_of sc)
               (seen_of_gfinal (entry_grpc fx file c o sc)) = true).
Proof.
  intros. split; [intros; apply http_entry_meets_spec; assumption | intro; apply grpc_entry_meets_spec; assumption].
Qed.
Print Assumptions C12_entry_points_inside_guards.

(** a rule's error handler list never makes a failure disappear, and what it leaves for the
    translator is of the kind the statement demands for the first applicable handler *)
Theorem C12_handlers_never_swallow : forall hs cause,
  exists e, final_error (run_handlers hs cause) = Some e /\
            d_classes (demand_of (XFail hs cause)) = [spec_class e].
Proof. exact handlers_never_swallow. Qed.
Print Assumptions C12_handlers_never_swallow.

(** the www_authenticate handler that decides hands exactly one challenge to the request
    context, and it names the configured realm (the rule's, else the prototype's) — where
    finding C12-F1 then loses it *)
Theorem C12_www_authenticate_challenge : forall sc realm,
  d_realm (demand_of sc) = Some realm ->
  exists v, x_challenge sc = Some v /\ x_challenges sc = [v] /\ contains realm v = true.
Proof. exact x_challenge_names. Qed.
Print Assumptions C12_www_authenticate_challenge.

(** a redirect handler that [create_redirect] (the model of newRedirectErrorHandler's validation
    `omitempty,gte=300,lte=399`, fix: 6c5864d) accepts has a code in 300..399, 302 when unset: valid, never
    a success status.  Mostly an unfolding of [create_redirect]; its tie to the code is the creation
    probe of the run (one code per case against the real constructor: accepted => valid and no success) *)
Theorem C12_redirect_handler_code_is_3xx : forall c o code to m cause,
  create_redirect code to = Some m ->
  m = MRedirect code to /\ 300 <= redirect_status code <= 399 /\
  valid_code (redirect_status code) = true /\ success_like (redirect_status code) = false /\
  (redirects_not_success cause -> scenario_redirects_not_success (ScHandled m cause)) /\
  (forall url, to = Some url ->
     http_respond c o (ScHandled m cause) =
       HFinal (redirect_status code) {| h_location := Some url; h_www := None; h_ctype := None |} false).
Proof. exact created_redirect_code. Qed.
Print Assumptions C12_redirect_handler_code_is_3xx.

(** C12-F1 (open): the guard is needed, stated with the guard of the evaluator ([xguard_F1]) and the
    specification of the main theorem ([seen_ok]) for the tree AS IT IS ([as_is]): an authorization
    failure handled by a www_authenticate handler with realm "r" — only this guard fires, and the
    answers of the decision service, the proxy service and the Envoy service do not meet the
    specification (everything but the challenge clause holds); with fixes/C12-F1.diff ([repaired]) they do *)
Theorem C12_F1_refuted :
  xguard_F1 as_is f1_sc = true /\ xguard_F2 zero_cfg f1_sc = false /\
  xguard_F4 as_is false zero_cfg (d_classes (demand_of f1_sc)) = false /\
  oracle_ok free_view any_oracle = true /\
  seen_ok zero_cfg free_view (hyp_never_success zero_cfg f1_sc) (demand_of f1_sc)
          (seen_of_hfinal (entry_http as_is false false zero_cfg any_oracle f1_sc)) = false /\
  seen_ok zero_cfg free_view (hyp_never_success zero_cfg f1_sc) (demand_of f1_sc)
          (seen_of_hfinal (entry_http as_is true false zero_cfg any_oracle f1_sc)) = false /\
  seen_ok zero_cfg free_view (hyp_never_success zero_cfg f1_sc) (demand_of f1_sc)
          (seen_of_gfinal (entry_grpc as_is false zero_cfg any_oracle f1_sc)) = false /\
  seen_ok_w (xwaiver as_is false zero_cfg f1_sc) zero_cfg free_view (hyp_never_success zero_cfg f1_sc) (demand_of f1_sc)
          (seen_of_hfinal (entry_http as_is false false zero_cfg any_oracle f1_sc)) = true /\
  xwaiver as_is false zero_cfg f1_sc = {| w_status := false; w_www := true |} /\
  seen_ok zero_cfg free_view (hyp_never_success zero_cfg f1_sc) (demand_of f1_sc)
          (seen_of_hfinal (entry_http repaired false false zero_cfg any_oracle f1_sc)) = true /\
  seen_ok zero_cfg free_view (hyp_never_success zero_cfg f1_sc) (demand_of f1_sc)
          (seen_of_gfinal (entry_grpc repaired false zero_cfg any_oracle f1_sc)) = true.
Proof. exact F1_refuted_spec. Qed.
Print Assumptions C12_F1_refuted.

Theorem C12_F1_header_never_written : forall c o sc,
  match http_respond c o sc with HFinal _ h _ => h_www h = None | _ => True end /\
  match grpc_respond c o sc with GDenied d => h_www (g_hdrs d) = None | _ => True end.
Proof. exact www_header_never_written. Qed.
Print Assumptions C12_F1_header_never_written.

(** C12-F4 (repaired by ed62adc; pinned behaviour [fx4 = false]): `precondition_error: {code: 418}`
    in a configuration file was answered 400 on all entry points; 418 when the struct is filled
    directly or with the repaired loader *)
Theorem C12_F4_pinned_refuted :
  xguard_F4 unrepaired true f4_cfg (d_classes (demand_of f4_sc)) = true /\
  xguard_F1 unrepaired f4_sc = false /\ xguard_F2 (loaded unrepaired true f4_cfg) f4_sc = false /\
  oracle_ok free_view any_oracle = true /\
  seen_ok f4_cfg free_view (hyp_never_success f4_cfg f4_sc) (demand_of f4_sc)
          (seen_of_hfinal (entry_http unrepaired false true f4_cfg any_oracle f4_sc)) = false /\
  seen_ok f4_cfg free_view (hyp_never_success f4_cfg f4_sc) (demand_of f4_sc)
          (seen_of_gfinal (entry_grpc unrepaired true f4_cfg any_oracle f4_sc)) = false /\
  seen_ok f4_cfg free_view (hyp_never_success f4_cfg f4_sc) (demand_of f4_sc)
          (seen_of_hfinal (entry_http unrepaired false false f4_cfg any_oracle f4_sc)) = true /\
  seen_ok f4_cfg free_view (hyp_never_success f4_cfg f4_sc) (demand_of f4_sc)
          (seen_of_hfinal (entry_http {| fx1 := false; fx4 := true |} false true f4_cfg any_oracle f4_sc)) = true.
Proof. exact F4_pinned_refuted. Qed.
Print Assumptions C12_F4_pinned_refuted.

(** the entry-point level model extends the scenarios of C12/Model.v (which C01 builds on) *)
Theorem C12_stack_extends_model : forall c o sc,
  x_http_respond false c o (x_of sc) = http_respond c o sc /\
  x_http_respond true c o (x_of sc) = http_respond c o sc /\
  x_grpc_respond c o (x_of sc) = grpc_respond c o sc.
Proof. exact stack_extends_model. Qed.
Print Assumptions C12_stack_extends_model.

(** ** the evaluator of the correspondence run is sound for these theorems: whenever the
    observations correspond to the model and the negotiation oracle is sane, the property
    predicate holds on the OBSERVATIONS (all of it when no guard fires) *)
Theorem C12_eval_sound : forall fx k,
  corr fx k = true -> oracle_ok (k_nv k) (k_or k) = true ->
  prop_w (waived fx k) k = true /\ (v_guards (check fx k) = [] -> prop k = true).
Proof.
  intros fx k C OK. split; [apply eval_sound; assumption | apply eval_sound_unguarded; assumption].
Qed.
Print Assumptions C12_eval_sound.

(** non-vacuity: a nested chain mixing internal, foreign, authorization and
    redirect errors under an authorization override of 470 ... *)
Example C12_nonvacuous :
  let c := {| c_verbose := true; ov_authn := 0; ov_authz := 470; ov_comm := 0; ov_precond := 0;
              ov_norule := 0; ov_internal := 0 |} in
  let e := Chain [Sentinel KInternal; WrapW (JoinW [Foreign 1%nat; Chain [Sentinel KAuthorization] true]);
                  Redirect 302 "http://x"] false in
  guard_F2 c e = false /\ overrides_not_success c /\ redirects_not_success e /\
  spec_class e = ClAuthz /\
  http_handle c any_oracle e no_hdrs =
    HResp 470 {| h_location := None; h_www := None; h_ctype := Some Html |} true.
Proof. exact nonvacuous. Qed.
Print Assumptions C12_nonvacuous.

(** ... and a rule whose first handler does not apply and whose second one redirects, configuration from
    a file, an Accept header admitting text/html only and an oracle negotiating it: ALL hypotheses of
    C12_entry_points_meet_spec_as_is hold at once (with [any_oracle], which negotiates json for gRPC,
    the oracle hypothesis would fail).  That C12_entry_points_inside_guards is not vacuous either is
    shown by the witness of C12_F1_refuted ([xguard_F1 as_is f1_sc = true], waiver = the challenge clause) *)
Example C12_nonvacuous_entry :
  let c := {| c_verbose := true; ov_authn := 0; ov_authz := 470; ov_comm := 0; ov_precond := 0;
              ov_norule := 0; ov_internal := 503 |} in
  let cause := Chain [Sentinel KInternal; WrapW (JoinW [Foreign 5%nat; Chain [Sentinel KAuthorization] true])] false in
  let sc := XFail [ {| x_applies := false; x_mech := MWWW "r"; x_conf := WcNone |};
                    {| x_applies := true; x_mech := MRedirect 307 (Some "http://idp/login"%string); x_conf := WcNone |} ] cause in
  let nv := {| nv_free := false; nv_allowed := [Html]; nv_other := [] |} in
  oracle_ok nv html_oracle = true /\ oracle_ok nv any_oracle = false /\
  xguard_F1 as_is sc = false /\ xguard_F2 c sc = false /\
  demand_of sc = {| d_classes := [ClRedirect 307 "http://idp/login"]; d_realm := None; d_hard := false |} /\
  entry_http as_is true true c html_oracle sc =
    HFinal 307 {| h_location := Some "http://idp/login"%string; h_www := None; h_ctype := None |} false.
Proof. exact nonvacuous_entry. Qed.
Print Assumptions C12_nonvacuous_entry.
