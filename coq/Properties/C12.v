(** C12 — Every failure maps to the response class of its kind, never to success.
    Property theorems only; proofs are in C12/Proofs.v (and Base/ErrChain.v).

    [http_handle] / [grpc_handle] are the two error translators (HandleError and
    the gRPC interceptor), transcribed switch by switch; [http_respond] /
    [grpc_respond] are the complete paths of a failure through the decision / proxy
    service (recovery middleware, service handler, Finalize) and the Envoy gRPC
    service.  Error values are arbitrary trees ([Base.ErrChain.err]): sentinels,
    redirect errors, CEL evaluation errors, foreign leaves, fmt %w wrappers,
    errors.Join, heimdall error chains, nested without bound.

    Findings: C12-F1 (guard [guard_F1]: handled by a www_authenticate handler),
    C12-F2 (guard [guard_F2]: the status to send is not a three-digit code). *)
From HV Require Import Base.Prelude Base.ErrChain C12.Model C12.Proofs.
Local Open Scope Z_scope.

(** Go's errors.Is over a tree is "some leaf answers the target", errors.As finds
    the first RedirectError leaf: the chain semantics the kind table rests on *)
Theorem C12_errors_is_as_leaves : forall t e,
  is_ t e = existsb (leaf_is t) (leaves e) /\
  as_redirect e = first_some leaf_redirect (leaves e).
Proof. intros t e. split; [apply is_leaves | apply as_redirect_leaves]. Qed.
Print Assumptions C12_errors_is_as_leaves.

(** the first kind in the precedence order authentication, authorization,
    communication/timeout, precondition, no rule, redirect, other that occurs
    anywhere in the error value decides; the status is 401/403/502/400/404/the
    redirect's code/500 or the override of that kind; a redirect carries its
    Location; HTTP and gRPC alike, the gRPC code being the one of the kind *)
Theorem C12_kind_table : forall c o e,
  guard_F2 c e = false ->
  (exists h b, http_handle c o e no_hdrs = HResp (spec_status c e) h b /\ h_location h = spec_location e) /\
  (exists d, grpc_handle c o e = Some d /\ g_status d = spec_status c e /\
             g_code d = spec_gcode (spec_class e) /\ h_location (g_hdrs d) = spec_location e).
Proof. exact kind_table. Qed.
Print Assumptions C12_kind_table.

Theorem C12_same_status : forall c o e,
  guard_F2 c e = false ->
  exists s h b d, http_handle c o e no_hdrs = HResp s h b /\ grpc_handle c o e = Some d /\
    g_status d = s /\ h_location (g_hdrs d) = h_location h.
Proof. exact same_status. Qed.
Print Assumptions C12_same_status.

Theorem C12_F2_refuted :
  exists c o e, guard_F2 c e = true /\
    http_status (http_handle c o e no_hdrs) <> option_map g_status (grpc_handle c o e).
Proof. exact F2_refuted. Qed.
Print Assumptions C12_F2_refuted.

(** no translator ever answers a failure with a success status (1xx/2xx) or an OK
    gRPC code — provided no override and no redirect code is such a status *)
Theorem C12_never_success : forall c o e h,
  overrides_not_success c -> redirects_not_success e ->
  match http_handle c o e h with HResp s _ _ => success_like s = false | HPanic _ => True end /\
  match grpc_handle c o e with
  | Some d => success_like (g_status d) = false /\ g_code d <> GOk
  | None => True
  end.
Proof. exact never_success. Qed.
Print Assumptions C12_never_success.

(** ... and the same through the entry points, for returned errors, errors handled
    by any error handler mechanism, and panics: never a positive answer *)
Theorem C12_never_success_stack : forall c o sc,
  overrides_not_success c -> scenario_redirects_not_success sc ->
  match http_respond c o sc with
  | HFinal s _ _ => success_like s = false
  | HAbort => True
  | HPositive => False
  end /\
  match grpc_respond c o sc with
  | GDenied d => success_like (g_status d) = false /\ g_code d <> GOk
  | GStatusErr g => g <> GOk
  | GPositive => False
  end.
Proof. exact never_success_stack. Qed.
Print Assumptions C12_never_success_stack.

(** the hypotheses are needed: `authentication_error: {code: 200}` is accepted
    configuration and turns a 401 into a 200 on both translators *)
Theorem C12_success_override_possible :
  exists c o e, http_status (http_handle c o e no_hdrs) = Some 200 /\
                option_map g_status (grpc_handle c o e) = Some 200.
Proof. exact success_override_possible. Qed.
Print Assumptions C12_success_override_possible.

(** a body (and a Content-Type) only with verbose responses, in the negotiated
    content type (gRPC falls back to text/html when negotiation fails) *)
Theorem C12_body_only_if_verbose : forall c o e,
  (forall s h b, http_handle c o e no_hdrs = HResp s h b ->
     (b = true -> c_verbose c = true) /\
     (forall m, h_ctype h = Some m -> c_verbose c = true /\ o_neg_http o = Some m /\ b = true)) /\
  (forall d, grpc_handle c o e = Some d ->
     (g_body d = true -> c_verbose c = true) /\
     (forall m, h_ctype (g_hdrs d) = Some m ->
        c_verbose c = true /\ (o_neg_grpc o = Some m \/ (o_neg_grpc o = None /\ m = Html)))).
Proof. exact body_only_if_verbose. Qed.
Print Assumptions C12_body_only_if_verbose.

Theorem C12_redirect_has_location : forall c o e code to,
  spec_class e = ClRedirect code to ->
  (valid_code code = true ->
     http_handle c o e no_hdrs = HResp code {| h_location := Some to; h_www := None; h_ctype := None |} false) /\
  (exists d, grpc_handle c o e = Some d /\ g_status d = code /\ g_code d = GFailedPrecondition /\
             h_location (g_hdrs d) = Some to /\ g_body d = false).
Proof. exact redirect_has_location. Qed.
Print Assumptions C12_redirect_has_location.

(** a failure handled by a redirect error handler: the handler's code (302 when
    unset) and the rendered URL as Location, on every entry point *)
Theorem C12_redirect_handler_response : forall c o code url cause,
  (valid_code (redirect_status code) = true ->
     http_respond c o (ScHandled (MRedirect code (Some url)) cause) =
       HFinal (redirect_status code) {| h_location := Some url; h_www := None; h_ctype := None |} false) /\
  grpc_respond c o (ScHandled (MRedirect code (Some url)) cause) =
    GDenied {| g_code := GFailedPrecondition; g_status := redirect_status code;
               g_hdrs := {| h_location := Some url; h_www := None; h_ctype := None |}; g_body := false |}.
Proof. exact redirect_handler_response. Qed.
Print Assumptions C12_redirect_handler_response.

(** a redirect handler created by the loader (any configuration source) has a code
    in 300..399, 302 when unset: valid, never a success status; its answer is
    that code with the rendered URL as Location.  Codes such as 200, 5, -1, 1000
    cannot be configured any more (fix: 6c5864d) *)
Theorem C12_redirect_handler_code_is_3xx : forall c o code to m cause,
  create_redirect code to = Some m ->
  m = MRedirect code to /\ 300 <= redirect_status code <= 399 /\
  valid_code (redirect_status code) = true /\ success_like (redirect_status code) = false /\
  (redirects_not_success cause -> scenario_redirects_not_success (ScHandled m cause)) /\
  (forall url, to = Some url ->
     http_respond c o (ScHandled m cause) =
       HFinal (redirect_status code) {| h_location := Some url; h_www := None; h_ctype := None |} false).
Proof. exact created_redirect_code. Qed.
Print Assumptions C12_redirect_handler_code_is_3xx.

Theorem C12_success_redirect_not_creatable : forall to,
  create_redirect 200 to = None /\ create_redirect 5 to = None /\ create_redirect (-1) to = None /\
  create_redirect 1000 to = None /\ create_redirect 299 to = None /\ create_redirect 400 to = None /\
  create_redirect 300 to = Some (MRedirect 300 to) /\ create_redirect 399 to = Some (MRedirect 399 to) /\
  create_redirect 0 to = Some (MRedirect 0 to).
Proof. exact success_redirect_not_creatable. Qed.
Print Assumptions C12_success_redirect_not_creatable.

(** a failure handled by a www_authenticate handler gets the authentication status ... *)
Theorem C12_www_authenticate_status : forall c o realm cause,
  (valid_code (http_code (ov_authn c) 401) = true ->
     exists h b, http_respond c o (ScHandled (MWWW realm) cause) = HFinal (http_code (ov_authn c) 401) h b) /\
  exists d, grpc_respond c o (ScHandled (MWWW realm) cause) = GDenied d /\
            g_code d = GUnauthenticated /\ g_status d = grpc_code (ov_authn c) 401.
Proof. exact www_authenticate_status. Qed.
Print Assumptions C12_www_authenticate_status.

(** the www_authenticate handler itself produces the challenge naming the
    configured realm and hands it to the request context (where finding C12-F1
    loses it) *)
Theorem C12_www_authenticate_challenge : forall m cause,
  hd_upstream (mech_exec m cause) =
  match m with
  | MWWW realm => [("WWW-Authenticate"%string, ("Basic realm=" ++ effective_realm realm)%string)]
  | _ => []
  end.
Proof. exact www_challenge_recorded. Qed.
Print Assumptions C12_www_authenticate_challenge.

(** ... every handled failure carries the headers the statement demands of its
    handler (Location / WWW-Authenticate naming the realm) outside finding C12-F1 ... *)
Theorem C12_www_authenticate_has_header : forall c o m cause,
  guard_F1 m = false ->
  (forall s h b, valid_code (match m with MRedirect code _ => redirect_status code | _ => 100 end) = true ->
     http_respond c o (ScHandled m cause) = HFinal s h b ->
     match m with MRedirect _ (Some _) => demanded_headers m h | _ => True end) /\
  (forall d, grpc_respond c o (ScHandled m cause) = GDenied d -> demanded_headers m (g_hdrs d)).
Proof. exact handler_headers. Qed.
Print Assumptions C12_www_authenticate_has_header.

(** ... and inside it the header is missing: in fact no response of any entry
    point ever carries a WWW-Authenticate header *)
Theorem C12_F1_refuted :
  exists c o m cause, guard_F1 m = true /\
    (forall s h b, http_respond c o (ScHandled m cause) = HFinal s h b -> ~ demanded_headers m h) /\
    (forall d, grpc_respond c o (ScHandled m cause) = GDenied d -> ~ demanded_headers m (g_hdrs d)) /\
    (exists s h b, http_respond c o (ScHandled m cause) = HFinal s h b) /\
    (exists d, grpc_respond c o (ScHandled m cause) = GDenied d).
Proof. exact F1_refuted. Qed.
Print Assumptions C12_F1_refuted.

Theorem C12_F1_header_never_written : forall c o sc,
  match http_respond c o sc with HFinal _ h _ => h_www h = None | _ => True end /\
  match grpc_respond c o sc with GDenied d => h_www (g_hdrs d) = None | _ => True end.
Proof. exact www_header_never_written. Qed.
Print Assumptions C12_F1_header_never_written.

(** with the candidate repair of C12-F1 (fixes/C12-F1.diff; model variant
    [fixed = true], which `bin/check C12` runs against once the repair is applied)
    the header theorem holds without guard, and nothing but that header changes *)
Theorem C12_www_authenticate_has_header_fixed : forall c o realm cause,
  (forall s h b, http_respond_f true c o (ScHandled (MWWW realm) cause) = HFinal s h b ->
     h_www h = Some ("Basic realm=" ++ effective_realm realm)%string) /\
  (forall d, grpc_respond_f true c o (ScHandled (MWWW realm) cause) = GDenied d ->
     h_www (g_hdrs d) = Some ("Basic realm=" ++ effective_realm realm)%string) /\
  (exists d, grpc_respond_f true c o (ScHandled (MWWW realm) cause) = GDenied d /\
             g_code d = GUnauthenticated /\ g_status d = grpc_code (ov_authn c) 401) /\
  (valid_code (http_code (ov_authn c) 401) = true ->
     exists h b, http_respond_f true c o (ScHandled (MWWW realm) cause) = HFinal (http_code (ov_authn c) 401) h b).
Proof. exact www_authenticate_has_header_fixed. Qed.
Print Assumptions C12_www_authenticate_has_header_fixed.

Theorem C12_fix_only_adds_challenge : forall c o sc,
  (match http_respond c o sc, http_respond_f true c o sc with
   | HFinal s h b, HFinal s' h' b' =>
       s = s' /\ b = b' /\ h_location h = h_location h' /\ h_ctype h = h_ctype h' /\
       (h_www h' = h_www h \/ h_www h' = challenge_of sc)
   | HAbort, HAbort | HPositive, HPositive => True
   | _, _ => False
   end) /\
  (match sc with ScHandled (MWWW _) _ => True | _ => http_respond_f true c o sc = http_respond c o sc /\
                                                      grpc_respond_f true c o sc = grpc_respond c o sc end) /\
  http_respond_f false c o sc = http_respond c o sc /\ grpc_respond_f false c o sc = grpc_respond c o sc.
Proof. exact fixed_only_adds_challenge. Qed.
Print Assumptions C12_fix_only_adds_challenge.

(** a panic: internal-error class over HTTP, a gRPC Internal status under Envoy *)
Theorem C12_panic_response : forall c o,
  (valid_code (http_code (ov_internal c) 500) = true ->
     exists h b, http_respond c o (ScPanic None) = HFinal (http_code (ov_internal c) 500) h b) /\
  grpc_respond c o (ScPanic None) = GStatusErr GInternal.
Proof. exact panic_response. Qed.
Print Assumptions C12_panic_response.

(** non-vacuity: a nested chain mixing internal, foreign, authorization and
    redirect errors under an authorization override of 470 *)
Example C12_nonvacuous :
  let c := {| c_verbose := true; ov_authn := 0; ov_authz := 470; ov_comm := 0; ov_precond := 0;
              ov_norule := 0; ov_internal := 0 |} in
  let e := Chain [Sentinel KInternal; WrapW (JoinW [Foreign 1%nat; Chain [Sentinel KAuthorization] true]);
                  Redirect 302 "http://x"] false in
  guard_F2 c e = false /\ overrides_not_success c /\ redirects_not_success e /\
  spec_class e = ClAuthz /\
  http_handle c any_oracle e no_hdrs =
    HResp 470 {| h_location := None; h_www := None; h_ctype := Some Html |} true.
Proof. exact nonvacuous. Qed.
