(** C15 — Proxy mode forwards exactly the rewritten request with pipeline headers
    winning.  Property theorems only; proofs are in C15/Proofs.v, MainProof.v,
    QueryLemmas.v; the model in C15/Model.v + C15/Rewrite.v; the vocabulary of the
    statements in C15/Spec.v.

    [serve fx q pl r] is the whole way of one request: bytes the client sends
    ([q]), what the pipeline handed over ([pl]), the rule's forward_to and
    allow_encoded_slashes ([r]) -> what the upstream receives.  [execute] is
    ruleImpl.Execute + Backend.CreateURL on the request view [u];
    [rewrite_request] is what heimdall hands to its HTTP client.  [fx] says which
    repairs the modelled tree contains ([repaired] = the tree before 5270ed2 /
    f228b67, i.e. with C15-F1 and -F4 repaired; [repaired2] = /repo as it is, also
    C15-F6 (5270ed2) and C15-F7 (f228b67) repaired; [current] = before 41fd1db).

    Clauses that are definitions of the model rather than theorems (the body is
    passed through, the method is the view's, scheme / Host line / request line
    are assembled as Rewrite.v says) are not listed here; they are covered by
    [C15_spec_holds] against the independent predicate [spec_ok] and by the
    correspondence streams. *)
From HV Require Import Base.Prelude Base.GoUrl C15.UrlLemmas C15.QueryLemmas C15.Model C15.Spec C15.Proofs C15.MainProof.

Local Open Scope string_scope.

(** the view heimdall builds of a request is a valid encoded path with its decoding *)
Theorem C15_view_wellformed : forall q u,
  oracle_ok q = true -> view_url q = Some u ->
  u_rawpath u <> "" /\ valid_encoded (u_rawpath u) = true /\ unescape (u_rawpath u) = Some (u_path u).
Proof. exact view_url_wf. Qed.
Print Assumptions C15_view_wellformed.

(** path: strip prefix then add prefix, every other byte — in particular every
    percent-escape — as it was (`off`, `no_decode`; for `on` see below and C15-F3) *)
Theorem C15_wire_path_exact : forall fx r u t,
  view_wf u -> r_setting r <> On ->
  valid_encoded (cfg_add r) = true -> wellformed (cfg_add r) = true ->
  execute fx r u = Some t ->
  wire_path t = cfg_add r ++ strip_prefix (cfg_strip r) (u_rawpath u).
Proof. exact wire_path_exact_bytes. Qed.
Print Assumptions C15_wire_path_exact.

(** `on`: the encoded slashes are decoded and nothing else changes, provided the
    path has no spot that net/url would spell differently (C15-F3 otherwise) *)
Theorem C15_wire_path_on : forall fx r u t,
  view_wf u -> r_setting r = On -> u_path u <> "*" ->
  renorm_sensitive (u_rawpath u) = false -> renorm_sensitive (cfg_add r) = false ->
  valid_encoded (cfg_add r) = true -> wellformed (cfg_add r) = true ->
  execute fx r u = Some t ->
  wire_path t = cfg_add r ++ strip_prefix (cfg_strip r) (decode_slashes (u_rawpath u)).
Proof. exact wire_path_on_bytes. Qed.
Print Assumptions C15_wire_path_on.

(** no double encoding — also INSIDE the guards of C15-F3 and C15-F5: for every
    setting and every configuration whose transformed path is well-formed, what
    the upstream decodes is what the transformed path decodes to *)
Theorem C15_decoded_path : forall f b u,
  match b_rw b with
  | Some rw =>
    let raw' := rw_add rw ++ strip_prefix (rw_cut rw) (escaped_path (u_path u) (u_rawpath u)) in
    wellformed raw' = true -> unescape (wire_path (create_url_q f b u)) = unescape raw'
  | None => unescape (wire_path (create_url_q f b u)) = Some (u_path u)
  end.
Proof. exact decoded_path_preserved. Qed.
Print Assumptions C15_decoded_path.

(** bytes in, bytes out: without a trusted X-Forwarded-Uri, under `off` /
    `no_decode`, a valid encoded request path reaches the upstream as
    add_path_prefix ++ (path minus strip_path_prefix), byte for byte *)
Theorem C15_request_path_end_to_end : forall fx q pl r tls m uri host hs body,
  serve fx q pl r = Forwarded tls m uri host hs body ->
  oracle_ok q = true -> valid_encoded (q_raw q) = true ->
  h_get "X-Forwarded-Uri" (in_headers q) = "" ->
  r_setting r <> On -> guard_F5 r = false ->
  fst (cut_on "?" uri) =
  (let p := cfg_add r ++ strip_prefix (cfg_strip r) (q_raw q) in if is_empty p then "/" else p).
Proof. exact request_path_end_to_end. Qed.
Print Assumptions C15_request_path_end_to_end.

(** removed query parameters, key by key: for EVERY query (parsable or not) and
    every key, a removed key is gone and every other key keeps its values in
    order — for a tree with the repair of C15-F1 or of C15-F6; also INSIDE the guard of C15-F6 *)
Theorem C15_query_only_removed : forall m names q k,
  qf1 m = true \/ qf6 m = true ->
  names <> [] -> q <> EmptyString ->
  values_get k (fst (parse_query (remove_from_q m names q))) =
  if mem_name k names then [] else values_get k (fst (parse_query q)).
Proof. exact remove_from_spec. Qed.
Print Assumptions C15_query_only_removed.

(** before 41fd1db the same held only for queries that parse (C15-F1) *)
Theorem C15_query_only_removed_pinned : forall names q k,
  names <> [] -> q <> EmptyString -> snd (parse_query q) = false ->
  values_get k (fst (parse_query (remove_from_q {| qf1 := false; qf6 := false |} names q))) =
  if mem_name k names then [] else values_get k (fst (parse_query q)).
Proof. exact remove_from_spec_pinned. Qed.
Print Assumptions C15_query_only_removed_pinned.

(** "query changed ONLY by the removed parameters", byte for byte: the settings
    naming a parameter to remove are gone, every other setting is there as it came,
    in the original order — since 5270ed2 always, before outside C15-F6 *)
Theorem C15_query_kept_bytes : forall m names q,
  qf1 m = true -> (qf6 m = true \/
    (negb (is_nil names) && negb (is_empty q) && negb (snd (parse_query q)) &&
     negb (String.eqb (values_encode (del_all names (fst (parse_query q)))) (kept_settings names q))) = false) ->
  query_clause names q (remove_from_q m names q) = true.
Proof. exact query_clause_holds. Qed.
Print Assumptions C15_query_kept_bytes.

(** ParseQuery (Values.Encode m) gives back m, key by key, without error *)
Theorem C15_parse_encode_roundtrip : forall m, NoDup (map fst m) ->
  snd (parse_query (values_encode m)) = false /\
  forall k, values_get k (fst (parse_query (values_encode m))) = values_get k m.
Proof. exact parse_encode. Qed.
Print Assumptions C15_parse_encode_roundtrip.

(** every field the upstream sees is, name by name, [expected_values] (Spec.v):
    what heimdall hands over plus two habits of Go's HTTP client *)
Theorem C15_headers_name_by_name : forall fx q pl r tls m uri host hs body k,
  serve fx q pl r = Forwarded tls m uri host hs body -> k <> "Host" ->
  h_values k hs = expected_values (fx_c13f3 fx) (fx_f4 fx) (fx_f7 fx) q pl m k.
Proof. exact serve_headers. Qed.
Print Assumptions C15_headers_name_by_name.

(** the values the pipeline produced under a name spelling [k] in any casing —
    empty values included — replace whatever the client sent under a name spelling
    [k] in any casing: heimdall hands its HTTP client exactly these.  In the
    repaired tree ([fx_f4 fx = true]) for every name, before that for every name
    but the forwarding headers (C15-F4) *)
Theorem C15_pipeline_header_wins : forall fx q pl th k,
  let vs := pipeline_values (fx_c13f3 fx) (p_headers pl) k in
  vs <> [] -> k <> "Host" -> (k = "Cookie" -> p_cookies pl = []) ->
  fx_f4 fx = true \/ forwarding_value (fx_f7 fx) q k = None ->
  h_values k (snd (rewrite_request fx q pl th)) = vs.
Proof. exact pipeline_header_wins. Qed.
Print Assumptions C15_pipeline_header_wins.

(** ... and the upstream sees exactly these *)
Theorem C15_pipeline_header_on_the_wire : forall fx q pl r tls m uri host hs body k,
  serve fx q pl r = Forwarded tls m uri host hs body ->
  let vs := pipeline_values (fx_c13f3 fx) (p_headers pl) k in
  vs <> [] -> k <> "Host" -> k <> "User-Agent" -> k <> "Accept-Encoding" -> (k = "Cookie" -> p_cookies pl = []) ->
  fx_f4 fx = true \/ forwarding_value (fx_f7 fx) q k = None ->
  h_values k hs = vs.
Proof. exact pipeline_header_on_the_wire. Qed.
Print Assumptions C15_pipeline_header_on_the_wire.

Theorem C15_pipeline_host_wins : forall fx q pl r tls m uri host hs body v,
  serve fx q pl r = Forwarded tls m uri host hs body ->
  pipeline_value (p_headers pl) "Host" = Some v -> v <> "" -> host = v.
Proof. exact pipeline_host_wins. Qed.
Print Assumptions C15_pipeline_host_wins.

Theorem C15_no_forwarded_passthrough : forall fx q pl r tls m uri host hs body k,
  serve fx q pl r = Forwarded tls m uri host hs body ->
  never_passed k = true -> pipeline_value (p_headers pl) k = None ->
  h_values k hs = [].
Proof. exact no_forwarded_passthrough. Qed.
Print Assumptions C15_no_forwarded_passthrough.

(** whichever of X-Forwarded-For / Forwarded carries this request's forwarding
    information is the received chain ([chain]: all field lines since f228b67,
    the first line before) extended by the peer; the
    connection's own scheme (TLS or not) is what `proto=` says *)
Theorem C15_forwarded_extended_by_peer : forall fx q pl r tls m uri host hs body,
  serve fx q pl r = Forwarded tls m uri host hs body ->
  let hin := in_headers q in
  let al := fx_f7 fx in
  let k := if forwarding_active al hin then "X-Forwarded-For" else "Forwarded" in
  fx_f4 fx = false \/ pipeline_values (fx_c13f3 fx) (p_headers pl) k = [] ->
  if forwarding_active al hin
  then h_values "X-Forwarded-For" hs = [append_peer (chain al "X-Forwarded-For" hin) (q_peer q)]
  else h_values "Forwarded" hs =
       [append_peer (chain al "Forwarded" hin) ("for=" ++ q_peer q ++ ";host=" ++ q_host q ++ ";proto=" ++ conn_proto q)].
Proof. exact forwarded_extended_by_peer. Qed.
Print Assumptions C15_forwarded_extended_by_peer.

(** field names in any casing: spellings that differ only in ASCII case name the same header *)
Theorem C15_header_names_any_casing : forall n n',
  all_chars is_tchar n = true -> fold_eq n n' = true -> canon_key n = canon_key n'.
Proof. exact canon_key_any_casing. Qed.
Print Assumptions C15_header_names_any_casing.

(** THE WHOLE STATEMENT: for a tree with the repairs of C08-F2, C13-F3, C15-F1,
    C15-F4 and — as in /repo — those of C15-F6 / -F7 (which make the two
    disjunctive hypotheses trivially true; see C15_spec_holds_repo), every request (any bytes; [oracle_ok]: not
    C15-F9, a trusted X-Forwarded-Uri that is no valid encoded path), every pipeline
    output and every rule / rewrite configuration on which none of the open
    findings shows: what is forwarded (or that nothing is) satisfies every
    sentence of the property ([spec_ok], C15/Spec.v — a predicate on the
    observation that does not mention the model) *)
Theorem C15_spec_holds : forall fx q pl r,
  fx_c08f2 fx = true -> fx_c13f3 fx = true -> fx_f1 fx = true -> fx_f4 fx = true ->
  oracle_ok q = true ->
  guard_F2 q = false -> guard_F3 q r = false -> guard_F5 r = false ->
  fx_f6 fx = true \/ guard_F6 q r = false ->
  fx_f7 fx = true \/ guard_F7 q = false ->
  guard_F8 pl r = false ->
  spec_ok q pl r (serve fx q pl r) = true.
Proof. exact spec_holds. Qed.
Print Assumptions C15_spec_holds.

(** ... and read for /repo as it is: no hypothesis about C15-F6 / -F7 is left *)
Theorem C15_spec_holds_repo : forall q pl r,
  oracle_ok q = true ->
  guard_F2 q = false -> guard_F3 q r = false -> guard_F5 r = false -> guard_F8 pl r = false ->
  spec_ok q pl r (serve repaired2 q pl r) = true.
Proof. exact spec_holds_repaired2. Qed.
Print Assumptions C15_spec_holds_repo.

(** sequences: every request of every sequence served by one rule instance,
    whatever came before it, is forwarded as the statement says.  (The model is
    stateless by construction — [serve_all] is a map; that the implementation
    keeps no state between requests is checked by the session streams.) *)
Theorem C15_sequence_spec_holds : forall fx r reqs n q pl,
  fx_c08f2 fx = true -> fx_c13f3 fx = true -> fx_f1 fx = true -> fx_f4 fx = true ->
  nth_error reqs n = Some (q, pl) ->
  oracle_ok q = true ->
  guard_F2 q = false -> guard_F3 q r = false -> guard_F5 r = false ->
  fx_f6 fx = true \/ guard_F6 q r = false ->
  fx_f7 fx = true \/ guard_F7 q = false ->
  guard_F8 pl r = false ->
  exists o, nth_error (serve_all fx r reqs) n = Some o /\ spec_ok q pl r o = true.
Proof. exact sequence_spec_holds. Qed.
Print Assumptions C15_sequence_spec_holds.

(** the repaired findings: the behaviour before the named commit and the same input after the repair
    (C15-F1 41fd1db, C15-F4 35453b2, C15-F6 5270ed2, C15-F7 f228b67) *)
Theorem C15_F1_pinned_refuted : exists q pl r,
  guard_F1 q r = true /\ spec_ok q pl r (serve current q pl r) = false /\
  forwarded_uri (serve current q pl r) = "/x?a=1&b=%zz" /\
  spec_ok q pl r (serve repaired q pl r) = true /\ forwarded_uri (serve repaired q pl r) = "/x?b=%zz".
Proof. exact F1_pinned_refuted. Qed.
Print Assumptions C15_F1_pinned_refuted.

Theorem C15_F4_pinned_refuted : exists q pl r,
  guard_F4 q pl = true /\ spec_ok q pl r (serve current q pl r) = false /\
  forwarded_field "Forwarded" (serve current q pl r) = ["for=127.0.0.2;host=h.example.com;proto=http"] /\
  spec_ok q pl r (serve repaired q pl r) = true /\ forwarded_field "Forwarded" (serve repaired q pl r) = ["v1"].
Proof. exact F4_pinned_refuted. Qed.
Print Assumptions C15_F4_pinned_refuted.

Theorem C15_F6_pinned_refuted : exists q pl r,
  guard_F6 q r = true /\ spec_ok q pl r (serve repaired q pl r) = false /\
  forwarded_uri (serve repaired q pl r) = "/x?a=~&b=1" /\
  spec_ok q pl r (serve repaired2 q pl r) = true /\ forwarded_uri (serve repaired2 q pl r) = "/x?b=1&a=%7E".
Proof. exact F6_pinned_refuted. Qed.
Print Assumptions C15_F6_pinned_refuted.

Theorem C15_F7_pinned_refuted : exists q pl r,
  guard_F7 q = true /\ spec_ok q pl r (serve repaired q pl r) = false /\
  forwarded_field "X-Forwarded-For" (serve repaired q pl r) = ["10.0.0.1, 127.0.0.2"] /\
  spec_ok q pl r (serve repaired2 q pl r) = true /\
  forwarded_field "X-Forwarded-For" (serve repaired2 q pl r) = ["10.0.0.1, 10.0.0.2, 127.0.0.2"].
Proof. exact F7_pinned_refuted. Qed.
Print Assumptions C15_F7_pinned_refuted.

(** the open findings, each with its witness *)
Theorem C15_F2_refuted : exists q pl r,
  guard_F2 q = true /\ spec_ok q pl r (serve repaired2 q pl r) = false /\
  q_method q = "PROPFIND" /\ forwarded_method (serve repaired2 q pl r) = "GET".
Proof. exact F2_refuted. Qed.
Print Assumptions C15_F2_refuted.

Theorem C15_F3_refuted : exists q pl r,
  guard_F3 q r = true /\ spec_ok q pl r (serve repaired2 q pl r) = false /\
  forwarded_uri (serve repaired2 q pl r) = "/0%20/;users".
Proof. exact F3_refuted. Qed.
Print Assumptions C15_F3_refuted.

Theorem C15_F5_refuted :
  (exists q pl r, guard_F5 r = true /\ spec_ok q pl r (serve repaired2 q pl r) = false /\
                  forwarded_uri (serve repaired2 q pl r) = "/a%20b/x;y") /\
  (exists q pl r, guard_F5 r = true /\ spec_ok q pl r (serve repaired2 q pl r) = false /\
                  forwarded_uri (serve repaired2 q pl r) = "/").
Proof. exact F5_refuted. Qed.
Print Assumptions C15_F5_refuted.

Theorem C15_F9_refuted : exists q pl r,
  guard_F9 q = true /\ spec_ok q pl r (serve repaired2 q pl r) = false /\
  option_map u_rawpath (view_url q) = Some "/%zz" /\ forwarded_uri (serve repaired2 q pl r) = "/".
Proof. exact F9_refuted. Qed.
Print Assumptions C15_F9_refuted.

(** C15-F8 is outside the model (the OpenTelemetry transport wrapper is not modelled): this
    theorem says nothing about model or code, only that [spec_ok] rejects the observation made on
    the assembled application with tracing enabled (e2e stream, rule r0, on every run: evidence
    known_findings_observed C15-F8) *)
Theorem C15_F8_observed_refuted : exists q pl r o,
  guard_F8 pl r = true /\ spec_ok q pl r o = false /\
  line_values "Traceparent" (p_headers pl) = ["from-pipeline"] /\
  forwarded_field "Traceparent" o = ["00-0af7651916cd43dd8448eb211c80319c-d2ed1e541ae0a01b-01"].
Proof. exact F8_observed_refuted. Qed.
Print Assumptions C15_F8_observed_refuted.

(** the hypotheses of C15_spec_holds / C15_spec_holds_repo are satisfiable by a request that
    exercises every sentence (untrusted peer, TLS, colliding and empty pipeline headers, cookies) ... *)
Theorem C15_nonvacuous :
  oracle_ok nv_req = true /\
  guard_F2 nv_req = false /\ guard_F3 nv_req nv_rule = false /\ guard_F5 nv_rule = false /\
  guard_F6 nv_req nv_rule = false /\ guard_F7 nv_req = false /\ guard_F8 nv_pl nv_rule = false /\
  serve repaired2 nv_req nv_pl nv_rule =
    Forwarded true "POST" "/up/v1%2Fx/%3Bq%41?b=%2F&c=" "up:8080"
      [("Accept", ["*/*"]); ("Accept-Encoding", ["gzip"]); ("Authorization", ["Bearer t"]);
       ("Cookie", ["c=1; sid=1"]); ("Forwarded", ["for=127.0.0.9;host=h.example.com;proto=https"]);
       ("X-Role", [""]); ("X-User", ["alice"; "second"])] "{""a"":1}" /\
  spec_ok nv_req nv_pl nv_rule (serve repaired2 nv_req nv_pl nv_rule) = true.
Proof. exact nonvacuous. Qed.
Print Assumptions C15_nonvacuous.

(** ... and by a request of a TRUSTED peer: the chain in two X-Forwarded-For lines is extended by
    the peer, X-Forwarded-Uri / -Host define the view, the kept query settings arrive byte for byte *)
Theorem C15_nonvacuous_trusted :
  oracle_ok nv2_req = true /\
  guard_F2 nv2_req = false /\ guard_F3 nv2_req nv2_rule = false /\ guard_F5 nv2_rule = false /\
  guard_F8 no_pl nv2_rule = false /\ guard_F9 nv2_req = false /\
  serve repaired2 nv2_req no_pl nv2_rule =
    Forwarded false "GET" "/o%2Fp?b=1&a=%7E&&c" "up:8080"
      [("Accept-Encoding", ["gzip"]); ("X-Forwarded-For", ["10.0.0.1, 10.0.0.2, 127.0.0.2"]);
       ("X-Forwarded-Host", ["orig.example.com"]); ("X-Forwarded-Proto", ["http"])] "" /\
  spec_ok nv2_req no_pl nv2_rule (serve repaired2 nv2_req no_pl nv2_rule) = true.
Proof. exact nonvacuous_trusted. Qed.
Print Assumptions C15_nonvacuous_trusted.
