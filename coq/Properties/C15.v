(** C15 — Proxy mode forwards exactly the rewritten request with pipeline headers
    winning.  Property theorems only; proofs are in C15/Proofs.v, the model in
    C15/Model.v + C15/Rewrite.v, the vocabulary of the statements in C15/Spec.v.

    [serve fx q pl r] is the whole way of one request: bytes the client sends
    ([q]), what the pipeline handed over ([pl]), the rule's forward_to and
    allow_encoded_slashes ([r]) -> what the upstream receives.  [execute] is
    ruleImpl.Execute + Backend.CreateURL on the request view [u]. *)
From HV Require Import Base.Prelude Base.GoUrl C15.UrlLemmas C15.QueryLemmas C15.Model C15.Spec C15.Proofs C15.MainProof.

Local Open Scope string_scope.

(** the view heimdall builds of a request is a valid encoded path with its decoding *)
Theorem C15_view_wellformed : forall q u,
  oracle_ok q = true -> view_url q = Some u ->
  u_rawpath u <> "" /\ valid_encoded (u_rawpath u) = true /\ unescape (u_rawpath u) = Some (u_path u).
Proof. exact view_url_wf. Qed.
Print Assumptions C15_view_wellformed.

(** ... and, without a trusted X-Forwarded-Uri, it is the path of the request target byte for byte *)
Theorem C15_view_is_request_path : forall q u,
  view_url q = Some u -> h_get "X-Forwarded-Uri" (in_headers q) = "" ->
  valid_encoded (q_raw q) = true -> u_rawpath u = q_raw q.
Proof. exact view_url_rawpath. Qed.
Print Assumptions C15_view_is_request_path.

(** path: strip prefix then add prefix, every other byte — in particular every
    percent-escape — as it was (`off`, `no_decode`; for `on` see C15-F3) *)
Theorem C15_wire_path_exact : forall fx r u t,
  view_wf u -> r_setting r <> On ->
  valid_encoded (cfg_add r) = true -> wellformed (cfg_add r) = true ->
  execute fx r u = Some t ->
  wire_path t = cfg_add r ++ strip_prefix (cfg_strip r) (u_rawpath u).
Proof. exact wire_path_exact_bytes. Qed.
Print Assumptions C15_wire_path_exact.

(** `on`: the encoded slashes are decoded and nothing else changes, provided the
    path has no spot that net/url would spell differently (C15-F3 otherwise) *)
Theorem C15_wire_path_on : forall fx r u t,
  view_wf u -> r_setting r = On -> u_path u <> "*" ->
  renorm_sensitive (u_rawpath u) = false -> renorm_sensitive (cfg_add r) = false ->
  valid_encoded (cfg_add r) = true -> wellformed (cfg_add r) = true ->
  execute fx r u = Some t ->
  wire_path t = cfg_add r ++ strip_prefix (cfg_strip r) (decode_slashes (u_rawpath u)).
Proof. exact wire_path_on_bytes. Qed.
Print Assumptions C15_wire_path_on.

(** no double encoding, for every setting and every configuration whose
    transformed path is well-formed: what the upstream decodes is what the
    transformed path decodes to *)
Theorem C15_decoded_path : forall f b u,
  match b_rw b with
  | Some rw =>
    let raw' := rw_add rw ++ strip_prefix (rw_cut rw) (escaped_path (u_path u) (u_rawpath u)) in
    wellformed raw' = true -> unescape (wire_path (create_url_fx f b u)) = unescape raw'
  | None => unescape (wire_path (create_url_fx f b u)) = Some (u_path u)
  end.
Proof. exact decoded_path_preserved. Qed.
Print Assumptions C15_decoded_path.

(** scheme: the view's, unless the rewrite names one *)
Theorem C15_scheme_rewritten : forall fx r u t,
  execute fx r u = Some t -> u_scheme t = expected_scheme r u.
Proof. exact scheme_rewritten. Qed.
Print Assumptions C15_scheme_rewritten.

(** the request target is that path ("/" if empty) and, after '?', the rewritten query *)
Theorem C15_request_line : forall fx r u t,
  execute fx r u = Some t ->
  wire_uri t =
  (if is_empty (wire_path t) then "/" else wire_path t) ++
  (let q' := match b_rw (r_backend r) with
             | Some rw => remove_from_fx (fx_f1 fx) (rw_strip_q rw) (u_query u)
             | None => u_query u
             end in
   if is_empty q' then "" else String "?" q').
Proof. exact request_line. Qed.
Print Assumptions C15_request_line.

(** with nothing to remove, the query is forwarded byte for byte *)
Theorem C15_query_untouched : forall f names q, names = [] \/ q = "" -> remove_from_fx f names q = q.
Proof. exact query_untouched. Qed.
Print Assumptions C15_query_untouched.

(** every field the upstream sees is, name by name, what the specification
    prescribes — as the tree is now ([fx_f4 fx = false]) with the forwarded-header
    block having the last word (C15-F4) *)
Theorem C15_headers_name_by_name : forall fx q pl r tls m uri host hs body k,
  serve fx q pl r = Forwarded tls m uri host hs body -> k <> "Host" ->
  h_values k hs = expected_values (fx_c13f3 fx) (fx_f4 fx) q pl m k.
Proof. exact serve_headers. Qed.
Print Assumptions C15_headers_name_by_name.

(** the headers the pipeline produced under a name spelling [k] in any casing
    replace whatever the client sent under a name spelling [k] in any casing — in
    the repaired tree ([fx_f4 fx = true]) for every name, before that for every
    name but the forwarding headers (C15-F4) *)
Theorem C15_pipeline_header_wins : forall fx q pl r tls m uri host hs body k,
  serve fx q pl r = Forwarded tls m uri host hs body ->
  let vs := pipeline_values (fx_c13f3 fx) (p_headers pl) k in
  first_or_empty vs <> "" ->
  k <> "Host" -> k <> "User-Agent" -> (k = "Cookie" -> p_cookies pl = []) ->
  fx_f4 fx = true \/ forwarding_value q k = None ->
  h_values k hs = vs.
Proof. exact pipeline_header_wins. Qed.
Print Assumptions C15_pipeline_header_wins.

Theorem C15_pipeline_host_wins : forall fx q pl r tls m uri host hs body v,
  serve fx q pl r = Forwarded tls m uri host hs body ->
  pipeline_value (p_headers pl) "Host" = Some v -> v <> "" -> host = v.
Proof. exact pipeline_host_wins. Qed.
Print Assumptions C15_pipeline_host_wins.

(** without a pipeline Host header the request goes out with Host = forward_to.host *)
Theorem C15_host_is_forward_to : forall fx q pl r tls m uri host hs body,
  serve fx q pl r = Forwarded tls m uri host hs body -> host = expected_host pl r.
Proof. exact serve_host. Qed.
Print Assumptions C15_host_is_forward_to.

Theorem C15_no_forwarded_passthrough : forall fx q pl r tls m uri host hs body k,
  serve fx q pl r = Forwarded tls m uri host hs body ->
  never_passed k = true -> pipeline_value (p_headers pl) k = None ->
  h_values k hs = [].
Proof. exact no_forwarded_passthrough. Qed.
Print Assumptions C15_no_forwarded_passthrough.

Theorem C15_forwarded_extended_by_peer : forall fx q pl r tls m uri host hs body,
  serve fx q pl r = Forwarded tls m uri host hs body ->
  let hin := in_headers q in
  let k := if forwarding_active hin then "X-Forwarded-For" else "Forwarded" in
  fx_f4 fx = false \/ pipeline_values (fx_c13f3 fx) (p_headers pl) k = [] ->
  if forwarding_active hin
  then h_values "X-Forwarded-For" hs = [append_peer (h_get "X-Forwarded-For" hin) (q_peer q)]
  else h_values "Forwarded" hs =
       [append_peer (h_get "Forwarded" hin) ("for=" ++ q_peer q ++ ";host=" ++ q_host q ++ ";proto=http")].
Proof. exact forwarded_extended_by_peer. Qed.
Print Assumptions C15_forwarded_extended_by_peer.

Theorem C15_method_body_untouched : forall fx q pl r tls m uri host hs body,
  serve fx q pl r = Forwarded tls m uri host hs body ->
  body = q_body q /\ m = view_method q /\ (guard_F2 q = false -> m = q_method q).
Proof. exact method_body_untouched. Qed.
Print Assumptions C15_method_body_untouched.

(** removed query parameters: for EVERY query and every key, a removed key is
    gone and every other key keeps its values in order (repaired tree) *)
Theorem C15_query_only_removed : forall names q k,
  names <> [] -> q <> EmptyString ->
  values_get k (fst (parse_query (remove_from_fx true names q))) =
  if mem_name k names then [] else values_get k (fst (parse_query q)).
Proof. exact remove_from_spec. Qed.
Print Assumptions C15_query_only_removed.

(** before 41fd1db the same held only for queries that parse (C15-F1) *)
Theorem C15_query_only_removed_pinned : forall names q k,
  names <> [] -> q <> EmptyString -> snd (parse_query q) = false ->
  values_get k (fst (parse_query (remove_from_fx false names q))) =
  if mem_name k names then [] else values_get k (fst (parse_query q)).
Proof. exact remove_from_spec_pinned. Qed.
Print Assumptions C15_query_only_removed_pinned.

(** field names in any casing: spellings that differ only in ASCII case name the same header *)
Theorem C15_header_names_any_casing : forall n n',
  all_chars is_tchar n = true -> fold_eq n n' = true -> canon_key n = canon_key n'.
Proof. exact canon_key_any_casing. Qed.
Print Assumptions C15_header_names_any_casing.

(** bytes in, bytes out: without a trusted X-Forwarded-Uri, under `off` /
    `no_decode`, a valid encoded request path reaches the upstream as
    add_path_prefix ++ (path minus strip_path_prefix), byte for byte *)
Theorem C15_request_path_end_to_end : forall fx q pl r tls m uri host hs body,
  serve fx q pl r = Forwarded tls m uri host hs body ->
  oracle_ok q = true -> valid_encoded (q_raw q) = true ->
  h_get "X-Forwarded-Uri" (in_headers q) = "" ->
  r_setting r <> On -> guard_F5 r = false ->
  fst (cut_on "?" uri) =
  (let p := cfg_add r ++ strip_prefix (cfg_strip r) (q_raw q) in if is_empty p then "/" else p).
Proof. exact request_path_end_to_end. Qed.
Print Assumptions C15_request_path_end_to_end.

(** THE WHOLE STATEMENT: for every request (any bytes), every pipeline output and
    every rule / rewrite configuration on which none of the open findings
    C15-F2, -F3, -F5 shows, what is forwarded (or that nothing is) satisfies every
    sentence of the property ([spec_ok], C15/Spec.v) *)
Theorem C15_spec_holds : forall q pl r,
  oracle_ok q = true ->
  guard_F2 q = false -> guard_F3 q r = false -> guard_F5 r = false ->
  spec_ok q pl r (serve repaired q pl r) = true.
Proof. exact spec_holds. Qed.
Print Assumptions C15_spec_holds.

(** the repaired findings (pinned behaviour and the same input after the repair) *)
Theorem C15_F1_pinned_refuted : exists q pl r,
  guard_F1 q r = true /\ spec_ok q pl r (serve current q pl r) = false /\
  forwarded_uri (serve current q pl r) = "/x?a=1&b=%zz" /\
  spec_ok q pl r (serve repaired q pl r) = true /\ forwarded_uri (serve repaired q pl r) = "/x?b=%zz".
Proof. exact F1_pinned_refuted. Qed.
Print Assumptions C15_F1_pinned_refuted.

Theorem C15_F4_pinned_refuted : exists q pl r,
  guard_F4 q pl = true /\ spec_ok q pl r (serve current q pl r) = false /\
  forwarded_field "Forwarded" (serve current q pl r) = ["for=127.0.0.2;host=h.example.com;proto=http"] /\
  spec_ok q pl r (serve repaired q pl r) = true /\ forwarded_field "Forwarded" (serve repaired q pl r) = ["v1"].
Proof. exact F4_pinned_refuted. Qed.
Print Assumptions C15_F4_pinned_refuted.

(** the open findings, each with its witness *)
Theorem C15_F2_refuted : exists q pl r,
  guard_F2 q = true /\ spec_ok q pl r (serve repaired q pl r) = false /\
  q_method q = "PROPFIND" /\ forwarded_method (serve repaired q pl r) = "GET".
Proof. exact F2_refuted. Qed.
Print Assumptions C15_F2_refuted.

Theorem C15_F3_refuted : exists q pl r,
  guard_F3 q r = true /\ spec_ok q pl r (serve repaired q pl r) = false /\
  forwarded_uri (serve repaired q pl r) = "/0%20/;users".
Proof. exact F3_refuted. Qed.
Print Assumptions C15_F3_refuted.

Theorem C15_F5_refuted :
  (exists q pl r, guard_F5 r = true /\ spec_ok q pl r (serve repaired q pl r) = false /\
                  forwarded_uri (serve repaired q pl r) = "/a%20b/x;y") /\
  (exists q pl r, guard_F5 r = true /\ spec_ok q pl r (serve repaired q pl r) = false /\
                  forwarded_uri (serve repaired q pl r) = "/").
Proof. exact F5_refuted. Qed.
Print Assumptions C15_F5_refuted.

(** the hypotheses are satisfiable by a request that exercises every sentence *)
Theorem C15_nonvacuous :
  oracle_ok nv_req = true /\
  guard_F2 nv_req = false /\ guard_F3 nv_req nv_rule = false /\ guard_F5 nv_rule = false /\
  serve repaired nv_req nv_pl nv_rule =
    Forwarded false "POST" "/up/v1%2Fx/%3Bq%41?b=%2F&c=" "up:8080"
      [("Accept", ["*/*"]); ("Accept-Encoding", ["gzip"]); ("Authorization", ["Bearer t"]);
       ("Cookie", ["c=1; sid=1"]); ("Forwarded", ["for=127.0.0.9;host=h.example.com;proto=http"]);
       ("X-User", ["alice"; "second"])] "{""a"":1}" /\
  spec_ok nv_req nv_pl nv_rule (serve repaired nv_req nv_pl nv_rule) = true.
Proof. exact nonvacuous. Qed.
Print Assumptions C15_nonvacuous.
