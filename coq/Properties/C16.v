(** C16 — Issued JWTs verify against the published key set and carry the system
    claims.  Property theorems only; proofs are in C16/Proofs.v and C16/LocksProofs.v.

    Vocabulary (C16/Model.v = the Go code as it is, C16/Spec.v = the specification):
      [load cfg_kid file]          jwtSigner.load up to the swap: Ok new-fields | Err | Panic
      [sign st iss sub ttl now jti custom]   jwtSigner.Sign on the fields it read
      [run fixed cfg file ops]     ([fixed] = with the repair of C16-F1?) newJWTFinalizer, then Execute / file replaced + OnChanged / GET JWKS
      [spec_accept cfg_kid file]   the usable store and its active entry (by key id, else the first)
      [run_ok]                     what every observation of a run must look like
      [guard_F1]                   the inputs of finding C16-F1 (token reuse across a same-kid key change)
    Keys are indices into a pool; "signed by Priv k verifies under Pub k" and the
    parsing of PEM/X.509/JSON are trusted (see the level note). *)
From HV Require Import Base.Prelude C16.Model C16.Spec C16.Proofs C16.Locks C16.LocksProofs.
Open Scope string_scope.

(** sub, iss, iat, nbf, exp, jti are the signer's, whatever the custom claims say;
    every custom claim under another name survives, nothing else is added *)
Theorem C16_system_claims_win : forall st iss sub ttl now jti custom t,
  sign st iss sub ttl now jti custom = Ok t ->
  mget "sub" (t_claims t) = Some (VStr sub) /\
  mget "iss" (t_claims t) = Some (VStr iss) /\
  mget "iat" (t_claims t) = Some (VInt (unix now)) /\
  mget "nbf" (t_claims t) = Some (VInt (unix now)) /\
  mget "exp" (t_claims t) = Some (VInt (unix (now + ttl))) /\
  mget "jti" (t_claims t) = Some jti /\
  (forall k, ~ In k reserved ->
     mget k (t_claims t) = match tmpl_get k custom with Some v => Some v | None => None end).
Proof. exact system_claims_win. Qed.
Print Assumptions C16_system_claims_win.

(** exp is the configured ttl after iat: exactly for whole-second ttls, otherwise
    (claims are whole seconds) between floor(ttl) and ceil(ttl) *)
Theorem C16_exp_is_ttl_later : forall st iss sub ttl now jti custom t,
  sign st iss sub ttl now jti custom = Ok t ->
  exists iat exp,
    mget "iat" (t_claims t) = Some (VInt iat) /\ mget "nbf" (t_claims t) = Some (VInt iat) /\
    mget "exp" (t_claims t) = Some (VInt exp) /\
    (ttl / second <= exp - iat <= (ttl + 999999999) / second)%Z /\
    (forall s, ttl = (s * second)%Z -> (exp - iat = s)%Z).
Proof. exact exp_is_ttl_later. Qed.
Print Assumptions C16_exp_is_ttl_later.

(** a key-store file is loaded (at start-up and on reload) iff it is usable, and then
    the three guarded fields are exactly: the active entry's public JWK, its private
    key, the public JWKs of all entries *)
Theorem C16_load_accepts_exactly_usable : forall cfg_kid f st,
  load cfg_kid f = Ok st <-> exists cur, spec_accept cfg_kid f = Some cur /\ st = state_of cur.
Proof. exact load_iff. Qed.
Print Assumptions C16_load_accepts_exactly_usable.

(** no input makes load panic (the key store rejects empty stores and unsupported key
    sizes since the fixes for C19-F1/F2; the model keeps the two panic sites) *)
Theorem C16_load_never_panics : forall cfg_kid f, load cfg_kid f <> Panic.
Proof. exact load_no_panic. Qed.
Print Assumptions C16_load_never_panics.

(** a token names the active key's id and algorithm and is signed with its private key;
    the active entry is the one with the configured key id, else the first *)
Theorem C16_header_names_active_key : forall cfg_kid f st iss sub ttl now jti custom t,
  load cfg_kid f = Ok st -> sign st iss sub ttl now jti custom = Ok t ->
  exists a rs, f = PemOk rs /\ spec_active cfg_kid rs = Some a /\
    t_kid t = kid_of a /\ spec_alg (r_key a) = Some (t_alg t) /\ t_typ t = "JWT" /\ t_key t = Priv (r_key a).
Proof. exact header_names_active_key. Qed.
Print Assumptions C16_header_names_active_key.

(** in a loaded state signing never fails and the token verifies against the key set
    published by the same load *)
Theorem C16_token_verifies_against_published : forall cfg_kid f st iss sub ttl now jti custom,
  load cfg_kid f = Ok st ->
  exists t, sign st iss sub ttl now jti custom = Ok t /\ verifies t (s_pub st) = true.
Proof.
  intros cfg_kid f st iss sub ttl now jti custom L.
  destruct (sign_never_fails cfg_kid f st iss sub ttl now jti custom L) as [t S].
  exists t. split; [exact S | exact (token_verifies_against_published _ _ _ _ _ _ _ _ _ _ L S)].
Qed.
Print Assumptions C16_token_verifies_against_published.

(** the published set: one JWK per entry of the store, public half only, with the
    entry's key id, algorithm and certificates *)
Theorem C16_jwks_public_only : forall cfg_kid f st,
  load cfg_kid f = Ok st ->
  exists rs, f = PemOk rs /\ s_pub st = spec_jwks rs /\
    Forall (fun j => is_private (j_key j) = false) (s_pub st) /\
    Forall2 (fun r j => j_kid j = kid_of r /\ j_key j = Pub (r_key r) /\ j_certs j = r_chain r /\
                        Some (j_alg j) = spec_alg (r_key r) /\ j_use j = "sig") rs (s_pub st).
Proof. exact jwks_public_only. Qed.
Print Assumptions C16_jwks_public_only.

(** all histories (any number of Execute / reload / JWKS operations, any files, any
    configuration, token cache on or off, other key holders in the registry, Execute on the
    catalogue finalizer or on any rule-level variant of it): every
    observation of the run is what the specification demands — every token handed out
    (also a reused one) verifies against the key set served at that moment, names and is
    signed by the then active key, carries the system claims; every JWKS answer is the
    public view of the last accepted store (and of the other holders); unusable files
    change nothing.  [run true] is the tree as it is now, i.e. with the repair of C16-F1
    (fix: commit d9caf75, the token cache key covers the key itself). *)
Theorem C16_run_meets_spec : forall c f ops,
  run_ok c f ops (fst (run true c f ops)) (snd (run true c f ops)) = true.
Proof. exact run_meets_spec_fixed. Qed.
Print Assumptions C16_run_meets_spec.

(** the same for the pinned (unrepaired) tree outside the inputs of C16-F1 ... *)
Theorem C16_run_meets_spec_pinned : forall c f ops,
  guard_F1 c f ops = false ->
  run_ok c f ops (fst (run false c f ops)) (snd (run false c f ops)) = true.
Proof. exact run_meets_spec. Qed.
Print Assumptions C16_run_meets_spec_pinned.

(** ... and C16-F1 itself, as it was: with token reuse, a reload that keeps key id and
    algorithm but replaces the key lets the finalizer hand out a token of the replaced
    key, which does not verify against the key set published at that moment *)
Theorem C16_F1_pinned_refuted :
  exists c f ops t,
    guard_F1 c f ops = true /\
    nth_error (snd (run false c f ops)) 3 = Some (XToken t false) /\
    nth_error (snd (run false c f ops)) 2 = Some (XJwks [spec_jwk (f1_entry 11)]) /\
    t_key t = Priv (r_key (f1_entry 10)) /\
    run_ok c f ops (fst (run false c f ops)) (snd (run false c f ops)) = false.
Proof. exact F1_refuted. Qed.
Print Assumptions C16_F1_pinned_refuted.

(** rule-level variants (jwtFinalizer.WithConfig): an override is accepted iff it consists
    of ttl (> 1s) and/or claims, and the variant is the catalogue configuration with exactly
    the given members replaced — signer, issuer, key id, cache and header stay the catalogue's *)
Theorem C16_variant_overlays_catalogue : forall c o ce,
  with_config c o = Ok ce <->
  (o_unknown o = false /\ (forall t, o_ttl o = Some t -> (second < t)%Z) /\
   ce = {| c_keyid := c_keyid c; c_name := c_name c; c_ttl := overlay (o_ttl o) (c_ttl c);
           c_claims := overlay (o_claims o) (c_claims c); c_cache := c_cache c;
           c_before := c_before c; c_after := c_after c |}).
Proof. exact variant_overlay. Qed.
Print Assumptions C16_variant_overlays_catalogue.

(** a variant's token: exp is the variant's effective ttl after iat — its own ttl if the
    rule gives one, else the catalogue finalizer's (else 5 minutes) —, the issuer is the
    catalogue's, custom claims come from its own template if the rule gives one, else from
    the catalogue's *)
Theorem C16_variant_token : forall c o ce st sub now jti t,
  with_config c o = Ok ce ->
  sign st (issuer ce) sub (ttl_of ce) now jti (custom_of ce sub) = Ok t ->
  let ttl := match o_ttl o with Some x => x | None => ttl_of c end in
  let tmpl := match o_claims o with Some x => x | None => tmpl_of c end in
  issuer ce = issuer c /\
  exists iat exp,
    mget "iat" (t_claims t) = Some (VInt iat) /\ mget "nbf" (t_claims t) = Some (VInt iat) /\
    mget "exp" (t_claims t) = Some (VInt exp) /\
    (ttl / second <= exp - iat <= (ttl + 999999999) / second)%Z /\
    (forall s, ttl = (s * second)%Z -> (exp - iat = s)%Z) /\
    (forall k, ~ In k reserved ->
       mget k (t_claims t) = option_map (resolve sub) (tmpl_get k tmpl)).
Proof. exact variant_token. Qed.
Print Assumptions C16_variant_token.

(** non-vacuity: reuse on, another key holder, a reload rotates the active key, rule-level
    variants with only a ttl, only claims, and an invalid one *)
Theorem C16_nonvacuous :
  guard_F1 nv_cfg (PemOk [nv_entry 3 "old"]) nv_ops = false /\
  exists t1 t2 t3 t4,
    snd (run true nv_cfg (PemOk [nv_entry 3 "old"]) nv_ops) =
      [XToken t1 true; XToken t1 true; XDone; XToken t2 true; XToken t3 true; XToken t4 true; XErr;
       XJwks [spec_jwk (nv_entry 5 "other"); spec_jwk (nv_entry 4 "new"); spec_jwk (nv_entry 3 "old")]] /\
    t_kid t1 = "old" /\ t_kid t2 = "new" /\ t_alg t2 = "PS384" /\
    mget "sub" (t_claims t2) = Some (VStr "alice") /\ mget "who" (t_claims t2) = Some (VStr "alice") /\
    mget "exp" (t_claims t2) = Some (VInt 1093%Z) /\
    mget "exp" (t_claims t3) = Some (VInt 1033%Z) /\ mget "who" (t_claims t3) = Some (VStr "alice") /\
    mget "exp" (t_claims t4) = Some (VInt 1094%Z) /\ mget "scope" (t_claims t4) = Some (VStr "read") /\
    mget "who" (t_claims t4) = None.
Proof. exact nonvacuous. Qed.
Print Assumptions C16_nonvacuous.

(** lock discipline, for every skeleton that passes [wf_skeleton] (the driver extracts
    the skeleton of jwt_signer.go on every run and the evaluator checks it), every set
    of concurrent calls of its methods and every interleaving: all reads of one call saw
    the values of one load, and at each of those reads all three fields — key, JWK and
    published set — were that load's *)
Theorem C16_consistent_pair : forall sk calls g0 sched,
  wf_skeleton sk = true ->
  conf_consistent (run_sched sched (init g0 (threads_of sk calls))) = true.
Proof. exact consistent_pair. Qed.
Print Assumptions C16_consistent_pair.

Theorem C16_sign_sees_one_load : forall sk calls g0 sched t f1 g1 s1 f2 g2 s2,
  wf_skeleton sk = true ->
  In t (cf_ths (run_sched sched (init g0 (threads_of sk calls)))) ->
  In (f1, g1, s1) (th_obs t) -> In (f2, g2, s2) (th_obs t) ->
  g1 = g2 /\ s1 = {| g_jwk := g1; g_key := g1; g_pub := g1 |} /\ s2 = s1.
Proof. exact sign_sees_one_load. Qed.
Print Assumptions C16_sign_sees_one_load.

(** the hypothesis is not idle: a Sign taking the read lock once per field is rejected
    by the check and has an interleaving with a torn (JWK, key) pair *)
Theorem C16_torn_skeleton_refuted :
  wf_skeleton torn_skeleton = false /\
  exists sched, conf_consistent (run_sched sched
     (init 0 (threads_of torn_skeleton [("Sign", 0); ("load", 1)]))) = false.
Proof. exact torn_refuted. Qed.
Print Assumptions C16_torn_skeleton_refuted.
