(** C16 — Issued JWTs verify against the published key set and carry the system
    claims.  Property theorems only; proofs are in C16/Proofs.v, C16/LocksProofs.v,
    C16/ConcProofs.v, C16/ConcWindow.v (C16_conc_hit_within_window), C16/ConcGenProofs.v over C16/ConcGen.v and
    C16/ConcSkel.v (C16_fine_...), examples in C16/ConcExamples.v.

    Vocabulary (C16/Model.v = the Go code as it is, C16/Spec.v = the specification):
      [load cfg_kid file]          jwtSigner.load up to the swap: Ok new-fields | Err | Panic
      [sign st iss sub ttl now jti custom]   jwtSigner.Sign on the fields it read
      [run fx cfg file ops]        ([fx] = which repairs are in the tree) newJWTFinalizer, then Execute / file replaced + OnChanged / GET JWKS
      [spec_accept cfg_kid file]   the usable store and its active entry (by key id, else the first)
      [run_ok] / [run_prop]        the full specification of a run / what the property statement fixes of it
      [guard_F1], [guard_F2]       the inputs of the (repaired) findings C16-F1, C16-F2
      [crun fx c sched (cinit st calls)]   (C16/Conc.v) any calls of Execute, step by step in any order, with reloads in between:
                                   [sched] is any list of [SThread i | SReload file | SJwks | SWait d]; [pc_of i g] where call i stands
                                   ([PInit], [PKeyed k0] after Hash(), [PMiss k0] after a miss, [PSigned k t] after signWithHash(),
                                   [PRet t], [PDone r]); [result i g] what it returned; [published c st] the registry's key set;
                                   [loaded c st] some file loads to [st]; [made st cl t] t is what [sign] yields from [st] for the
                                   request of call [cl] at some instant with some jti; [sig_id st] = (kid, alg, private key);
                                   [quiet c s] no event of [s] is an accepted reload
    Keys are indices into a pool; "signed by Priv k verifies under Pub k" and the
    parsing of PEM/X.509/JSON are trusted (see the level note). *)
From HV Require Import Base.Prelude C16.Model C16.Spec C16.Proofs C16.Locks C16.LocksProofs
  C16.Conc C16.ConcProofs C16.ConcExamples C16.ConcWindow C16.ConcSkel C16.ConcGen C16.ConcGenProofs.
Open Scope string_scope.

(** sub, iss, iat, nbf, exp, jti are the signer's, whatever the custom claims say;
    every custom claim under another name survives, nothing else is added *)
Theorem C16_system_claims_win : forall st iss sub ttl now jti custom t,
  sign st iss sub ttl now jti custom = Ok t ->
  mget "sub" (t_claims t) = Some (VStr sub) /\
  mget "iss" (t_claims t) = Some (VStr iss) /\
  mget "iat" (t_claims t) = Some (VInt (unix now)) /\
  mget "nbf" (t_claims t) = Some (VInt (unix now)) /\
  mget "exp" (t_claims t) = Some (VInt (unix (now + ttl))) /\
  mget "jti" (t_claims t) = Some jti /\
  (forall k, ~ In k reserved ->
     mget k (t_claims t) = match tmpl_get k custom with Some v => Some v | None => None end).
Proof. exact system_claims_win. Qed.
Print Assumptions C16_system_claims_win.

(** exp is the configured ttl after iat: exactly for whole-second ttls, otherwise
    (claims are whole seconds) between floor(ttl) and ceil(ttl) *)
Theorem C16_exp_is_ttl_later : forall st iss sub ttl now jti custom t,
  sign st iss sub ttl now jti custom = Ok t ->
  exists iat exp,
    mget "iat" (t_claims t) = Some (VInt iat) /\ mget "nbf" (t_claims t) = Some (VInt iat) /\
    mget "exp" (t_claims t) = Some (VInt exp) /\
    (ttl / second <= exp - iat <= (ttl + 999999999) / second)%Z /\
    (forall s, ttl = (s * second)%Z -> (exp - iat = s)%Z).
Proof. exact exp_is_ttl_later. Qed.
Print Assumptions C16_exp_is_ttl_later.

(** (refinement lemma, not listed as a property theorem: model and specification of the
    acceptance of key-store files are two transcriptions by the same hand; what ties them
    to heimdall is the correspondence run)
    a key-store file is loaded (at start-up and on reload) iff it is usable, and then
    the three guarded fields are exactly: the active entry's public JWK, its private
    key, the public JWKs of all entries *)
Theorem C16_load_accepts_exactly_usable : forall cfg_kid f st,
  load cfg_kid f = Ok st <-> exists cur, spec_accept cfg_kid f = Some cur /\ st = state_of cur.
Proof. exact load_iff. Qed.
Print Assumptions C16_load_accepts_exactly_usable.

(** no input makes load panic (the key store rejects empty stores and unsupported key
    sizes since the fixes for C19-F1/F2; the model keeps the two panic sites) *)
Theorem C16_load_never_panics : forall cfg_kid f, load cfg_kid f <> Panic.
Proof. exact load_no_panic. Qed.
Print Assumptions C16_load_never_panics.

(** a token names the active key's id and algorithm and is signed with its private key;
    the active entry is the one with the configured key id, else the first *)
Theorem C16_header_names_active_key : forall cfg_kid f st iss sub ttl now jti custom t,
  load cfg_kid f = Ok st -> sign st iss sub ttl now jti custom = Ok t ->
  exists a rs, f = PemOk rs /\ spec_active cfg_kid rs = Some a /\
    t_kid t = kid_of a /\ spec_alg (r_key a) = Some (t_alg t) /\ t_typ t = "JWT" /\ t_key t = Priv (r_key a).
Proof. exact header_names_active_key. Qed.
Print Assumptions C16_header_names_active_key.

(** in a loaded state signing never fails and the token verifies against the key set
    published by the same load *)
Theorem C16_token_verifies_against_published : forall cfg_kid f st iss sub ttl now jti custom,
  load cfg_kid f = Ok st ->
  exists t, sign st iss sub ttl now jti custom = Ok t /\ verifies t (s_pub st) = true.
Proof.
  intros cfg_kid f st iss sub ttl now jti custom L.
  destruct (sign_never_fails cfg_kid f st iss sub ttl now jti custom L) as [t S].
  exists t. split; [exact S | exact (token_verifies_against_published _ _ _ _ _ _ _ _ _ _ L S)].
Qed.
Print Assumptions C16_token_verifies_against_published.

(** (holds by construction of [entry_jwk] in the model; the evidence about heimdall is the
    driver's scan of every served JWKS body for members outside a white-list of public ones)
    the published set: one JWK per entry of the store, public half only, with the
    entry's key id, algorithm and certificates *)
Theorem C16_jwks_public_only : forall cfg_kid f st,
  load cfg_kid f = Ok st ->
  exists rs, f = PemOk rs /\ s_pub st = spec_jwks rs /\
    Forall (fun j => is_private (j_key j) = false) (s_pub st) /\
    Forall2 (fun r j => j_kid j = kid_of r /\ j_key j = Pub (r_key r) /\ j_certs j = r_chain r /\
                        Some (j_alg j) = spec_alg (r_key r) /\ j_use j = "sig") rs (s_pub st).
Proof. exact jwks_public_only. Qed.
Print Assumptions C16_jwks_public_only.

(** ALL HISTORIES.  A history is a configuration (key id, signer name, ttl, claims template,
    token cache on/off, a twin finalizer with another signer name on the same cache, other
    key holders in the registry), an initial key-store file and any list of operations:
    Execute (for any subject / outputs / attributes) on the catalogue finalizer, its twin
    or any rule-level variant of either — WITH ANY LIST OF KEY-STORE RELOADS LANDING BETWEEN
    Execute's cache lookup and its signing (Execute enters the signer's lock twice) —, a
    reload, a JWKS request, time passing for the cache.  [run fx_all] is the tree as it is
    (with the repairs of C16-F1, fix: commit d9caf75, and C16-F2, fix: commit 186d696 (= fixes/C16-F2.diff)).

    Every observation of every run meets the full specification of the finalizer
    ([run_ok]: typ JWT, custom claims, reuse only with cache and ttl > 5s, exact JWKS
    content and order, exact acceptance of files and overrides) ... *)
Theorem C16_run_meets_spec : forall c f ops,
  run_ok c f ops (fst (run fx_all c f ops)) (snd (run fx_all c f ops)) = true.
Proof. exact run_meets_spec_fixed. Qed.
Print Assumptions C16_run_meets_spec.

(** ... and hence what the property statement fixes ([run_prop], the predicate the check
    evaluates on the implementation's observations): every token handed out — fresh or
    reused, by the finalizer, its twin or a variant, also when reloads land inside Execute —
    verifies against the key set served at that moment (for an Execute overlapped by
    reloads: at its beginning or at its end), names the then active key's id and algorithm
    and is signed by it, has sub = the subject's id, iss = the signer's name, iat = nbf =
    the issue time, exp the effective ttl later, a jti of its own; a reused token is one
    handed out before and not older than its ttl; every JWKS answer has no private
    material and contains the current store's (and the other holders') public keys *)
Theorem C16_run_meets_property : forall c f ops,
  run_prop c f ops (fst (run fx_all c f ops)) (snd (run fx_all c f ops)) = true.
Proof. exact run_meets_property. Qed.
Print Assumptions C16_run_meets_property.

(** the same for a tree lacking one or both repairs, outside the inputs of the respective finding *)
Theorem C16_run_meets_spec_pinned : forall fx c f ops,
  (fx_F1 fx = false -> guard_F1 c f ops = false) ->
  (fx_F2 fx = false -> guard_F2 c ops = false) ->
  run_ok c f ops (fst (run fx c f ops)) (snd (run fx c f ops)) = true.
Proof. exact run_meets_spec_gen. Qed.
Print Assumptions C16_run_meets_spec_pinned.

(** C16-F1 as it was: with a token cache, a reload that keeps key id and algorithm but
    replaces the key let the finalizer hand out a token of the replaced key, which does
    not verify against the key set published at that moment *)
Theorem C16_F1_pinned_refuted :
  exists c f ops t,
    guard_F1 c f ops = true /\
    nth_error (snd (run fx_pinned c f ops)) 3 = Some (XToken t false) /\
    nth_error (snd (run fx_pinned c f ops)) 2 = Some (XJwks [spec_jwk (f1_entry 11)]) /\
    t_key t = Priv (r_key (f1_entry 10)) /\
    run_prop c f ops (fst (run fx_pinned c f ops)) (snd (run fx_pinned c f ops)) = false.
Proof. exact F1_refuted. Qed.
Print Assumptions C16_F1_pinned_refuted.

(** C16-F2 as it was before fix: commit 186d696 (model variant fx_F1_only): the store is replaced by B between an
    Execute's cache lookup (under A) and its signing; the B-signed token is filed under
    A's cache key; after the roll-back to A the next Execute hands out the B-token, whose
    key is not published *)
Theorem C16_F2_pinned_refuted :
  exists t,
    guard_F2 f2_cfg f2_ops = true /\ guard_F1 f2_cfg (PemOk [f2_entry 7 "key-a"]) f2_ops = false /\
    snd (run fx_F1_only f2_cfg (PemOk [f2_entry 7 "key-a"]) f2_ops) =
      [XToken t true; XDone; XJwks [spec_jwk (f2_entry 7 "key-a")]; XToken t false] /\
    t_kid t = "key-b" /\ t_key t = Priv (r_key (f2_entry 8 "key-b")) /\
    run_prop f2_cfg (PemOk [f2_entry 7 "key-a"]) f2_ops
             (fst (run fx_F1_only f2_cfg (PemOk [f2_entry 7 "key-a"]) f2_ops))
             (snd (run fx_F1_only f2_cfg (PemOk [f2_entry 7 "key-a"]) f2_ops)) = false.
Proof. exact F2_refuted. Qed.
Print Assumptions C16_F2_pinned_refuted.

(** rule-level variants (jwtFinalizer.WithConfig): an override is accepted iff it consists
    of ttl (> 1s) and/or claims, and the variant is the catalogue configuration with exactly
    the given members replaced — signer, issuer, key id, cache and header stay the catalogue's *)
Theorem C16_variant_overlays_catalogue : forall c o ce,
  with_config c o = Ok ce <->
  (o_unknown o = false /\ (forall t, o_ttl o = Some t -> (second < t)%Z) /\
   ce = {| c_keyid := c_keyid c; c_name := c_name c; c_ttl := overlay (o_ttl o) (c_ttl c);
           c_claims := overlay (o_claims o) (c_claims c); c_cache := c_cache c; c_twin := c_twin c;
           c_before := c_before c; c_after := c_after c |}).
Proof. exact variant_overlay. Qed.
Print Assumptions C16_variant_overlays_catalogue.

(** a variant's token: exp is the variant's effective ttl after iat — its own ttl if the
    rule gives one, else the catalogue finalizer's (else 5 minutes) —, the issuer is the
    catalogue's, custom claims come from its own template if the rule gives one, else from
    the catalogue's *)
Theorem C16_variant_token : forall c o ce st q now jti t,
  with_config c o = Ok ce ->
  sign st (issuer ce) (q_sub q) (ttl_of ce) now jti (custom_of ce q) = Ok t ->
  let ttl := match o_ttl o with Some x => x | None => ttl_of c end in
  let tmpl := match o_claims o with Some x => x | None => tmpl_of c end in
  issuer ce = issuer c /\
  exists iat exp,
    mget "iat" (t_claims t) = Some (VInt iat) /\ mget "nbf" (t_claims t) = Some (VInt iat) /\
    mget "exp" (t_claims t) = Some (VInt exp) /\
    (ttl / second <= exp - iat <= (ttl + 999999999) / second)%Z /\
    (forall s, ttl = (s * second)%Z -> (exp - iat = s)%Z) /\
    (forall k, ~ In k reserved ->
       mget k (t_claims t) = option_map (spec_value q) (tmpl_get k tmpl)).
Proof. exact variant_token. Qed.
Print Assumptions C16_variant_token.

(** non-vacuity (a vm_compute example): reuse on, another key holder, a twin with another
    signer name, a reload rotating the key, a reload landing inside an Execute, the cache
    clock passing the reuse window, rule-level variants with only a ttl, only claims, and
    an invalid one *)
Theorem C16_nonvacuous :
  exists t1 t1' t2 t2' t3 t4,
    snd (run fx_all nv_cfg (PemOk [nv_entry 3 "old"]) nv_ops) =
      [XToken t1 true; XToken t1 true; XToken t1' true; XDone; XToken t2 true; XDone; XToken t2' true;
       XToken t3 true; XToken t4 true; XErr;
       XJwks [spec_jwk (nv_entry 5 "other"); spec_jwk (nv_entry 3 "old")]] /\
    t_kid t1 = "old" /\ mget "iss" (t_claims t1) = Some (VStr "idp") /\
    mget "iss" (t_claims t1') = Some (VStr "idp-2") /\
    t_kid t2 = "old" /\ t_alg t2 = "PS384" /\ mget "grp" (t_claims t2) = Some (VStr "a") /\
    mget "sub" (t_claims t2) = Some (VStr "alice") /\ mget "exp" (t_claims t2) = Some (VInt 1093%Z) /\
    mget "iat" (t_claims t2') = Some (VInt 1003%Z) /\
    mget "exp" (t_claims t3) = Some (VInt 1033%Z) /\ mget "who" (t_claims t3) = Some (VStr "alice") /\
    mget "exp" (t_claims t4) = Some (VInt 1094%Z) /\ mget "scope" (t_claims t4) = Some (VStr "o") /\
    mget "who" (t_claims t4) = None.
Proof. exact nonvacuous. Qed.
Print Assumptions C16_nonvacuous.

(** lock discipline, for every skeleton that passes [wf_skeleton] (the driver extracts
    the skeleton of jwt_signer.go on every run and the evaluator checks it), every set
    of concurrent calls of its methods and every interleaving: all reads of one call saw
    the values of one load, and at each of those reads all three fields — key, JWK and
    published set — were that load's *)
Theorem C16_consistent_pair : forall sk calls g0 sched,
  wf_skeleton sk = true ->
  conf_consistent (run_sched sched (init g0 (threads_of sk calls))) = true.
Proof. exact consistent_pair. Qed.
Print Assumptions C16_consistent_pair.

Theorem C16_sign_sees_one_load : forall sk calls g0 sched t f1 g1 s1 f2 g2 s2,
  wf_skeleton sk = true ->
  In t (cf_ths (run_sched sched (init g0 (threads_of sk calls)))) ->
  In (f1, g1, s1) (th_obs t) -> In (f2, g2, s2) (th_obs t) ->
  g1 = g2 /\ s1 = {| g_jwk := g1; g_key := g1; g_pub := g1 |} /\ s2 = s1.
Proof. exact sign_sees_one_load. Qed.
Print Assumptions C16_sign_sees_one_load.

(** the hypothesis is not idle: a Sign taking the read lock once per field is rejected
    by the check and has an interleaving with a torn (JWK, key) pair *)
Theorem C16_torn_skeleton_refuted :
  wf_skeleton torn_skeleton = false /\
  exists sched, conf_consistent (run_sched sched
     (init 0 (threads_of torn_skeleton [("Sign", 0); ("load", 1)]))) = false.
Proof. exact torn_refuted. Qed.
Print Assumptions C16_torn_skeleton_refuted.

Open Scope list_scope.

(** ------------------------------------------------------------------------------------------------
    CONCURRENT EXECUTES (C16/Conc.v).  Any number of calls of Execute — each: Hash() section, cache
    lookup, on a miss signWithHash() section, cache store under the key of the JWK signed with, return —
    interleaved in ANY order with any number of key-store reloads (accepted or rejected), JWKS reads and
    cache-clock advances, at the granularity of critical sections ([crun fx_all c sched (cinit st0 calls)];
    [c] = the catalogue configuration, [st0] = what the first load installed, a call = effective
    configuration of the catalogue finalizer or a variant + request + the instant Sign reads).

    Every token a call returns belongs to one of that call's own critical sections: the schedule contains a
    step of call i itself — its Hash() section (it stood at [PInit]) or its signWithHash() section ([PMiss]),
    i.e. a moment between its start and its return — such that, with [lin] the signer's fields at that
    moment, the token is exactly what Sign makes from [lin] for the request of call i ([made]; so
    C16_system_claims_win, C16_exp_is_ttl_later, C16_header_names_active_key apply to it, fresh or reused):
    it is signed with the key active at that moment, carries its key id and algorithm, verifies against
    the key set published at that moment, and against the key set published at every later moment up to the
    next successful reload (in particular at the moment of return if no reload succeeded in between;
    C16_conc_return_after_reload shows that this proviso is needed). *)
Theorem C16_conc_token_of_own_section : forall c st0 calls sched i t,
  loaded c st0 ->
  result i (crun fx_all c sched (cinit st0 calls)) = Some (Ok t) ->
  exists s1 s2 cl p,
    sched = s1 ++ SThread i :: s2 /\ nth_error calls i = Some cl /\
    pc_of i (crun fx_all c s1 (cinit st0 calls)) = Some p /\ (p = PInit \/ exists k0, p = PMiss k0) /\
    let lin := g_st (crun fx_all c s1 (cinit st0 calls)) in
    loaded c lin /\ made lin cl t /\
    t_key t = s_key lin /\ t_kid t = j_kid (s_jwk lin) /\ t_alg t = j_alg (s_jwk lin) /\
    verifies t (published c lin) = true /\
    forall s2a s2b, s2 = s2a ++ s2b -> quiet c s2a = true ->
      verifies t (published c (g_st (crun fx_all c (s1 ++ SThread i :: s2a) (cinit st0 calls)))) = true.
Proof. intros c. exact (returned_token_linearizes fx_all eq_refl eq_refl c). Qed.
Print Assumptions C16_conc_token_of_own_section.

(** no cross-state cache hit: a token found in the cache by call i under the key k0 of its Hash() section
    was made by the signWithHash() section of some call j at an earlier moment, filed under exactly k0 = the
    key of the signer state of THAT moment, and that state has the same key id, algorithm and key as the one
    call i's Hash() section read; issuer, ttl, claims template and request are call i's as well *)
Theorem C16_conc_hit_same_state : forall c st0 calls s i k0 t,
  loaded c st0 ->
  let G x := crun fx_all c x (cinit st0 calls) in
  pc_of i (G s) = Some (PKeyed k0) -> pc_of i (G (s ++ [SThread i])) = Some (PRet t) ->
  exists j sa sb k0' sh sh' cl cl',
    s = sa ++ SThread j :: sb /\ nth_error calls j = Some cl' /\
    pc_of j (G sa) = Some (PMiss k0') /\ pc_of j (G (sa ++ [SThread j])) = Some (PSigned k0 t) /\
    s = sh ++ SThread i :: sh' /\ nth_error calls i = Some cl /\ pc_of i (G sh) = Some PInit /\
    k0 = key_of fx_all (cl_cfg cl') (g_st (G sa)) (cl_req cl') /\
    k0 = key_of fx_all (cl_cfg cl) (g_st (G sh)) (cl_req cl) /\
    sig_id (g_st (G sa)) = sig_id (g_st (G sh)) /\ cl_req cl' = cl_req cl /\
    issuer (cl_cfg cl') = issuer (cl_cfg cl) /\ ttl_of (cl_cfg cl') = ttl_of (cl_cfg cl) /\
    c_claims (cl_cfg cl') = c_claims (cl_cfg cl).
Proof. intros c. exact (hit_same_state fx_all eq_refl eq_refl c). Qed.
Print Assumptions C16_conc_hit_same_state.

(** the reuse window under any interleaving: a token call i finds in the cache was filed there by the Set step
    of some call j at an earlier moment, under the same key, and less than (ttl of call i) − 5 s of cache time
    lie between that moment and call i's lookup.  (The window starts at the store, not at the signing: time a
    call spends between its Sign section and its Set step is not counted by the code.) *)
Theorem C16_conc_hit_within_window : forall c st0 calls s i k0 t,
  loaded c st0 ->
  let G x := crun fx_all c x (cinit st0 calls) in
  pc_of i (G s) = Some (PKeyed k0) -> pc_of i (G (s ++ [SThread i])) = Some (PRet t) ->
  exists j sa sb cl,
    s = sa ++ SThread j :: sb /\ pc_of j (G sa) = Some (PSigned k0 t) /\ nth_error calls i = Some cl /\
    (g_clock (G s) < g_clock (G sa) + (ttl_of (cl_cfg cl) - cache_leeway))%Z.
Proof. intros c. exact (hit_within_window fx_all eq_refl eq_refl c). Qed.
Print Assumptions C16_conc_hit_within_window.

(** the invariant behind both, for every reachable configuration: the signer's fields are those of one
    loaded file; every cache entry is a logged token filed under the key of the state and call it was made
    under ([made_ok]); every call in flight holds a key / token of a state one of its own sections read *)
Theorem C16_conc_invariant : forall c st0 calls sched,
  loaded c st0 -> cinv fx_all c (crun fx_all c sched (cinit st0 calls)).
Proof. intros c st0 calls sched L. apply (crun_inv fx_all eq_refl eq_refl c), cinit_inv, L. Qed.
Print Assumptions C16_conc_invariant.

(** rejected reloads change nothing: a schedule and the same schedule without its rejected reloads end in
    the same configuration (every call's outcome, cache, signer fields, every JWKS answer) *)
Theorem C16_conc_rejected_reloads_unobservable : forall fx c s g,
  crun fx c (effective c s) g = crun fx c s g.
Proof. exact rejected_reloads_unobservable. Qed.
Print Assumptions C16_conc_rejected_reloads_unobservable.

(** the sequential model's Execute ([exec], the subject of C16_run_meets_spec) is the machine running one
    call: Hash(), Get, the reloads that land there, signWithHash(), Set, return *)
Theorem C16_conc_sequential_is_exec : forall fx c ce w q now mids,
  c_keyid ce = c_keyid c ->
  let cl := {| cl_cfg := ce; cl_req := q; cl_now := now |} in
  let g := crun fx c ([SThread 0; SThread 0] ++ map SReload mids ++ [SThread 0; SThread 0; SThread 0])
                (conf_of w [new_thread cl] []) in
  world_of g = fst (exec fx ce w q now mids) /\ result 0 g = Some (snd (exec fx ce w q now mids)).
Proof. exact conc_sequential_is_exec. Qed.
Print Assumptions C16_conc_sequential_is_exec.

(** examples (vm_compute): four calls around a reload, a roll-back, a rejected reload and another reload —
    the call overtaken by the reload returns the new key's token, the next call under the old store does not
    get it from the cache, later calls reuse each the token of their own state *)
Theorem C16_conc_nonvacuous :
  exists t0 t1,
    map (fun i => result i (crun fx_all f2_cfg ex_sched (cinit (ex_st ex_A) ex_calls))) [0; 1; 2; 3] =
      [Some (Ok t0); Some (Ok t1); Some (Ok t1); Some (Ok t0)] /\
    t_kid t0 = "key-b" /\ t_key t0 = Priv (r_key (f2_entry 8 "key-b")) /\
    t_kid t1 = "key-a" /\ t_key t1 = Priv (r_key (f2_entry 7 "key-a")) /\
    rev (g_jwks (crun fx_all f2_cfg ex_sched (cinit (ex_st ex_A) ex_calls))) =
      [[spec_jwk (f2_entry 7 "key-a")]; [spec_jwk (f2_entry 8 "key-b")]] /\
    loaded f2_cfg (ex_st ex_A) /\ rejected f2_cfg ex_bad = true.
Proof. exact conc_nonvacuous. Qed.
Print Assumptions C16_conc_nonvacuous.

(** C16-F2 as it was, with two calls: the second call, during which key-a is active throughout, is handed
    the first call's key-b token *)
Theorem C16_conc_F2_pinned_refuted :
  exists t0,
    let g := crun fx_F1_only f2_cfg ex_sched (cinit (ex_st ex_A) ex_calls) in
    result 0 g = Some (Ok t0) /\ result 1 g = Some (Ok t0) /\ t_kid t0 = "key-b" /\
    verifies t0 (published f2_cfg (ex_st ex_A)) = false /\
    forallb (fun n => jwk_eqb (s_jwk (g_st (crun fx_F1_only f2_cfg (firstn n ex_sched) (cinit (ex_st ex_A) ex_calls))))
                              (s_jwk (ex_st ex_A))) (seq 8 7) = true.
Proof. exact conc_F2_pinned_refuted. Qed.
Print Assumptions C16_conc_F2_pinned_refuted.

(** C16-F1 as it was, in the concurrent machine: a cache key without the key itself lets a call that starts
    after a same-kid same-algorithm key replacement reuse the replaced key's token; with both repairs it signs afresh *)
Theorem C16_conc_F1_pinned_refuted :
  exists t0 t1,
    let g := crun {| fx_F1 := false; fx_F2 := true |} f2_cfg ex_sched_F1 (cinit (ex_st ex_A) ex_calls_F1) in
    result 0 g = Some (Ok t0) /\ result 1 g = Some (Ok t0) /\
    t_key t0 = Priv (r_key (f2_entry 7 "key-a")) /\ s_key (g_st g) = Priv (r_key (f2_entry 9 "key-a")) /\
    verifies t0 (published f2_cfg (g_st g)) = false /\
    result 1 (crun fx_all f2_cfg ex_sched_F1 (cinit (ex_st ex_A) ex_calls_F1)) = Some (Ok t1) /\
    t_key t1 = Priv (r_key (f2_entry 9 "key-a")).
Proof. exact conc_F1_pinned_refuted. Qed.
Print Assumptions C16_conc_F1_pinned_refuted.

(** a reload between a call's Sign section and its return: the returned token does not verify against the
    key set published at the moment of return (it does against the one of the Sign section's moment) *)
Theorem C16_conc_return_after_reload :
  exists t,
    let sched := [SThread 0; SThread 0; SThread 0; SReload ex_B; SThread 0; SThread 0] in
    let g := crun fx_all f2_cfg sched (cinit (ex_st ex_A) [ex_call "alice" 1000000000000]) in
    result 0 g = Some (Ok t) /\ t_kid t = "key-a" /\
    verifies t (published f2_cfg (g_st g)) = false /\
    verifies t (published f2_cfg (g_st (crun fx_all f2_cfg (firstn 3 sched) (cinit (ex_st ex_A) [ex_call "alice" 1000000000000])))) = true.
Proof. exact conc_return_after_reload. Qed.
Print Assumptions C16_conc_return_after_reload.

(** ------------------------------------------------------------------------------------------------
    DOWN TO LOCK OPERATIONS AND FIELD ACCESSES (C16/ConcGen.v), FOR ALL SECTION PROGRAMS THAT PASS THE CHECK.
    In the fine machine RLock / RUnlock / Lock / Unlock and every single access to s.jwk, s.key, s.pubKeys are
    steps of their own, the RWMutex blocks (a thread whose lock operation is refused stays where it is), a
    reload is a thread (parse outside the lock; Lock; assignments; Unlock) and so is a JWKS request.  Which
    fields the read sections of Hash / signWithHash / Keys read, in which order, and which fields load assigns
    inside its write section is a parameter [P : progs]; the driver reads [P] off the lock skeleton extracted
    from jwt_signer.go on every run ([programs]) and the evaluator checks [progs_ok P] (Hash reads jwk, Sign jwk
    and key, Keys pubKeys, load assigns all three) together with [exec_shape] (Execute = Hash section, Get,
    Sign section, Set with the key from Sign, header).  [gabs] forgets the inside of critical sections
    ([gabs_st]: while a reload holds the lock, the state it is installing; else the fields as they are);
    [gtr_sched] keeps of a fine schedule the steps that release a read lock, acquire the write lock, operate on
    the cache or return.  Every fine schedule is then a schedule of the machine with atomic sections: *)
Theorem C16_fine_is_atomic : forall fx P c st calls files n fs,
  progs_ok P = true ->
  gabs (grun fx P c fs (ginit st calls files n)) =
  crun fx c (gtr_sched fx P c (ginit st calls files n) fs) (cinit st calls).
Proof. intros fx P c st calls files n fs POK. exact (gen_is_atomic fx P POK c st calls files n fs). Qed.
Print Assumptions C16_fine_is_atomic.

(** ... step by step, with the invariant that a writer excludes readers and other writers, that what a reader
    has copied so far are the current field values (and every field of its program it has passed), and that
    every field is the new one or still to be assigned by the writer *)
Theorem C16_fine_refines : forall fx P c s g,
  progs_ok P = true -> ginv P g ->
  gabs (grun fx P c s g) = crun fx c (gtr_sched fx P c g s) (gabs g) /\ ginv P (grun fx P c s g).
Proof. intros fx P c s g POK. exact (gen_refines fx P POK c s g). Qed.
Print Assumptions C16_fine_refines.

(** and so, for all interleavings at that level: a returned token belongs to the moment at which the call
    itself releases the read lock of its Hash section or of its Sign section — [lin] = the signer's three
    fields at that moment is what ONE file loaded, and the token is what Sign makes from it for this request:
    signed with the key then active, naming its key id and algorithm, verifying against the key set then
    published *)
Theorem C16_fine_token_of_own_section : forall P c st0 calls files n fs i th t,
  progs_ok P = true -> loaded c st0 ->
  nth_error (h_exs (grun fx_all P c fs (ginit st0 calls files n))) i = Some th -> gt_pc th = GDone (Ok t) ->
  exists fs1 fs2 cl thm,
    fs = fs1 ++ GEx i :: fs2 /\ nth_error calls i = Some cl /\
    let gm := grun fx_all P c fs1 (ginit st0 calls files n) in
    nth_error (h_exs gm) i = Some thm /\
    ((exists cp, gt_pc thm = GHash [] cp) \/ (exists k0 cp, gt_pc thm = GSign k0 [] cp)) /\
    let lin := h_sh gm in
    loaded c lin /\ made lin cl t /\
    t_key t = s_key lin /\ t_kid t = j_kid (s_jwk lin) /\ t_alg t = j_alg (s_jwk lin) /\
    verifies t (published c lin) = true.
Proof. intros P c st0 calls files n fs i th t POK. exact (gen_token_of_own_section fx_all eq_refl eq_refl P POK c st0 calls files n fs i th t). Qed.
Print Assumptions C16_fine_token_of_own_section.

(** example (vm_compute), with the programs of the tree as it is: a reload waits for a reader, readers and a
    JWKS request wait for the reload, the fields are torn in the middle of the write section where nobody can
    look; the translated schedule *)
Theorem C16_fine_nonvacuous :
  let g0 := ginit (ex_st ex_A) [ex_call "alice" 1000000000000; ex_call "alice" 1001000000000] [ex_B] 1 in
  let at_ n := grun fx_all progs_now f2_cfg (firstn n fx_sched) g0 in
  exists t,
    map gt_pc (h_exs (at_ 27)) = [GDone (Ok t); GDone (Ok t)] /\ t_kid t = "key-b" /\
    map grt_pc (h_rls (at_ 3)) = [GRInit] /\ gwriters (at_ 5) = true /\
    map gt_pc (h_exs (at_ 8)) = [GKeyed (key_of fx_all f2_cfg (ex_st ex_A) (q_of "alice")); GInit] /\ h_jws (at_ 8) = [GJInit] /\
    s_jwk (h_sh (at_ 8)) = s_jwk (ex_st ex_B) /\ s_key (h_sh (at_ 8)) = s_key (ex_st ex_A) /\
    h_sh (at_ 13) = ex_st ex_B /\ gwriters (at_ 13) = false /\
    h_jwks (at_ 27) = [[spec_jwk (f2_entry 8 "key-b")]] /\
    gtr_sched fx_all progs_now f2_cfg g0 fx_sched =
      [SThread 0; SReload ex_B; SThread 0; SThread 0; SThread 0; SThread 0; SJwks; SThread 1; SThread 1; SThread 1].
Proof. exact fine_nonvacuous. Qed.
Print Assumptions C16_fine_nonvacuous.

(** which programs pass: those of the tree as it is, and e.g. ones that read the key before the JWK or assign
    the published set first; not a Sign section without the key, not a write section that leaves a field out;
    the lock skeleton of the tree as it is ([skeleton_now]; re-extracted and re-checked on every run) satisfies the
    hypothesis [wf_skeleton] of C16_consistent_pair / C16_sign_sees_one_load; a Sign method that is not ONE section
    has no programs at all *)
Theorem C16_fine_programs :
  progs_ok progs_now = true /\ progs_ok progs_alt = true /\
  progs_ok {| p_hash := [FJwk]; p_sign := [FJwk]; p_keys := [FPub]; p_load := [FJwk; FKey; FPub] |} = false /\
  progs_ok {| p_hash := [FJwk]; p_sign := [FJwk; FKey]; p_keys := [FPub]; p_load := [FJwk; FKey] |} = false /\
  programs skeleton_now xs_fixed = Some progs_now /\
  wf_skeleton skeleton_now = true /\ has_roles skeleton_now = true /\
  programs [("load", [ELock; EDeferUnlock; EWrite FJwk; EWrite FKey; EWrite FPub; ERet]); ("Hash", [ERLock; ERead FJwk; ERUnlock]);
            ("signWithHash", [ERLock; ERead FJwk; ERUnlock; ERLock; ERead FKey; ERUnlock; ERet]);
            ("Keys", [ERLock; EDeferRUnlock; ERead FPub; ERet])] xs_fixed = None.
Proof. exact progs_examples. Qed.
Print Assumptions C16_fine_programs.
