(** C17 — Mechanisms are immutable once loaded; rule-level overrides stay local.
    Property theorems only; proofs are in C17/Proofs.v and C17/VProofs.v.

    Two tables are REGENERATED from the current source of /repo by harness/tools/effects on every run:

    [generated_table] (Gen/Effects.v): per mechanism type and method, the instructions that may write memory
    reachable from the receiver.  [effects_read_only] (Gen/EffectsOk.v): there are none.

    [generated_variants] (Gen/Variants.v): per mechanism type, how [WithConfig] (and the constructors / Merge
    helpers / closures it calls) builds every field of the instance it returns — the receiver's own field
    shared or copied, fresh, fresh but computed from a receiver field, possibly sharing memory with a receiver
    field, or not set at all —, which methods write the field, and what WithConfig writes in the receiver.
    [variants_ok]: every row passes [variant_row_ok] (C17/VModel.v): the receiver is not written, and every
    field is the receiver's SAME field which nobody writes, or fresh memory (computed, if at all, from fields
    nobody writes).  [variants_aligned]: both tables list the same types in the same order.

    A code change that makes a method write receiver memory, or makes WithConfig alias / overwrite / forget /
    inherit-then-mutate a field, makes one of these Examples — hence this file — fail to compile.

    Model (C17/Model.v, C17/VModel.v): a store of cells; a mechanism instance is a record of cell references,
    one per field; calls interleave access by access; a call writes only if the effect table lists a write for
    the called method, and only cells of fields whose row entry names the method; a finished WithConfig builds
    the variant FROM THE ROW of its type ([build]: shares the receiver's cell, copies its current value, writes
    it in place, allocates, or leaves zero — as the sources say), along any path the row allows.
    [has_row etbl p]: the Go type of [p] is a mechanism type of the table; [vcatalogue_ok]: the prototypes'
    cells exist, one per field of their row. *)
From HV Require Import Base.Prelude C17.Model C17.Proofs C17.VModel C17.VProofs Gen.Effects Gen.EffectsOk Gen.Variants.

(** executing mechanisms, calling accessors and creating variants — any number, any interleaving — changes no
    cell that existed before: the prototype and every earlier variant keep their configuration *)
Theorem C17_store_unchanged : forall s0 cat c1 c2,
  vcatalogue_ok generated_variants s0 cat -> (forall p, In p cat -> has_row generated_table p) ->
  vsteps generated_table generated_variants (init s0 cat) c1 -> vsteps generated_table generated_variants c1 c2 ->
  (exists ext, c_store c2 = c_store c1 ++ ext) /\
  (forall i, In i (c_insts c1) -> In i (c_insts c2) /\ view (c_store c2) i = view (c_store c1) i).
Proof.
  intros s0 cat c1 c2 Hc Hu.
  exact (v_store_unchanged generated_table generated_variants s0 cat effects_read_only variants_ok Hc Hu c1 c2).
Qed.
Print Assumptions C17_store_unchanged.

(** no interleaving contains two concurrent conflicting accesses *)
Theorem C17_race_free : forall s0 cat c,
  vcatalogue_ok generated_variants s0 cat -> (forall p, In p cat -> has_row generated_table p) ->
  vsteps generated_table generated_variants (init s0 cat) c -> ~ race c.
Proof.
  intros s0 cat c Hc Hu.
  exact (v_race_free generated_table generated_variants s0 cat effects_read_only variants_ok Hc Hu c).
Qed.
Print Assumptions C17_race_free.

(** no running call ever has a write ahead of it *)
Theorem C17_calls_read_only : forall s0 cat c t a,
  vcatalogue_ok generated_variants s0 cat -> (forall p, In p cat -> has_row generated_table p) ->
  vsteps generated_table generated_variants (init s0 cat) c -> In t (c_thr c) -> In a (t_todo t) -> acc_is_write a = false.
Proof.
  intros s0 cat c t a Hc Hu.
  exact (v_calls_read_only generated_table generated_variants s0 cat effects_read_only variants_ok Hc Hu c t a).
Qed.
Print Assumptions C17_calls_read_only.

(** each rule observes exactly the catalogue configuration of its prototype overlaid with its own overrides *)
Theorem C17_overrides_local : forall s0 cat c i,
  vcatalogue_ok generated_variants s0 cat -> (forall p, In p cat -> has_row generated_table p) ->
  vsteps generated_table generated_variants (init s0 cat) c -> In i (c_insts c) ->
  spec_view s0 cat i = Some (view (c_store c) i).
Proof.
  intros s0 cat c i Hc Hu.
  exact (v_overrides_local generated_table generated_variants s0 cat effects_read_only variants_ok Hc Hu c i).
Qed.
Print Assumptions C17_overrides_local.

(** … regardless of which other rules exist or were loaded before *)
Theorem C17_order_independent : forall s0 cat c c' i i',
  vcatalogue_ok generated_variants s0 cat -> (forall p, In p cat -> has_row generated_table p) ->
  vsteps generated_table generated_variants (init s0 cat) c -> vsteps generated_table generated_variants (init s0 cat) c' ->
  In i (c_insts c) -> In i' (c_insts c') ->
  i_origin i = i_origin i' -> i_ovrs i = i_ovrs i' ->
  view (c_store c) i = view (c_store c') i'.
Proof.
  intros s0 cat c c' i i' Hc Hu.
  exact (v_order_independent generated_table generated_variants s0 cat effects_read_only variants_ok Hc Hu c c' i i').
Qed.
Print Assumptions C17_order_independent.

(** the same statements hold for EVERY pair of tables that pass the two boolean checks (the theorems do not
    depend on today's tables; nothing about WithConfig is assumed beyond what [variant_row_ok] checks) *)
Theorem C17_for_every_table : forall etbl vtbl,
  forallb row_ok etbl = true -> forallb variant_row_ok vtbl = true ->
  forall s0 cat, vcatalogue_ok vtbl s0 cat -> (forall p, In p cat -> has_row etbl p) ->
  forall c, vsteps etbl vtbl (init s0 cat) c ->
    ~ race c /\
    (forall i, In i (c_insts c) -> spec_view s0 cat i = Some (view (c_store c) i)) /\
    (forall c2, vsteps etbl vtbl c c2 ->
       (exists ext, c_store c2 = c_store c ++ ext) /\
       forall i, In i (c_insts c) -> In i (c_insts c2) /\ view (c_store c2) i = view (c_store c) i).
Proof.
  intros etbl vtbl He Hv s0 cat Hc Hu c Hs. split; [|split].
  - eapply v_race_free; eauto.
  - intros i Hi. eapply v_overrides_local; eauto.
  - intros c2 H2. eapply v_store_unchanged; eauto.
Qed.
Print Assumptions C17_for_every_table.

(** LOCALITY FROM THE VARIANT TABLE (no hypothesis on the effect table).  For every variant table that passes
    [variant_row_ok], every effect table, and a catalogue whose cells are separated ([cat_separate]: no prototype keeps
    a field somebody writes in the cell of a field nobody writes — a hypothesis about the CONSTRUCTORS, which no table
    establishes; trivially true for today's table, which has no written field) — for methods that write only the
    fields the variant table lists for them ([vf_writers], part of the trusted extraction; the semantics confines
    writes to these fields): in every
    reachable configuration every field NOBODY writes, of every instance, holds exactly its prototype's
    catalogue value overlaid with the instance's own overrides.  So overrides are local, independent of what
    else was created or executed, and the prototype keeps these fields: a variant never aliases, and never
    starts from, receiver state that a later operation writes. *)
Theorem C17_locality_from_variant_table : forall etbl vtbl,
  forallb variant_row_ok vtbl = true ->
  forall s0 cat, vcatalogue_ok vtbl s0 cat -> cat_separate vtbl cat ->
  forall c, vsteps etbl vtbl (init s0 cat) c ->
  forall i k cl, In i (c_insts c) -> immutable_at vtbl i k -> nth_error (i_cells i) k = Some cl ->
    spec_field s0 cat i k = Some (rd (c_store c) cl).
Proof.
  intros etbl vtbl Hv s0 cat Hc Hsep c Hs i k cl Hi Him Hk.
  exact (immutable_fields_local etbl vtbl s0 cat Hv Hc Hsep c i k cl Hs Hi Him Hk).
Qed.
Print Assumptions C17_locality_from_variant_table.

(** … and a running call only ever writes cells of its own instance's written fields: never the cell of a field
    nobody writes, of any instance (prototype or variant) *)
Theorem C17_writes_stay_local : forall etbl vtbl,
  forallb variant_row_ok vtbl = true ->
  forall s0 cat, vcatalogue_ok vtbl s0 cat -> cat_separate vtbl cat ->
  forall c, vsteps etbl vtbl (init s0 cat) c ->
  forall t cw v i k, In t (c_thr c) -> In (AWrite cw v) (t_todo t) ->
    In i (c_insts c) -> immutable_at vtbl i k -> nth_error (i_cells i) k <> Some cw.
Proof.
  intros etbl vtbl Hv s0 cat Hc Hsep c Hs t cw v i k.
  exact (writes_stay_local etbl vtbl s0 cat Hv Hc Hsep c t cw v i k Hs).
Qed.
Print Assumptions C17_writes_stay_local.

(** the simple model the correspondence evaluator executes ([make_variant]: fresh cells for overridden fields,
    the rest shared) and the table-driven one show the same view of a new variant, for every row under the
    check and every path through it *)
Theorem C17_variant_views_agree : forall vr src picks ovr (s s' : store) (cs : list cell),
  variant_row_ok vr = true -> picks_from (v_fields vr) picks ->
  length (i_cells src) = length (v_fields vr) ->
  (forall c, In c (i_cells src) -> c < length s) ->
  build (i_cells src) s picks ovr = Some (s', cs) ->
  map (rd s') cs = view (fst (make_variant s src ovr)) (snd (make_variant s src ovr)).
Proof. exact variant_views_agree. Qed.
Print Assumptions C17_variant_views_agree.

(** the sequential semantics that the correspondence evaluator executes ([run_ops], with [make_variant]) is a
    schedule of the interleaving semantics of C17/Model.v and meets the specification: after ANY list of
    operations every instance shows its prototype's catalogue configuration overlaid with its own overrides,
    and the store that existed before is only extended *)
Theorem C17_sequential_runs_meet_spec : forall s0 cat os s insts,
  catalogue_ok s0 cat -> (forall p, In p cat -> has_row generated_table p) ->
  run_ops generated_table (s0, cat) os = Some (s, insts) ->
  (exists ext, s = s0 ++ ext) /\ (exists more, insts = cat ++ more) /\
  forall i, In i insts -> spec_view s0 cat i = Some (view s i).
Proof. intros s0 cat os s insts. exact (run_ops_spec generated_table effects_read_only s0 cat os s insts). Qed.
Print Assumptions C17_sequential_runs_meet_spec.

(** finding C17-F1 (repaired by fix: commit 13721c3), as it was at the pinned revision: [f1_row] is the row the
    translator then extracted for jwtAuthenticator (Execute reaches the stores of MetadataEndpoint.init), reduced by
    hand to the methods Execute / WithConfig and one cell.  For the
    table consisting of that row the check [forallb row_ok] fails, and in the model two concurrent executions of
    the prototype race and the shared prototype changes.  (Documentation of the repaired defect; no statement about
    today's tree.) *)
Theorem C17_F1_pinned_refuted :
  forallb row_ok [f1_row] = false /\
  catalogue_ok [0%Z] [f1_proto] /\ has_row [f1_row] f1_proto /\
  (exists c, steps [f1_row] (init [0%Z] [f1_proto]) c /\ race c) /\
  (exists c, steps [f1_row] (init [0%Z] [f1_proto]) c /\ view (c_store c) f1_proto <> view [0%Z] f1_proto).
Proof. exact F1_pinned_refuted. Qed.
Print Assumptions C17_F1_pinned_refuted.

(** what the variant check rejects, on two seeded changes (rows as extracted from the changed trees, REDUCED BY HAND
    to two fields with the indices renumbered — the real row has [VMixAlias 5] —; no statement about today's tree).  corpus/C17/mutations/M2 — WithConfig re-uses the prototype's [scopes] backing array:
    [variant_row_ok] fails and in the model creating a variant with other scopes CHANGES THE PROTOTYPE. *)
Theorem C17_variant_check_refutes_M2 :
  variant_row_ok m2_vrow = false /\ vcatalogue_ok [m2_vrow] [1%Z; 10%Z] [two_proto] /\
  exists c, vsteps [m2_erow] [m2_vrow] (init [1%Z; 10%Z] [two_proto]) c /\
            view (c_store c) two_proto = [1%Z; 99%Z] /\ view [1%Z; 10%Z] two_proto = [1%Z; 10%Z].
Proof. exact M2_refuted. Qed.
Print Assumptions C17_variant_check_refutes_M2.

(** seeded/C17-9 — a cache-key memo (atomic.Value, filled by Execute) is copied by [cfg := f.cfg]:
    [variant_row_ok] fails on field cfg.cacheKey and in the model a variant with its own scopes, created after
    the prototype executed once, shows the prototype's memo instead of catalogue + own overrides *)
Theorem C17_variant_check_refutes_seeded_9 :
  variant_row_ok s9_vrow = false /\ vcatalogue_ok [s9_vrow] [5%Z; 0%Z] [two_proto] /\
  exists c v, vsteps [s9_erow] [s9_vrow] (init [5%Z; 0%Z] [two_proto]) c /\ In v (c_insts c) /\
              i_origin v = 0 /\ i_ovrs v = [[Some 6%Z; None]] /\
              view (c_store c) v = [6%Z; 7%Z] /\ spec_view [5%Z; 0%Z] [two_proto] v = Some [6%Z; 0%Z].
Proof. exact S9_refuted. Qed.
Print Assumptions C17_variant_check_refutes_seeded_9.

(** the hypotheses are satisfiable: rows under both checks, a catalogue, a run in which a variant is built from
    its row while the prototype executes; and a variant table WITH a written field that passes the check *)
Theorem C17_nonvacuous :
  (forallb row_ok [nv_row] = true /\ forallb variant_row_ok [vnv_vrow] = true /\ tables_aligned [nv_row] [vnv_vrow] = true /\
   vcatalogue_ok [vnv_vrow] [10%Z; 20%Z] [two_proto] /\ has_row [nv_row] two_proto /\
   exists c v, vsteps [nv_row] [vnv_vrow] (init [10%Z; 20%Z] [two_proto]) c /\ In v (c_insts c) /\
     i_ovrs v = [[None; Some 99%Z]] /\ view (c_store c) v = [10%Z; 99%Z] /\
     view (c_store c) two_proto = [10%Z; 20%Z] /\ c_thr c <> []) /\
  (forallb variant_row_ok [loc_vrow] = true /\ vcatalogue_ok [loc_vrow] [5%Z; 0%Z] [two_proto] /\
   cat_separate [loc_vrow] [two_proto] /\
   immutable_at [loc_vrow] two_proto 0 /\ writable_at [loc_vrow] two_proto 1).
Proof. split; [exact v_nonvacuous|exact locality_nonvacuous]. Qed.
Print Assumptions C17_nonvacuous.

(** the hypotheses of the five main theorems have a witness for TODAY's generated tables: a catalogue with one prototype
    of the first mechanism type (one cell per field of its row) satisfies [vcatalogue_ok generated_variants] and
    [has_row generated_table], and [init] is reachable.  (Runs that create variants are exhibited on small tables in
    [C17_nonvacuous]; for the mechanism types whose WithConfig only returns the receiver or an error every field has
    [vf_srcs = []], so [VsVariant] can never fire for them — faithfully: no variant of them is ever constructed.) *)
Theorem C17_hypotheses_satisfiable_today :
  exists (s0 : store) (cat : list inst), cat <> nil /\
    vcatalogue_ok generated_variants s0 cat /\
    (forall p, In p cat -> has_row generated_table p) /\
    vsteps generated_table generated_variants (init s0 cat) (init s0 cat).
Proof.
  remember generated_table as et eqn:Het. remember generated_variants as vt eqn:Hvt.
  assert (Hl : List.length et >= 10) by (subst; apply table_covers_mechanisms).
  assert (Ha : tables_aligned et vt = true) by (subst; exact variants_aligned).
  destruct et as [|er erest]; [simpl in Hl; lia|]. destruct vt as [|vr vrest]; [simpl in Ha; discriminate|].
  exists (repeat 0%Z (List.length (v_fields vr))), [proto_of vr].
  destruct (catalogue_exists er erest vr vrest) as [A B].
  split; [discriminate|]. split; [exact A|]. split; [exact B|apply vsteps_refl].
Qed.
Print Assumptions C17_hypotheses_satisfiable_today.

(** today's tables are not empty-handed: rows for at least ten mechanism types, each with an Execute and a
    WithConfig method; the variant table speaks about the same types in the same order, and at least ten of its
    rows describe an instance that WithConfig really constructs (some field has a source) *)
Theorem C17_table_covers_mechanisms :
  List.length generated_table >= 10 /\
  forallb (fun r => match may_write r "Execute", may_write r "WithConfig" with
                    | Some _, Some _ => true | _, _ => false end) generated_table = true /\
  tables_aligned generated_table generated_variants = true /\
  List.length (filter (fun vr => existsb (fun f => negb (is_nil (vf_srcs f))) (v_fields vr)) generated_variants) >= 10.
Proof.
  destruct table_covers_mechanisms as [A B]. split; [exact A|]. split; [exact B|]. split; [exact variants_aligned|].
  exact variants_cover.
Qed.
Print Assumptions C17_table_covers_mechanisms.
