(** C17 — Mechanisms are immutable once loaded; rule-level overrides stay local.
    Property theorems only; proofs are in C17/Proofs.v.

    [generated_table] (Gen/Effects.v) is the receiver-write effect table that
    harness/tools/effects extracts from the CURRENT source of /repo on every run;
    [effects_read_only] (Gen/EffectsOk.v) is the kernel-checked fact that no method
    of any mechanism type has a receiver-write effect.  A code change that makes an
    Execute / WithConfig / accessor of a mechanism write receiver-reachable memory
    makes [effects_read_only], hence this file, fail to compile.

    Model (C17/Model.v): a store of cells; a mechanism instance is a record of
    cell references; WithConfig allocates fresh cells for overridden fields and
    shares the rest; calls interleave access by access; a call writes only if the
    table lists a write effect for the called method.  [has_row tbl p]: the
    Go type of [p] is a mechanism type of the table. *)
From HV Require Import Base.Prelude C17.Model C17.Proofs Gen.Effects Gen.EffectsOk.

(** executing mechanisms, calling accessors and creating variants — any number,
    any interleaving — changes no cell that existed before: the prototype and
    every earlier variant keep their configuration *)
Theorem C17_store_unchanged : forall s0 cat c1 c2,
  catalogue_ok s0 cat -> (forall p, In p cat -> has_row generated_table p) ->
  steps generated_table (init s0 cat) c1 -> steps generated_table c1 c2 ->
  (exists ext, c_store c2 = c_store c1 ++ ext) /\
  (forall i, In i (c_insts c1) -> In i (c_insts c2) /\ view (c_store c2) i = view (c_store c1) i).
Proof. intros s0 cat c1 c2 Hc Hu. exact (store_unchanged generated_table effects_read_only s0 cat Hc Hu c1 c2). Qed.
Print Assumptions C17_store_unchanged.

(** no interleaving contains two concurrent conflicting accesses *)
Theorem C17_race_free : forall s0 cat c,
  catalogue_ok s0 cat -> (forall p, In p cat -> has_row generated_table p) ->
  steps generated_table (init s0 cat) c -> ~ race c.
Proof. intros s0 cat c Hc Hu. exact (race_free generated_table effects_read_only s0 cat Hc Hu c). Qed.
Print Assumptions C17_race_free.

(** no running call ever has a write ahead of it *)
Theorem C17_calls_read_only : forall s0 cat c t a,
  catalogue_ok s0 cat -> (forall p, In p cat -> has_row generated_table p) ->
  steps generated_table (init s0 cat) c -> In t (c_thr c) -> In a (t_todo t) -> acc_is_write a = false.
Proof. intros s0 cat c t a Hc Hu. exact (calls_read_only generated_table effects_read_only s0 cat Hc Hu c t a). Qed.
Print Assumptions C17_calls_read_only.

(** each rule observes exactly the catalogue configuration of its prototype
    overlaid with its own overrides *)
Theorem C17_overrides_local : forall s0 cat c i,
  catalogue_ok s0 cat -> (forall p, In p cat -> has_row generated_table p) ->
  steps generated_table (init s0 cat) c -> In i (c_insts c) ->
  spec_view s0 cat i = Some (view (c_store c) i).
Proof. intros s0 cat c i Hc Hu. exact (overrides_local generated_table effects_read_only s0 cat Hc Hu c i). Qed.
Print Assumptions C17_overrides_local.

(** … regardless of which other rules exist or were loaded before *)
Theorem C17_order_independent : forall s0 cat c c' i i',
  catalogue_ok s0 cat -> (forall p, In p cat -> has_row generated_table p) ->
  steps generated_table (init s0 cat) c -> steps generated_table (init s0 cat) c' ->
  In i (c_insts c) -> In i' (c_insts c') ->
  i_origin i = i_origin i' -> i_ovrs i = i_ovrs i' ->
  view (c_store c) i = view (c_store c') i'.
Proof. intros s0 cat c c' i i' Hc Hu. exact (order_independent generated_table effects_read_only s0 cat Hc Hu c c' i i'). Qed.
Print Assumptions C17_order_independent.

(** the same statements hold for EVERY effect table that passes the boolean
    check (the theorems do not depend on today's table) *)
Theorem C17_for_every_table : forall tbl, forallb row_ok tbl = true ->
  forall s0 cat, catalogue_ok s0 cat -> (forall p, In p cat -> has_row tbl p) ->
  forall c, steps tbl (init s0 cat) c ->
    ~ race c /\
    (forall i, In i (c_insts c) -> spec_view s0 cat i = Some (view (c_store c) i)) /\
    (forall c2, steps tbl c c2 -> exists ext, c_store c2 = c_store c ++ ext).
Proof.
  intros tbl Ht s0 cat Hc Hu c Hs. split; [|split].
  - eapply race_free; eauto.
  - intros i Hi. eapply overrides_local; eauto.
  - intros c2 H2. eapply store_unchanged; eauto.
Qed.
Print Assumptions C17_for_every_table.

(** the sequential semantics that the correspondence evaluator executes ([run_ops]) is a
    schedule of the interleaving semantics, and so meets the specification: after ANY list
    of operations every instance shows its prototype's catalogue configuration overlaid with
    its own overrides, and the store that existed before is only extended *)
Theorem C17_sequential_runs_meet_spec : forall s0 cat os s insts,
  catalogue_ok s0 cat -> (forall p, In p cat -> has_row generated_table p) ->
  run_ops generated_table (s0, cat) os = Some (s, insts) ->
  (exists ext, s = s0 ++ ext) /\ (exists more, insts = cat ++ more) /\
  forall i, In i insts -> spec_view s0 cat i = Some (view s i).
Proof. intros s0 cat os s insts. exact (run_ops_spec generated_table effects_read_only s0 cat os s insts). Qed.
Print Assumptions C17_sequential_runs_meet_spec.

(** finding C17-F1 (repaired by fix: commit 13721c3), as it was at the pinned revision: [f1_row] is the row the
    translator then extracted for jwtAuthenticator (Execute reaches the stores of MetadataEndpoint.init).  For the
    table consisting of that row the check [forallb row_ok] fails, and in the model two concurrent executions of
    the prototype race and the shared prototype changes.  (Documentation of the repaired defect; no statement about
    today's tree.) *)
Theorem C17_F1_pinned_refuted :
  forallb row_ok [f1_row] = false /\
  catalogue_ok [0%Z] [f1_proto] /\ has_row [f1_row] f1_proto /\
  (exists c, steps [f1_row] (init [0%Z] [f1_proto]) c /\ race c) /\
  (exists c, steps [f1_row] (init [0%Z] [f1_proto]) c /\ view (c_store c) f1_proto <> view [0%Z] f1_proto).
Proof. exact F1_pinned_refuted. Qed.
Print Assumptions C17_F1_pinned_refuted.

(** the hypotheses are satisfiable: a read-only row, a catalogue, a run in which a
    variant is created while the prototype executes *)
Theorem C17_nonvacuous :
  forallb row_ok [nv_row] = true /\ catalogue_ok [10%Z; 20%Z] [nv_proto] /\
  has_row [nv_row] nv_proto /\
  exists c v, steps [nv_row] (init [10%Z; 20%Z] [nv_proto]) c /\ In v (c_insts c) /\
    i_ovrs v = [[None; Some 99%Z]] /\ view (c_store c) v = [10%Z; 99%Z] /\
    view (c_store c) nv_proto = [10%Z; 20%Z] /\ c_thr c <> [].
Proof. exact nonvacuous. Qed.
Print Assumptions C17_nonvacuous.

(** today's table is not empty-handed: it has rows for at least ten mechanism types and every row
    has an Execute and a WithConfig method (so [has_row] / [callable] are satisfiable for them) *)
Theorem C17_table_covers_mechanisms :
  List.length generated_table >= 10 /\
  forallb (fun r => match may_write r "Execute", may_write r "WithConfig" with
                    | Some _, Some _ => true | _, _ => false end) generated_table = true.
Proof. exact table_covers_mechanisms. Qed.
Print Assumptions C17_table_covers_mechanisms.
