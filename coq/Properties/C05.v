(** C05 — JWT authentication accepts exactly the correctly signed, asserted tokens.
    Property theorems only; proofs are in C05/Proofs.v, the specification
    vocabulary ([spec_accepts], [trusted_issuers], [allowed_algs], [expected_audiences],
    [required_scopes], [leeway], [scopes_satisfied], [sane_clock], [guard_F1], [guard_F2], [guard_F3], [guard_F5],
    [open_guards] (= [guard_F3], the only open finding)) in C05/Spec.v, [guard_F4], [guard_F6] in
    C05/CacheProofs.v, [demands] and [window_ok] in C05/Proofs.v.

    [authenticate cf ks now cred] is jwtAuthenticator.Execute on a request whose
    configured sources yield [cred], for the mechanism + rule-level configuration
    [cf], the key set [ks] published by the JWKS endpoint and the clock [now] (ns).
    [sig_ok t k] (does the signature of [t] verify with the material of [k]) and
    certificate validity are oracles: cryptography is not modelled.
    [authenticate] is the code as it is now, i.e. with the fix: commits a3a89b7
    (C05-F1), f16c3cc (C05-F2) and d55629a (C05-F5); [authenticate_pinned] is the code as it is with
    a3a89b7 and f16c3cc reverted (the later repair d55629a kept; not a state /repo was ever in). *)
From HV Require Import Base.Prelude Base.Time C05.Model C05.Spec C05.Proofs C05.ScopeProofs C05.Cache C05.CacheProofs.

(** A subject is created only if: a key [k] published by the key-set endpoint
    (the unique one with the token's kid, any one if the token has none; with a
    valid certificate if it carries one) verifies the signature, declares the
    token's `alg`, which is allowed and supported; the claims decode; the issuer
    is trusted; an expected audience is present when audiences are configured;
    the required scopes are matched; now is inside [nbf - leeway, exp + leeway)
    and `iat` is not in the future; the subject id is the configured member of
    these claims.  ([demands], unfolded in C05_demands_unfold below.) *)
Theorem C05_accept_sound : forall cf ks now t sub,
  sane_clock cf now -> open_guards cf (CToken t) = false ->
  authenticate cf ks now (CToken t) = Accepted sub ->
  demands cf ks now t sub.
Proof. exact accept_sound. Qed.
Print Assumptions C05_accept_sound.

Theorem C05_demands_unfold : forall cf ks now t sub,
  demands cf ks now t sub <->
  exists k,
    In k ks /\
    (t_kid t <> ""%string -> k_kid k = t_kid t /\ unique_kid ks k (t_kid t)) /\
    (cf_validate_jwk cf = true -> k_cert k <> CertBad) /\
    sig_ok t k = true /\
    k_alg k = t_alg t /\ In (k_alg k) (allowed_algs cf) /\ In (t_alg t) supported_algs /\
    c_malformed (t_claims t) = false /\
    c_iss (t_claims t) <> ""%string /\ In (c_iss (t_claims t)) (trusted_issuers cf) /\
    (expected_audiences cf <> [] ->
       exists a, In a (expected_audiences cf) /\ In a (strs_of (c_aud (t_claims t)))) /\
    match_scopes (required_scopes cf) (eff_scopes (t_claims t)) = true /\
    ((forall n, c_nbf (t_claims t) = Some n -> n <= unix now + leeway_secs cf)%Z /\
     (forall e, c_exp (t_claims t) = Some e -> unix now - leeway_secs cf < e)%Z /\
     (forall i, c_iat (t_claims t) = Some i -> secs i <= now + leeway cf)%Z) /\
    sub = lookup (cf_id_from cf) (c_fields (t_claims t)) /\ sub <> ""%string.
Proof. exact demands_unfold. Qed.
Print Assumptions C05_demands_unfold.

(** "accepts exactly": conversely, a token meeting the demands is accepted *)
Theorem C05_accept_complete : forall cf ks now t sub,
  sane_clock cf now -> open_guards cf (CToken t) = false ->
  t_payload_obj t = true -> cf_remote cf = RUp ->
  demands cf ks now t sub ->
  authenticate cf ks now (CToken t) = Accepted sub.
Proof. exact accept_complete. Qed.
Print Assumptions C05_accept_complete.

(** both directions at once, for every kind of credential, against the executable specification;
    the one guard left ([open_guards] = [guard_F3]) is the open finding C05-F3 (`exp` = -62135596800, the
    Unix time of Go's zero time.Time, counts as absent) *)
Theorem C05_authenticate_iff_spec : forall cf ks now cr,
  sane_clock cf now -> open_guards cf cr = false ->
  accepted_sub (authenticate cf ks now cr) = spec_accepts cf ks now cr.
Proof. exact authenticate_spec. Qed.
Print Assumptions C05_authenticate_iff_spec.

(** C05-F3 (open): `exp` exactly -62135596800 still counts as "no expiry" *)
Theorem C05_F3_refuted :
  exists cf ks now cr, sane_clock cf now /\ guard_F3 cr = true /\
    accepted_sub (authenticate cf ks now cr) = Some "alice"%string /\ spec_accepts cf ks now cr = None.
Proof. exact F3_refuted. Qed.
Print Assumptions C05_F3_refuted.

(** C05-F5 (repaired by d55629a; the model has the repair): no issuers configured and an (unverified) metadata
    document without issuer, so that "" is the only trusted issuer: a correctly signed token WITHOUT `iss` is refused *)
Example C05_F5_fixed :
  exists cf ks now cr, sane_clock cf now /\ guard_F5 cf cr = true /\
    authenticate cf ks now cr = Failed EAssertion /\ spec_accepts cf ks now cr = None.
Proof. exact F5_fixed. Qed.
Print Assumptions C05_F5_fixed.

(** the code as it is with a3a89b7 / f16c3cc reverted (later repairs kept) meets the specification outside C05-F1 (`exp <= 0` never expires)
    and C05-F2 (`nbf`/`iat` beyond int64 count as not set) ... *)
Theorem C05_pinned_iff_spec : forall cf ks now cr,
  sane_clock cf now -> guard_F1 cr = false -> guard_F2 cr = false ->
  accepted_sub (authenticate_pinned cf ks now cr) = spec_accepts cf ks now cr.
Proof. exact pinned_spec. Qed.
Print Assumptions C05_pinned_iff_spec.

(** ... and violated it there; the witnesses are rejected by the code as it is now *)
Theorem C05_F1_pinned_refuted :
  exists cf ks now cr, sane_clock cf now /\ guard_F1 cr = true /\ guard_F2 cr = false /\
    accepted_sub (authenticate_pinned cf ks now cr) = Some "alice"%string /\ spec_accepts cf ks now cr = None /\
    authenticate cf ks now cr = Failed EAssertion.
Proof. exact F1_pinned_refuted. Qed.
Print Assumptions C05_F1_pinned_refuted.

Theorem C05_F2_pinned_refuted :
  exists cf ks now cr, sane_clock cf now /\ guard_F1 cr = false /\ guard_F2 cr = true /\
    accepted_sub (authenticate_pinned cf ks now cr) = Some "alice"%string /\ spec_accepts cf ks now cr = None /\
    authenticate cf ks now cr = Failed EAssertion.
Proof. exact F2_pinned_refuted. Qed.
Print Assumptions C05_F2_pinned_refuted.

(** Unguarded, for every clock and both the current and the former code: no
    subject without a published, usable key that verifies the signature,
    declares the token's algorithm, an allowed one; never from malformed claims
    or an untrusted issuer; the subject id comes from the token's verified claims. *)
Theorem C05_subject_from_verified_claims : forall f1 f2 cf ks now t sub,
  authenticate_gen f1 f2 cf ks now (CToken t) = Accepted sub ->
  In (t_alg t) supported_algs /\
  (exists k, In k ks /\ (t_kid t <> ""%string -> k_kid k = t_kid t /\ unique_kid ks k (t_kid t)) /\
             key_valid cf k = true /\ k_alg k = t_alg t /\ In (k_alg k) (allowed_algs cf) /\ sig_ok t k = true) /\
  c_malformed (t_claims t) = false /\
  In (c_iss (t_claims t)) (trusted_issuers cf) /\
  sub = lookup (cf_id_from cf) (c_fields (t_claims t)) /\ sub <> ""%string.
Proof. exact accepted_core. Qed.
Print Assumptions C05_subject_from_verified_claims.

(** unsigned tokens and unknown algorithms are refused by the parser (argument-kind error) *)
Theorem C05_unsigned_rejected : forall f1 f2 cf ks now t,
  In (t_alg t) ["none"; "None"; "NONE"; "nOnE"; ""]%string \/ ~ In (t_alg t) supported_algs ->
  authenticate_gen f1 f2 cf ks now (CToken t) = Failed EParse.
Proof. exact unsigned_rejected. Qed.
Print Assumptions C05_unsigned_rejected.

(** any token whose signature verifies under no published key — every modification of
    header, payload or signature of a valid token, tokens signed with another key — yields no subject *)
Theorem C05_modified_or_foreign_token_rejected : forall f1 f2 cf ks now t,
  (forall k, In k ks -> sig_ok t k = false) ->
  forall sub, authenticate_gen f1 f2 cf ks now (CToken t) <> Accepted sub.
Proof. exact no_verifying_key_rejected. Qed.
Print Assumptions C05_modified_or_foreign_token_rejected.

(** algorithm confusion: a symmetric `alg` against keys declaring asymmetric algorithms,
    more generally an `alg` that no published key declares or that is not allowed, yields no
    subject — even if the signature oracle said yes *)
Theorem C05_alg_confusion_rejected : forall f1 f2 cf ks now t,
  (symmetric_alg (t_alg t) = true /\ (forall k, In k ks -> symmetric_alg (k_alg k) = false)) \/
  (forall k, In k ks -> k_alg k <> t_alg t) \/
  ~ In (t_alg t) (allowed_algs cf) ->
  forall sub, authenticate_gen f1 f2 cf ks now (CToken t) <> Accepted sub.
Proof. exact alg_confusion_rejected. Qed.
Print Assumptions C05_alg_confusion_rejected.

(** Merge precedence: the assertions in force are the rule level's where set, else
    the mechanism's (with its defaults), else the metadata's issuer; Merge is associative *)
Theorem C05_merge_precedence : forall cf,
  e_issuers (effective cf) = trusted_issuers cf /\
  e_algs (effective cf) = allowed_algs cf /\
  e_aud (effective cf) = expected_audiences cf /\
  e_scopes (effective cf) = Some (required_scopes cf) /\
  leeway_ns (effective cf) = leeway cf /\
  forall a b c, merge (merge a b) c = merge a (merge b c).
Proof. exact merge_precedence. Qed.
Print Assumptions C05_merge_precedence.

(** the algorithm tables of the code are the ones the specification states ([parsable_algs], [allowed_by_default]
    in C05/Spec.v): no "none", and by default neither RSA PKCS#1 v1.5, HMAC nor EdDSA *)
Theorem C05_algorithm_tables :
  supported_algs = parsable_algs /\ default_allowed_algs = allowed_by_default /\
  (forall a, In a ["none"; "None"; "NONE"; "nOnE"; ""]%string -> ~ In a parsable_algs) /\
  (forall a, In a ["HS256"; "HS384"; "HS512"; "RS256"; "RS384"; "RS512"; "EdDSA"; "none"]%string -> ~ In a allowed_by_default).
Proof. exact algorithm_tables. Qed.
Print Assumptions C05_algorithm_tables.

(** claim decoding, declaratively: a string-valued `aud`/`scp`/`scope` carries THE blank-separated pieces
    ([is_split]), an array its elements; the granted scopes are `scp` if it has any value, else `scope` *)
Theorem C05_claim_decoding :
  (forall s l, strs_of (SStr s) = l <-> is_split " " s l) /\
  (forall l, strs_of (SArr l) = l) /\ strs_of SAbsent = [] /\
  (forall c, eff_scopes c = granted_scopes c).
Proof. exact claim_decoding. Qed.
Print Assumptions C05_claim_decoding.

(** the three matching strategies decide the declarative relations of C05/Spec.v: exact = membership,
    hierarchic = [hier_covers] (a granted scope covers itself and everything below), wildcard = [wild_covers] *)
Theorem C05_scope_matching : forall m granted,
  match_scopes m granted = true <-> scopes_satisfied m granted.
Proof. exact match_scopes_iff. Qed.
Print Assumptions C05_scope_matching.

(** the scope clause, unguarded: whenever a subject is created the granted scopes satisfy the matcher in force *)
Theorem C05_accepted_scopes_satisfied : forall f1 f2 cf ks now t sub,
  authenticate_gen f1 f2 cf ks now (CToken t) = Accepted sub ->
  scopes_satisfied (required_scopes cf) (granted_scopes (t_claims t)).
Proof. exact accepted_scopes_satisfied. Qed.
Print Assumptions C05_accepted_scopes_satisfied.

(** non-vacuity: a token at the edge of its validity window is accepted, one second further it is not *)
Example C05_nonvacuous :
  let t := ex_token (Some 1789999991%Z) (Some 1790000010%Z) (Some 1790000010%Z) in
  sane_clock ex_cf ex_now /\ open_guards ex_cf (CToken t) = false /\
  authenticate ex_cf ex_keys ex_now (CToken t) = Accepted "alice" /\
  authenticate ex_cf ex_keys ex_now (CToken (ex_token (Some 1789999990%Z) None None)) = Failed EAssertion /\
  authenticate ex_cf ex_keys ex_now (CToken (ex_token None (Some 1790000011%Z) None)) = Failed EAssertion /\
  authenticate ex_cf ex_keys ex_now (CToken (ex_token None None (Some 1790000011%Z))) = Failed EAssertion.
Proof. exact nonvacuous. Qed.
Print Assumptions C05_nonvacuous.

(* ------------------------------------------------------------------ histories: the JWK cache *)

(** [run_history f1 f2 f4 f6 h]: the answers of the authenticators sharing one key-set endpoint configuration
    (a mechanism, its rule-level copies, other mechanisms over the same endpoint) to the requests [h] against
    one JWK cache, the published key sets possibly changing in between.  The key-set request (url and header
    values) may be a template over the token's unverified issuer; the JWKS service answers per rendered
    request.  Cache entries are keyed by (rendered url + rendered templated headers, kid, configured cache_ttl).
    [f4 = true, f6 = true] is the code as it is (fix: d20d7cd, fix: 4a30678).
    [judged_statelessly f1 f2 pre s r]: [r] is the answer of the cache-less authenticator to request [s]
    against the key set that is or was (during [pre]) published for the key-set request rendered for THAT
    request's token, validated with THAT request's settings — so a key obtained for one issuer's rendering is
    never used for another's —, and against the present key set if the request cannot be served from the cache.
    It holds for every history. *)
Theorem C05_cache_history_stateless : forall f1 f2 h pre s post r,
  h = pre ++ s :: post ->
  nth_error (run_history f1 f2 true true h) (length pre) = Some r ->
  judged_statelessly f1 f2 pre s r.
Proof. exact history_stateless_fixed. Qed.
Print Assumptions C05_cache_history_stateless.

Theorem C05_judged_statelessly_unfold : forall f1 f2 pre s r,
  judged_statelessly f1 f2 pre s r <->
  exists env, In env (s_env s :: map s_env pre) /\ (fresh s = true -> env = s_env s) /\ r = stateless f1 f2 s env.
Proof. exact judged_statelessly_unfold. Qed.
Print Assumptions C05_judged_statelessly_unfold.

(** hence, against the specification ([meets_spec]): a subject only if the specification accepts the token
    against what is or was published for its own key-set request (now, if it cannot come from the cache); and
    always if it accepts it against all of those *)
Theorem C05_cache_history_spec : forall h pre s post r,
  h = pre ++ s :: post ->
  nth_error (run_history true true true true h) (length pre) = Some r ->
  sane_clock (s_cf s) (s_now s) -> open_guards (s_cf s) (s_cred s) = false ->
  meets_spec pre s r.
Proof. exact history_spec_fixed. Qed.
Print Assumptions C05_cache_history_spec.

(** C05-F6, i.e. the code as it is with 4a30678 reverted (a template in a HEADER value of the jwks endpoint does
    not reach the cache key: endpoint hash over the unrendered templates + rendered url + kid + ttl): the
    statement holds for histories without a header-only template ([url_keyed]; this branch is the content) or
    outside the guard (true by definition: [guard_F6] = "the reverted and the repaired run differ") ... *)
Theorem C05_cache_pinned_F6_history_stateless : forall f1 f2 h pre s post r,
  url_keyed h \/ guard_F6 f1 f2 h = false ->
  h = pre ++ s :: post ->
  nth_error (run_history f1 f2 true false h) (length pre) = Some r ->
  judged_statelessly f1 f2 pre s r.
Proof. exact history_stateless. Qed.
Print Assumptions C05_cache_pinned_F6_history_stateless.

(** ... and fails inside (pinned witness about the old keying): two issuers behind one url whose key sets share a
    kid shared the cache entry — after tenant-a's key had been cached a token naming tenant-b but signed with
    tenant-a's key was accepted although the specification rejects it in every world, and tenant-b's own token
    was refused; the code as it is judges both correctly *)
Theorem C05_F6_pinned_refuted :
  let h := [exc_hdr (exc_tok "tenant-a" "k1" 3); exc_hdr (exc_tok "tenant-b" "k1" 3); exc_hdr (exc_tok "tenant-b" "k1" 4)] in
  guard_F6 true true h = true /\
  run_history true true true false h = [Accepted "alice"; Accepted "alice"; Failed ESignature] /\
  run_history true true true true h = [Accepted "alice"; Failed ESignature; Accepted "alice"] /\
  ~ meets_spec [exc_hdr (exc_tok "tenant-a" "k1" 3)] (exc_hdr (exc_tok "tenant-b" "k1" 3)) (Accepted "alice").
Proof. exact F6_pinned_refuted. Qed.
Print Assumptions C05_F6_pinned_refuted.

(** C05-F4, i.e. the code as it is with d20d7cd and 4a30678 reverted, later repairs kept (the cached key is not
    re-validated, and the cache key covers neither validate_jwk nor the trust store): the statement holds for
    [url_keyed] histories validating alike ([uniform_validation]; this branch is the content) or outside the
    guard (true by definition: [guard_F4] = "the run with and without d20d7cd differ") ... *)
Theorem C05_cache_pinned_F4_history_stateless : forall f1 f2 h pre s post r,
  (exists v, uniform_validation v h) \/ guard_F4 f1 f2 h = false ->
  url_keyed h ->
  h = pre ++ s :: post ->
  nth_error (run_history f1 f2 false false h) (length pre) = Some r ->
  judged_statelessly f1 f2 pre s r.
Proof. exact history_stateless_either. Qed.
Print Assumptions C05_cache_pinned_F4_history_stateless.

(** ... and fails inside: a strict authenticator accepts through a key that a lax one had cached, although
    the specification rejects the token in every world of the history; the code as it is refuses it *)
Theorem C05_F4_pinned_refuted :
  let h := [exc_who true; exc_who false; exc_who true] in
  guard_F4 true true h = true /\
  run_history true true false false h = [Failed EKey; Accepted "alice"; Accepted "alice"] /\
  run_history true true true false h = [Failed EKey; Accepted "alice"; Failed EKey] /\
  ~ meets_spec [exc_who true; exc_who false] (exc_who true) (Accepted "alice").
Proof. exact F4_pinned_refuted. Qed.
Print Assumptions C05_F4_pinned_refuted.

(** while the published key sets do not change the cache is invisible *)
Theorem C05_cache_transparent : forall f1 f2 f4 f6 v h pre s post r env0,
  (f4 = false -> uniform_validation v h) ->
  (f6 = false -> url_keyed h) ->
  (forall s', In s' h -> s_env s' = env0) ->
  h = pre ++ s :: post ->
  nth_error (run_history f1 f2 f4 f6 h) (length pre) = Some r ->
  r = stateless f1 f2 s env0.
Proof. exact cache_transparent. Qed.
Print Assumptions C05_cache_transparent.

(** non-vacuity: tenants sharing a kid behind an endpoint with a templated URL; a rotation *)
Example C05_cache_examples :
  run_history true true true true
    [exc_step true (exc_env 3 4) (exc_tok "tenant-a" "k1" 3);
     exc_step true (exc_env 3 4) (exc_tok "tenant-b" "k1" 3);
     exc_step true (exc_env 3 4) (exc_tok "tenant-b" "k1" 4)]
  = [Accepted "alice"; Failed ESignature; Accepted "alice"] /\
  run_history true true true true
    [exc_step true (exc_env 3 4) (exc_tok "tenant-a" "k1" 3);
     exc_step true (exc_env 4 4) (exc_tok "tenant-a" "k1" 3);
     exc_step true (exc_env 4 4) (exc_tok "tenant-a" "k1" 4);
     exc_step true (exc_env 4 4) (exc_tok "tenant-a" "" 4);
     exc_step false (exc_env 4 4) (exc_tok "tenant-a" "k1" 4)]
  = [Accepted "alice"; Accepted "alice"; Failed ESignature; Accepted "alice"; Accepted "alice"].
Proof. exact (conj cache_cross_tenant cache_rotation). Qed.
Print Assumptions C05_cache_examples.
