(** C05 — JWT authentication accepts exactly the correctly signed, asserted tokens.
    Property theorems only; proofs are in C05/Proofs.v, the specification
    vocabulary ([spec_accepts], [trusted_issuers], [allowed_algs], [expected_audiences],
    [required_scopes], [leeway], [guard_F1], [guard_F2], [guard_F3], [sane_clock]) in C05/Spec.v, [demands]
    and [window_ok] in C05/Proofs.v.

    [authenticate cf ks now cred] is jwtAuthenticator.Execute on a request whose
    configured sources yield [cred], for the mechanism + rule-level configuration
    [cf], the key set [ks] published by the JWKS endpoint and the clock [now] (ns).
    [sig_ok t k] (does the signature of [t] verify with the material of [k]) and
    certificate validity are oracles: cryptography is not modelled.
    [authenticate] is the code as it is now, i.e. with the fix: commits a3a89b7
    (C05-F1) and f16c3cc (C05-F2); [authenticate_pinned] is the code before them. *)
From HV Require Import Base.Prelude Base.Time C05.Model C05.Spec C05.Proofs C05.Cache C05.CacheProofs.

(** A subject is created only if: a key [k] published by the key-set endpoint
    (the unique one with the token's kid, any one if the token has none; with a
    valid certificate if it carries one) verifies the signature, declares the
    token's `alg`, which is allowed and supported; the claims decode; the issuer
    is trusted; an expected audience is present when audiences are configured;
    the required scopes are matched; now is inside [nbf - leeway, exp + leeway)
    and `iat` is not in the future; the subject id is the configured member of
    these claims.  ([demands], unfolded in C05_demands_unfold below.) *)
Theorem C05_accept_sound : forall cf ks now t sub,
  sane_clock cf now -> guard_F3 (CToken t) = false ->
  authenticate cf ks now (CToken t) = Accepted sub ->
  demands cf ks now t sub.
Proof. exact accept_sound. Qed.
Print Assumptions C05_accept_sound.

Theorem C05_demands_unfold : forall cf ks now t sub,
  demands cf ks now t sub <->
  exists k,
    In k ks /\
    (t_kid t <> ""%string -> k_kid k = t_kid t /\ unique_kid ks k (t_kid t)) /\
    (cf_validate_jwk cf = true -> k_cert k <> CertBad) /\
    sig_ok t k = true /\
    k_alg k = t_alg t /\ In (k_alg k) (allowed_algs cf) /\ In (t_alg t) supported_algs /\
    c_malformed (t_claims t) = false /\
    In (c_iss (t_claims t)) (trusted_issuers cf) /\
    (expected_audiences cf <> [] ->
       exists a, In a (expected_audiences cf) /\ In a (strs_of (c_aud (t_claims t)))) /\
    match_scopes (required_scopes cf) (eff_scopes (t_claims t)) = true /\
    ((forall n, c_nbf (t_claims t) = Some n -> n <= unix now + leeway_secs cf)%Z /\
     (forall e, c_exp (t_claims t) = Some e -> unix now - leeway_secs cf < e)%Z /\
     (forall i, c_iat (t_claims t) = Some i -> secs i <= now + leeway cf)%Z) /\
    sub = lookup (cf_id_from cf) (c_fields (t_claims t)) /\ sub <> ""%string.
Proof. exact demands_unfold. Qed.
Print Assumptions C05_demands_unfold.

(** "accepts exactly": conversely, a token meeting the demands is accepted *)
Theorem C05_accept_complete : forall cf ks now t sub,
  sane_clock cf now -> guard_F3 (CToken t) = false ->
  t_payload_obj t = true -> cf_remote cf = RUp ->
  demands cf ks now t sub ->
  authenticate cf ks now (CToken t) = Accepted sub.
Proof. exact accept_complete. Qed.
Print Assumptions C05_accept_complete.

(** both directions at once, for every kind of credential, against the executable specification;
    the only guard left is the exotic C05-F3 (`exp` = -62135596800, the Unix time of Go's zero time.Time) *)
Theorem C05_authenticate_iff_spec : forall cf ks now cr,
  sane_clock cf now -> guard_F3 cr = false ->
  accepted_sub (authenticate cf ks now cr) = spec_accepts cf ks now cr.
Proof. exact authenticate_spec. Qed.
Print Assumptions C05_authenticate_iff_spec.

(** C05-F3 (open): `exp` exactly -62135596800 still counts as "no expiry" *)
Theorem C05_F3_refuted :
  exists cf ks now cr, sane_clock cf now /\ guard_F3 cr = true /\
    accepted_sub (authenticate cf ks now cr) = Some "alice"%string /\ spec_accepts cf ks now cr = None.
Proof. exact F3_refuted. Qed.
Print Assumptions C05_F3_refuted.

(** the code before a3a89b7 / f16c3cc met the specification outside C05-F1 (`exp <= 0` never expires)
    and C05-F2 (`nbf`/`iat` beyond int64 count as not set) ... *)
Theorem C05_pinned_iff_spec : forall cf ks now cr,
  sane_clock cf now -> guard_F1 cr = false -> guard_F2 cr = false ->
  accepted_sub (authenticate_pinned cf ks now cr) = spec_accepts cf ks now cr.
Proof. exact pinned_spec. Qed.
Print Assumptions C05_pinned_iff_spec.

(** ... and violated it there; the witnesses are rejected by the code as it is now *)
Theorem C05_F1_pinned_refuted :
  exists cf ks now cr, sane_clock cf now /\ guard_F1 cr = true /\ guard_F2 cr = false /\
    accepted_sub (authenticate_pinned cf ks now cr) = Some "alice"%string /\ spec_accepts cf ks now cr = None /\
    authenticate cf ks now cr = Failed EAssertion.
Proof. exact F1_pinned_refuted. Qed.
Print Assumptions C05_F1_pinned_refuted.

Theorem C05_F2_pinned_refuted :
  exists cf ks now cr, sane_clock cf now /\ guard_F1 cr = false /\ guard_F2 cr = true /\
    accepted_sub (authenticate_pinned cf ks now cr) = Some "alice"%string /\ spec_accepts cf ks now cr = None /\
    authenticate cf ks now cr = Failed EAssertion.
Proof. exact F2_pinned_refuted. Qed.
Print Assumptions C05_F2_pinned_refuted.

(** Unguarded, for every clock and both the current and the former code: no
    subject without a published, usable key that verifies the signature,
    declares the token's algorithm, an allowed one; never from malformed claims
    or an untrusted issuer; the subject id comes from the token's verified claims. *)
Theorem C05_subject_from_verified_claims : forall f1 f2 cf ks now t sub,
  authenticate_gen f1 f2 cf ks now (CToken t) = Accepted sub ->
  In (t_alg t) supported_algs /\
  (exists k, In k ks /\ (t_kid t <> ""%string -> k_kid k = t_kid t /\ unique_kid ks k (t_kid t)) /\
             key_valid cf k = true /\ k_alg k = t_alg t /\ In (k_alg k) (allowed_algs cf) /\ sig_ok t k = true) /\
  c_malformed (t_claims t) = false /\
  In (c_iss (t_claims t)) (trusted_issuers cf) /\
  sub = lookup (cf_id_from cf) (c_fields (t_claims t)) /\ sub <> ""%string.
Proof. exact accepted_core. Qed.
Print Assumptions C05_subject_from_verified_claims.

(** unsigned tokens and unknown algorithms are refused by the parser (argument-kind error) *)
Theorem C05_unsigned_rejected : forall f1 f2 cf ks now t,
  In (t_alg t) ["none"; "None"; "NONE"; "nOnE"; ""]%string \/ ~ In (t_alg t) supported_algs ->
  authenticate_gen f1 f2 cf ks now (CToken t) = Failed EParse.
Proof. exact unsigned_rejected. Qed.
Print Assumptions C05_unsigned_rejected.

(** any token whose signature verifies under no published key — every modification of
    header, payload or signature of a valid token, tokens signed with another key — yields no subject *)
Theorem C05_modified_or_foreign_token_rejected : forall f1 f2 cf ks now t,
  (forall k, In k ks -> sig_ok t k = false) ->
  forall sub, authenticate_gen f1 f2 cf ks now (CToken t) <> Accepted sub.
Proof. exact no_verifying_key_rejected. Qed.
Print Assumptions C05_modified_or_foreign_token_rejected.

(** algorithm confusion: a symmetric `alg` against keys declaring asymmetric algorithms,
    more generally an `alg` that no published key declares or that is not allowed, yields no
    subject — even if the signature oracle said yes *)
Theorem C05_alg_confusion_rejected : forall f1 f2 cf ks now t,
  (symmetric_alg (t_alg t) = true /\ (forall k, In k ks -> symmetric_alg (k_alg k) = false)) \/
  (forall k, In k ks -> k_alg k <> t_alg t) \/
  ~ In (t_alg t) (allowed_algs cf) ->
  forall sub, authenticate_gen f1 f2 cf ks now (CToken t) <> Accepted sub.
Proof. exact alg_confusion_rejected. Qed.
Print Assumptions C05_alg_confusion_rejected.

(** by default neither HS*, RS* nor EdDSA is allowed *)
Theorem C05_default_algorithms : forall cf a,
  e_algs (rule_level cf) = [] -> e_algs (cf_proto cf) = [] ->
  In a ["HS256"; "HS384"; "HS512"; "RS256"; "RS384"; "RS512"; "EdDSA"; "none"]%string ->
  ~ In a (allowed_algs cf).
Proof. exact default_algorithms. Qed.
Print Assumptions C05_default_algorithms.

(** Merge precedence: the assertions in force are the rule level's where set, else
    the mechanism's (with its defaults), else the metadata's issuer; Merge is associative *)
Theorem C05_merge_precedence : forall cf,
  effective cf = merge (rule_level cf)
                   (merge (proto_defaults (cf_proto cf))
                      {| e_issuers := [cf_md_issuer cf]; e_scopes := None; e_aud := []; e_algs := []; e_leeway := 0 |}) /\
  e_issuers (effective cf) = trusted_issuers cf /\
  e_algs (effective cf) = allowed_algs cf /\
  e_aud (effective cf) = expected_audiences cf /\
  e_scopes (effective cf) = Some (required_scopes cf) /\
  leeway_ns (effective cf) = leeway cf /\
  forall a b c, merge (merge a b) c = merge a (merge b c).
Proof. exact merge_precedence. Qed.
Print Assumptions C05_merge_precedence.

(** the nil ScopesMatcher of an unconfigured `scopes` is never dereferenced *)
Theorem C05_no_nil_matcher : forall cf, e_scopes (effective cf) <> None.
Proof. exact effective_scopes_some. Qed.
Print Assumptions C05_no_nil_matcher.

(** what the three matching strategies decide *)
Theorem C05_exact_scopes : forall req scopes,
  match_scopes (MExact req) scopes = true <-> forall r, In r req -> In r scopes.
Proof. exact exact_match_iff. Qed.
Print Assumptions C05_exact_scopes.

Theorem C05_hierarchic_scopes : forall req scopes,
  match_scopes (MHier req) scopes = true <->
  forall r, In r req -> exists s, In s scopes /\
    (s = r \/ ((String.length s <= String.length r)%nat /\
               exists rest, rest <> [] /\ split_dot r = split_dot s ++ rest)).
Proof. exact hier_match_iff. Qed.
Print Assumptions C05_hierarchic_scopes.

Theorem C05_wildcard_scopes : forall needle pattern,
  wild_one needle pattern = true <->
  let mp := split_dot pattern in
  let np := split_dot needle in
  (length mp <= length np)%nat /\ parts_ok mp np = true /\
  (length mp <> length np -> last mp EmptyString = "*"%string).
Proof. exact wild_one_iff. Qed.
Print Assumptions C05_wildcard_scopes.

(** non-vacuity: a token at the edge of its validity window is accepted, one second further it is not *)
Example C05_nonvacuous :
  let t := ex_token (Some 1789999991%Z) (Some 1790000010%Z) (Some 1790000010%Z) in
  sane_clock ex_cf ex_now /\ guard_F3 (CToken t) = false /\
  authenticate ex_cf ex_keys ex_now (CToken t) = Accepted "alice" /\
  authenticate ex_cf ex_keys ex_now (CToken (ex_token (Some 1789999990%Z) None None)) = Failed EAssertion /\
  authenticate ex_cf ex_keys ex_now (CToken (ex_token None (Some 1790000011%Z) None)) = Failed EAssertion /\
  authenticate ex_cf ex_keys ex_now (CToken (ex_token None None (Some 1790000011%Z))) = Failed EAssertion.
Proof. exact nonvacuous. Qed.
Print Assumptions C05_nonvacuous.

(* ------------------------------------------------------------------ histories: the JWK cache *)

(** [run_history f1 f2 f4 h]: the answers of the authenticators sharing one key-set endpoint configuration
    (a mechanism, its rule-level copies, other mechanisms over the same endpoint) to the requests [h] against
    one JWK cache, the published key sets possibly changing in between; the JWKS URL may be a template over
    the token's unverified issuer.  [f4 = false] is the code as it is.
    [judged_statelessly f1 f2 pre s r]: [r] is the answer of the cache-less authenticator to request [s]
    against the key set that is or was (during [pre]) published at the URL rendered for THAT request's token,
    validated with THAT request's settings — so a key cached under one (rendered url, kid) is never used for
    another url or kid —, and against the present key set if the request cannot be served from the cache. *)
Theorem C05_cache_history_stateless : forall f1 f2 h pre s post r,
  (exists v, uniform_validation v h) \/ guard_F4 f1 f2 h = false ->
  h = pre ++ s :: post ->
  nth_error (run_history f1 f2 false h) (length pre) = Some r ->
  judged_statelessly f1 f2 pre s r.
Proof. exact history_stateless_either. Qed.
Print Assumptions C05_cache_history_stateless.

Theorem C05_judged_statelessly_unfold : forall f1 f2 pre s r,
  judged_statelessly f1 f2 pre s r <->
  exists env, In env (s_env s :: map s_env pre) /\ (fresh s = true -> env = s_env s) /\ r = stateless f1 f2 s env.
Proof. exact judged_statelessly_unfold. Qed.
Print Assumptions C05_judged_statelessly_unfold.

(** hence, against the specification ([meets_spec]): a subject only if the specification accepts the token
    against what is or was published at its own key-set URL (now, if it cannot come from the cache); and
    always if it accepts it against all of those *)
Theorem C05_cache_history_spec : forall h pre s post r,
  (exists v, uniform_validation v h) \/ guard_F4 true true h = false ->
  h = pre ++ s :: post ->
  nth_error (run_history true true false h) (length pre) = Some r ->
  sane_clock (s_cf s) (s_now s) -> guard_F3 (s_cred s) = false ->
  meets_spec pre s r.
Proof. exact history_spec. Qed.
Print Assumptions C05_cache_history_spec.

(** C05-F4 (open): the cached key is not re-validated and the cache key covers neither validate_jwk nor the
    trust store: a strict authenticator accepts through a key that a lax one cached, although the
    specification rejects the token in every world of the history.  With fixes/C05-F4.diff it is refused, ... *)
Theorem C05_F4_refuted :
  let h := [exc_who true; exc_who false; exc_who true] in
  guard_F4 true true h = true /\
  run_history true true false h = [Failed EKey; Accepted "alice"; Accepted "alice"] /\
  run_history true true true h = [Failed EKey; Accepted "alice"; Failed EKey] /\
  ~ meets_spec [exc_who true; exc_who false] (exc_who true) (Accepted "alice").
Proof. exact F4_refuted. Qed.
Print Assumptions C05_F4_refuted.

(** ... and the statement holds for every history, without hypothesis on the validation settings *)
Theorem C05_cache_fixed_history_spec : forall h pre s post r,
  h = pre ++ s :: post ->
  nth_error (run_history true true true h) (length pre) = Some r ->
  (judged_statelessly true true pre s r) /\
  (sane_clock (s_cf s) (s_now s) -> guard_F3 (s_cred s) = false -> meets_spec pre s r).
Proof. exact history_fixed_both. Qed.
Print Assumptions C05_cache_fixed_history_spec.

(** while the published key sets do not change the cache is invisible *)
Theorem C05_cache_transparent : forall f1 f2 f4 v h pre s post r env0,
  (f4 = false -> uniform_validation v h) ->
  (forall s', In s' h -> s_env s' = env0) ->
  h = pre ++ s :: post ->
  nth_error (run_history f1 f2 f4 h) (length pre) = Some r ->
  r = stateless f1 f2 s env0.
Proof. exact cache_transparent. Qed.
Print Assumptions C05_cache_transparent.

(** non-vacuity: tenants sharing a kid behind a templated endpoint; a rotation *)
Example C05_cache_examples :
  run_history true true false
    [exc_step true (exc_env 3 4) (exc_tok "tenant-a" "k1" 3);
     exc_step true (exc_env 3 4) (exc_tok "tenant-b" "k1" 3);
     exc_step true (exc_env 3 4) (exc_tok "tenant-b" "k1" 4)]
  = [Accepted "alice"; Failed ESignature; Accepted "alice"] /\
  run_history true true false
    [exc_step true (exc_env 3 4) (exc_tok "tenant-a" "k1" 3);
     exc_step true (exc_env 4 4) (exc_tok "tenant-a" "k1" 3);
     exc_step true (exc_env 4 4) (exc_tok "tenant-a" "k1" 4);
     exc_step true (exc_env 4 4) (exc_tok "tenant-a" "" 4);
     exc_step false (exc_env 4 4) (exc_tok "tenant-a" "k1" 4)]
  = [Accepted "alice"; Accepted "alice"; Failed ESignature; Accepted "alice"; Accepted "alice"].
Proof. exact (conj cache_cross_tenant cache_rotation). Qed.
Print Assumptions C05_cache_examples.
