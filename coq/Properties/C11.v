(** C11 — cached results are reused exactly for requests equal in all they depend on.
    Property theorems only; proofs are in C11/Proofs.v, Proofs2.v (pipeline mechanisms) and
    Proofs3.v (token, finalizer, RFC 7234 and key caches), the models in C11/Model.v and
    Model2.v, the guards of the recorded findings in C11/Spec.v and Spec2.v.

    SHA-256 is a parameter [H] of every statement (keys are [hex (H pre-image)]
    with the pre-image reproduced byte for byte); statements that need keys to
    differ assume [injective H] explicitly, nothing else is assumed about it.

    [fx : fixes] selects the code: [fx_all6] is the tree as it is (/repo 0b950ef: the repairs
    F1 9b4883e, F2 deaddf0, F3 abe584c, F10 abc25e7, F6 0b950ef are committed); [fx_none] is the
    tree before these commits; [fx_all] = before 0b950ef; [fx_pre10] = before abc25e7.
    Naming: [..._refuted] = witness of an OPEN finding, stated about the code as it is;
    [..._pinned_refuted] = witness of a repaired finding, stated about the code before the named commit. *)
From Coq Require Import Permutation.
From HV Require Import Base.Prelude C11.Model C11.Spec C11.Model2 C11.Spec2 C11.Proofs C11.Proofs2 C11.Proofs3.

(** No boundary shifting: two pre-images with the same sequence of writes in
    which at most one write differs in length are equal only if every single
    write is equal (fixed-length writes: digests, ttl; variable-length: the rest) *)
Theorem C11_no_boundary_shift : forall a b : list fld,
  guard_shift a b = false -> cat a = cat b -> a = b.
Proof. exact no_boundary_shift. Qed.
Print Assumptions C11_no_boundary_shift.

(** the exact guard of C11-F4 — equal pre-images of different writes — can only fire inside that structural condition *)
Theorem C11_collision_needs_shift : forall a b : list fld, collide a b = true -> guard_shift a b = true.
Proof. exact collide_needs_shift. Qed.
Print Assumptions C11_collision_needs_shift.

(** C11-F4: writes can be shifted against each other *)
Theorem C11_F4_refuted : exists a b, collide a b = true /\ cat a = cat b /\ a <> b.
Proof. exact F4_refuted. Qed.
Print Assumptions C11_F4_refuted.

(** Key determinism: with at most one endpoint header and at most one value — or,
    with the repair of F1, always — the key of a request is the same for every
    order in which Go may iterate the maps *)
Theorem C11_key_deterministic : forall fx H i q ho ho' vo vo',
  Permutation ho (map fst (e_headers (eff_ep i))) /\ Permutation vo (map fst (i_values i)) ->
  Permutation ho' (map fst (e_headers (eff_ep i))) /\ Permutation vo' (map fst (i_values i)) ->
  order_free i = true \/ fx1 fx = true ->
  cache_key fx H ho vo i q = cache_key fx H ho' vo' i q.
Proof. exact key_deterministic. Qed.
Print Assumptions C11_key_deterministic.

(** C11-F1, code before 9b4883e: with two endpoint headers two iteration orders give two keys for one request *)
Theorem C11_F1_pinned_refuted :
  exists i q ho ho',
    order_free i = false /\ valid_orders i ho [] /\ valid_orders i ho' [] /\
    forall H, (forall a b, H a = H b -> a = b) -> cache_key fx_none H ho [] i q <> cache_key fx_none H ho' [] i q.
Proof. exact F1_refuted. Qed.
Print Assumptions C11_F1_pinned_refuted.

(** Key injectivity (no request receives a result computed for different
    inputs): for a collision-free SHA-256, two look-ups of well-formed instances
    that use the same key have the same key components — mechanism kind, endpoint
    (url, method, headers, authentication strategy), credential or (id, forwarded
    names, rendered payload, ttl, subject JSON) and rendered values (the forwarded VALUES and the
    authenticator's payload template, in the key since 0b950ef, are not part of [components]: that
    equal keys imply equal forwarded values is lemma fx6_no_F6, used by the transparency theorem) — whatever the
    iteration orders, unless their pre-images can be shifted against each other
    (guard of C11-F4) *)
Theorem C11_key_injective : forall fx H a b k,
  (forall x y, H x = H y -> x = y) ->
  wf_instb (st_inst a) = true -> wf_instb (st_inst b) = true ->
  valid_orders (st_inst a) (st_ho a) (st_vo a) -> valid_orders (st_inst b) (st_ho b) (st_vo b) ->
  cache_key fx H (st_ho a) (st_vo a) (st_inst a) (st_req a) = Some k ->
  cache_key fx H (st_ho b) (st_vo b) (st_inst b) (st_req b) = Some k ->
  p_F4 fx H a b = false ->
  exists c, components a = Some c /\ components b = Some c.
Proof. exact key_injective. Qed.
Print Assumptions C11_key_injective.

(** Cache transparency (enabling a cache never changes a decision): for a
    collision-free SHA-256 and EVERY history of look-ups — any instances of the
    four mechanisms, prototypes and rule-level reconfigurations, any requests,
    any iteration orders — on which none of the guards of C11-F2 (assertions),
    F3 (expressions), F10 (session lifespan), F4 (equal pre-images of different writes),
    F6 (forwarded values), F7 (outputs in endpoint templates) fires, every outcome with the cache is the outcome of a
    fresh evaluation under the instance's own policy; with the repair of F2 (F3)
    the guard of F2 (F3) is not needed *)
Theorem C11_cache_transparent : forall fx H w h,
  (forall x y, H x = H y -> x = y) -> wf_history h ->
  (fx2 fx = true \/ g_F2 fx H h = false) -> (fx3 fx = true \/ g_F3 fx H h = false) ->
  (fx10 fx = true \/ g_F10 fx H h = false) ->
  g_F4 fx H h = false -> (fx6 fx = true \/ g_F6 fx H h = false) -> g_F7 fx H h = false ->
  map sr_out (run_cached fx H w [] h) = map fst (run_fresh w h).
Proof. exact cache_transparent. Qed.
Print Assumptions C11_cache_transparent.

(** the instance [fx := fx_all] of the theorem above, the tree before 0b950ef (F1, F2, F3, F10 repaired,
    F6 open): no request is validated under a different rule's policy, whatever the instances *)
Theorem C11_cache_transparent_repaired : forall H w h,
  (forall x y, H x = H y -> x = y) -> wf_history h ->
  g_F4 fx_all H h = false -> g_F6 fx_all H h = false -> g_F7 fx_all H h = false ->
  map sr_out (run_cached fx_all H w [] h) = map fst (run_fresh w h).
Proof. exact cache_transparent_repaired. Qed.
Print Assumptions C11_cache_transparent_repaired.

(** The statement about the code as it is ([fx_all6], since /repo 0b950ef = fixes/C11-F6.diff: the keys of the generic contextualizer and the generic
    authenticator cover the forwarded headers and cookies with their values, the authenticator's also its
    payload template): the guard of C11-F6 is gone, whatever the instances and requests.  The guard of
    C11-F4 (open) then also covers the two new digests over forwarded names and values. *)
Theorem C11_cache_transparent_repaired6 : forall H w h,
  (forall x y, H x = H y -> x = y) -> wf_history h ->
  g_F4 fx_all6 H h = false -> g_F7 fx_all6 H h = false ->
  map sr_out (run_cached fx_all6 H w [] h) = map fst (run_fresh w h).
Proof. exact cache_transparent_repaired6. Qed.
Print Assumptions C11_cache_transparent_repaired6.

(** the hypotheses of the two main theorems are satisfied by a history with
    two subjects, two values and a repeated request *)
Theorem C11_nonvacuous :
  wf_history ok_history /\
  g_F1 ok_history (Some 0) = false /\
  (forall fx H, g_F2 fx H ok_history = false /\ g_F3 fx H ok_history = false /\ g_F10 fx H ok_history = false /\
                g_F6 fx H ok_history = false /\ g_F7 fx H ok_history = false) /\
  (forall fx H, (forall x, String.length (H x) = 32) -> g_F4 fx H ok_history = false) /\
  (exists a b, nth_error ok_history 0 = Some a /\ nth_error ok_history 2 = Some b /\ same_request a b = true /\
               enabled (st_inst a) = true /\ order_free (st_inst a) = true /\
               exists r, fresh_of w_world a = OAllow r).
Proof. exact nonvacuous. Qed.
Print Assumptions C11_nonvacuous.

(** … and by a history that mixes three kinds of mechanisms on one cache
    (remote authorizer, introspection with a scope requirement, generic
    authenticator asserting the session lifespan) with subjects, tokens and
    header values of different lengths — the exact guard of C11-F4 does not
    fire on it, for every collision-free hash of 32 bytes *)
Theorem C11_nonvacuous_mixed :
  wf_history mixed_history /\
  (forall fx H, g_F2 fx H mixed_history = false /\ g_F3 fx H mixed_history = false /\ g_F10 fx H mixed_history = false /\
                g_F6 fx H mixed_history = false /\ g_F7 fx H mixed_history = false) /\
  (forall fx H, (forall a b, H a = H b -> a = b) -> (forall x, String.length (H x) = 32) -> g_F4 fx H mixed_history = false) /\
  (exists a b, nth_error mixed_history 1 = Some a /\ nth_error mixed_history 4 = Some b /\ same_request a b = true /\
               enabled (st_inst a) = true /\ i_kind (st_inst a) = KIntro /\
               exists r, fresh_of w_world a = OAllow r) /\
  (exists c r, nth_error mixed_history 2 = Some c /\ i_kind (st_inst c) = KGen /\ fresh_of w_world c = OAllow r).
Proof. exact nonvacuous_mixed. Qed.
Print Assumptions C11_nonvacuous_mixed.

(* The abstract memo-table lemmas [cache_transparent_steps] and [not_transparent_steps]
   (C11/Proofs.v) restate the definition of the model's [exec_cached]; they are
   lemmas of the proofs above and no longer listed as theorems about the code. *)

(** Identical requests hit: in every history (any cache state [c], any steps
    before and between), a request identical to an earlier one that a fresh
    evaluation allows is answered from the cache without a remote call, for
    every iteration order — outside the guard of C11-F1, or with its repair *)
Theorem C11_identical_requests_hit : forall fx H w l1 a l2 b r c,
  same_request a b = true ->
  valid_orders (st_inst a) (st_ho a) (st_vo a) -> valid_orders (st_inst b) (st_ho b) (st_vo b) ->
  enabled (st_inst a) = true -> order_free (st_inst a) = true \/ fx1 fx = true ->
  fst (exec_fresh w (st_inst a) (st_req a)) = OAllow r ->
  exists x, nth_error (run_cached fx H w c (l1 ++ a :: l2 ++ [b])) (length l1 + S (length l2)) = Some x /\
            sr_hit x = true /\ sr_calls x = 0.
Proof. exact identical_requests_hit. Qed.
Print Assumptions C11_identical_requests_hit.

(** Stored entries are stable (A … A): in every history, what the first allowed look-up of a key has
    stored is what every later look-up of that key receives (re-validated under the instance's own
    policy where repaired) — after ANY sequence of other look-ups and stores in between, of any
    instances and kinds.  The correspondence run checks the real mechanisms against this on the real
    in-memory backend, which keeps the slices it is given. *)
Theorem C11_stored_entry_is_returned : forall fx H w c a l2 b k r,
  cache_key fx H (st_ho a) (st_vo a) (st_inst a) (st_req a) = Some k -> lookup k c = None ->
  fst (exec_fresh w (st_inst a) (st_req a)) = OAllow r ->
  cache_key fx H (st_ho b) (st_vo b) (st_inst b) (st_req b) = Some k ->
  nth_error (run_cached fx H w c (a :: l2 ++ [b])) (S (length l2)) =
  Some {| sr_key := Some k; sr_hit := true; sr_calls := 0; sr_out := recheck fx (st_inst b) r |}.
Proof. exact stored_entry_is_returned. Qed.
Print Assumptions C11_stored_entry_is_returned.

(** the recorded findings, each with a concrete two-request history on which the cache changes the
    decision, for every SHA-256.  Open: F4 and F7 (stated for [fx_all6], the code as it is).
    Repaired ([_pinned_refuted], stated for the code before the commit): F2, F3, F6, F10. *)
(** C11-F2, code before deaddf0 *)
Theorem C11_F2_pinned_refuted :
  exists w a b, (forall H, g_F2 fx_none H [a; b] = true) /\ step_orders_valid a /\ step_orders_valid b /\
    forall H, map sr_out (run_cached fx_none H w [] [a; b]) <> map fst (run_fresh w [a; b]).
Proof. exact F2_refuted. Qed.
Print Assumptions C11_F2_pinned_refuted.

(** C11-F3, code before abe584c *)
Theorem C11_F3_pinned_refuted :
  exists w a b, (forall H, g_F3 fx_none H [a; b] = true) /\ step_orders_valid a /\ step_orders_valid b /\
    forall H, map sr_out (run_cached fx_none H w [] [a; b]) <> map fst (run_fresh w [a; b]).
Proof. exact F3_refuted. Qed.
Print Assumptions C11_F3_pinned_refuted.

(** C11-F4 (open), the code as it is *)
Theorem C11_F4_history_refuted :
  exists w a b, (forall H, g_F4 fx_all6 H [a; b] = true) /\ step_orders_valid a /\ step_orders_valid b /\
    forall H, map sr_out (run_cached fx_all6 H w [] [a; b]) <> map fst (run_fresh w [a; b]).
Proof. exact F4_history_refuted. Qed.
Print Assumptions C11_F4_history_refuted.

(** C11-F6, code before 0b950ef; with [fx6] the guard of C11-F6 cannot fire (fx6_no_F6) *)
Theorem C11_F6_pinned_refuted :
  exists w a b, (forall H, g_F6 fx_none H [a; b] = true) /\ step_orders_valid a /\ step_orders_valid b /\
    forall H, map sr_out (run_cached fx_none H w [] [a; b]) <> map fst (run_fresh w [a; b]).
Proof. exact F6_refuted. Qed.
Print Assumptions C11_F6_pinned_refuted.

(** C11-F10, code before abc25e7 *)
Theorem C11_F10_pinned_refuted :
  exists w a b, (forall H, g_F10 fx_pre10 H [a; b] = true) /\ step_orders_valid a /\ step_orders_valid b /\
    forall H, map sr_out (run_cached fx_pre10 H w [] [a; b]) <> map fst (run_fresh w [a; b]).
Proof. exact F10_refuted. Qed.
Print Assumptions C11_F10_pinned_refuted.

(** C11-F7 (open), the code as it is *)
Theorem C11_F7_refuted :
  exists w a b, (forall H, g_F7 fx_all6 H [a; b] = true) /\ step_orders_valid a /\ step_orders_valid b /\
    forall H, map sr_out (run_cached fx_all6 H w [] [a; b]) <> map fst (run_fresh w [a; b]).
Proof. exact F7_refuted. Qed.
Print Assumptions C11_F7_refuted.

(** ---- the token caches of the client-credentials strategy and of the jwt finalizer ---- *)

(** client credentials: every token served with the cache is the token a fresh
    request would obtain, for every sequence of configurations whose pre-images
    cannot be shifted against each other *)
Theorem C11_cc_cache_transparent : forall H h,
  (forall x y, H x = H y -> x = y) -> g_cc_F4 h = false ->
  map sr_out (cc_run H [] h) = map (fun c => OAllow (cc_result c)) h.
Proof. exact cc_cache_transparent. Qed.
Print Assumptions C11_cc_cache_transparent.

(** C11-F4 (open) in the client-credentials token cache *)
Theorem C11_cc_F4_refuted :
  exists a b, g_cc_F4 [a; b] = true /\
    forall H, map sr_out (cc_run H [] [a; b]) <> map (fun c => OAllow (cc_result c)) [a; b].
Proof. exact cc_F4_refuted. Qed.
Print Assumptions C11_cc_F4_refuted.

(** jwt finalizer: for every history of executions and key-store reloads,
    every token served with the cache is one a fresh evaluation would issue at
    that moment (same subject, claims, issuer, key id and signing key), provided
    the signer's hash covers the key itself ([fx5]: the code since d9caf75) or no
    reload puts a new key under a key id used before (guard of C11-F5) *)
Theorem C11_jf_cache_transparent : forall fx5 H kc s h,
  (forall x y, H x = H y -> x = y) ->
  (fx5 = true /\ thumbs_faithful (timeline kc s h)) \/ g_F5 kc s h = false ->
  (forall x y, In x (timeline kc s h) -> In y (timeline kc s h) -> p_jf_F4 fx5 H x y = false /\ jf_faithful x y) ->
  map (fun m => sr_out (fst m)) (jrun fx5 H kc s [] h) = map snd (jrun fx5 H kc s [] h).
Proof. exact jf_cache_transparent. Qed.
Print Assumptions C11_jf_cache_transparent.

(** C11-F5, code before d9caf75 ([fx5 = false]) *)
Theorem C11_F5_pinned_refuted :
  exists kc s h, g_F5 kc s h = true /\
    forall H, map (fun m => sr_out (fst m)) (jrun false H kc s [] h) <> map snd (jrun false H kc s [] h).
Proof. exact F5_refuted. Qed.
Print Assumptions C11_F5_pinned_refuted.

(** RFC 7234 cache (endpoint option http_cache): for every history of requests to any
    endpoints (url, method, Authorization) outside the guards of C11-F4 (url | method |
    Authorization shifted), C11-F8 (requests that differ in a header the server lists
    in Vary) and C11-F9 (POST requests with different bodies) every response served from
    the cache is the one a fresh request would get *)
Theorem C11_hc_cache_transparent : forall fx8 H w h,
  (forall x y, H x = H y -> x = y) -> g_hc_F4 h = false -> g_F8 fx8 w h = false -> g_F9 fx8 w h = false ->
  map sr_out (hc_run fx8 H w [] h) = map (fun x => OAllow (hc_result w (fst x) (snd x))) h.
Proof. exact hc_cache_transparent. Qed.
Print Assumptions C11_hc_cache_transparent.

(** the code since 12fdf68 (only GET/HEAD looked up and stored, no response with Vary stored):
    the guards of F8 and F9 are not needed.  The model of the RFC 7234 cache is faithful for the methods
    GET, HEAD and POST (the code stores and looks up GET/HEAD only; the model treats exactly "POST" as the
    other case and ignores the body of other methods) *)
Theorem C11_hc_cache_transparent_repaired : forall H w h,
  (forall x y, H x = H y -> x = y) -> g_hc_F4 h = false ->
  map sr_out (hc_run true H w [] h) = map (fun x => OAllow (hc_result w (fst x) (snd x))) h.
Proof. exact hc_cache_transparent_repaired. Qed.
Print Assumptions C11_hc_cache_transparent_repaired.

(** C11-F8, code before 12fdf68 ([fx8 = false]) *)
Theorem C11_F8_pinned_refuted :
  exists w a b, g_F8 false w [a; b] = true /\
    forall H, map sr_out (hc_run false H w [] [a; b]) <> map (fun x => OAllow (hc_result w (fst x) (snd x))) [a; b].
Proof. exact F8_refuted. Qed.
Print Assumptions C11_F8_pinned_refuted.

(** C11-F9, code before 12fdf68 ([fx8 = false]) *)
Theorem C11_F9_pinned_refuted :
  exists w a b, g_F9 false w [a; b] = true /\ g_F8 false w [a; b] = false /\
    forall H, map sr_out (hc_run false H w [] [a; b]) <> map (fun x => OAllow (hc_result w (fst x) (snd x))) [a; b].
Proof. exact F9_refuted. Qed.
Print Assumptions C11_F9_pinned_refuted.

(** Key cache of the jwt authenticator: for every history of tokens at any instances — any
    claimed issuers, key ids and signing keys, templated or literal JWKS URL — a token is
    verified with the cache exactly as without it (with the key published at the JWKS URL
    rendered for this token's issuer, validated as this instance demands), unless two
    pre-images collide (F4) or — without the repair d20d7cd [fx11] — two instances that
    differ in validate_jwk share a key (guard of C11-F11) *)
Theorem C11_jk_cache_transparent : forall fx11 H w h,
  (forall x y, H x = H y -> x = y) -> g_jk_F4 H h = false -> (fx11 = true \/ g_F11 H h = false) ->
  map sr_out (jk_run fx11 H w [] h) = map (fun x => jk_fresh w (fst x) (snd x)) h.
Proof. exact jk_cache_transparent. Qed.
Print Assumptions C11_jk_cache_transparent.

(** C11-F11, code before d20d7cd ([fx11 = false]) *)
Theorem C11_F11_pinned_refuted :
  exists w a b, (forall H, g_F11 H [a; b] = true) /\
    forall H, map sr_out (jk_run false H w [] [a; b]) <> map (fun x => jk_fresh w (fst x) (snd x)) [a; b].
Proof. exact F11_refuted. Qed.
Print Assumptions C11_F11_pinned_refuted.
