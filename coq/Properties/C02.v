(** C02 — the most specific matching path expression selects the rule.

    Vocabulary (Radix/Spec.v): tokens [L c | W | C], [parse_expr], the declarative
    relation [matches pattern path captures], the specificity order
    ([more_specific]: literal < single wildcard < free wildcard, position by
    position), and [spec_lookup d path m]: scan the expressions of [d] matching
    [path] from the most specific one on; at an expression the first value (in
    insertion order) whose conditions [m] hold is the answer; if none holds, go on
    only if that expression's backtracking flag is set.  The flag of an expression, as the
    property states it, is the conjunction of the backtracking_enabled of its rules
    ([respec vflag]); the index keeps the flag of the last Add (open finding C02-F2).
    Search (Radix/Machine.v): [find_in false] = findNode as it is (since fix e897fef),
    [find_in true] = the pinned tree; [load] = any sequence of Add on the empty index;
    [tree_run] / [mach_run] (C02/Reach.v) = any sequence of Add AND Delete.
    Histories (C02/Model.v, C02/HistTree.v): [hop] = one AddRuleSet / UpdateRuleSet /
    DeleteRuleSet with the implementation's acceptance and SameAs / EqualTo answers as data;
    [hist_db ops] = the machine-level index after the history (the code as it is: delete the
    changed rules' routes, append the new ones), [hist_tree ops] = the compressed tree after it,
    [fresh_db ops] = a fresh load of the rule sets in force after it.  [guard_F3 hd fd path]
    (open finding C02-F3) fires when some expression matching [path] holds other routes, or
    the same in another order, in [hd] than in [fd]; it is used by the evaluator and by the
    [_refuted] theorems only: no positive theorem of C02 is stated under it (that a history
    answers like a fresh load outside the guard is C06's statement).
    Naming: [..._refuted] = witness of an OPEN finding, about the model of the code as it is
    now; [..._pinned_refuted] = witness of a REPAIRED finding, about the model variant before
    the named fix commit. *)
From HV Require Import Base.Prelude Radix.Spec Radix.SpecProofs Radix.Machine Radix.MachineProofs
  Radix.Load Radix.LoadProofs Radix.Tree Radix.TreeProofs Radix.TreeAddProofs C02.Model C02.Proofs.
From HV Require Import C06.TreeDel C02.Reach C02.HistTree C02.ReachRepo.

(** * Property theorems

    The code of findNode / addNode is [tree_find true true true] on [tree_load adds]
    (Radix/Tree.v, transcription of tree.go after the fix: commits e897fef, 88da16a,
    16cf34b, 20f92b3); [find_in false] on [load adds] is the pattern-map machine it refines.
    The theorems about reachable states and histories also run through C06/TreeDel.v, the
    transcription of Delete / delNode / deleteChild after the fix: commits 2d9cd1f, 003095f,
    f6ce52b (owner of that file and of its proofs: C06). *)

(** ** the most specific matching expression selects the rule: after ANY sequence of Adds
    (any expressions, order, flags, values constraint), for any path and any conditions
    (captures included), outside finding C02-F2 *)
Theorem C02_find_is_most_specific :
  forall (V : Type) (vflag : V -> bool) (can_add : list V -> V -> bool) (m : matcher V)
         (adds : list (addop V)) (path : str),
    guard_F2 vflag (load can_add adds) path m = false ->
    tree_find true true true m (tree_load V can_add adds) path
    = spec_lookup (respec vflag (load can_add adds)) path m.
Proof. exact tree_find_is_spec_F2. Qed.
Print Assumptions C02_find_is_most_specific.

(** what holds inside the guard as well: the specification with, for every expression, the
    flag of the rule added last on it *)
Theorem C02_find_is_most_specific_with_last_flag :
  forall (V : Type) (can_add : list V -> V -> bool) (m : matcher V) (adds : list (addop V)) (path : str),
    tree_find true true true m (tree_load V can_add adds) path = spec_lookup (load can_add adds) path m.
Proof. exact tree_loaded_find_is_spec. Qed.
Print Assumptions C02_find_is_most_specific_with_last_flag.

(** ... "the flag of the rule added last": when every Add passes its rule's flag (as
    repository.addRulesTo does), the flag of every loaded expression is the flag of its last
    value — so the guard fires exactly on failed expressions whose last rule allows
    backtracking while an earlier one forbids it *)
Theorem C02_flag_in_force_is_last_add :
  forall (V : Type) (vflag : V -> bool) (can_add : list V -> V -> bool) (adds : list (addop V)),
    flags_from_values vflag adds ->
    Forall (fun e => flag_is_last V vflag (snd e)) (load can_add adds).
Proof. exact load_flag_last. Qed.
Print Assumptions C02_flag_in_force_is_last_add.

(** finding C02-F2: the guard is needed and not vacuous *)
Theorem C02_F2_refuted :
  exists (l : list (addop nat)) (path : str) (m : matcher nat),
    flags_from_values F2_vflag l /\ guard_F2 F2_vflag (load ex_any l) path m = true /\
    tree_find true true true m (tree_load nat ex_any l) path
    <> spec_lookup (respec F2_vflag (load ex_any l)) path m.
Proof. exact F2_refuted. Qed.
Print Assumptions C02_F2_refuted.

(** finding C02-F3 (rule order after UpdateRuleSet; histories are modelled at machine level in
    C02/Model.v [hstep] and on the compressed tree in C02/HistTree.v [hist_tree], both compared
    with the real repository in stream "history"; that lookups after a history equal lookups
    after a fresh load is C06's statement; what C02 proves about the states a history reaches
    is [C02_history_find_rule] below) *)
Theorem C02_F3_refuted :
  exists (ops : list hop) (path : str) (m : matcher rval),
    guard_F3 (hist_db ops) (fresh_db ops) path = true /\
    find_rule false (hist_db ops) false path m <> spec_find_rule (fresh_db ops) false path m.
Proof. exact F3_refuted. Qed.
Print Assumptions C02_F3_refuted.

(** the same witness on the compressed tree as it is now: the model tree follows the history,
    holds exactly the machine-level content, and FindRule answers B where a fresh load of the
    rule set in force answers A *)
Theorem C02_F3_refuted_on_tree :
  ts_ok (hist_tree F3_ops) = true /\
  guard_F3 (hist_db F3_ops) (fresh_db F3_ops) (ex_str "/x") = true /\
  proj_db (abs (ts_tree (hist_tree F3_ops))) = hist_db F3_ops /\
  utree_find_rule (ts_tree (hist_tree F3_ops)) false (ex_str "/x") F3_any = ORule 2 /\
  spec_find_rule (fresh_db F3_ops) false (ex_str "/x") F3_any = ORule 1.
Proof. exact F3_refuted_on_tree. Qed.
Print Assumptions C02_F3_refuted_on_tree.

(** ** stage 2, the two refinements behind the theorems above: findNode on ANY tree
    satisfying the shape invariant [wfb] is the machine's search on the tree's content
    ([fx] = C02-F1/C03-F2 switch; captures included) ... *)
Theorem C02_tree_refines_machine :
  forall (V : Type) (m : matcher V) (fx : bool) (t : tree V) (path : str),
    wfb t = true ->
    tree_find fx fx true m t path = find_in (negb fx) (abs t) path m.
Proof. exact tree_find_refines. Qed.
Print Assumptions C02_tree_refines_machine.

(** ... and the tree built by ANY sequence of Adds through the transcribed addNode /
    splitCommonPrefix / Add satisfies [wfb] and holds exactly the entries of the
    machine's index (a rejected Add leaves both unchanged) *)
Theorem C02_tree_add_refines_machine :
  forall (V : Type) (can_add : list V -> V -> bool) (adds : list (addop V)),
    wfb (tree_load V can_add adds) = true /\
    Permutation.Permutation (abs (tree_load V can_add adds)) (load can_add adds).
Proof. exact tree_load_refines. Qed.
Print Assumptions C02_tree_add_refines_machine.

(** ** the repository (AddRuleSet = clone, add every route, swap only on success; FindRule)
    on the compressed tree, after any sequence of rule sets: the rule the specification
    selects among what was loaded, else the default rule, else "no rule" *)
Theorem C02_repository_find_rule :
  forall (vflag : rval -> bool) (sets : list (nat * list rule_def)) (dflt : bool) (path : str) (m : matcher rval),
    guard_F2 vflag (load_rulesets [] sets) path m = false ->
    match spec_lookup (respec vflag (load_rulesets [] sets)) path m with
    | Found v _ _ => tree_find_rule (tree_load_rulesets empty_tree sets) dflt path m = ORule (fst v)
    | NoMatch => tree_find_rule (tree_load_rulesets empty_tree sets) dflt path m
                 = if dflt then ODefault else ONoRule
    end.
Proof. exact tree_find_rule_is_spec_F2. Qed.
Print Assumptions C02_repository_find_rule.

(** ** "segment by segment a literal beats a single wildcard, which beats a free wildcard":
    between two expressions matching one path the order is decided by the kinds of the first
    differing tokens — the tie-breaks that make [pat_cmp] total (byte order between
    literals, length) never decide *)
Theorem C02_ties_never_decide :
  forall (p q : pat) (s : str),
    matchesb p s = true -> matchesb q s = true -> kind_cmp p q = Some (pat_cmp p q).
Proof. exact ties_never_decide. Qed.
Print Assumptions C02_ties_never_decide.

(** non-vacuity: the hypotheses of [C02_find_is_most_specific] hold on an index where the
    lookups go through three / two candidates, with and without backtracking *)
Theorem C02_nonvacuous :
  flags_from_values NV_vflag NV_adds /\
  guard_F2 NV_vflag (load ex_any NV_adds) (ex_str "/foo/bar") (ex_only [2]) = false /\
  tree_find true true true (ex_only [2]) (tree_load nat ex_any NV_adds) (ex_str "/foo/bar") = NoMatch /\
  guard_F2 NV_vflag (load ex_any NV_adds) (ex_str "/foo/bar/baz") (ex_only [2]) = false /\
  tree_find true true true (ex_only [2]) (tree_load nat ex_any NV_adds) (ex_str "/foo/bar/baz")
  = Found 2 [ex_str "*"] [ex_str "foo/bar/baz"].
Proof. exact nonvacuous_tree. Qed.
Print Assumptions C02_nonvacuous.

(** ** independent of the order in which rules and rule sets were loaded (this one at the
    level of the pattern-map machine, [find_in]; the form on the compressed tree, Deletes
    included, is [C02_reachable_order_independent]):
    two sequences of Adds that agree, expression by expression, on the Adds of
    that expression (same values in the same order, same flags) answer every
    lookup alike — current code ([fa = false]) and pinned ([fa = true]) *)
Theorem C02_order_independent :
  forall (V : Type) (can_add : list V -> V -> bool) (fa : bool) (adds adds' : list (addop V))
         (m : matcher V) (path : str),
    same_groups adds adds' ->
    find_in fa (load can_add adds) path m = find_in fa (load can_add adds') path m.
Proof. exact load_order_independent. Qed.
Print Assumptions C02_order_independent.

(** ... and of the order in which RULE SETS were loaded: two sequences of the same rule sets
    (distinct rule-set ids) that are both accepted completely answer every request alike — on
    the compressed tree, default rule / "no rule" included.  (A rule set that is rejected in one
    order — it shares an expression with another set — is outside: then the loaded content differs.) *)
Theorem C02_rulesets_order_independent :
  forall (sets sets' : list (nat * list rule_def)) (dflt : bool) (path : str) (m : matcher rval),
    Permutation.Permutation sets sets' -> NoDup (map fst sets) ->
    all_accepted [] sets = true -> all_accepted [] sets' = true ->
    tree_find_rule (tree_load_rulesets empty_tree sets) dflt path m
    = tree_find_rule (tree_load_rulesets empty_tree sets') dflt path m.
Proof. exact tree_rulesets_order_independent. Qed.
Print Assumptions C02_rulesets_order_independent.

(** its hypotheses are satisfiable: two rule sets accepted in both orders (by [all_accepted]
    and the values constraint, accepted sets never share an expression), a lookup that goes
    through expressions of both *)
Theorem C02_rulesets_order_nonvacuous :
  Permutation.Permutation OI_sets (rev OI_sets) /\ NoDup (map fst OI_sets) /\
  all_accepted [] OI_sets = true /\ all_accepted [] (rev OI_sets) = true /\
  tree_find_rule (tree_load_rulesets empty_tree OI_sets) false (ex_str "/a/b") (OI_only [3]) = ORule 3 /\
  tree_find_rule (tree_load_rulesets empty_tree (rev OI_sets)) false (ex_str "/a/b") (OI_only [3]) = ORule 3 /\
  tree_find_rule (tree_load_rulesets empty_tree (rev OI_sets)) false (ex_str "/a/b") (OI_only [1; 3]) = ORule 1.
Proof. exact rulesets_order_nonvacuous. Qed.
Print Assumptions C02_rulesets_order_nonvacuous.

(** ** every state the index can reach (Adds AND Deletes)

    The repository changes its index by Add and by Delete (UpdateRuleSet / DeleteRuleSet).
    [top] = one operation: [OAdd] (expression, value, flag) or [ODel] (expression, value
    matcher); [tree_run ops] = the compressed tree after the operations [ops] on the empty
    tree (Radix/Tree.v's Add, C06/TreeDel.v's transcription of Delete / delNode / deleteChild;
    a failed operation leaves the tree as it was); [mach_run ops] = the pattern-map machine's
    index after the same operations; [valid_op]: a Delete names an expression ([parse_expr]
    accepts it — the repository deletes only routes it has added, see
    [C02_history_index_is_reachable]).  [wfd] = [wfb] and the shape invariant Delete needs. *)

(** after ANY sequence of Adds and Deletes the tree satisfies the invariant and holds exactly
    the entries of the machine's index, which is a machine state (one entry per expression,
    no entry without values, well-formed expressions) *)
Theorem C02_reachable_tree_refines_machine :
  forall (V : Type) (can_add : list V -> V -> bool) (ops : list (top V)),
    Forall valid_op ops ->
    wfd (tree_run can_add ops) = true /\
    wf_db V (mach_run can_add ops) /\
    Permutation.Permutation (abs (tree_run can_add ops)) (mach_run can_add ops).
Proof. exact run_refines. Qed.
Print Assumptions C02_reachable_tree_refines_machine.

(** ... so in every such state findNode returns what the specification says on the routes
    currently stored: most specific matching expression first, first acceptable value in
    insertion order, a less specific expression only if the failed one allows backtracking —
    with the flag the property states, outside finding C02-F2 ... *)
Theorem C02_reachable_find_is_most_specific :
  forall (V : Type) (can_add : list V -> V -> bool) (vflag : V -> bool) (m : matcher V)
         (ops : list (top V)) (path : str),
    Forall valid_op ops ->
    guard_F2 vflag (mach_run can_add ops) path m = false ->
    tree_find true true true m (tree_run can_add ops) path
    = spec_lookup (respec vflag (mach_run can_add ops)) path m.
Proof. exact run_find_is_spec_F2. Qed.
Print Assumptions C02_reachable_find_is_most_specific.

(** ... and, unguarded, with the flag in force (a Delete leaves the flag of a node that keeps
    values untouched) *)
Theorem C02_reachable_find_is_most_specific_with_flag_in_force :
  forall (V : Type) (can_add : list V -> V -> bool) (m : matcher V) (ops : list (top V)) (path : str),
    Forall valid_op ops ->
    tree_find true true true m (tree_run can_add ops) path = spec_lookup (mach_run can_add ops) path m.
Proof. exact run_find_is_spec. Qed.
Print Assumptions C02_reachable_find_is_most_specific_with_flag_in_force.

(** independent of the order of the operations: the entry of an expression is decided by the
    Adds and Deletes of THAT expression alone, in their order ([op_node]) — so two sequences
    that interleave the operations on different expressions differently answer every lookup alike *)
Theorem C02_reachable_order_independent :
  (forall (V : Type) (can_add : list V -> V -> bool) (ops : list (top V)) (p : pat),
     assoc p (mach_run can_add ops) = op_node can_add p ops) /\
  (forall (V : Type) (can_add : list V -> V -> bool) (m : matcher V) (ops ops' : list (top V)) (path : str),
     Forall valid_op ops -> Forall valid_op ops' -> same_op_groups ops ops' ->
     tree_find true true true m (tree_run can_add ops) path
     = tree_find true true true m (tree_run can_add ops') path).
Proof. exact (conj run_assoc run_order_independent). Qed.
Print Assumptions C02_reachable_order_independent.

(** ** the repository after ANY history of AddRuleSet / UpdateRuleSet / DeleteRuleSet
    ([hist_tree], C02/HistTree.v: clone, Delete the routes of the rules that are gone or
    changed, Add the routes of the new or changed ones, swap only if every operation
    succeeded; routes are objects, deleted by identity; which operations the implementation
    accepted and SameAs / EqualTo are data of the history).  Its index is a tree reachable by
    Adds and Deletes of valid expressions and satisfies the invariant ... *)
Theorem C02_history_index_is_reachable :
  forall (ops : list hop),
    reachable usame_src (ts_tree (hist_tree ops)) /\ wfd (ts_tree (hist_tree ops)) = true.
Proof. exact (fun ops => conj (hist_tree_reachable ops) (hist_tree_wfd ops)). Qed.
Print Assumptions C02_history_index_is_reachable.

(** ... and FindRule returns the rule the specification selects among the routes stored,
    else the default rule, else "no rule" (outside C02-F2; which routes ARE stored after an
    update, and in which order, is C02-F3 / C06's statement) *)
Theorem C02_history_find_rule :
  forall (vflag : rval -> bool) (ops : list hop) (dflt : bool) (path : str) (m : matcher rval),
    let t := ts_tree (hist_tree ops) in
    let uflag := fun v : uval => vflag (fst v) in
    guard_F2 uflag (abs t) path (m_u m) = false ->
    match spec_lookup (respec uflag (abs t)) path (m_u m) with
    | Found v _ _ => utree_find_rule t dflt path m = ORule (fst (fst v))
    | NoMatch => utree_find_rule t dflt path m = if dflt then ODefault else ONoRule
    end.
Proof. exact hist_find_rule_is_spec_F2. Qed.
Print Assumptions C02_history_find_rule.

(** the routes stored, independently of the tree: when the model tree has followed the
    history to its end ([ts_ok]: every operation the implementation accepted succeeded on it —
    checked per case in stream "history"), it is the tree after the flat list [hist_ops] of the
    Deletes and Adds those operations issue, all of them valid, and FindRule returns what the
    specification selects in the pattern-map machine's index after them ([mach_run]: per
    expression, an Add appends a route and sets the flag, a Delete removes the very route) *)
Theorem C02_history_find_rule_on_stored_routes :
  forall (ops : list hop) (dflt : bool) (path : str) (m : matcher rval),
    ts_ok (hist_tree ops) = true ->
    ts_tree (hist_tree ops) = tree_run usame_src (hist_ops ops) /\
    Forall valid_op (hist_ops ops) /\
    utree_find_rule (ts_tree (hist_tree ops)) dflt path m
    = outcome_of dflt (ufound (spec_lookup (mach_run usame_src (hist_ops ops)) path (m_u m))).
Proof. exact hist_stored_routes. Qed.
Print Assumptions C02_history_find_rule_on_stored_routes.

(** non-vacuity: a history (two creates, an update that moves a rule and drops another, a
    delete of a whole set) that the model tree follows to the end, with lookups that fall
    through to a less specific expression, find a moved rule, and find nothing any more *)
Theorem C02_history_nonvacuous :
  ts_ok (hist_tree rx_ops) = true /\
  ts_ok (hist_tree (firstn 3 rx_ops)) = true /\
  utree_find_rule (ts_tree (hist_tree (firstn 3 rx_ops))) false (rx_str "/foo/bar") (rx_only [4; 5]) = ORule 4 /\
  utree_find_rule (ts_tree (hist_tree (firstn 3 rx_ops))) false (rx_str "/foo/baz/1") (rx_only [1; 2; 3; 4; 5]) = ORule 5 /\
  utree_find_rule (ts_tree (hist_tree (firstn 3 rx_ops))) false (rx_str "/foo/bazaar/1") (rx_only [1; 2; 3; 4; 5]) = ORule 2 /\
  utree_find_rule (ts_tree (hist_tree rx_ops)) false (rx_str "/foo/bar") (rx_only [4; 5]) = ONoRule /\
  utree_find_rule (ts_tree (hist_tree rx_ops)) true (rx_str "/x/bar") (rx_only [1; 2; 3; 4; 5]) = ODefault /\
  map fst (abs (ts_tree (hist_tree rx_ops))) = [lits (rx_str "/foo/bar"); lits (rx_str "/foo/bazaar/") ++ [W]].
Proof. exact hist_nonvacuous. Qed.
Print Assumptions C02_history_nonvacuous.

(** ** what the specification says, sentence by sentence *)

(** the answer is a value of a loaded expression matching the path, acceptable,
    and the first acceptable one in that expression's insertion order.  (A readback of
    [spec_lookup]: by itself it says nothing about tree.go.  "The first one in rule-set order"
    follows for the code only by composing it with [C02_repository_find_rule] /
    [C02_find_is_most_specific] — the tree returns [spec_lookup]'s answer — and with the order
    in which [ruleset_adds] issues the Adds of a rule set; after an UpdateRuleSet the insertion
    order is no longer the rule-set order: open finding C02-F3.) *)
Theorem C02_answer_is_first_acceptable :
  forall (V : Type) (m : matcher V) (d : db V) (path : str) (v : V) (ks caps : list str),
    Forall (fun q => wf_pat q = true) (map fst d) ->
    spec_lookup d path m = Found v ks caps ->
    exists p n, In (p, n) d /\ matches p path caps /\ ks = keys n /\
      exists before after, vals n = before ++ v :: after /\ m v ks caps = true /\
        forall x, In x before -> m x ks caps = false.
Proof. exact spec_lookup_sound. Qed.
Print Assumptions C02_answer_is_first_acceptable.

(** [match_pat], used by [spec_lookup], decides the declarative relation *)
Theorem C02_match_decides_matches :
  forall (p : pat) (s : str) (cs : list str),
    wf_pat p = true -> (match_pat p s = Some cs <-> matches p s cs).
Proof. exact match_pat_iff. Qed.
Print Assumptions C02_match_decides_matches.

Theorem C02_parsed_expressions_wellformed :
  forall (s : str) (p : pat) (ks : list str), parse_expr s = Some (p, ks) -> wf_pat p = true.
Proof. exact parse_expr_wf. Qed.
Print Assumptions C02_parsed_expressions_wellformed.

(** ** wildcards never match an empty segment, a free wildcard takes the
    non-empty rest; captures are never empty and fill the path *)
Theorem C02_wildcards_nonempty :
  (forall p s caps, ~ matches (W :: p) [] caps /\ ~ matches (W :: p) (ch_slash :: s) caps) /\
  (forall p s caps, matches (W :: p) s caps <->
     exists seg rest caps', s = seg ++ rest /\ caps = seg :: caps' /\ seg <> [] /\
                            has_slash seg = false /\ matches p rest caps') /\
  (forall s caps, matches [C] s caps <-> s <> [] /\ caps = [s]) /\
  (forall p s caps, matches p s caps -> Forall (fun c => c <> []) caps /\ s = instantiate p caps).
Proof.
  exact (conj wildcard_not_empty_segment
        (conj wildcard_takes_segment
        (conj free_wildcard_takes_rest captures_nonempty_and_fill_the_path))).
Qed.
Print Assumptions C02_wildcards_nonempty.

(** ** backslash-escaped ':' '*' '\' at the start of a segment are literals
    (alone or followed by more of the expression); ':' and '*' elsewhere in a
    segment are literals too *)
Theorem C02_escapes_are_literals :
  (forall c seg, is_special c = true -> has_slash seg = false ->
     parse_go SegStart (ch_bslash :: c :: seg) = Some (lits (c :: seg), [], []) /\
     forall rest p cur ks, parse_go SegStart rest = Some (p, cur, ks) ->
       parse_go SegStart (ch_bslash :: c :: seg ++ ch_slash :: rest)
       = Some (lits (c :: seg) ++ L ch_slash :: p, [], ks)) /\
  (forall c seg, is_special c = true -> has_slash seg = false ->
     parse_expr (ch_slash :: ch_bslash :: c :: seg) = Some (lits (ch_slash :: c :: seg), []) /\
     forall path caps, matches (lits (ch_slash :: c :: seg)) path caps <-> path = ch_slash :: c :: seg /\ caps = []) /\
  (forall c seg, Ascii.eqb c ch_slash = false -> is_special c = false -> has_slash seg = false ->
     parse_go SegStart (c :: seg) = Some (lits (c :: seg), [], [])).
Proof.
  exact (conj escaped_segment_is_literal
        (conj escaped_expression_matches_literally special_inside_segment_is_literal)).
Qed.
Print Assumptions C02_escapes_are_literals.

(** * Not counted as property theorems

    Readbacks of [spec_lookup] (they unfold the specification, they say nothing about
    tree.go), the machine-level forms, and the pinned behaviour of the repaired finding C02-F1. *)

Theorem C02_machine_find_is_most_specific :
  forall (V : Type) (can_add : list V -> V -> bool) (adds : list (addop V)) (path : str) (m : matcher V),
    find_in false (load can_add adds) path m = spec_lookup (load can_add adds) path m.
Proof. exact loaded_repaired_find_is_spec. Qed.
Print Assumptions C02_machine_find_is_most_specific.

(** the most specific matching expression decides: an acceptable value of it wins ... *)
Theorem C02_most_specific_wins :
  forall (V : Type) (m : matcher V) (d : db V) (path : str) (p : pat) (n : node V) (caps : list str) (v : V),
    NoDup (map fst d) -> In (p, n) d -> most_specific_match V d path p ->
    match_pat p path = Some caps ->
    find (fun x => m x (keys n) caps) (vals n) = Some v ->
    spec_lookup d path m = Found v (keys n) caps.
Proof. exact most_specific_wins. Qed.
Print Assumptions C02_most_specific_wins.

(** ... without one and without backtracking there is no rule, whatever less
    specific expressions offer ... *)
Theorem C02_no_backtracking_stops :
  forall (V : Type) (m : matcher V) (d : db V) (path : str) (p : pat) (n : node V) (caps : list str),
    NoDup (map fst d) -> In (p, n) d -> most_specific_match V d path p ->
    match_pat p path = Some caps -> vals n <> [] ->
    find (fun x => m x (keys n) caps) (vals n) = None -> flag n = false ->
    spec_lookup d path m = NoMatch.
Proof. exact no_backtracking_stops. Qed.
Print Assumptions C02_no_backtracking_stops.

(** ... with backtracking the lookup goes on with the less specific expressions *)
Theorem C02_backtracking_continues :
  forall (V : Type) (m : matcher V) (d : db V) (path : str) (p : pat) (n : node V) (caps : list str),
    NoDup (map fst d) -> In (p, n) d -> most_specific_match V d path p ->
    match_pat p path = Some caps ->
    find (fun x => m x (keys n) caps) (vals n) = None -> flag n = true ->
    spec_lookup d path m = spec_lookup (without V p d) path m.
Proof. exact backtracking_continues. Qed.
Print Assumptions C02_backtracking_continues.

(** the same at the level of the pattern-map machine (second conjunct: the pinned code,
    guarded), and what [spec_find_rule] means *)
Theorem C02_default_or_norule :
  (forall (sets : list (nat * list rule_def)) (dflt : bool) (path : str) (m : matcher rval),
     find_rule false (load_rulesets [] sets) dflt path m = spec_find_rule (load_rulesets [] sets) dflt path m) /\
  (forall (sets : list (nat * list rule_def)) (dflt : bool) (path : str) (m : matcher rval),
     cond_only m -> guard_F1 (load_rulesets [] sets) path m = false ->
     find_rule true (load_rulesets [] sets) dflt path m = spec_find_rule (load_rulesets [] sets) dflt path m) /\
  (forall (d : db rval) (dflt : bool) (path : str) (m : matcher rval),
     match spec_lookup d path m with
     | Found v _ _ => spec_find_rule d dflt path m = ORule (fst v)
     | NoMatch => spec_find_rule d dflt path m = if dflt then ODefault else ONoRule
     end).
Proof. exact (conj repaired_find_rule_is_spec (conj find_rule_is_spec default_or_norule)). Qed.
Print Assumptions C02_default_or_norule.
(** *** the pinned behaviour (finding C02-F1, fixed by e897fef) *)

(** before the fix the theorem held only outside the guard and for conditions that
    do not look at captures ... *)
Theorem C02_pinned_find_is_most_specific :
  forall (V : Type) (can_add : list V -> V -> bool) (adds : list (addop V)) (path : str) (m : matcher V),
    cond_only m -> guard_F1 (load can_add adds) path m = false ->
    find_in true (load can_add adds) path m = spec_lookup (load can_add adds) path m.
Proof. exact loaded_find_is_spec. Qed.
Print Assumptions C02_pinned_find_is_most_specific.

Theorem C02_pinned_tree_find_is_most_specific :
  forall (V : Type) (m : matcher V) (t : tree V) (path : str),
    cond_only m -> wfb t = true -> guard_F1 (abs t) path m = false ->
    found_strip V (tree_find false false false m t path) = found_strip V (spec_lookup (abs t) path m).
Proof. exact tree_find_is_spec_guarded. Qed.
Print Assumptions C02_pinned_tree_find_is_most_specific.

(** ... and failed inside it:  /foo/**  without backtracking still fell back to  /**  *)
Theorem C02_F1_pinned_refuted :
  exists (l : list (addop nat)) (path : str) (m : matcher nat),
    cond_only m /\ guard_F1 (load ex_any l) path m = true /\
    find_in true (load ex_any l) path m <> spec_lookup (load ex_any l) path m.
Proof. exact F1_refuted. Qed.
Print Assumptions C02_F1_pinned_refuted.

