(** C02 — the most specific matching path expression selects the rule.

    Vocabulary (Radix/Spec.v): tokens [L c | W | C], [parse_expr], the declarative
    relation [matches pattern path captures], the specificity order
    ([more_specific]: literal < single wildcard < free wildcard, position by
    position), and [spec_lookup d path m]: scan the expressions of [d] matching
    [path] from the most specific one on; at an expression the first value (in
    insertion order) whose conditions [m] hold is the answer; if none holds, go on
    only if that expression's backtracking flag is set.  The flag of an expression, as the
    property states it, is the conjunction of the backtracking_enabled of its rules
    ([respec vflag]); the index keeps the flag of the last Add (open finding C02-F2).
    Search (Radix/Machine.v): [find_in false] = findNode as it is (since fix e897fef),
    [find_in true] = the pinned tree; [load] = any sequence of Add on the empty index. *)
From HV Require Import Base.Prelude Radix.Spec Radix.SpecProofs Radix.Machine Radix.MachineProofs
  Radix.Load Radix.LoadProofs Radix.Tree Radix.TreeProofs Radix.TreeAddProofs C02.Model C02.Proofs.

(** * Property theorems

    The code of findNode / addNode is [tree_find true true true] on [tree_load adds]
    (Radix/Tree.v, transcription of tree.go after the fix: commits e897fef, 88da16a,
    16cf34b, 20f92b3); [find_in false] on [load adds] is the pattern-map machine it refines. *)

(** ** the most specific matching expression selects the rule: after ANY sequence of Adds
    (any expressions, order, flags, values constraint), for any path and any conditions
    (captures included), outside finding C02-F2 *)
Theorem C02_find_is_most_specific :
  forall (V : Type) (vflag : V -> bool) (can_add : list V -> V -> bool) (m : matcher V)
         (adds : list (addop V)) (path : str),
    guard_F2 vflag (load can_add adds) path m = false ->
    tree_find true true true m (tree_load V can_add adds) path
    = spec_lookup (respec vflag (load can_add adds)) path m.
Proof. exact tree_find_is_spec_F2. Qed.
Print Assumptions C02_find_is_most_specific.

(** what holds inside the guard as well: the specification with, for every expression, the
    flag of the rule added last on it *)
Theorem C02_find_is_most_specific_with_last_flag :
  forall (V : Type) (can_add : list V -> V -> bool) (m : matcher V) (adds : list (addop V)) (path : str),
    tree_find true true true m (tree_load V can_add adds) path = spec_lookup (load can_add adds) path m.
Proof. exact tree_loaded_find_is_spec. Qed.
Print Assumptions C02_find_is_most_specific_with_last_flag.

(** ... "the flag of the rule added last": when every Add passes its rule's flag (as
    repository.addRulesTo does), the flag of every loaded expression is the flag of its last
    value — so the guard fires exactly on failed expressions whose last rule allows
    backtracking while an earlier one forbids it *)
Theorem C02_flag_in_force_is_last_add :
  forall (V : Type) (vflag : V -> bool) (can_add : list V -> V -> bool) (adds : list (addop V)),
    flags_from_values vflag adds ->
    Forall (fun e => flag_is_last V vflag (snd e)) (load can_add adds).
Proof. exact load_flag_last. Qed.
Print Assumptions C02_flag_in_force_is_last_add.

(** finding C02-F2: the guard is needed and not vacuous *)
Theorem C02_F2_refuted :
  exists (l : list (addop nat)) (path : str) (m : matcher nat),
    flags_from_values F2_vflag l /\ guard_F2 F2_vflag (load ex_any l) path m = true /\
    tree_find true true true m (tree_load nat ex_any l) path
    <> spec_lookup (respec F2_vflag (load ex_any l)) path m.
Proof. exact F2_refuted. Qed.
Print Assumptions C02_F2_refuted.

(** finding C02-F3 (rule order after UpdateRuleSet; histories are modelled at machine level in
    C02/Model.v [hstep] and compared with the real repository in stream "history"; the general
    statement about histories is C06's) *)
Theorem C02_F3_refuted :
  exists (ops : list hop) (path : str) (m : matcher rval),
    guard_F3 (hist_db ops) (fresh_db ops) path = true /\
    find_rule false (hist_db ops) false path m <> spec_find_rule (fresh_db ops) false path m.
Proof. exact F3_refuted. Qed.
Print Assumptions C02_F3_refuted.

(** ** stage 2, the two refinements behind the theorems above: findNode on ANY tree
    satisfying the shape invariant [wfb] is the machine's search on the tree's content
    ([fx] = C02-F1/C03-F2 switch; captures included) ... *)
Theorem C02_tree_refines_machine :
  forall (V : Type) (m : matcher V) (fx : bool) (t : tree V) (path : str),
    wfb t = true ->
    tree_find fx fx true m t path = find_in (negb fx) (abs t) path m.
Proof. exact tree_find_refines. Qed.
Print Assumptions C02_tree_refines_machine.

(** ... and the tree built by ANY sequence of Adds through the transcribed addNode /
    splitCommonPrefix / Add satisfies [wfb] and holds exactly the entries of the
    machine's index (a rejected Add leaves both unchanged) *)
Theorem C02_tree_add_refines_machine :
  forall (V : Type) (can_add : list V -> V -> bool) (adds : list (addop V)),
    wfb (tree_load V can_add adds) = true /\
    Permutation.Permutation (abs (tree_load V can_add adds)) (load can_add adds).
Proof. exact tree_load_refines. Qed.
Print Assumptions C02_tree_add_refines_machine.

(** ** the repository (AddRuleSet = clone, add every route, swap only on success; FindRule)
    on the compressed tree, after any sequence of rule sets: the rule the specification
    selects among what was loaded, else the default rule, else "no rule" *)
Theorem C02_repository_find_rule :
  forall (vflag : rval -> bool) (sets : list (nat * list rule_def)) (dflt : bool) (path : str) (m : matcher rval),
    guard_F2 vflag (load_rulesets [] sets) path m = false ->
    match spec_lookup (respec vflag (load_rulesets [] sets)) path m with
    | Found v _ _ => tree_find_rule (tree_load_rulesets empty_tree sets) dflt path m = ORule (fst v)
    | NoMatch => tree_find_rule (tree_load_rulesets empty_tree sets) dflt path m
                 = if dflt then ODefault else ONoRule
    end.
Proof. exact tree_find_rule_is_spec_F2. Qed.
Print Assumptions C02_repository_find_rule.

(** ** "segment by segment a literal beats a single wildcard, which beats a free wildcard":
    between two expressions matching one path the order is decided by the kinds of the first
    differing tokens — the tie-breaks that make [pat_cmp] total (byte order between
    literals, length) never decide *)
Theorem C02_ties_never_decide :
  forall (p q : pat) (s : str),
    matchesb p s = true -> matchesb q s = true -> kind_cmp p q = Some (pat_cmp p q).
Proof. exact ties_never_decide. Qed.
Print Assumptions C02_ties_never_decide.

(** non-vacuity: the hypotheses of [C02_find_is_most_specific] hold on an index where the
    lookups go through three / two candidates, with and without backtracking *)
Theorem C02_nonvacuous :
  flags_from_values NV_vflag NV_adds /\
  guard_F2 NV_vflag (load ex_any NV_adds) (ex_str "/foo/bar") (ex_only [2]) = false /\
  tree_find true true true (ex_only [2]) (tree_load nat ex_any NV_adds) (ex_str "/foo/bar") = NoMatch /\
  guard_F2 NV_vflag (load ex_any NV_adds) (ex_str "/foo/bar/baz") (ex_only [2]) = false /\
  tree_find true true true (ex_only [2]) (tree_load nat ex_any NV_adds) (ex_str "/foo/bar/baz")
  = Found 2 [ex_str "*"] [ex_str "foo/bar/baz"].
Proof. exact nonvacuous_tree. Qed.
Print Assumptions C02_nonvacuous.

(** ** independent of the order in which rules and rule sets were loaded:
    two sequences of Adds that agree, expression by expression, on the Adds of
    that expression (same values in the same order, same flags) answer every
    lookup alike — current code ([fa = false]) and pinned ([fa = true]) *)
Theorem C02_order_independent :
  forall (V : Type) (can_add : list V -> V -> bool) (fa : bool) (adds adds' : list (addop V))
         (m : matcher V) (path : str),
    same_groups adds adds' ->
    find_in fa (load can_add adds) path m = find_in fa (load can_add adds') path m.
Proof. exact load_order_independent. Qed.
Print Assumptions C02_order_independent.

(** ... and of the order in which RULE SETS were loaded: two sequences of the same rule sets
    (distinct rule-set ids) that are both accepted completely answer every request alike — on
    the compressed tree, default rule / "no rule" included.  (A rule set that is rejected in one
    order — it shares an expression with another set — is outside: then the loaded content differs.) *)
Theorem C02_rulesets_order_independent :
  forall (sets sets' : list (nat * list rule_def)) (dflt : bool) (path : str) (m : matcher rval),
    Permutation.Permutation sets sets' -> NoDup (map fst sets) ->
    all_accepted [] sets = true -> all_accepted [] sets' = true ->
    tree_find_rule (tree_load_rulesets empty_tree sets) dflt path m
    = tree_find_rule (tree_load_rulesets empty_tree sets') dflt path m.
Proof. exact tree_rulesets_order_independent. Qed.
Print Assumptions C02_rulesets_order_independent.

(** ** what the specification says, sentence by sentence *)

(** the answer is a value of a loaded expression matching the path, acceptable,
    and the first acceptable one in that expression's insertion order *)
Theorem C02_answer_is_first_acceptable :
  forall (V : Type) (m : matcher V) (d : db V) (path : str) (v : V) (ks caps : list str),
    Forall (fun q => wf_pat q = true) (map fst d) ->
    spec_lookup d path m = Found v ks caps ->
    exists p n, In (p, n) d /\ matches p path caps /\ ks = keys n /\
      exists before after, vals n = before ++ v :: after /\ m v ks caps = true /\
        forall x, In x before -> m x ks caps = false.
Proof. exact spec_lookup_sound. Qed.
Print Assumptions C02_answer_is_first_acceptable.

(** [match_pat], used by [spec_lookup], decides the declarative relation *)
Theorem C02_match_decides_matches :
  forall (p : pat) (s : str) (cs : list str),
    wf_pat p = true -> (match_pat p s = Some cs <-> matches p s cs).
Proof. exact match_pat_iff. Qed.
Print Assumptions C02_match_decides_matches.

Theorem C02_parsed_expressions_wellformed :
  forall (s : str) (p : pat) (ks : list str), parse_expr s = Some (p, ks) -> wf_pat p = true.
Proof. exact parse_expr_wf. Qed.
Print Assumptions C02_parsed_expressions_wellformed.

(** ** wildcards never match an empty segment, a free wildcard takes the
    non-empty rest; captures are never empty and fill the path *)
Theorem C02_wildcards_nonempty :
  (forall p s caps, ~ matches (W :: p) [] caps /\ ~ matches (W :: p) (ch_slash :: s) caps) /\
  (forall p s caps, matches (W :: p) s caps <->
     exists seg rest caps', s = seg ++ rest /\ caps = seg :: caps' /\ seg <> [] /\
                            has_slash seg = false /\ matches p rest caps') /\
  (forall s caps, matches [C] s caps <-> s <> [] /\ caps = [s]) /\
  (forall p s caps, matches p s caps -> Forall (fun c => c <> []) caps /\ s = instantiate p caps).
Proof.
  exact (conj wildcard_not_empty_segment
        (conj wildcard_takes_segment
        (conj free_wildcard_takes_rest captures_nonempty_and_fill_the_path))).
Qed.
Print Assumptions C02_wildcards_nonempty.

(** ** backslash-escaped ':' '*' '\' at the start of a segment are literals
    (alone or followed by more of the expression); ':' and '*' elsewhere in a
    segment are literals too *)
Theorem C02_escapes_are_literals :
  (forall c seg, is_special c = true -> has_slash seg = false ->
     parse_go SegStart (ch_bslash :: c :: seg) = Some (lits (c :: seg), [], []) /\
     forall rest p cur ks, parse_go SegStart rest = Some (p, cur, ks) ->
       parse_go SegStart (ch_bslash :: c :: seg ++ ch_slash :: rest)
       = Some (lits (c :: seg) ++ L ch_slash :: p, [], ks)) /\
  (forall c seg, is_special c = true -> has_slash seg = false ->
     parse_expr (ch_slash :: ch_bslash :: c :: seg) = Some (lits (ch_slash :: c :: seg), []) /\
     forall path caps, matches (lits (ch_slash :: c :: seg)) path caps <-> path = ch_slash :: c :: seg /\ caps = []) /\
  (forall c seg, Ascii.eqb c ch_slash = false -> is_special c = false -> has_slash seg = false ->
     parse_go SegStart (c :: seg) = Some (lits (c :: seg), [], [])).
Proof.
  exact (conj escaped_segment_is_literal
        (conj escaped_expression_matches_literally special_inside_segment_is_literal)).
Qed.
Print Assumptions C02_escapes_are_literals.

(** * Not counted as property theorems

    Readbacks of [spec_lookup] (they unfold the specification, they say nothing about
    tree.go), the machine-level forms, and the pinned behaviour of the repaired finding C02-F1. *)

Theorem C02_machine_find_is_most_specific :
  forall (V : Type) (can_add : list V -> V -> bool) (adds : list (addop V)) (path : str) (m : matcher V),
    find_in false (load can_add adds) path m = spec_lookup (load can_add adds) path m.
Proof. exact loaded_repaired_find_is_spec. Qed.
Print Assumptions C02_machine_find_is_most_specific.

(** the most specific matching expression decides: an acceptable value of it wins ... *)
Theorem C02_most_specific_wins :
  forall (V : Type) (m : matcher V) (d : db V) (path : str) (p : pat) (n : node V) (caps : list str) (v : V),
    NoDup (map fst d) -> In (p, n) d -> most_specific_match V d path p ->
    match_pat p path = Some caps ->
    find (fun x => m x (keys n) caps) (vals n) = Some v ->
    spec_lookup d path m = Found v (keys n) caps.
Proof. exact most_specific_wins. Qed.
Print Assumptions C02_most_specific_wins.

(** ... without one and without backtracking there is no rule, whatever less
    specific expressions offer ... *)
Theorem C02_no_backtracking_stops :
  forall (V : Type) (m : matcher V) (d : db V) (path : str) (p : pat) (n : node V) (caps : list str),
    NoDup (map fst d) -> In (p, n) d -> most_specific_match V d path p ->
    match_pat p path = Some caps -> vals n <> [] ->
    find (fun x => m x (keys n) caps) (vals n) = None -> flag n = false ->
    spec_lookup d path m = NoMatch.
Proof. exact no_backtracking_stops. Qed.
Print Assumptions C02_no_backtracking_stops.

(** ... with backtracking the lookup goes on with the less specific expressions *)
Theorem C02_backtracking_continues :
  forall (V : Type) (m : matcher V) (d : db V) (path : str) (p : pat) (n : node V) (caps : list str),
    NoDup (map fst d) -> In (p, n) d -> most_specific_match V d path p ->
    match_pat p path = Some caps ->
    find (fun x => m x (keys n) caps) (vals n) = None -> flag n = true ->
    spec_lookup d path m = spec_lookup (without V p d) path m.
Proof. exact backtracking_continues. Qed.
Print Assumptions C02_backtracking_continues.

(** the same at the level of the pattern-map machine (second conjunct: the pinned code,
    guarded), and what [spec_find_rule] means *)
Theorem C02_default_or_norule :
  (forall (sets : list (nat * list rule_def)) (dflt : bool) (path : str) (m : matcher rval),
     find_rule false (load_rulesets [] sets) dflt path m = spec_find_rule (load_rulesets [] sets) dflt path m) /\
  (forall (sets : list (nat * list rule_def)) (dflt : bool) (path : str) (m : matcher rval),
     cond_only m -> guard_F1 (load_rulesets [] sets) path m = false ->
     find_rule true (load_rulesets [] sets) dflt path m = spec_find_rule (load_rulesets [] sets) dflt path m) /\
  (forall (d : db rval) (dflt : bool) (path : str) (m : matcher rval),
     match spec_lookup d path m with
     | Found v _ _ => spec_find_rule d dflt path m = ORule (fst v)
     | NoMatch => spec_find_rule d dflt path m = if dflt then ODefault else ONoRule
     end).
Proof. exact (conj repaired_find_rule_is_spec (conj find_rule_is_spec default_or_norule)). Qed.
Print Assumptions C02_default_or_norule.
(** *** the pinned behaviour (finding C02-F1, fixed by e897fef) *)

(** before the fix the theorem held only outside the guard and for conditions that
    do not look at captures ... *)
Theorem C02_pinned_find_is_most_specific :
  forall (V : Type) (can_add : list V -> V -> bool) (adds : list (addop V)) (path : str) (m : matcher V),
    cond_only m -> guard_F1 (load can_add adds) path m = false ->
    find_in true (load can_add adds) path m = spec_lookup (load can_add adds) path m.
Proof. exact loaded_find_is_spec. Qed.
Print Assumptions C02_pinned_find_is_most_specific.

Theorem C02_pinned_tree_find_is_most_specific :
  forall (V : Type) (m : matcher V) (t : tree V) (path : str),
    cond_only m -> wfb t = true -> guard_F1 (abs t) path m = false ->
    found_strip V (tree_find false false false m t path) = found_strip V (spec_lookup (abs t) path m).
Proof. exact tree_find_is_spec_guarded. Qed.
Print Assumptions C02_pinned_tree_find_is_most_specific.

(** ... and failed inside it:  /foo/**  without backtracking still fell back to  /**  *)
Theorem C02_F1_pinned_refuted :
  exists (l : list (addop nat)) (path : str) (m : matcher nat),
    cond_only m /\ guard_F1 (load ex_any l) path m = true /\
    find_in true (load ex_any l) path m <> spec_lookup (load ex_any l) path m.
Proof. exact F1_refuted. Qed.
Print Assumptions C02_F1_pinned_refuted.

