(** C02 — the most specific matching path expression selects the rule.

    Vocabulary (Radix/Spec.v): tokens [L c | W | C], [parse_expr], the declarative
    relation [matches pattern path captures], the specificity order
    ([more_specific]: literal < single wildcard < free wildcard, position by
    position), and [spec_lookup d path m]: scan the expressions of [d] matching
    [path] from the most specific one on; at an expression the first value (in
    insertion order) whose conditions [m] hold is the answer; if none holds, go on
    only if that expression's backtracking flag is set.
    Search (Radix/Machine.v): [find_in false] = findNode as it is (since fix e897fef),
    [find_in true] = the pinned tree; [load] = any sequence of Add on the empty index. *)
From HV Require Import Base.Prelude Radix.Spec Radix.SpecProofs Radix.Machine Radix.MachineProofs
  Radix.Load Radix.LoadProofs Radix.Tree Radix.TreeProofs Radix.TreeAddProofs C02.Model C02.Proofs.

(** ** the search returns what the specification says

    Since fix e897fef (C02-F1), 88da16a (C03-F2) and 16cf34b (C03-F5) the code of
    findNode is [find_in false] / [tree_find true true true]; [find_in true] /
    [tree_find false ..] is the PINNED tree (before those commits). *)

(** after ANY sequence of Adds (any expressions, order, flags, values constraint),
    for any path and any conditions (captures included) *)
Theorem C02_find_is_most_specific :
  forall (V : Type) (can_add : list V -> V -> bool) (adds : list (addop V)) (path : str) (m : matcher V),
    find_in false (load can_add adds) path m = spec_lookup (load can_add adds) path m.
Proof. exact loaded_repaired_find_is_spec. Qed.
Print Assumptions C02_find_is_most_specific.

(** stage 2: the compressed radix tree (Radix/Tree.v: findNode of tree.go with its
    static / wildcard / catch-all children, transcribed) on ANY tree satisfying the
    shape invariant [wfb] is the machine's search on the tree's content [abs]
    ([fx] = C02-F1/C03-F2 switch; captures included) ... *)
Theorem C02_tree_refines_machine :
  forall (V : Type) (m : matcher V) (fx : bool) (t : tree V) (path : str),
    wfb t = true ->
    tree_find fx fx true m t path = find_in (negb fx) (abs t) path m.
Proof. exact tree_find_refines. Qed.
Print Assumptions C02_tree_refines_machine.

(** ... and the tree built by ANY sequence of Adds through the transcribed addNode /
    splitCommonPrefix / Add satisfies [wfb] and holds exactly the entries of the
    machine's index ... *)
Theorem C02_tree_add_refines_machine :
  forall (V : Type) (can_add : list V -> V -> bool) (adds : list (addop V)),
    wfb (tree_load V can_add adds) = true /\
    Permutation.Permutation (abs (tree_load V can_add adds)) (load can_add adds).
Proof. exact tree_load_refines. Qed.
Print Assumptions C02_tree_add_refines_machine.

(** ... hence the compressed tree as tree.go builds and searches it returns the
    specification's answer: for all Adds, all paths, all conditions *)
Theorem C02_tree_find_is_most_specific :
  forall (V : Type) (can_add : list V -> V -> bool) (m : matcher V) (adds : list (addop V)) (path : str),
    tree_find true true true m (tree_load V can_add adds) path = spec_lookup (load can_add adds) path m.
Proof. exact tree_loaded_find_is_spec. Qed.
Print Assumptions C02_tree_find_is_most_specific.

(** *** the pinned behaviour (finding C02-F1, fixed by e897fef) *)

(** before the fix the theorem held only outside the guard and for conditions that
    do not look at captures ... *)
Theorem C02_pinned_find_is_most_specific :
  forall (V : Type) (can_add : list V -> V -> bool) (adds : list (addop V)) (path : str) (m : matcher V),
    cond_only m -> guard_F1 (load can_add adds) path m = false ->
    find_in true (load can_add adds) path m = spec_lookup (load can_add adds) path m.
Proof. exact loaded_find_is_spec. Qed.
Print Assumptions C02_pinned_find_is_most_specific.

Theorem C02_pinned_tree_find_is_most_specific :
  forall (V : Type) (m : matcher V) (t : tree V) (path : str),
    cond_only m -> wfb t = true -> guard_F1 (abs t) path m = false ->
    found_strip V (tree_find false false false m t path) = found_strip V (spec_lookup (abs t) path m).
Proof. exact tree_find_is_spec_guarded. Qed.
Print Assumptions C02_pinned_tree_find_is_most_specific.

(** ... and failed inside it:  /foo/**  without backtracking still fell back to  /**  *)
Theorem C02_F1_pinned_refuted :
  exists (l : list (addop nat)) (path : str) (m : matcher nat),
    cond_only m /\ guard_F1 (load ex_any l) path m = true /\
    find_in true (load ex_any l) path m <> spec_lookup (load ex_any l) path m.
Proof. exact F1_refuted. Qed.
Print Assumptions C02_F1_pinned_refuted.

(** non-vacuity: concrete lookups with several candidates, with and without backtracking *)
Theorem C02_nonvacuous :
  find_in false (load ex_any NV_adds) (ex_str "/foo/bar") (ex_only [2]) = NoMatch /\
  find_in false (load ex_any NV_adds) (ex_str "/foo/bar/baz") (ex_only [2])
  = Found 2 [ex_str "*"] [ex_str "foo/bar/baz"] /\
  find_in false (load ex_any NV_adds) (ex_str "/foo/bar") (ex_only [1; 2; 3; 4]) = Found 4 [] [].
Proof. exact nonvacuous_current. Qed.
Print Assumptions C02_nonvacuous.

(** ** independent of the order in which rules and rule sets were loaded:
    two sequences of Adds that agree, expression by expression, on the Adds of
    that expression (same values in the same order, same flags) answer every
    lookup alike — current code ([fa = false]) and pinned ([fa = true]) *)
Theorem C02_order_independent :
  forall (V : Type) (can_add : list V -> V -> bool) (fa : bool) (adds adds' : list (addop V))
         (m : matcher V) (path : str),
    same_groups adds adds' ->
    find_in fa (load can_add adds) path m = find_in fa (load can_add adds') path m.
Proof. exact load_order_independent. Qed.
Print Assumptions C02_order_independent.

(** ** what the specification says, sentence by sentence *)

(** the answer is a value of a loaded expression matching the path, acceptable,
    and the first acceptable one in that expression's insertion order *)
Theorem C02_answer_is_first_acceptable :
  forall (V : Type) (m : matcher V) (d : db V) (path : str) (v : V) (ks caps : list str),
    Forall (fun q => wf_pat q = true) (map fst d) ->
    spec_lookup d path m = Found v ks caps ->
    exists p n, In (p, n) d /\ matches p path caps /\ ks = keys n /\
      exists before after, vals n = before ++ v :: after /\ m v ks caps = true /\
        forall x, In x before -> m x ks caps = false.
Proof. exact spec_lookup_sound. Qed.
Print Assumptions C02_answer_is_first_acceptable.

(** the most specific matching expression decides: an acceptable value of it wins ... *)
Theorem C02_most_specific_wins :
  forall (V : Type) (m : matcher V) (d : db V) (path : str) (p : pat) (n : node V) (caps : list str) (v : V),
    NoDup (map fst d) -> In (p, n) d -> most_specific_match V d path p ->
    match_pat p path = Some caps ->
    find (fun x => m x (keys n) caps) (vals n) = Some v ->
    spec_lookup d path m = Found v (keys n) caps.
Proof. exact most_specific_wins. Qed.
Print Assumptions C02_most_specific_wins.

(** ... without one and without backtracking there is no rule, whatever less
    specific expressions offer ... *)
Theorem C02_no_backtracking_stops :
  forall (V : Type) (m : matcher V) (d : db V) (path : str) (p : pat) (n : node V) (caps : list str),
    NoDup (map fst d) -> In (p, n) d -> most_specific_match V d path p ->
    match_pat p path = Some caps -> vals n <> [] ->
    find (fun x => m x (keys n) caps) (vals n) = None -> flag n = false ->
    spec_lookup d path m = NoMatch.
Proof. exact no_backtracking_stops. Qed.
Print Assumptions C02_no_backtracking_stops.

(** ... with backtracking the lookup goes on with the less specific expressions *)
Theorem C02_backtracking_continues :
  forall (V : Type) (m : matcher V) (d : db V) (path : str) (p : pat) (n : node V) (caps : list str),
    NoDup (map fst d) -> In (p, n) d -> most_specific_match V d path p ->
    match_pat p path = Some caps ->
    find (fun x => m x (keys n) caps) (vals n) = None -> flag n = true ->
    spec_lookup d path m = spec_lookup (without V p d) path m.
Proof. exact backtracking_continues. Qed.
Print Assumptions C02_backtracking_continues.

(** [match_pat], used by [spec_lookup], decides the declarative relation *)
Theorem C02_match_decides_matches :
  forall (p : pat) (s : str) (cs : list str),
    wf_pat p = true -> (match_pat p s = Some cs <-> matches p s cs).
Proof. exact match_pat_iff. Qed.
Print Assumptions C02_match_decides_matches.

Theorem C02_parsed_expressions_wellformed :
  forall (s : str) (p : pat) (ks : list str), parse_expr s = Some (p, ks) -> wf_pat p = true.
Proof. exact parse_expr_wf. Qed.
Print Assumptions C02_parsed_expressions_wellformed.

(** ** wildcards never match an empty segment, a free wildcard takes the
    non-empty rest; captures are never empty and fill the path *)
Theorem C02_wildcards_nonempty :
  (forall p s caps, ~ matches (W :: p) [] caps /\ ~ matches (W :: p) (ch_slash :: s) caps) /\
  (forall p s caps, matches (W :: p) s caps <->
     exists seg rest caps', s = seg ++ rest /\ caps = seg :: caps' /\ seg <> [] /\
                            has_slash seg = false /\ matches p rest caps') /\
  (forall s caps, matches [C] s caps <-> s <> [] /\ caps = [s]) /\
  (forall p s caps, matches p s caps -> Forall (fun c => c <> []) caps /\ s = instantiate p caps).
Proof.
  exact (conj wildcard_not_empty_segment
        (conj wildcard_takes_segment
        (conj free_wildcard_takes_rest captures_nonempty_and_fill_the_path))).
Qed.
Print Assumptions C02_wildcards_nonempty.

(** ** backslash-escaped ':' '*' '\' at the start of a segment are literals
    (alone or followed by more of the expression); ':' and '*' elsewhere in a
    segment are literals too *)
Theorem C02_escapes_are_literals :
  (forall c seg, is_special c = true -> has_slash seg = false ->
     parse_go SegStart (ch_bslash :: c :: seg) = Some (lits (c :: seg), [], []) /\
     forall rest p cur ks, parse_go SegStart rest = Some (p, cur, ks) ->
       parse_go SegStart (ch_bslash :: c :: seg ++ ch_slash :: rest)
       = Some (lits (c :: seg) ++ L ch_slash :: p, [], ks)) /\
  (forall c seg, is_special c = true -> has_slash seg = false ->
     parse_expr (ch_slash :: ch_bslash :: c :: seg) = Some (lits (ch_slash :: c :: seg), []) /\
     forall path caps, matches (lits (ch_slash :: c :: seg)) path caps <-> path = ch_slash :: c :: seg /\ caps = []) /\
  (forall c seg, Ascii.eqb c ch_slash = false -> is_special c = false -> has_slash seg = false ->
     parse_go SegStart (c :: seg) = Some (lits (c :: seg), [], [])).
Proof.
  exact (conj escaped_segment_is_literal
        (conj escaped_expression_matches_literally special_inside_segment_is_literal)).
Qed.
Print Assumptions C02_escapes_are_literals.

(** ** the repository (AddRuleSet = clone, add every route, swap only on success; FindRule):
    on the compressed tree, after any sequence of rule sets, the rule the specification
    selects among what was loaded, else the default rule, else "no rule" *)
Theorem C02_repository_find_rule :
  forall (sets : list (nat * list rule_def)) (dflt : bool) (path : str) (m : matcher rval),
    tree_find_rule (tree_load_rulesets empty_tree sets) dflt path m
    = spec_find_rule (load_rulesets [] sets) dflt path m.
Proof. exact tree_find_rule_is_spec. Qed.
Print Assumptions C02_repository_find_rule.

(** the same at the level of the pattern-map machine (second conjunct: the pinned code,
    guarded), and what [spec_find_rule] means *)
Theorem C02_default_or_norule :
  (forall (sets : list (nat * list rule_def)) (dflt : bool) (path : str) (m : matcher rval),
     find_rule false (load_rulesets [] sets) dflt path m = spec_find_rule (load_rulesets [] sets) dflt path m) /\
  (forall (sets : list (nat * list rule_def)) (dflt : bool) (path : str) (m : matcher rval),
     cond_only m -> guard_F1 (load_rulesets [] sets) path m = false ->
     find_rule true (load_rulesets [] sets) dflt path m = spec_find_rule (load_rulesets [] sets) dflt path m) /\
  (forall (d : db rval) (dflt : bool) (path : str) (m : matcher rval),
     match spec_lookup d path m with
     | Found v _ _ => spec_find_rule d dflt path m = ORule (fst v)
     | NoMatch => spec_find_rule d dflt path m = if dflt then ODefault else ONoRule
     end).
Proof. exact (conj repaired_find_rule_is_spec (conj find_rule_is_spec default_or_norule)). Qed.
Print Assumptions C02_default_or_norule.
