(** C14 — Effective pipelines follow stage-wise inheritance; malformed rules are
    rejected.  Property theorems only; the specification is C14/Spec.v (written
    without the model's functions), the model C14/Model.v, the proofs C14/Proofs.v.

    Scope.  The statement speaks about steps that name one mechanism.  A step map
    with several mechanism keys and an `if` on an authenticator step are outside
    it ([scoped_step]); what the code does with them (first key in a fixed order,
    condition ignored) is covered by [C14_pipeline_language], which holds for every
    list of step maps. *)
From HV Require Import Base.Prelude C14.Model C14.Spec C14.Proofs.

(** The rule factory computes the specification's effective rule, and rejects
    exactly what the specification rejects, on every rule definition in scope,
    for every default rule (absent or any effective rule), every `execute` /
    `on_error` list of any length, with/without backtracking_enabled, both modes.
    (Matchers are C03's business: a rule whose matchers cannot be built is
    rejected whatever its pipeline.) *)
Theorem C14_factory_meets_spec : forall proxy def r,
  scoped_rule r = true ->
  create_rule proxy def r =
  if r_matchers_ok r then match spec_rule proxy def r with Some e => Ok e | None => Rejected end else Rejected.
Proof. exact create_rule_spec. Qed.
Print Assumptions C14_factory_meets_spec.

(** sentence 1, spelled out: stage by stage the rule's own mechanisms of that
    stage (the mechanisms its steps denote, in definition order, split by kind) if
    there is at least one, otherwise the default rule's; backtracking the rule's
    own if given, otherwise the default rule's, otherwise off *)
Theorem C14_stagewise_inheritance : forall proxy def r eff,
  scoped_rule r = true ->
  create_rule proxy def r = Ok eff ->
  exists ms e,
    all_some (map spec_mech (r_exec r)) = Some ms /\ spec_errors (r_eh r) = Some e /\
    f_sc eff = inherit (filter (of_rank 0) ms) (dflt def f_sc) /\
    f_sh eff = inherit (filter (of_rank 1) ms) (dflt def f_sh) /\
    f_fi eff = inherit (filter (of_rank 2) ms) (dflt def f_fi) /\
    f_eh eff = inherit e (dflt def f_eh) /\
    f_bt eff = match r_bt r with
               | Some b => b
               | None => match def with Some d => f_bt d | None => false end
               end.
Proof. exact stagewise_inheritance. Qed.
Print Assumptions C14_stagewise_inheritance.

(** sentence 2, clause by clause: a step naming no / an unknown mechanism, a
    bad override or condition; an `execute` list not ordered authenticators,
    authorizers/contextualizers, finalizers; no authenticator in the end; no
    forward_to in proxy mode — each rejects the rule *)
Theorem C14_malformed_rejected : forall proxy def r,
  scoped_rule r = true ->
  (exists st, In st (r_exec r) /\ spec_mech st = None) \/
  (exists e, In e (r_eh r) /\ spec_eh_mech e = None) \/
  (exists ms, all_some (map spec_mech (r_exec r)) = Some ms /\ sortedb (map rk ms) = false) \/
  (exists ms, all_some (map spec_mech (r_exec r)) = Some ms /\ filter (of_rank 0) ms = [] /\ dflt def f_sc = []) \/
  (proxy = true /\ r_backend r = false) ->
  create_rule proxy def r = Rejected.
Proof. exact malformed_rejected. Qed.
Print Assumptions C14_malformed_rejected.

(** and the rule factory rejects nothing else *)
Theorem C14_wellformed_accepted : forall proxy def r ms e,
  scoped_rule r = true ->
  all_some (map spec_mech (r_exec r)) = Some ms -> sortedb (map rk ms) = true ->
  spec_errors (r_eh r) = Some e ->
  (filter (of_rank 0) ms <> [] \/ dflt def f_sc <> []) ->
  (proxy = true -> r_backend r = true) -> r_matchers_ok r = true ->
  exists eff, create_rule proxy def r = Ok eff.
Proof. exact wellformed_accepted. Qed.
Print Assumptions C14_wellformed_accepted.

(** the default rule: its stages are its own steps' mechanisms in definition
    order; a misordered one, one with a malformed step or one without an
    authenticator is refused (start-up fails) *)
Theorem C14_default_rule_meets_spec : forall d,
  forallb scoped_step (d_exec d) = true ->
  init_default d = match spec_default d with Some e => Ok e | None => Rejected end.
Proof. exact init_default_spec. Qed.
Print Assumptions C14_default_rule_meets_spec.

(** every list of step maps (in or out of scope): the accumulating order checks
    of createExecutePipeline accept exactly the lists whose steps all denote a
    mechanism — as the code reads a step: [model_mech] — and are sorted by stage;
    the three stages are the mechanisms of each stage in definition order *)
Theorem C14_pipeline_language : forall sts,
  exec_pipeline empty_pipes sts =
  match model_pipeline sts with
  | Some (a, h, f) => Ok {| p_a := a; p_h := h; p_f := f |}
  | None => Rejected
  end.
Proof. exact pipeline_language_triple. Qed.
Print Assumptions C14_pipeline_language.

(** on the steps the statement speaks about, the code's reading of a step is the specification's *)
Theorem C14_reading_in_scope : forall st, scoped_step st = true -> model_mech st = spec_mech st.
Proof. exact model_mech_scoped. Qed.
Print Assumptions C14_reading_in_scope.

(** "rejected when its rule set is loaded": the loader of a rule set (parser
    validation, version check, rule factory) accepts a set iff it accepts every
    rule of it ... *)
Theorem C14_ruleset_all_or_nothing : forall proxy def sd effs,
  load_ruleset proxy def sd = Ok effs <->
  forallb parse_ok (sd_rules sd) = true /\ sd_version_ok sd = true /\
  Forall2 (fun r e => create_rule proxy def r = Ok e) (sd_rules sd) effs.
Proof. exact ruleset_all_or_nothing. Qed.
Print Assumptions C14_ruleset_all_or_nothing.

(** ... so one rule the factory does not accept, anywhere in the set, makes the
    load (creation as well as update) report a rejection and leaves the rules of
    that source what they were *)
Theorem C14_ruleset_one_bad_rejects : forall proxy def v rs1 r rs2 old,
  (forall e, create_rule proxy def r <> Ok e) ->
  let res := load_ruleset proxy def {| sd_version_ok := v; sd_rules := rs1 ++ r :: rs2 |} in
  is_ok res = false /\ after old res = old.
Proof. exact ruleset_one_bad_rejects. Qed.
Print Assumptions C14_ruleset_one_bad_rejects.

(** the rule-set loader against the specification.  Deviation (over-rejection,
    not a violation of the statement): the parser refuses a rule without any
    `execute` step even where the specification gives it a pipeline (complete
    default rule); [parse_ok] carries that extra demand. *)
Theorem C14_ruleset_meets_spec : forall proxy def sd,
  forallb scoped_rule (sd_rules sd) = true ->
  load_ruleset proxy def sd =
  if forallb parse_ok (sd_rules sd) && sd_version_ok sd
  then match spec_rules proxy def (sd_rules sd) with Some es => Ok es | None => Rejected end
  else Rejected.
Proof. exact load_ruleset_spec. Qed.
Print Assumptions C14_ruleset_meets_spec.

(** histories of CreateRule calls on ONE factory instance (2, 5, any number of rules, in one rule set or over
    reloads): whatever was created before and after, the result for a rule is the specification's — a function of
    that rule's definition, the default rule and the mode alone; nothing of an earlier rule (say, the pipelines
    created for an equal `execute` list) can show in a later one — by construction of the model
    ([create_history] is a map: no state between calls); that the CODE has no such memory is what the
    `history` stream checks, not this theorem *)
Theorem C14_history_meets_spec : forall proxy def pre r post,
  scoped_rule r = true ->
  nth_error (create_history proxy def (pre ++ r :: post)) (length pre) =
  Some (if r_matchers_ok r then match spec_rule proxy def r with Some e => Ok e | None => Rejected end else Rejected).
Proof. exact history_meets_spec. Qed.
Print Assumptions C14_history_meets_spec.

(** the trace of mechanisms executed for a request (rule_impl.go Execute), for
    any CEL oracle [holds]: nothing fails — the first authenticator, then every
    authorizer/contextualizer whose condition holds, then every finalizer whose
    condition holds, in the order of the effective rule, and no error handler *)
Theorem C14_trace_success : forall holds e p a sc,
  pr_fail p = FNone -> f_sc e = a :: sc ->
  run holds e p =
  (false, tm a :: map tm (filter (applicable holds p) (f_sh e)) ++ map tm (filter (applicable holds p) (f_fi e))).
Proof. exact run_success. Qed.
Print Assumptions C14_trace_success.

(** the authorization stage fails: the pipeline stops at the first applicable
    authorizer/contextualizer, no finalizer runs, the first applicable error
    handler of the EFFECTIVE error stage handles the error (else it is returned) *)
Theorem C14_trace_failure : forall holds e p a sc,
  pr_fail p = FMid -> stage_kinds e -> f_sc e = a :: sc ->
  run holds e p =
  match find (applicable holds p) (f_sh e) with
  | Some h => let '(te, handled) := first_applicable holds p (f_eh e) in (negb handled, [tm a] ++ [tm h] ++ te)
  | None => (false, tm a :: map tm (filter (applicable holds p) (f_fi e)))
  end.
Proof. exact run_mid_failure. Qed.
Print Assumptions C14_trace_failure.

(** the finalization stage fails: every applicable authorizer/contextualizer has run, the pipeline stops at the
    first applicable finalizer, then the first applicable error handler *)
Theorem C14_trace_fin_failure : forall holds e p a sc,
  pr_fail p = FFin -> stage_kinds e -> f_sc e = a :: sc ->
  run holds e p =
  match find (applicable holds p) (f_fi e) with
  | Some h => let '(te, handled) := first_applicable holds p (f_eh e) in
              (negb handled, [tm a] ++ map tm (filter (applicable holds p) (f_sh e)) ++ [tm h] ++ te)
  | None => (false, tm a :: map tm (filter (applicable holds p) (f_sh e)))
  end.
Proof. exact run_fin_failure. Qed.
Print Assumptions C14_trace_fin_failure.

(** every authenticator fails with an argument error and the error handlers decline (the probe that shows whole
    stages): all authenticators in order, then every applicable error handler in order; the error is returned *)
Theorem C14_trace_authn_failure : forall holds e p,
  pr_fail p = FAuthn -> stage_kinds e ->
  run holds e p = (true, map tm (f_sc e) ++ map tm (filter (applicable holds p) (f_eh e))).
Proof. exact run_authn_failure. Qed.
Print Assumptions C14_trace_authn_failure.

(** the rules the factory creates have stages of the right kinds (hypothesis of the three failure theorems
    above): for a rule given that the default rule has, and for every default rule the specification accepts *)
Theorem C14_stage_kinds : forall proxy def r e,
  match def with Some d => stage_kinds d | None => True end ->
  spec_rule proxy def r = Some e -> stage_kinds e.
Proof. exact spec_rule_kinds. Qed.
Print Assumptions C14_stage_kinds.

Theorem C14_default_stage_kinds : forall d e, spec_default d = Some e -> stage_kinds e.
Proof. exact spec_default_kinds. Qed.
Print Assumptions C14_default_stage_kinds.

(** T_main of the verdict protocol, for every input and without any guard: an
    implementation that shows what the model shows satisfies the property's
    predicate (so "correspondence holds, property fails" cannot occur) *)
Theorem C14_corr_implies_prop : forall holds proxy d r,
  prop_rule (observe holds) robs_eqb proxy d r (map_load (observe holds) (load proxy d r)) = true.
Proof. intros holds proxy d r. apply corr_implies_prop. apply robs_eqb_iff. Qed.
Print Assumptions C14_corr_implies_prop.

(** the same for the `realfactory` stream's observation (mechanism ids per stage) *)
Theorem C14_corr_implies_prop_ids : forall proxy d r,
  prop_rule observe_ids iobs_eqb proxy d r (map_load observe_ids (load proxy d r)) = true.
Proof. intros proxy d r. apply corr_implies_prop. apply iobs_eqb_iff. Qed.
Print Assumptions C14_corr_implies_prop_ids.

Theorem C14_corr_implies_prop_set : forall holds proxy d k sd,
  prop_set holds proxy d k sd (run_set holds proxy d k sd) = true.
Proof. exact corr_implies_prop_set. Qed.
Print Assumptions C14_corr_implies_prop_set.

(** what the predicate means when it holds on an observation of a loaded rule *)
Theorem C14_prop_sound : forall holds proxy d r x def,
  prop_rule (observe holds) robs_eqb proxy d r (Loaded (Ok x)) = true ->
  scoped_default d = true -> scoped_rule r = true -> spec_default_opt d = Some def ->
  exists e, spec_rule proxy def r = Some e /\ x = observe holds e.
Proof. intros holds proxy d r x def. apply prop_rule_sound. apply robs_eqb_iff. Qed.
Print Assumptions C14_prop_sound.

(** "malformed rules are rejected" includes the default rule: a rule factory that exists over a default rule the
    specification does not accept (misordered, a malformed step, no authenticator) fails the predicate, whatever
    happens to the rule handed to it *)
Theorem C14_prop_rejects_bad_default : forall holds proxy d r x,
  scoped_default d = true -> spec_default_opt d = None ->
  prop_rule (observe holds) robs_eqb proxy d r (Loaded x) = false.
Proof. intros holds proxy d r x. apply prop_rule_bad_default. Qed.
Print Assumptions C14_prop_rejects_bad_default.

(** non-vacuity: a partial default rule (from which the authenticator, the
    authorizer and backtracking are inherited) and a rule defining only a
    conditional finalizer with an override; the GET request executes all three,
    the POST request skips the finalizer *)
Example C14_nonvacuous :
  let key n := Some {| k_id := Some n; k_ok := true |} in
  let au := {| s_authn := key 1; s_authz := None; s_ctx := None; s_fin := None; s_if := CondNil; s_cfg := CfgNil |} in
  let az := {| s_authn := None; s_authz := key 3; s_ctx := None; s_fin := None; s_if := CondNil; s_cfg := CfgNil |} in
  let fi := {| s_authn := None; s_authz := None; s_ctx := None; s_fin := key 7; s_if := CondOk 0; s_cfg := CfgMap 2 |} in
  let holds c m := Nat.eqb c m in
  let d := Some {| d_exec := [au; az]; d_eh := []; d_bt := true |} in
  let r := {| r_exec := [fi]; r_eh := []; r_bt := None; r_backend := false; r_matchers_ok := true |} in
  scoped_rule r = true /\
  load false d r =
    Loaded (Ok {| f_sc := [ {| m_kind := KAuthn; m_id := 1; m_cond := None; m_cfg := None |} ];
                  f_sh := [ {| m_kind := KAuthz; m_id := 3; m_cond := None; m_cfg := None |} ];
                  f_fi := [ {| m_kind := KFin; m_id := 7; m_cond := Some 0; m_cfg := Some 2 |} ];
                  f_eh := []; f_bt := true |}) /\
  (forall e, load false d r = Loaded (Ok e) ->
     run holds e {| pr_meth := 0; pr_fail := FNone |} = (false, [(KAuthn, 1, None); (KAuthz, 3, None); (KFin, 7, Some 2)]) /\
     run holds e {| pr_meth := 1; pr_fail := FNone |} = (false, [(KAuthn, 1, None); (KAuthz, 3, None)])).
Proof.
  split; [reflexivity|]. split; [vm_compute; reflexivity|].
  intros e H. vm_compute in H. inversion H; subst e. split; vm_compute; reflexivity.
Qed.
Print Assumptions C14_nonvacuous.

(** History: finding C14-F1 (repaired by fix: commit 97aaffa).  The factory of
    the pinned commit ignored a rule's own backtracking_enabled when no default
    rule is configured; [create_rule_pinned] is that behaviour, kept only to
    document the finding — it corresponds to no code in the tree any more and is
    not part of the check's obligations. *)
Theorem C14_F1_pinned_refuted :
  exists r eff, scoped_rule r = true /\ r_bt r = Some true /\
    create_rule_pinned false None r = Ok eff /\ spec_rule false None r <> Some eff.
Proof. exact F1_pinned_refuted. Qed.
Print Assumptions C14_F1_pinned_refuted.
