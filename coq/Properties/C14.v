(** C14 — Effective pipelines follow stage-wise inheritance; malformed rules are
    rejected.  Property theorems only; proofs are in C14/Proofs.v.

    [create_rule true] is the rule factory of the tree as it is now (after the
    `fix:` commit for finding C14-F1); [create_rule false] is the factory of the
    pinned commit and is kept to document the finding. *)
From HV Require Import Base.Prelude C14.Model C14.Proofs.

(** every accepted `execute` list is authenticators, then authorizers /
    contextualizers, then finalizers, every step denoting a known mechanism with a
    valid override and condition, and the three stage lists are exactly these
    mechanisms in definition order; every other list is not accepted *)
Theorem C14_order_language : forall sts pa ph pf,
  exec_pipeline empty_pipes sts = Ok {| p_a := pa; p_h := ph; p_f := pf |} <->
  exists a m f, sts = a ++ m ++ f /\
    stage is_authn a pa /\ stage is_mid m ph /\ stage is_fin f pf.
Proof. exact order_language. Qed.
Print Assumptions C14_order_language.

(** stage by stage own-else-default; backtracking own, else default's, else off *)
Theorem C14_stagewise_inheritance : forall proxy def r eff,
  create_rule true proxy def r = Ok eff ->
  exists a h f e, own_stages r a h f e /\ eff = spec_effective def r a h f e.
Proof. intros proxy def r eff. apply stagewise_inheritance. reflexivity. Qed.
Print Assumptions C14_stagewise_inheritance.

(** the same for the pinned (unrepaired) factory, outside the guard of C14-F1 *)
Theorem C14_stagewise_inheritance_pinned : forall proxy def r eff,
  guard_F1 def r = false ->
  create_rule false proxy def r = Ok eff ->
  exists a h f e, own_stages r a h f e /\ eff = spec_effective def r a h f e.
Proof. intros proxy def r eff Hg. apply stagewise_inheritance. rewrite Hg. reflexivity. Qed.
Print Assumptions C14_stagewise_inheritance_pinned.

Theorem C14_F1_pinned_refuted :
  exists def r eff, guard_F1 def r = true /\ create_rule false false def r = Ok eff /\
    forall a h f e, own_stages r a h f e -> eff <> spec_effective def r a h f e.
Proof. exact F1_refuted. Qed.
Print Assumptions C14_F1_pinned_refuted.

(** a rule is accepted only if it is ordered, references only known mechanisms
    with valid overrides/conditions, ends up with an authenticator, and has
    forward_to in proxy mode *)
Theorem C14_accepted_only_if_wellformed : forall fixed proxy def r eff,
  create_rule fixed proxy def r = Ok eff ->
  (exists a m f pa ph pf, r_exec r = a ++ m ++ f /\
      stage is_authn a pa /\ stage is_mid m ph /\ stage is_fin f pf) /\
  (exists pe, Forall2 eh_denotes (r_eh r) pe) /\
  f_sc eff <> [] /\
  (proxy = true -> r_backend r = true).
Proof. exact accepted_only_if_wellformed. Qed.
Print Assumptions C14_accepted_only_if_wellformed.

(** and nothing else is rejected *)
Theorem C14_wellformed_accepted : forall fixed proxy def r a m f pa ph pf pe,
  r_exec r = a ++ m ++ f ->
  stage is_authn a pa -> stage is_mid m ph -> stage is_fin f pf ->
  Forall2 eh_denotes (r_eh r) pe ->
  (pa <> [] \/ exists d, def = Some d /\ f_sc d <> []) ->
  (proxy = true -> r_backend r = true) -> r_matchers_ok r = true ->
  exists eff, create_rule fixed proxy def r = Ok eff.
Proof. exact wellformed_accepted. Qed.
Print Assumptions C14_wellformed_accepted.

(** a rule set is loaded as a whole or not at all: it is accepted iff every one
    of its rules is, so one malformed rule rejects the set *)
Theorem C14_ruleset_all_or_nothing : forall fixed proxy def rs effs,
  load_rules fixed proxy def rs = Ok effs <->
  Forall2 (fun r e => create_rule fixed proxy def r = Ok e) rs effs.
Proof. exact ruleset_all_or_nothing. Qed.
Print Assumptions C14_ruleset_all_or_nothing.

Theorem C14_ruleset_one_bad_rejects : forall fixed proxy def rs1 r rs2,
  (forall e, create_rule fixed proxy def r <> Ok e) ->
  forall effs, load_rules fixed proxy def (rs1 ++ r :: rs2) <> Ok effs.
Proof. exact ruleset_one_bad_rejects. Qed.
Print Assumptions C14_ruleset_one_bad_rejects.

(** no definition — whatever sits under a mechanism key or under "config", "if" —
    makes the factory panic: every malformed rule (set) is rejected (since fix
    f8fe9cb; before it a non-string mechanism id or a non-map config panicked,
    finding C19-F3) *)
Theorem C14_loader_total : forall fixed proxy d r rs def,
  load fixed proxy d r <> FactoryPanic /\ load fixed proxy d r <> Loaded Panic /\
  load_rules fixed proxy def rs <> Panic.
Proof. exact loader_total. Qed.
Print Assumptions C14_loader_total.

(** non-vacuity: a partial default rule and a rule defining only a finalizer *)
Example C14_nonvacuous :
  let au := {| s_authn := Some {| k_id := Some 1; k_ok := true |}; s_authz := None; s_ctx := None;
               s_fin := None; s_if := CondNil; s_cfg := CfgNil |} in
  let fi := {| s_authn := None; s_authz := None; s_ctx := None;
               s_fin := Some {| k_id := Some 7; k_ok := true |}; s_if := CondOk; s_cfg := CfgMap |} in
  load true false (Some {| d_exec := [au]; d_eh := []; d_bt := true |})
       {| r_exec := [fi]; r_eh := []; r_bt := None; r_backend := false; r_matchers_ok := true |}
  = Loaded (Ok {| f_sc := [ {| m_kind := KAuthn; m_id := 1; m_cond := false |} ]; f_sh := [];
                  f_fi := [ {| m_kind := KFin; m_id := 7; m_cond := true |} ]; f_eh := []; f_bt := true |}).
Proof. vm_compute. reflexivity. Qed.
