(** C19 — no reloadable or remote input can crash the process.  Property
    theorems only; proofs are in C19/Proofs.v.

    The model is parametric in a record [f : fixes]: [all_fixes] is the tree as
    it is now (after the `fix:` commits for C19-F1 … F10, F12, F13, for C06-F6 5e2c60e and C18-F2 07a625c,
    docs/FIXES_APPLIED.md),
    [no_fixes] the pinned tree, kept to document the findings
    (`…_pinned_refuted`).  A Go panic is an explicit [Panic site] outcome; on
    the goroutines that run reloads and providers it is [ProcessExit] /
    [RsExit] / [FsExit]. *)
From HV Require Import Base.Prelude C19.Model C19.Proofs.

(** * Hot reload of a key store (jwt signer, TLS key store, http message signatures) *)

(** The tree as it is: for every component, every previous state and EVERY
    input (any list of PEM blocks with any parser answers, any chain
    verification answers, any configured key id, missing file) the process
    survives, and unless the load succeeded the previous state stays in
    effect.  No guard.  (Whether a PARTIAL file may load at all is the next
    two theorems.) *)
Theorem C19_reload_total : forall c st i, spec_reload_ok st (on_changed c all_fixes st i).
Proof. exact reload_total_now. Qed.
Print Assumptions C19_reload_total.

(** "empty, partial … key-store files (also when observed half-written) … result in a rejected
    reload": a file whose last block is cut leaves undecodable bytes behind its last complete
    block ([i_trailing]).  Outside the guard of C19-F10 such a file is not loaded; since 9709c71 it
    never is, and the state is kept. *)
Theorem C19_partial_rejected_guarded : forall c f st i,
  guard_F10 c f i = false -> spec_partial_rejected i (on_changed c f st i).
Proof. exact partial_rejected. Qed.
Print Assumptions C19_partial_rejected_guarded.

Theorem C19_partial_rejected_fixed : forall c f st i,
  fx10 f = true -> i_trailing i = true -> on_changed c f st i = Kept st.
Proof. exact partial_rejected_fixed. Qed.
Print Assumptions C19_partial_rejected_fixed.

Theorem C19_F10_pinned_refuted : exists c i st', i_trailing i = true /\ guard_F10 c no_fixes i = true /\
  on_changed c no_fixes st0 i = Reloaded st'.
Proof. exact F10_refuted. Qed.
Print Assumptions C19_F10_pinned_refuted.

(** "None of them … stops a background watcher": after ANY sequence of file contents the
    listener is alive; contents that do not load change nothing; and after any number of bad
    contents a good one is in effect (bad, bad, …, good). *)
Theorem C19_reload_run_alive : forall c st is, exists st', reload_run c all_fixes st is = Alive st'.
Proof. exact reload_run_alive_now. Qed.
Print Assumptions C19_reload_run_alive.

Theorem C19_reload_run_all_rejected : forall c f st is,
  Forall (fun i => load c f i = Err) is -> reload_run c f st is = Alive st.
Proof. exact reload_run_all_rejected. Qed.
Print Assumptions C19_reload_run_all_rejected.

Theorem C19_reload_run_last_good : forall c st bad i st',
  load c all_fixes i = Ok st' -> reload_run c all_fixes st (bad ++ [i]) = Alive st'.
Proof. exact reload_run_last_good_now. Qed.
Print Assumptions C19_reload_run_last_good.

(** the same for any tree that has at least the four key-store repairs *)
Theorem C19_reload_total_any_fixed : forall c f st i,
  fx1 f = true -> fx2 f = true -> fx5 f = true -> fx6 f = true ->
  spec_reload_ok st (on_changed c f st i).
Proof. exact reload_total_fixed. Qed.
Print Assumptions C19_reload_total_any_fixed.

(** For ANY set of repairs (in particular the pinned tree): outside the inputs
    of the findings the same holds … *)
Theorem C19_reload_total_guarded : forall c f st i,
  guard_F1 c f i = false -> guard_F2 c f i = false ->
  guard_F5 c f i = false -> guard_F6 c f i = false ->
  spec_reload_ok st (on_changed c f st i).
Proof. exact reload_total. Qed.
Print Assumptions C19_reload_total_guarded.

(** … and the guards are exact: the process exits on precisely these inputs, at the site of the finding *)
Theorem C19_reload_exit_iff_guards : forall c f st i s,
  on_changed c f st i = ProcessExit s <->
  (s = SEntries0 /\ guard_F1 c f i = true) \/
  (s = SKeySize /\ guard_F2 c f i = true) \/
  (s = SSigKeySize /\ guard_F5 c f i = true) \/
  (s = SChainLoop /\ guard_F6 c f i = true).
Proof. exact exit_iff_guards. Qed.
Print Assumptions C19_reload_exit_iff_guards.

(** the repaired chain building terminates for every pool of certificates *)
Theorem C19_find_chain_terminates : forall pool pub, find_chain true pool pub <> None.
Proof. exact find_chain_fixed. Qed.
Print Assumptions C19_find_chain_terminates.

(** what the model's fuel means for the PINNED chain building: with fuel
    [S (length pool)] it is exhausted exactly when the recursion of the Go code
    never returns ([walk]: the big-step relation of buildChain) *)
Theorem C19_pinned_exhaustion_is_divergence : forall pool leaf,
  In leaf pool ->
  (build_chain false (S (length pool)) pool [] leaf = None <-> ~ exists tr, walk pool [] leaf tr).
Proof. exact pinned_exhaustion_is_divergence. Qed.
Print Assumptions C19_pinned_exhaustion_is_divergence.

(** the root of C19-F1: createKeyStore returns an empty store without error
    exactly for files consisting of well-formed certificates only (the empty
    file, a file whose only block is cut off, …) — and never once repaired *)
Theorem C19_empty_store_iff : forall f ok bl,
  create_key_store f ok bl = Ok [] <-> (fx1 f = false /\ forallb is_cert_block bl = true).
Proof. exact empty_store_iff. Qed.
Print Assumptions C19_empty_store_iff.

(** createEntry accepts exactly the key sizes Entry.JWK() supports — the two
    tables are the same finite sets, for every size [z] (not ranges) — so every
    entry of a key store built by the repaired code has a JWK *)
Theorem C19_accepted_sizes_have_jwk : forall f ok bl es,
  fx2 f = true -> create_key_store f ok bl = Ok es ->
  forall e, In e es -> exists a, jose_alg e = Ok a.
Proof. exact accepted_sizes_have_jwk. Qed.
Print Assumptions C19_accepted_sizes_have_jwk.

Theorem C19_size_tables_agree : forall a z,
  size_ok a z = true <->
  exists alg, jose_alg {| e_kid := ""; e_alg := a; e_size := z; e_pub := 0; e_chain := [] |} = Ok alg.
Proof. exact size_tables_agree. Qed.
Print Assumptions C19_size_tables_agree.

Theorem C19_F1_pinned_refuted : exists c i, guard_F1 c no_fixes i = true /\ ~ spec_reload_ok st0 (on_changed c no_fixes st0 i).
Proof. exact F1_refuted. Qed.
Print Assumptions C19_F1_pinned_refuted.

Theorem C19_F2_pinned_refuted : exists c i, guard_F2 c no_fixes i = true /\ ~ spec_reload_ok st0 (on_changed c no_fixes st0 i).
Proof. exact F2_refuted. Qed.
Print Assumptions C19_F2_pinned_refuted.

Theorem C19_F5_pinned_refuted : exists i, guard_F5 HttpSig no_fixes i = true /\ ~ spec_reload_ok st0 (on_changed HttpSig no_fixes st0 i)
                                   /\ spec_reload_ok st0 (on_changed Signer no_fixes st0 i).
Proof. exact F5_refuted. Qed.
Print Assumptions C19_F5_pinned_refuted.

Theorem C19_F6_pinned_refuted : exists c i, guard_F6 c no_fixes i = true /\ ~ spec_reload_ok st0 (on_changed c no_fixes st0 i).
Proof. exact F6_refuted. Qed.
Print Assumptions C19_F6_pinned_refuted.

(** * Trust stores *)

Theorem C19_truststore_total : forall strict i s, trust_store all_fixes strict i <> Panic s.
Proof. exact trust_store_total_now. Qed.
Print Assumptions C19_truststore_total.

(** an empty or partial trust store is not accepted since 9709c71 (fx10); the tree before it (with b504821) accepted it
    silently (with the certificates decoded so far) *)
Theorem C19_truststore_partial_rejected_fixed : forall f strict i l,
  fx10 f = true -> (ts_blocks i = [] \/ ts_trailing i = true) -> trust_store f strict i <> Ok l.
Proof. exact trust_store_partial_rejected_fixed. Qed.
Print Assumptions C19_truststore_partial_rejected_fixed.

Theorem C19_F10_truststore_pinned_refuted : exists f i l, fx7 f = true /\ fx10 f = false /\ ts_blocks i = [] /\ trust_store f true i = Ok l.
Proof. exact F10_truststore_refuted. Qed.
Print Assumptions C19_F10_truststore_pinned_refuted.

(** for any set of repairs NewTrustStoreFromPEMBytes panics exactly on the inputs of C19-F7 *)
Theorem C19_truststore_panic_iff : forall f strict i s,
  trust_store f strict i = Panic s <-> (s = SNilBlock /\ guard_F7 f strict i = true).
Proof. exact trust_store_panic_iff. Qed.
Print Assumptions C19_truststore_panic_iff.

Theorem C19_F7_pinned_refuted : exists strict i, guard_F7 no_fixes strict i = true /\ exists s, trust_store no_fixes strict i = Panic s.
Proof. exact F7_refuted. Qed.
Print Assumptions C19_F7_pinned_refuted.

(** * Rule sets *)

(** The tree as it is, for every rule-set event whose decoding did not panic and
    whose collaborators taken as data (mechanism factory, matcher construction,
    Rule.Hash) did not panic ([ev_oracle_total]; a panic of the decoder is an exit —
    there is no recover around it): bytes rejected by the decoder or any decoded rule
    set (any number of rules, any steps, ANY value trees under any key), both modes,
    with or without default rule, every previous state: the provider goroutine survives
    and a rejected rule set leaves the loaded rules as they were.  No typing condition. *)
Theorem C19_ruleset_total : forall proxy def st e,
  ev_oracle_total all_fixes e = true -> spec_rs_ok st (process all_fixes proxy def st e).
Proof. exact ruleset_total_now. Qed.
Print Assumptions C19_ruleset_total.

(** a rule set in which a rule id occurs twice (the rules before the second occurrence can be created) is a
    clean rejection: no exit, the loaded rules stay *)
Theorem C19_duplicate_id_rejected : forall f proxy def st e rs1 r rs2,
  fxdup f = true -> ev_parse e = PParsed (rs1 ++ r :: rs2) ->
  String.eqb (ev_version e) "1alpha4" = true ->
  existsb (String.eqb (r_name r)) (map r_name rs1) = true ->
  (forall x, In x rs1 -> create_rule f proxy def x = Ok tt) ->
  process f proxy def st e = RsRejected st.
Proof. exact duplicate_id_rejected. Qed.
Print Assumptions C19_duplicate_id_rejected.

(** for any set of repairs: well-typed steps (or checked assertions) suffice *)
Theorem C19_ruleset_total_typed : forall f proxy def st e,
  (fx3 f = true \/ ev_typed e = true) -> ev_oracle_total f e = true ->
  spec_rs_ok st (process f proxy def st e).
Proof. exact ruleset_total. Qed.
Print Assumptions C19_ruleset_total_typed.

Theorem C19_F3_only_ill_typed : forall f proxy def e,
  guard_F3 f proxy def e = true -> fx3 f = false /\ ev_typed e = false.
Proof. exact guard_F3_only_ill_typed. Qed.
Print Assumptions C19_F3_only_ill_typed.

Theorem C19_F3_pinned_refuted : exists e, guard_F3 no_fixes false false e = true /\ ev_oracle_total no_fixes e = true /\
  ~ spec_rs_ok ["old"%string] (process no_fixes false false ["old"%string] e).
Proof. exact F3_refuted. Qed.
Print Assumptions C19_F3_pinned_refuted.

(** a panic of the rule-set decoder is an exit for EVERY variant of the code (no recover around it).  C19-F8's
    repair (checkKeys, b69f65b) changes the parser's answer, i.e. the DATA of a case, not a function of this model:
    no theorem tells the pinned tree from the current one there; the rules stream and its corpus do. *)
Theorem C19_decoder_panic_is_exit : forall f proxy def st e,
  ev_parse e = PPanics -> process f proxy def st e = RsExit SDecode.
Proof. exact decoder_panic_is_exit. Qed.
Print Assumptions C19_decoder_panic_is_exit.

(** the scopes-matcher decode hook (`assertions: {scopes: …}` of a rule-level authenticator config),
    for every value: it panics exactly on the inputs of C19-F9, and never once its assertions are checked *)
Theorem C19_decode_scopes_panic_iff : forall f v s,
  decode_scopes f v = Panic s <-> (s = SScopes /\ guard_F9 f v = true).
Proof. exact decode_scopes_panic_iff. Qed.
Print Assumptions C19_decode_scopes_panic_iff.

Theorem C19_decode_scopes_total_fixed : forall f v s, fx9 f = true -> decode_scopes f v <> Panic s.
Proof. exact decode_scopes_total_fixed. Qed.
Print Assumptions C19_decode_scopes_total_fixed.

Theorem C19_F9_pinned_refuted : exists v, guard_F9 no_fixes v = true /\ exists s, decode_scopes no_fixes v = Panic s.
Proof. exact F9_refuted. Qed.
Print Assumptions C19_F9_pinned_refuted.

(** * File-system provider: every fsnotify event, previous state, file situation and processor answer *)

Theorem C19_fs_total : forall st e, spec_fs_ok st (fs_changed all_fixes st e).
Proof. exact fs_total_now. Qed.
Print Assumptions C19_fs_total.

(** the watch loop survives any sequence of events, and a parsable content after any events is loaded *)
Theorem C19_fs_run_alive : forall st es, exists st', fs_run all_fixes st es = Alive st'.
Proof. exact fs_run_alive_now. Qed.
Print Assumptions C19_fs_run_alive.

Theorem C19_fs_run_all_rejected : forall st es, forallb fs_bad_event es = true -> fs_run all_fixes st es = Alive st.
Proof. exact fs_run_all_rejected_now. Qed.
Print Assumptions C19_fs_run_all_rejected.

Theorem C19_fs_run_last_good : forall st es e h,
  op_class all_fixes (fe_bits e) = FsWrite -> fe_read e = RdParsed h -> fe_stat_ok e = true -> fe_proc_ok e = true ->
  fs_run all_fixes st (es ++ [e]) = Alive (Some h).
Proof. exact fs_run_last_good_now. Qed.
Print Assumptions C19_fs_run_last_good.

(** "truncations at every offset … the previously loaded state stays in effect" FAILS at offset 0 for every loaded
    source (C19-F11, open; by design of the provider and required by C18's statement "emptied sources are unloaded"):
    on the tree as it is an event that finds the rule file empty drops the stored state exactly when the guard fires,
    i.e. whenever the source was loaded *)
Theorem C19_fs_empty_changes_state_iff : forall f st e,
  fx18 f = true -> fe_read e = RdEmpty ->
  (guard_F11 f st e = true <-> exists x, fs_changed f st e = FsDone x /\ (fe_proc_ok e = true -> fr_state x <> st)
                                          /\ fr_calls x = [PDeleted]).
Proof. exact fs_empty_changes_state_iff. Qed.
Print Assumptions C19_fs_empty_changes_state_iff.

Theorem C19_F11_refuted : exists e, guard_F11 all_fixes (Some 1) e = true /\ fe_read e = RdEmpty /\
  exists x, fs_changed all_fixes (Some 1) e = FsDone x /\ fr_state x <> Some 1.
Proof. exact F11_refuted. Qed.
Print Assumptions C19_F11_refuted.

Theorem C19_fs_total_guarded : forall f st e, guard_F4 f e = false -> spec_fs_ok st (fs_changed f st e).
Proof. exact fs_total. Qed.
Print Assumptions C19_fs_total_guarded.

Theorem C19_fs_exit_iff_guard : forall f st e s,
  fs_changed f st e = FsExit s <-> (s = SStatNil /\ guard_F4 f e = true).
Proof. exact fs_exit_iff. Qed.
Print Assumptions C19_fs_exit_iff_guard.

Theorem C19_F4_pinned_refuted : exists e, guard_F4 no_fixes e = true /\ ~ spec_fs_ok (Some 1) (fs_changed no_fixes (Some 1) e).
Proof. exact F4_refuted. Qed.
Print Assumptions C19_F4_pinned_refuted.

(** * Kubernetes provider: updateStatus, reached from every informer callback, for every status string
    (number of "/"-separated parts), every PatchStatus answer and any number of conflicts with re-reads *)

(** it panics exactly on the inputs of C19-F12 (no second part in status.activeIn) and C19-F13 (a
    PatchStatus error that is not a *StatusError), at the first try that is reached … *)
Theorem C19_update_status_panic_iff : forall f tries s,
  update_status f tries = Panic s <->
  (s = SActiveIn /\ guard_F12 f tries = true) \/ (s = SStatusErr /\ guard_F13 f tries = true).
Proof. exact update_status_panic_iff. Qed.
Print Assumptions C19_update_status_panic_iff.

(** … and never since 7bff27d / e0c0f15 (fx12, fx13) *)
Theorem C19_update_status_total_fixed : forall f tries s,
  fx12 f = true -> fx13 f = true -> update_status f tries <> Panic s.
Proof. exact update_status_total_fixed. Qed.
Print Assumptions C19_update_status_total_fixed.

Theorem C19_F12_pinned_refuted : exists tries, guard_F12 no_fixes tries = true /\ update_status no_fixes tries = Panic SActiveIn.
Proof. exact F12_refuted. Qed.
Print Assumptions C19_F12_pinned_refuted.

Theorem C19_F13_pinned_refuted : exists tries, guard_F13 no_fixes tries = true /\ update_status no_fixes tries = Panic SStatusErr.
Proof. exact F13_refuted. Qed.
Print Assumptions C19_F13_pinned_refuted.

(** * Request goroutines: a panic BEFORE anything was written (e.g. the composite extractor on an
    empty strategy list, which panics exactly then) is answered by the recovery middleware, never
    with a success status.  (A panic after the header was sent keeps that status: [PanickedAfter].
    That the middleware produces a response at all is an observation of the request stream, not
    a theorem: [recovery_mw] is a table.) *)
Theorem C19_request_panic_is_non_success : forall h k,
  h = Panicked k -> success (recovery_mw h) = false.
Proof. exact request_panic_non_success. Qed.
Print Assumptions C19_request_panic_is_non_success.

Theorem C19_composite_extract_panic_iff : forall l s,
  composite_extract l = Panic s <-> (l = [] /\ s = SExtractEmpty).
Proof. exact composite_extract_panic_iff. Qed.
Print Assumptions C19_composite_extract_panic_iff.

(** * non-vacuity: a two-key store with a certificate chain reloads; a rule set satisfying the hypothesis of [C19_ruleset_total] is applied *)
Example C19_reload_nonvacuous :
  let leaf := {| c_id := 5; c_pub := 1; c_subj := "leaf"; c_iss := "ca"; c_aki := "cafe"; c_ski := "" |} in
  let ca := {| c_id := 6; c_pub := 9; c_subj := "ca"; c_iss := "ca"; c_aki := ""; c_ski := "cafe" |} in
  let i := in_of "second" [BKey (Some (KSig ECDSA 256 1 "aa")) ""; BCert (Some leaf); BCert (Some ca);
                           BKey (Some (KSig RSA 3072 2 "bb")) "second"] in
  on_changed Signer all_fixes st0 i =
    Reloaded {| st_kid := "second"; st_alg := "PS384"; st_pub := Some 2;
                st_keys := [("aa", "ES256"); ("second", "PS384")]%string; st_chain := [] |} /\
  on_changed Tls all_fixes st0 (in_of "" [BKey (Some (KSig ECDSA 256 1 "aa")) ""; BCert (Some leaf); BCert (Some ca)]) =
    Reloaded {| st_kid := ""; st_alg := ""; st_pub := Some 1; st_keys := []; st_chain := [5; 6] |}.
Proof. exact reload_nonvacuous_now. Qed.
Print Assumptions C19_reload_nonvacuous.

Example C19_ruleset_nonvacuous :
  let e := ev_of [{| r_name := "r"; r_id := "r#1";
                     r_exec := [{| s_map := [("authenticator", YStr "anon"); ("config", YMap [("subject", YStr "x")])]%string;
                                   s_mech := MOk; s_cel := false |};
                                {| s_map := [("authorizer", YStr "cel"); ("if", YStr "true")]%string; s_mech := MOk; s_cel := true |}];
                     r_eh := [{| s_map := [("error_handler", YStr "default")]%string; s_mech := MOk; s_cel := false |}];
                     r_backend := false; r_rest := MOk |}] in
  ev_oracle_total all_fixes e = true /\ process all_fixes false false ["old"%string] e = RsApplied ["r#1"%string].
Proof. exact ruleset_nonvacuous_now. Qed.
Print Assumptions C19_ruleset_nonvacuous.
