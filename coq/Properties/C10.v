(** C10 — Nothing is reused from a cache beyond its validity.
    Property theorems only; definitions in C10/Model.v, vocabulary and proofs in
    C10/Proofs.v, C10/Sound.v, C10/SoundHist.v; the correspondence evaluator in
    Run/Eval_C10.v.  Unit: nanoseconds in [Z]; `exp`/NotAfter in whole seconds.

    [f : fixes] selects the code: [fx_none] = the originally pinned tree,
    [fx1/fx2/fx3 f = true] = with the fix: commits 637ae67 (C10-F1), c971513
    (C10-F2), e0dc5e2 (C10-F3), which /repo contains; [fx_all] = all three.  The
    main theorems are stated for the repaired code and carry no guard; what the
    pinned code did instead is kept as [C10_F<n>_pinned_refuted]. *)
From HV Require Import Base.Prelude Base.Time C10.Model C10.Proofs Run.Eval_C10 C10.Sound C10.SoundHist.
Open Scope Z_scope.

(** an introspection response / JWK / session / access token is stored only with
    a positive ttl, and the entry is gone strictly before the thing's own expiry
    (so also before expiry + any validity leeway), even if the cache applies the
    ttl up to [max_delay] = 4 s after it was computed.  For ALL expiry instants,
    clock readings and ttl states. *)
Theorem C10_ttl_within_lifetime : forall f m st e now d ttl,
  fx1 f = true ->
  expiry_mech m = true ->
  store f m st (Some e) now = Some ttl ->
  0 <= d <= max_delay ->
  0 < ttl /\ now + d + ttl < expiry_instant m e.
Proof. exact ttl_within_lifetime_fixed. Qed.
Print Assumptions C10_ttl_within_lifetime.

(** no mechanism ever hands a non-positive ttl to the cache (the in-memory cache
    would keep such an entry for ever) *)
Theorem C10_store_positive : forall f m st exp now ttl,
  store f m st exp now = Some ttl -> 0 < ttl.
Proof. exact store_positive. Qed.
Print Assumptions C10_store_positive.

(** a JWT issued by the jwt finalizer at [now] with lifetime [val st] carries
    [exp = (now + ttl).Unix()]; whenever the cached copy can still be served
    ([t <= set instant + cache ttl]) the token is not yet expired *)
Theorem C10_finalizer_token_not_expired : forall f st now d s t,
  store f MJwtFin st None now = Some s ->
  0 <= d <= max_delay ->
  t <= now + d + s ->
  t < secs (unix (now + val st)).
Proof. exact finalizer_token_not_expired. Qed.
Print Assumptions C10_finalizer_token_not_expired.

(** a ttl of zero in force for the rule (rule-level setting, else the
    mechanism's) disables both the lookup and the store *)
Theorem C10_zero_disables : forall f m conf rule,
  fx3 f = true ->
  m <> MJwtFin ->
  spec_cfg m conf rule = Some 0 ->
  let st := withconfig_ttl f m (create_ttl m conf) rule in
  lookup_enabled m st = false /\ forall exp now, store f m st exp now = None.
Proof. exact zero_disables_fixed. Qed.
Print Assumptions C10_zero_disables.

(** a configured ttl is an upper bound of what is handed to the cache (together
    with C10_ttl_within_lifetime: it can only shorten the lifetime) *)
Theorem C10_config_only_shortens : forall f m c exp now ttl,
  store f m (Some c) exp now = Some ttl -> ttl <= c.
Proof. exact config_only_shortens. Qed.
Print Assumptions C10_config_only_shortens.

(** a response whose RFC 7234 freshness lifetime (explicit, or the configured
    default) is zero or negative is not handed to the cache at all ... *)
Theorem C10_http_not_stored_when_nonpositive : forall f cachable expires dflt now1 now2 l,
  fx2 f = true ->
  now1 <= now2 ->
  http_lifetime expires dflt now2 = Some l -> l <= 0 ->
  http_store_decision f cachable expires dflt now1 now2 = None.
Proof. exact http_no_set_when_nonpositive_fixed. Qed.
Print Assumptions C10_http_not_stored_when_nonpositive.

(** ... and a stored response expires exactly at its freshness limit / within the default ttl *)
Theorem C10_http_ttl_within_lifetime : forall f cachable expires dflt now1 now2 ttl,
  now1 <= now2 ->
  http_store_decision f cachable expires dflt now1 now2 = Some ttl ->
  match expires with Some e => now2 + ttl = e | None => ttl <= dflt end.
Proof. exact http_ttl_within_lifetime. Qed.
Print Assumptions C10_http_ttl_within_lifetime.

(** all request sequences over time, both cache semantics: whatever is served
    from cache is served strictly before its own expiry *)
Theorem C10_no_hit_after_expiry : forall b f m st h now0,
  fx1 f = true ->
  expiry_mech m = true ->
  wf_hist max_delay h ->
  forall t v e,
    In (Hit t v) (run b (lookup_enabled m st) (mech_policy f m st) now0 [] h) ->
    r_exp v = Some e -> t < expiry_instant m e.
Proof. exact no_hit_after_expiry_mech_fixed. Qed.
Print Assumptions C10_no_hit_after_expiry.

(** the same for responses cached by the RFC 7234 round tripper ([D]: bound on
    the delay between [time.Until] and the cache's own clock reading) *)
Theorem C10_no_hit_after_expiry_http : forall b f dflt D h now0,
  fx2 f = true ->
  wf_hist D h ->
  forall t v e,
    In (Hit t v) (run b true (http_policy f dflt) now0 [] h) ->
    r_exp v = Some e -> t <= e + D.
Proof. exact no_hit_after_expiry_http_fixed. Qed.
Print Assumptions C10_no_hit_after_expiry_http.

(** ** what the originally pinned code did instead (fixed by 637ae67, c971513, e0dc5e2) *)

(** C10-F1: expiry inside the leeway + configured (or default) ttl => cached for the full ttl *)
Theorem C10_F1_pinned_refuted : forall m, ptr_mech m = true ->
  exists st e now ttl,
    guard_F1 fx_none m st (Some e) now = true /\
    store fx_none m st (Some e) now = Some ttl /\
    ~ (now + ttl < expiry_instant m e + secs 10).
Proof. exact F1_refuted. Qed.
Print Assumptions C10_F1_pinned_refuted.

Theorem C10_F1_history_pinned_refuted :
  exists h t v e, wf_hist max_delay h /\
    In (Hit t v) (run Mem (lookup_enabled MIntro s300) (mech_policy fx_none MIntro s300) (secs 1000) [] h) /\
    r_exp v = Some e /\ ~ (t < expiry_instant MIntro e + secs 10).
Proof. exact F1_history_refuted. Qed.
Print Assumptions C10_F1_history_pinned_refuted.

(** C10-F2: `max-age=0` stored in the in-memory cache without expiry, served an hour later *)
Theorem C10_F2_pinned_refuted :
  exists now l, http_lifetime (Some now) 0 now = Some l /\ l <= 0 /\
    guard_F2 fx_none Mem (Some now) 0 now = true /\
    exists ttl, http_store_decision fx_none true (Some now) 0 now now = Some ttl /\
      cget Mem (now + secs 3600) 1 (cset Mem now 1 {| r_id := 7; r_exp := Some now |} ttl []) <> None.
Proof. exact F2_refuted. Qed.
Print Assumptions C10_F2_pinned_refuted.

(** C10-F3: remote authorizer, prototype 30 s, rule-level `cache_ttl: 0s`: still cached *)
Theorem C10_F3_pinned_refuted :
  exists conf rule, spec_cfg MRemote conf rule = Some 0 /\ guard_F3 fx_none MRemote conf rule = true /\
    lookup_enabled MRemote (withconfig_ttl fx_none MRemote (create_ttl MRemote conf) rule) = true.
Proof. exact F3_refuted. Qed.
Print Assumptions C10_F3_pinned_refuted.

(** non-vacuity: ordinary inputs satisfy the hypotheses of the main theorems, and
    the former witnesses of C10-F1/F2/F3 are not cached by the repaired code *)
Theorem C10_nonvacuous :
  store fx_all MIntro s300 (Some 1005) (secs 1000) = None /\
  store fx_all MJwtKey None (Some 1005) (secs 1000) = None /\
  store fx_all MClientCred s300 (Some (secs 1003)) (secs 1000) = None /\
  store fx_all MIntro s300 (Some 1100) (secs 1000) = Some (secs 90) /\
  store fx_all MJwtKey None (Some 2000) (secs 1000) = Some (secs 600) /\
  store fx_all MClientCred None (Some (secs 1100)) (secs 1000) = Some (secs 95) /\
  http_store_decision fx_all true (Some (secs 1000)) 0 (secs 1000) (secs 1000) = None /\
  lookup_enabled MRemote (withconfig_ttl fx_all MRemote (create_ttl MRemote (Some (secs 30))) (Some 0)) = false.
Proof. exact fixed_witnesses. Qed.
Print Assumptions C10_nonvacuous.

(** ** the correspondence evaluator is sound w.r.t. these theorems

    [Run.Eval_C10.check f c] computes, for a recorded case [c] (input + the
    implementation's observation): [v_corr] (the model answers like the
    implementation), [v_prop] (the property predicate, written from the property
    text, on the observation) and the finding guards.  For EVERY well-formed case
    of all five kinds -- all inputs, all observations -- correspondence without a
    firing guard implies the property predicate; for the repaired code no guard
    can fire, so there correspondence alone implies it.  Hence every property
    failure the check reports is a disagreement between implementation and model.
    [wf_case] (C10/SoundHist.v) is what the driver guarantees: measured bracket
    at most [max_delay] wide; no expiry information for mechanisms without one;
    for histories non-decreasing instants, unique payload ids and every model ttl
    above the measurement slack. *)
Theorem C10_check_sound : forall f c,
  wf_case f c ->
  v_corr (check f c) = true -> v_guards (check f c) = [] -> v_prop (check f c) = true.
Proof. exact check_sound. Qed.
Print Assumptions C10_check_sound.

Theorem C10_check_sound_fixed : forall c,
  wf_case fx_all c -> v_corr (check fx_all c) = true -> v_prop (check fx_all c) = true.
Proof. exact check_sound_fixed. Qed.
Print Assumptions C10_check_sound_fixed.

(** expiry enforcement of both cache semantics, for all operation sequences:
    whatever a Get returns was put there by the last successful Set of that key
    and, if that Set carried a positive ttl, not longer ago than the ttl *)
Theorem C10_cache_expiry_enforced : forall f b ops,
  let v := check f (CCache b ops) in
  v_corr v = true -> v_guards v = [] -> v_prop v = true.
Proof. exact check_sound_cache. Qed.
Print Assumptions C10_cache_expiry_enforced.
